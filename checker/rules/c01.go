package rules

import (
	"fmt"
	"go/constant"
	"go/token"
	"go/types"
	"sort"
	"strings"

	"golang.org/x/tools/go/ssa"

	"manticheck/internal/flow"
	"manticheck/internal/lanes"
	"manticheck/internal/lin"
	"manticheck/internal/prove"
)

// C01 — password-hash primitives (DESIGN.md §4 C01; Appendix A rows C01.a–d).

func init() { register(&Check{ID: "C01", NeedSSA: true, Run: runC01}) }

const (
	c01R1 = "R1-pure-read"
	c01R2 = "R2-composition"
	c01R3 = "R3-utf16-lanes"
	c01R4 = "R4-des-key-spread"

	c01Magic      = "KGS!@#$%" // MS-NLMP 3.3.1 / LM hash: the constant both DES keys encrypt
	c01DCC2Format = "$DCC2$%d#%s#%s"
	c01DCCFormat  = "%s:%s"
)

type c01 struct {
	*cry
	// labels
	lEnc, lDec, lNew, lWrite, lSum, lNT, lLM         string
	lUpper, lLower, lTrim, lHex, lRepeat             string
	fNew, fWrite, fSum, fHexSum, fPkgSum, fEnc, fDec *ssa.Function
	fNTHash, fNTHashHex, fLMHash, fLMHex             *ssa.Function
	dist                                             flow.Distributive
	w                                                *prove.World
}

func runC01(c *Ctx) {
	r := c.R
	r.Explanation = "C01 password-hash primitives, decided statically on go/ssa; no Manticore code is executed and no digest is computed. " +
		"R1-pure-read (parameter-rooted write summaries, transitive over in-module callees): (*MD4).Sum and (*MD4).HexSum store to none of the receiver's fields state/count/buffer — a necessary condition of 'reading the digest does not change what later reads or writes produce'. " +
		"R2-composition (E5 provenance: every def-use path, labels = calls passed): md4.Sum(data) hashes exactly data; nt.NTHash hashes exactly EncodeUTF16LE(password) with no other transformation of the password (ToUpper/ToLower/TrimSpace/slicing fire) and returns that hash object's Sum; dcc.DCCHashFromNTHash and dcc2.DCC2HashWithNTHash hash exactly ntHash ‖ EncodeUTF16LE(ToLower(username)) in that order; dcc2 calls pbkdf2.Key(password = that MD4 digest, salt = EncodeUTF16LE(ToLower(username)) (the same value or an identical composition), iter = the rounds parameter, keyLen = 16, h = sha1.New) and formats \"$DCC2$%d#%s#%s\" from (rounds, username, hex(key)); lm.LMHash: both DES keys derive from the password only through strings.ToUpper, the two halves are windows [0:7] and [7:14] of ONE string whose length is proved to be 14 on every path (E1 prover over the truncate/pad branches), each cipher encrypts the constant \"KGS!@#$%\" into its own fresh 8-byte buffer and the result is buffer(first half) ‖ buffer(second half); the hex / hashcat wrappers are hex.EncodeToString (optionally ToLower) of the raw function applied to the same parameters in the same roles, the DCC hashcat line is \"%s:%s\" of (hex digest, ToLower(username)). " +
		"R3-utf16-lanes (exact bit lanes of the loop bodies): EncodeUTF16LE writes bits 0–7 of code unit i to byte 2i and bits 8–15 to byte 2i+1 for every i of unicode/utf16.Encode([]rune(s)), into a buffer of 2·len units; DecodeUTF16LE reads unit j from bytes 2j (low) and 2j+1 (high) and returns string(unicode/utf16.Decode(units)) — the two lane maps are mutually inverse on whole units. " +
		"R4-des-key-spread (exact bit lanes): in lm.LMHash the 56 bits of each 7-byte half land, in order, in bits 7..1 of the 8 DES key bytes (bit 0 of each key byte is the parity position DES ignores and is unconstrained). " +
		"NOT decided: equality of any output with RFC 1320 / MS-NLMP / MS-Cache reference values; the MD4 round arithmetic, constants, rotation amounts and padding arithmetic; invariance of the streaming MD4 under splitting the message across Write calls and the buffering arithmetic around offsets 55/56/64; DES, SHA-1, HMAC and PBKDF2 numerics (standard library / x/crypto, trusted); surrogate handling inside unicode/utf16; behaviour of LMHash for passwords that are not 7-bit ASCII (ToUpper may change the byte length before truncation); PBKDF2 behaviour for rounds < 1; whether hashcat lower-cases the DCC2 user name."
	r.Assumptions = []string{
		cryTrusted,
		"type-based aliasing: distinct struct fields do not alias; a slice header and its backing array are treated as one cell; no unsafe aliasing of the MD4 struct (true of this repo)",
		"stdlib contracts used as labels/edges: hash.Hash.Write absorbs its argument and nothing else; cipher.Block.Encrypt(dst, src) writes dst from src under the key given to des.NewCipher; encoding/binary PutUintN writes only its destination; hex.EncodeToString, strings.ToUpper/ToLower, unicode/utf16.Encode/Decode and pbkdf2.Key are pure functions of their arguments; fmt.Sprintf renders its variadic arguments in order",
		"the E1 prover of internal/prove (dominating branch conditions, len facts for string slicing / concatenation / strings.Repeat, φ-join, Fourier–Motzkin) is sound",
		"SPEC constants: LM magic \"KGS!@#$%\" (MS-NLMP 3.3.1), DCC2 PBKDF2 keyLen 16 and HMAC-SHA1 (MS-Cache v2), hashcat formats \"$DCC2$%d#%s#%s\" (mode 2100) and \"hash:user\" (mode 1100)",
	}
	x := &c01{cry: newCry(c)}
	x.w = prove.NewWorld(c.P)

	// ---- anchors -------------------------------------------------------
	x.fNew = x.mod(cryMD4, "", "New")
	x.fWrite = x.mod(cryMD4, "MD4", "Write")
	x.fSum = x.mod(cryMD4, "MD4", "Sum")
	x.fHexSum = x.mod(cryMD4, "MD4", "HexSum")
	x.fPkgSum = x.mod(cryMD4, "", "Sum")
	x.fEnc = x.mod(cryUTF16, "", "EncodeUTF16LE")
	x.fDec = x.mod(cryUTF16, "", "DecodeUTF16LE")
	x.fNTHash = x.mod(cryNT, "", "NTHash")
	x.fNTHashHex = x.mod(cryNT, "", "NTHashHex")
	x.fLMHash = x.mod(cryLM, "", "LMHash")
	x.fLMHex = x.mod(cryLM, "", "LMHashToHex")
	x.lNew, x.lWrite, x.lSum = x.label(x.fNew), x.label(x.fWrite), x.label(x.fSum)
	x.label(x.fHexSum)
	x.lEnc, x.lDec = x.label(x.fEnc), x.label(x.fDec)
	x.lNT, x.lLM = x.label(x.fNTHash), x.label(x.fLMHash)
	x.lUpper = x.extLabel("strings", "ToUpper")
	x.lLower = x.extLabel("strings", "ToLower")
	x.lTrim = x.extLabel("strings", "TrimSpace")
	x.lRepeat = x.extLabel("strings", "Repeat")
	x.lHex = x.extLabel("encoding/hex", "EncodeToString")
	x.dist = func(l string) bool { return l == x.lEnc || l == x.lUpper || l == x.lLower || l == x.lHex }

	x.guard(c01R1, "R1 analysis", "", x.r1)
	x.guard(c01R2, "R2 analysis", "", x.r2)
	x.guard(c01R3, "R3 analysis", "", x.r3)
	x.r4()
	x.finish()

	r.Floor(c01R1, 6)
	r.Floor(c01R2, 45)
	r.Floor(c01R3, 9)
	r.Floor(c01R4, 16)
}

// ---- R1 ----------------------------------------------------------------------

func (x *c01) r1() {
	var fields []string
	if pk := x.P.Pkg(cryMD4); pk != nil {
		if tn, ok := pk.Types.Scope().Lookup("MD4").(*types.TypeName); ok {
			if st, ok := tn.Type().Underlying().(*types.Struct); ok {
				for i := 0; i < st.NumFields(); i++ {
					fields = append(fields, st.Field(i).Name())
				}
			}
		}
	}
	if len(fields) == 0 {
		x.R.Undecided("anchor", cryMD4+".MD4", "", "struct type does not resolve")
		return
	}
	x.R.Extra["md4_state_fields"] = fields
	for _, fn := range []*ssa.Function{x.fSum, x.fHexSum} {
		if fn == nil {
			continue
		}
		ws := x.e.Writes(fn)
		for _, f := range fields {
			construct := fmt.Sprintf("%s: stores to MD4.%s", x.P.FuncName(fn), f)
			var hit *flow.Write
			for i := range ws {
				if ws[i].Param == 0 && (ws[i].Field() == f || ws[i].Path == "") {
					hit = &ws[i]
					if !ws[i].Uncertain {
						break
					}
				}
			}
			switch {
			case hit == nil:
				x.R.OK(c01R1, construct, x.pos(fn.Pos()), "no store to this field of the receiver, directly or through a callee")
			case hit.Uncertain:
				x.R.Undecided(c01R1, construct, x.pos(hit.Pos), "the receiver's memory is "+hit.How+", which may write it")
			default:
				x.R.Fail(c01R1, construct, x.pos(hit.Pos), "a digest read must not change the running hash, but the receiver's "+f+" is written: "+hit.How+
					" — Sum pads the live state, so a second Sum() (or a Write after Sum) sees a different hash state")
			}
		}
	}
}

// ---- R2 ----------------------------------------------------------------------

type segWant struct {
	what  string
	needs []need
	other others
}

// hashIs checks that value v (in fn) is the Sum of an md4.New() object that
// absorbed exactly the wanted segments in order.
func (x *c01) hashIs(fn *ssa.Function, v ssa.Value, construct string, want []segWant) (*flow.HashDesc, bool) {
	pos := fn.Pos()
	d, why := x.e.DeepHash(v, x.dist)
	if d == nil {
		x.R.Undecided(c01R2, construct, x.pos(pos), "cannot resolve the value to one MD4 computation: "+why)
		return nil, false
	}
	if d.Ctor != x.fNew {
		x.R.Fail(c01R2, construct, x.pos(pos), "the hash object is created by "+x.e.Name(d.Ctor)+", not by md4.New")
		return d, false
	}
	if len(d.Input) != len(want) {
		var got []string
		for _, s := range d.Input {
			got = append(got, flow.Expr(s.V))
		}
		x.R.Fail(c01R2, construct, x.pos(pos), fmt.Sprintf("the hash absorbs %d segment(s) [%s], the composition has %d", len(d.Input), strings.Join(got, " ‖ "), len(want)))
		return d, false
	}
	ok := true
	for i, wnt := range want {
		set := x.e.SegProv(fn, d.Input[i])
		bad, und := judge(set, wnt.needs, wnt.other)
		if bad != "" {
			bad = fmt.Sprintf("hashed segment %d (%s, expected %s): %s", i+1, flow.Expr(d.Input[i].V), wnt.what, bad)
		}
		if !x.verdict(c01R2, fmt.Sprintf("%s [segment %d = %s]", construct, i+1, wnt.what), pos, bad, und,
			"every def-use path into this segment satisfies the composition: "+trim(set.String(), 200)) {
			ok = false
		}
	}
	return d, ok
}

func (x *c01) r2() {
	// md4.Sum(data) = New → Write(data) → Sum
	if fn := x.fPkgSum; fn != nil {
		for _, ret := range cryptoSuccessReturns(fn) {
			x.hashIs(fn, ret.Results[0], x.P.FuncName(fn)+": return = MD4(data)", []segWant{
				{what: "data", needs: []need{{what: "data", src: isParam(0)}}},
			})
		}
	}
	// nt.NTHash
	if fn := x.fNTHash; fn != nil {
		for _, ret := range cryptoSuccessReturns(fn) {
			x.hashIs(fn, ret.Results[0], x.P.FuncName(fn)+": return = MD4(UTF16LE(password))", []segWant{
				{what: "EncodeUTF16LE(password)", needs: []need{{what: "password", src: isParam(0), must: []string{x.lEnc}}}},
			})
		}
	}
	x.wrapper(x.fNTHashHex, x.fNTHash, []argWant{{param: 0, what: "password"}}, true)
	x.wrapper(x.fLMHex, x.fLMHash, []argWant{{param: 0, what: "password"}}, true)
	x.r2dcc()
	x.r2dcc2()
	x.r2lm()
}

type argWant struct {
	param int // parameter of the wrapper that must arrive here
	what  string
	via   []string // labels it must pass (e.g. nt.NTHash)
}

// wrapper: result = [ToLower](hex(raw(args))) (hexed) or raw(args) itself.
func (x *c01) wrapper(fn, raw *ssa.Function, args []argWant, hexed bool) {
	if fn == nil || raw == nil {
		return
	}
	name := x.P.FuncName(fn)
	calls := callsTo(fn, raw)
	construct := fmt.Sprintf("%s: derives from %s", name, short(x.e.Name(raw)))
	if len(calls) != 1 {
		x.R.Fail(c01R2, construct, x.pos(fn.Pos()), fmt.Sprintf("the wrapper calls %s %d times, expected exactly once", x.e.Name(raw), len(calls)))
		return
	}
	call := calls[0]
	for i, a := range args {
		ac := fmt.Sprintf("%s [argument %d = %s]", construct, i+1, a.what)
		if i >= len(call.Call.Args) {
			x.R.Undecided(c01R2, ac, x.pos(call.Pos()), "the raw function has fewer arguments than the rule table")
			continue
		}
		set := x.e.Prov(fn, call.Call.Args[i])
		bad, und := judge(set, []need{{what: "parameter " + fn.Params[a.param].Name(), src: isParam(a.param), must: a.via}}, nil)
		x.verdict(c01R2, ac, call.Pos(), bad, und, "argument is "+trim(set.String(), 160))
	}
	// result
	rawLabel := x.e.Name(raw)
	for _, ret := range cryptoSuccessReturns(fn) {
		set := x.e.Prov(fn, ret.Results[0])
		var needs []need
		for _, a := range args {
			n := need{what: "parameter " + fn.Params[a.param].Name(), src: isParam(a.param), must: append([]string{rawLabel}, a.via...)}
			if hexed {
				n.must = append(n.must, x.lHex)
				n.allow = []string{x.lLower}
			}
			needs = append(needs, n)
		}
		bad, und := judge(set, needs, nil)
		x.verdict(c01R2, construct+" [result]", ret.Pos(), bad, und, "result is "+trim(set.String(), 200))
	}
}

func (x *c01) userSeg() segWant {
	return segWant{what: "EncodeUTF16LE(ToLower(username))"}
}

func (x *c01) r2dcc() {
	fFromNT := x.mod(cryDCC, "", "DCCHashFromNTHash")
	fFromPw := x.mod(cryDCC, "", "DCCHashFromPassword")
	fPwHex := x.mod(cryDCC, "", "DCCHashFromPasswordToHex")
	fNTHex := x.mod(cryDCC, "", "DCCHashFromNTHashToHex")
	fPwCat := x.mod(cryDCC, "", "DCCHashFromPasswordToHashcatString")
	fNTCat := x.mod(cryDCC, "", "DCCHashFromNTHashToHashcatString")
	for _, f := range []*ssa.Function{fFromNT, fFromPw, fPwHex, fNTHex} {
		x.label(f)
	}
	if fn := fFromNT; fn != nil {
		for _, ret := range cryptoSuccessReturns(fn) {
			x.hashIs(fn, ret.Results[0], x.P.FuncName(fn)+": return = MD4(ntHash ‖ UTF16LE(lower(username)))", []segWant{
				{what: "ntHash", needs: []need{{what: "ntHash", src: isParam(0)}}},
				{what: "EncodeUTF16LE(ToLower(username))", needs: []need{{what: "username", src: isParam(1), must: []string{x.lLower, x.lEnc}}}},
			})
		}
	}
	// DCCHashFromPassword(password, username) = DCCHashFromNTHash(NTHash(password), username)
	x.wrapper(fFromPw, fFromNT, []argWant{{param: 0, what: "NTHash(password)", via: []string{x.lNT}}, {param: 1, what: "username"}}, false)
	x.wrapper(fPwHex, fFromPw, []argWant{{param: 0, what: "password"}, {param: 1, what: "username"}}, true)
	x.wrapper(fNTHex, fFromNT, []argWant{{param: 0, what: "ntHash"}, {param: 1, what: "username"}}, true)
	// hashcat lines: Sprintf("%s:%s", hex, ToLower(username))
	for _, pair := range [][2]*ssa.Function{{fPwCat, fPwHex}, {fNTCat, fNTHex}} {
		fn, hexFn := pair[0], pair[1]
		if fn == nil || hexFn == nil {
			continue
		}
		name := x.P.FuncName(fn)
		args, call := x.sprintf(fn, c01R2, name, c01DCCFormat)
		if args == nil {
			continue
		}
		hl := x.e.Name(hexFn)
		set0 := x.e.Prov(fn, args[0])
		bad, und := judge(set0, []need{
			{what: "parameter " + fn.Params[0].Name(), src: isParam(0), must: []string{hl}},
			{what: "parameter username", src: isParam(1), must: []string{hl}},
		}, nil)
		x.verdict(c01R2, name+": Sprintf #1 = hex digest of the same arguments", call.Pos(), bad, und, trim(set0.String(), 160))
		set1 := x.e.Prov(fn, args[1])
		bad, und = judge(set1, []need{{what: "username", src: isParam(1), must: []string{x.lLower}}}, nil)
		x.verdict(c01R2, name+": Sprintf #2 = ToLower(username)", call.Pos(), bad, und, trim(set1.String(), 160))
	}
}

// sprintf finds the single fmt.Sprintf whose result the function returns and
// decodes its arguments; the format must be the spec constant.
func (x *cry) sprintf(fn *ssa.Function, rule, name, format string) ([]ssa.Value, *ssa.Call) {
	spf := x.ext("fmt", "Sprintf")
	calls := callsTo(fn, spf)
	construct := name + ": format"
	if len(calls) != 1 {
		x.R.Undecided(rule, construct, x.pos(fn.Pos()), fmt.Sprintf("%d fmt.Sprintf calls, expected exactly one", len(calls)))
		return nil, nil
	}
	call := calls[0]
	k, ok := call.Call.Args[0].(*ssa.Const)
	if !ok || k.Value == nil || k.Value.Kind() != constant.String {
		x.R.Undecided(rule, construct, x.pos(call.Pos()), "format is not a constant")
		return nil, nil
	}
	if got := constant.StringVal(k.Value); got != format {
		x.R.Fail(rule, construct, x.pos(call.Pos()), fmt.Sprintf("format is %q, the line format is %q", got, format))
		return nil, nil
	}
	args, ok := flow.VarArgs(call.Call.Args[1])
	if !ok || len(args) != strings.Count(format, "%") {
		x.R.Undecided(rule, construct, x.pos(call.Pos()), "cannot decode the variadic arguments")
		return nil, nil
	}
	// the function returns this very string
	for _, ret := range cryptoSuccessReturns(fn) {
		if flow.Strip(ret.Results[0]) != ssa.Value(call) {
			x.R.Fail(rule, construct, x.pos(ret.Pos()), "the function returns "+flow.Expr(ret.Results[0])+", not the formatted line")
			return nil, nil
		}
	}
	x.R.OK(rule, construct, x.pos(call.Pos()), fmt.Sprintf("format %q, %d arguments, returned as is", format, len(args)))
	return args, call
}

func (x *c01) r2dcc2() {
	fWithNT := x.mod(cryDCC2, "", "DCC2HashWithNTHash")
	fWithPw := x.mod(cryDCC2, "", "DCC2HashWithPassword")
	fHash := x.mod(cryDCC2, "", "DCC2Hash")
	x.label(fWithNT)
	x.label(fWithPw)
	pb := x.ext("golang.org/x/crypto/pbkdf2", "Key")
	sha := x.ext("crypto/sha1", "New")
	if fn := fWithNT; fn != nil && pb != nil {
		name := x.P.FuncName(fn)
		calls := callsTo(fn, pb)
		if len(calls) != 1 {
			x.R.Fail(c01R2, name+": pbkdf2.Key", x.pos(fn.Pos()), fmt.Sprintf("%d calls to pbkdf2.Key, expected exactly one", len(calls)))
		} else {
			call := calls[0]
			a := call.Call.Args
			// #0 password = MD4(ntHash ‖ UTF16LE(lower(user)))
			d, _ := x.hashIs(fn, a[0], name+": pbkdf2.Key #0 = MD4(ntHash ‖ UTF16LE(lower(username)))", []segWant{
				{what: "ntHash", needs: []need{{what: "ntHash", src: isParam(1)}}},
				{what: "EncodeUTF16LE(ToLower(username))", needs: []need{{what: "username", src: isParam(0), must: []string{x.lLower, x.lEnc}}}},
			})
			// #1 salt
			set := x.e.Prov(fn, a[1])
			bad, und := judge(set, []need{{what: "username", src: isParam(0), must: []string{x.lLower, x.lEnc}}}, nil)
			okMsg := "salt is " + trim(set.String(), 160)
			if bad == "" && und == "" && d != nil && len(d.Input) == 2 {
				if flow.Strip(d.Input[1].V) == flow.Strip(a[1]) && len(d.Input[1].Wrap) == 0 {
					okMsg += "; the very value hashed after the NT hash"
				} else {
					okMsg += "; an identical composition of the same parameter as the value hashed after the NT hash"
				}
			}
			x.verdict(c01R2, name+": pbkdf2.Key #1 salt = UTF16LE(lower(username))", call.Pos(), bad, und, okMsg)
			// #2 iter
			if p, ok := flow.Strip(a[2]).(*ssa.Parameter); ok && paramIndex(fn, p) == 2 {
				x.R.OK(c01R2, name+": pbkdf2.Key #2 iter = rounds", x.pos(call.Pos()), "the rounds parameter itself")
			} else {
				x.R.Fail(c01R2, name+": pbkdf2.Key #2 iter = rounds", x.pos(call.Pos()), "iteration count is "+flow.Expr(a[2])+", not the rounds parameter")
			}
			// #3 keyLen
			if k, ok := constI(a[3]); ok && k == 16 {
				x.R.OK(c01R2, name+": pbkdf2.Key #3 keyLen = 16", x.pos(call.Pos()), "constant 16")
			} else {
				x.R.Fail(c01R2, name+": pbkdf2.Key #3 keyLen = 16", x.pos(call.Pos()), "key length is "+flow.Expr(a[3])+", MS-Cache v2 uses 16")
			}
			// #4 hash
			if f, ok := flow.Strip(a[4]).(*ssa.Function); ok && f == sha {
				x.R.OK(c01R2, name+": pbkdf2.Key #4 h = sha1.New", x.pos(call.Pos()), "crypto/sha1.New")
			} else {
				x.R.Fail(c01R2, name+": pbkdf2.Key #4 h = sha1.New", x.pos(call.Pos()), "PRF hash is "+flow.Expr(a[4])+", MS-Cache v2 uses HMAC-SHA1")
			}
			// the line
			if args, spc := x.sprintf(fn, c01R2, name, c01DCC2Format); args != nil {
				if p, ok := flow.Strip(args[0]).(*ssa.Parameter); ok && paramIndex(fn, p) == 2 {
					x.R.OK(c01R2, name+": Sprintf #1 = rounds", x.pos(spc.Pos()), "the rounds parameter")
				} else {
					x.R.Fail(c01R2, name+": Sprintf #1 = rounds", x.pos(spc.Pos()), "first field is "+flow.Expr(args[0]))
				}
				set1 := x.e.Prov(fn, args[1])
				bad, und := judge(set1, []need{{what: "username", src: isParam(0), allow: []string{x.lLower}}}, nil)
				x.verdict(c01R2, name+": Sprintf #2 = username", spc.Pos(), bad, und, trim(set1.String(), 120))
				// #3 = hex(the pbkdf2 result)
				if hc, _, ok := tupleResult(args[2], x.ext("encoding/hex", "EncodeToString")); ok && flow.Strip(hc.Call.Args[0]) == ssa.Value(call) {
					x.R.OK(c01R2, name+": Sprintf #3 = hex(pbkdf2 key)", x.pos(spc.Pos()), "hex.EncodeToString of the pbkdf2.Key result")
				} else {
					x.R.Fail(c01R2, name+": Sprintf #3 = hex(pbkdf2 key)", x.pos(spc.Pos()), "third field is "+flow.Expr(args[2])+", not hex.EncodeToString of the derived key")
				}
			}
		}
	}
	// DCC2HashWithPassword(username, password, rounds) = DCC2HashWithNTHash(username, NTHash(password), rounds)
	x.wrapper(fWithPw, fWithNT, []argWant{{param: 0, what: "username"}, {param: 1, what: "NTHash(password)", via: []string{x.lNT}}, {param: 2, what: "rounds"}}, false)
	x.wrapper(fHash, fWithPw, []argWant{{param: 0, what: "username"}, {param: 1, what: "password"}, {param: 2, what: "rounds"}}, false)
}

func constI(v ssa.Value) (int64, bool) {
	k, ok := v.(*ssa.Const)
	if !ok || k.Value == nil || k.Value.Kind() != constant.Int {
		return 0, false
	}
	return constant.Int64Val(k.Value)
}

// ---- LM ------------------------------------------------------------------------

type lmChain struct {
	cfn    *ssa.Function // function the chain's instructions live in (LMHash or a one-level helper)
	site   *ssa.Call     // call of the helper in LMHash (nil: inline)
	newc   *ssa.Call     // des.NewCipher
	enc    *ssa.Call     // Encrypt
	key    ssa.Value     // key buffer
	dst    ssa.Value
	out    ssa.Value // the ciphertext as a value of LMHash
	half   ssa.Value // the []byte(…) the key bytes are spread from (a value of LMHash)
	str    ssa.Value // the string the half is a window of
	lo, hi int       // window; hi == -1: open
	at     ssa.Instruction
}

func (c *lmChain) pos() token.Pos {
	if c.site != nil {
		return c.site.Pos()
	}
	return c.newc.Pos()
}

// cipherKey resolves a cipher.Block value to the call that made it and the key
// it was given: des.NewCipher(key) directly, or a one-level in-module helper
// that returns des.NewCipher(its parameter).
func (x *c01) cipherKey(v ssa.Value) (*ssa.Call, ssa.Value, bool) {
	desNew := x.ext("crypto/des", "NewCipher")
	if c, i, ok := tupleResult(v, desNew); ok && i == 0 {
		return c, c.Call.Args[0], true
	}
	s := flow.Strip(v)
	if ex, ok := s.(*ssa.Extract); ok && ex.Index == 0 {
		s = ex.Tuple
	}
	hc, ok := s.(*ssa.Call)
	if !ok {
		return nil, nil, false
	}
	g := hc.Call.StaticCallee()
	if g == nil || g.Blocks == nil || !x.P.InModule(g) || x.opaque[g] {
		return nil, nil, false
	}
	pi := -1
	for _, gb := range g.Blocks {
		ret, isRet := gb.Instrs[len(gb.Instrs)-1].(*ssa.Return)
		if !isRet || len(ret.Results) == 0 {
			continue
		}
		if k, isK := ret.Results[0].(*ssa.Const); isK && k.Value == nil {
			continue
		}
		c, i, ok := tupleResult(ret.Results[0], desNew)
		if !ok || i != 0 {
			return nil, nil, false
		}
		p, isP := flow.Strip(c.Call.Args[0]).(*ssa.Parameter)
		if !isP || (pi >= 0 && pi != paramIndex(g, p)) {
			return nil, nil, false
		}
		pi = paramIndex(g, p)
	}
	if pi < 0 || pi >= len(hc.Call.Args) {
		return nil, nil, false
	}
	return hc, hc.Call.Args[pi], true
}

func (x *c01) directChains(fn *ssa.Function) []*lmChain {
	var out []*lmChain
	seen := map[*ssa.Call]*lmChain{}
	for _, enc := range invokes(fn, "Encrypt") {
		nc, key, ok := x.cipherKey(enc.Call.Value)
		if !ok {
			continue
		}
		if prev := seen[nc]; prev != nil {
			prev.enc = nil // one cipher, several Encrypt calls
			continue
		}
		ch := &lmChain{cfn: fn, newc: nc, key: key, enc: enc, lo: -2}
		seen[nc] = ch
		out = append(out, ch)
	}
	return out
}

// lmChains: the DES chains of fn, inline or one call level down in an
// in-module helper that contains exactly one chain.
func (x *c01) lmChains(fn *ssa.Function) []*lmChain {
	out := x.directChains(fn)
	for _, b := range fn.Blocks {
		for _, in := range b.Instrs {
			call, ok := in.(*ssa.Call)
			if !ok {
				continue
			}
			g := call.Call.StaticCallee()
			if g == nil || g == fn || g.Blocks == nil || !x.P.InModule(g) || x.opaque[g] {
				continue
			}
			if gc := x.directChains(g); len(gc) == 1 {
				gc[0].site = call
				out = append(out, gc[0])
			}
		}
	}
	sort.SliceStable(out, func(i, j int) bool { return out[i].pos() < out[j].pos() })
	return out
}

func (x *c01) r2lm() {
	fn := x.fLMHash
	if fn == nil {
		return
	}
	name := x.P.FuncName(fn)
	chains := x.lmChains(fn)
	if len(chains) != 2 {
		x.R.Fail(c01R2, name+": two DES keys", x.pos(fn.Pos()), fmt.Sprintf("%d des.NewCipher chains, LM uses exactly two", len(chains)))
		return
	}
	// R4 first: it tells which half each key is spread from
	for i, ch := range chains {
		x.keySpread(fn, ch, i+1)
	}
	for i, ch := range chains {
		tag := fmt.Sprintf("%s: DES key %d", name, i+1)
		// provenance: only the password, always through ToUpper
		keyAllow := []string{x.lRepeat, "len", "slice[:14]", "slice[:7]", "slice[7:]", "slice[7:14]", "slice[0:7]", "slice[:8]"}
		pc := tag + " ← password through ToUpper only"
		if ch.site == nil {
			set := x.e.Prov(fn, ch.key)
			bad, und := judge(set, []need{{what: "password", src: isParam(0), must: []string{x.lUpper}, allow: keyAllow}}, constsOnly)
			x.verdict(c01R2, pc, ch.pos(), bad, und, trim(set.String(), 200))
		} else {
			// inside the helper the key derives only from one parameter; at the call that
			// parameter receives the upper-cased password
			hp, isP := ch.half.(*ssa.Parameter)
			_ = hp
			set := x.e.Prov(ch.cfn, ch.key)
			var bad, und string
			pi := -1
			for o := range set {
				if o.Src.Kind == flow.SParam {
					pi = o.Src.Idx
				}
			}
			if pi < 0 || pi >= len(ch.site.Call.Args) {
				und = "the key built in helper " + x.P.FuncName(ch.cfn) + " does not derive from one of its parameters"
			} else {
				bad, und = judge(set, []need{{what: "the helper's key-material parameter", src: isParam(pi), allow: keyAllow}}, constsOnly)
				if bad == "" && und == "" {
					cs := x.e.Prov(fn, ch.site.Call.Args[pi])
					bad, und = judge(cs, []need{{what: "password", src: isParam(0), must: []string{x.lUpper}, allow: keyAllow}}, constsOnly)
				}
			}
			_ = isP
			x.verdict(c01R2, pc, ch.pos(), bad, und, "through helper "+x.P.FuncName(ch.cfn))
		}
		// window
		wantLo, wantHi := 7*i, 7*i+7
		wc := fmt.Sprintf("%s is spread from password[%d:%d]", tag, wantLo, wantHi)
		switch {
		case ch.half == nil:
			x.R.Undecided(c01R2, wc, x.pos(ch.pos()), "the key bytes could not be traced to one 7-byte source (see "+c01R4+")")
		case ch.str == nil:
			x.R.Undecided(c01R2, wc, x.pos(ch.pos()), "the key source "+flow.Expr(ch.half)+" is not a []byte conversion of a constant window of a string")
		case ch.lo != wantLo || (ch.hi != wantHi && !(ch.hi == -1 && i == 1)):
			hi := fmt.Sprint(ch.hi)
			if ch.hi == -1 {
				hi = ""
			}
			x.R.Fail(c01R2, wc, x.pos(ch.pos()), fmt.Sprintf("key %d is spread from %s[%d:%s]; LM uses bytes %d..%d of the padded password for key %d (halves swapped or mis-cut)", i+1, flow.Expr(ch.str), ch.lo, hi, wantLo, wantHi-1, i+1))
		default:
			x.R.OK(c01R2, wc, x.pos(ch.pos()), "window of "+flow.Expr(ch.str))
		}
		// Encrypt(dst, magic)
		ec := tag + ": Encrypt(fresh 8-byte buffer, \"KGS!@#$%\")"
		if ch.enc == nil {
			x.R.Fail(c01R2, ec, x.pos(ch.pos()), "the cipher is not used by exactly one Encrypt call")
			continue
		}
		ch.dst = ch.enc.Call.Args[0]
		if ch.site == nil {
			ch.out = ch.dst
		} else {
			okRet := true
			for _, ret := range cryptoSuccessReturns(ch.cfn) {
				if flow.Strip(ret.Results[0]) != flow.Strip(ch.dst) {
					okRet = false
				}
			}
			if okRet {
				ch.out = ch.site
			}
		}
		if b, ok := x.e.ConstBytes(ch.enc.Call.Args[1]); !ok {
			x.R.Undecided(ec, ec, x.pos(ch.enc.Pos()), "plaintext "+flow.Expr(ch.enc.Call.Args[1])+" is not a constant that nothing writes")
		} else if string(b) != c01Magic {
			x.R.Fail(c01R2, ec, x.pos(ch.enc.Pos()), fmt.Sprintf("plaintext is %q, the LM magic constant is %q", string(b), c01Magic))
		} else if flow.StaticLen(ch.dst) != 8 {
			x.R.Fail(c01R2, ec, x.pos(ch.enc.Pos()), "destination "+flow.Expr(ch.dst)+" is not an 8-byte buffer")
		} else if ch.out == nil {
			x.R.Fail(c01R2, ec, x.pos(ch.enc.Pos()), "helper "+x.P.FuncName(ch.cfn)+" does not return the Encrypt destination")
		} else {
			x.R.OK(c01R2, ec, x.pos(ch.enc.Pos()), "plaintext is the magic constant, destination is 8 bytes")
		}
	}
	// both halves are windows of the same 14-byte string
	sc := name + ": both halves are cut from one string of length 14"
	if chains[0].str != nil && chains[1].str != nil {
		if chains[0].str != chains[1].str {
			x.R.Fail(c01R2, sc, x.pos(fn.Pos()), "the halves are windows of different strings: "+flow.Expr(chains[0].str)+" and "+flow.Expr(chains[1].str))
		} else {
			S := chains[0].str
			at := chains[0].at
			fi := x.w.Info(fn)
			cx := fi.CtxBefore(at)
			ge := lenBound(fi, S, cx, func(l lin.Form) lin.Con { return lin.GE(l, lin.K(14)) }, 0)
			le := lenBound(fi, S, cx, func(l lin.Form) lin.Con { return lin.LE(l, lin.K(14)) }, 0)
			switch {
			case ge && le:
				x.R.OK(c01R2, sc, x.pos(at.Pos()), "len = 14 proved on every path (truncate when longer, NUL-pad when shorter)")
			case !le:
				x.R.Fail(c01R2, sc, x.pos(at.Pos()), "the password is not truncated to 14 bytes on every path (len ≤ 14 is not entailed where the halves are cut)")
			default:
				x.R.Fail(c01R2, sc, x.pos(at.Pos()), "the password is not padded to 14 bytes on every path (len ≥ 14 is not entailed where the halves are cut)")
			}
			// the pad byte is NUL
			x.lmPad(fn, S)
		}
	}
	// result = dst1 ‖ dst2
	rc := name + ": return = Encrypt(key1) ‖ Encrypt(key2)"
	for _, ret := range cryptoSuccessReturns(fn) {
		segs := x.e.Segs(ret.Results[0], nil)
		if len(segs) != 2 || chains[0].out == nil || chains[1].out == nil {
			x.R.Fail(c01R2, rc, x.pos(ret.Pos()), fmt.Sprintf("the result has %d segment(s), LM is the 8-byte ciphertext of the first half followed by that of the second", len(segs)))
			continue
		}
		a, b := flow.Strip(segs[0].V), flow.Strip(segs[1].V)
		switch {
		case a == flow.Strip(chains[0].out) && b == flow.Strip(chains[1].out):
			x.R.OK(c01R2, rc, x.pos(ret.Pos()), "ciphertext of the first half, then of the second")
		case a == flow.Strip(chains[1].out) && b == flow.Strip(chains[0].out):
			x.R.Fail(c01R2, rc, x.pos(ret.Pos()), "the two ciphertexts are concatenated in the wrong order (second half first)")
		default:
			x.R.Fail(c01R2, rc, x.pos(ret.Pos()), "the result is "+flow.Expr(segs[0].V)+" ‖ "+flow.Expr(segs[1].V)+", not the two Encrypt destinations")
		}
	}
}

// lenBound proves a bound on len(v) in context cx; a φ the dominating facts do
// not settle is re-posed for each incoming value in the context of its edge
// (nested joins, which prove.Ctx.Prove does one level deep only).
func lenBound(fi *prove.FuncInfo, v ssa.Value, cx *prove.Ctx, mk func(lin.Form) lin.Con, depth int) bool {
	if cx.Prove(mk(cx.LenOf(v))) {
		return true
	}
	phi, ok := v.(*ssa.Phi)
	if !ok || depth > 4 {
		return false
	}
	for i, pred := range phi.Block().Preds {
		if phi.Edges[i] == v {
			return false
		}
		if !lenBound(fi, phi.Edges[i], fi.CtxEdge(pred, phi.Block()), mk, depth+1) {
			return false
		}
	}
	return true
}

// lmPad: every strings.Repeat on the way to S repeats the NUL byte.
func (x *c01) lmPad(fn *ssa.Function, S ssa.Value) {
	rep := x.ext("strings", "Repeat")
	for _, c := range callsTo(fn, rep) {
		pc := x.P.FuncName(fn) + ": pad byte"
		if k, ok := c.Call.Args[0].(*ssa.Const); ok && k.Value != nil && k.Value.Kind() == constant.String && constant.StringVal(k.Value) == "\x00" {
			x.R.OK(c01R2, pc, x.pos(c.Pos()), "pads with NUL bytes")
		} else {
			x.R.Fail(c01R2, pc, x.pos(c.Pos()), "pads with "+flow.Expr(c.Call.Args[0])+", LM pads the password with NUL bytes")
		}
	}
}

// ---- R4: 7 → 8 byte key spreading ---------------------------------------------

// keyStores collects, for an 8-byte key buffer value, the single store into
// each constant index.
func keyStores(buf ssa.Value, before ssa.Instruction) (map[int]*ssa.Store, string) {
	out := map[int]*ssa.Store{}
	var roots []ssa.Value
	roots = append(roots, buf)
	if s, ok := buf.(*ssa.Slice); ok {
		roots = append(roots, s.X)
	}
	for _, root := range roots {
		refs := root.Referrers()
		if refs == nil {
			continue
		}
		for _, r := range *refs {
			ia, ok := r.(*ssa.IndexAddr)
			if !ok {
				continue
			}
			idx, isK := constI(ia.Index)
			for _, rr := range *ia.Referrers() {
				st, ok := rr.(*ssa.Store)
				if !ok || st.Addr != ssa.Value(ia) {
					continue
				}
				if !isK {
					return nil, "a key byte is stored at a non-constant index"
				}
				if out[int(idx)] != nil {
					return nil, fmt.Sprintf("key byte %d is stored more than once", idx)
				}
				if flow.InLoop(st) || !flow.Dominates(st, before) {
					return nil, fmt.Sprintf("the store to key byte %d does not precede des.NewCipher on every path", idx)
				}
				out[int(idx)] = st
			}
		}
	}
	return out, ""
}

func (x *c01) keySpread(top *ssa.Function, ch *lmChain, n int) {
	fn := ch.cfn
	name := x.P.FuncName(top)
	keyV := flow.Strip(ch.key)
	if flow.StaticLen(keyV) != 8 {
		x.R.Undecided(c01R4, fmt.Sprintf("%s: DES key %d", name, n), x.pos(ch.newc.Pos()), "the key "+flow.Expr(ch.key)+" is not a fixed 8-byte buffer built in this function")
		return
	}
	stores, why := keyStores(keyV, ch.newc)
	if stores == nil {
		x.R.Undecided(c01R4, fmt.Sprintf("%s: DES key %d", name, n), x.pos(ch.newc.Pos()), why)
		return
	}
	srcs := map[ssa.Value]int{}
	var srcList []ssa.Value
	an := &lanes.Analyzer{InModule: x.P.InModule}
	an.Leaf = func(f *lanes.Frame, v ssa.Value) (lanes.Vec, bool) {
		u, ok := v.(*ssa.UnOp)
		if !ok || u.Op != token.MUL {
			return nil, false
		}
		ia, ok := u.X.(*ssa.IndexAddr)
		if !ok {
			return nil, false
		}
		idx, ok := constI(ia.Index)
		if !ok {
			return nil, false
		}
		base := flow.Strip(ia.X)
		if _, isConv := base.(*ssa.Convert); !isConv {
			if _, isParam := base.(*ssa.Parameter); !isParam {
				return nil, false
			}
		}
		if !x.e.ReadOnly(base) {
			return nil, false
		}
		id, ok := srcs[base]
		if !ok {
			id = len(srcList)
			srcs[base] = id
			srcList = append(srcList, base)
		}
		return lanes.SrcByte(id, int(idx)), true
	}
	fr := an.Root(fn)
	allOK := true
	for k := 0; k < 8; k++ {
		construct := fmt.Sprintf("%s: DES key %d byte %d", name, n, k)
		st := stores[k]
		if st == nil {
			x.R.Fail(c01R4, construct, x.pos(ch.newc.Pos()), "this key byte is never stored (stays 0): 7 bits of the half are dropped")
			allOK = false
			continue
		}
		vec := fr.Lanes(st.Val)
		if len(vec) != 8 {
			x.R.Undecided(c01R4, construct, x.pos(st.Pos()), "stored value is not a byte")
			allOK = false
			continue
		}
		bad := ""
		for b := 7; b >= 1; b-- {
			sbit := 7*k + (7 - b) // stream bit number, 0 = most significant bit of byte 0
			wi, wb := sbit/8, 7-sbit%8
			got := vec[b]
			if got.K == lanes.Top {
				x.R.Undecided(c01R4, construct, x.pos(st.Pos()), fmt.Sprintf("bit %d is not a pure bit movement the lane domain can follow: %s", b, strings.Join(an.Why, "; ")))
				bad = "-"
				break
			}
			if got.K != lanes.Src || got.S != 0 || got.I != wi || got.B != wb {
				bad = fmt.Sprintf("bit %d holds %s, the DES key schedule (str_to_key) needs bit %d of half byte %d there (stream bit %d)", b, laneStr(got), wb, wi, sbit)
				break
			}
		}
		switch bad {
		case "":
			x.R.OK(c01R4, construct, x.pos(st.Pos()), fmt.Sprintf("bits 7..1 = stream bits %d..%d of the 7-byte half; bit 0 (parity) unconstrained", 7*k, 7*k+6))
		case "-":
			allOK = false
		default:
			x.R.Fail(c01R4, construct, x.pos(st.Pos()), bad)
			allOK = false
		}
	}
	if len(srcList) >= 1 {
		// source 0 is the half all constrained bits come from
		ch.half = srcList[0]
		if p, isP := ch.half.(*ssa.Parameter); isP && ch.site != nil {
			if i := paramIndex(fn, p); i >= 0 && i < len(ch.site.Call.Args) {
				ch.half = flow.Strip(ch.site.Call.Args[i])
			}
		}
		if cv, ok := ch.half.(*ssa.Convert); ok {
			if sl, ok := cv.X.(*ssa.Slice); ok {
				lo, hi, okB := 0, -1, true
				if sl.Low != nil {
					k, ok := constI(sl.Low)
					lo, okB = int(k), okB && ok
				}
				if sl.High != nil {
					k, ok := constI(sl.High)
					hi, okB = int(k), okB && ok
				}
				if okB {
					ch.str, ch.lo, ch.hi, ch.at = sl.X, lo, hi, sl
				}
			}
		}
	}
	_ = allOK
}

func laneStr(b lanes.Bit) string {
	switch b.K {
	case lanes.Zero:
		return "constant 0"
	case lanes.One:
		return "constant 1"
	case lanes.Src:
		return fmt.Sprintf("bit %d of byte %d of source %d", b.B, b.I, b.S)
	}
	return "⊤"
}

// ---- R3: UTF-16LE lanes ----------------------------------------------------------

// affine parses an int index into mul·base + add.
func affine(v ssa.Value, stop ...ssa.Value) (base ssa.Value, mul, add int64) {
	for _, st := range stop {
		if st != nil && v == st {
			return v, 1, 0
		}
	}
	switch x := v.(type) {
	case *ssa.Const:
		if k, ok := constI(x); ok {
			return nil, 0, k
		}
	case *ssa.BinOp:
		kx, okx := constI(x.X)
		ky, oky := constI(x.Y)
		switch x.Op {
		case token.ADD:
			if oky {
				b, m, a := affine(x.X, stop...)
				return b, m, a + ky
			}
			if okx {
				b, m, a := affine(x.Y, stop...)
				return b, m, a + kx
			}
		case token.OR:
			if oky && ky == 1 {
				b, m, a := affine(x.X, stop...)
				if m%2 == 0 && a%2 == 0 {
					return b, m, a + 1
				}
			}
		case token.MUL:
			if oky {
				b, m, a := affine(x.X, stop...)
				return b, m * ky, a * ky
			}
			if okx {
				b, m, a := affine(x.Y, stop...)
				return b, m * kx, a * kx
			}
		case token.SHL:
			if oky && ky >= 0 && ky < 32 {
				b, m, a := affine(x.X, stop...)
				return b, m << uint(ky), a << uint(ky)
			}
		}
	}
	return v, 1, 0
}

// counted: index value I runs over 0..len(over)-1 with stride `stride`
// (range loop or classic for loop), and the body executes for each.
func counted(I ssa.Value, bodyBlock *ssa.BasicBlock) (over ssa.Value, stride int64, slack int64, ok bool) {
	// range form: I = φ+1, φ = [-1, I]; cond I < len(over)
	// for form:   I = φ,   φ = [0, φ+stride]; cond φ(+slack) < len(over)
	var phi *ssa.Phi
	rangeForm := false
	switch y := I.(type) {
	case *ssa.Phi:
		phi = y
	case *ssa.BinOp:
		if p, isPhi := y.X.(*ssa.Phi); isPhi && y.Op == token.ADD {
			if k, ok := constI(y.Y); ok && k == 1 {
				phi, rangeForm = p, true
			}
		}
	}
	if phi == nil || len(phi.Edges) != 2 {
		return nil, 0, 0, false
	}
	var init int64
	var next ssa.Value
	found := false
	for i, e := range phi.Edges {
		if k, ok := constI(e); ok {
			init, next, found = k, phi.Edges[1-i], true
		}
	}
	if !found {
		return nil, 0, 0, false
	}
	if rangeForm {
		if init != -1 || next != I {
			return nil, 0, 0, false
		}
		stride = 1
	} else {
		nb, ok := next.(*ssa.BinOp)
		if !ok || nb.Op != token.ADD || nb.X != ssa.Value(phi) || init != 0 {
			return nil, 0, 0, false
		}
		k, ok := constI(nb.Y)
		if !ok || k < 1 {
			return nil, 0, 0, false
		}
		stride = k
	}
	// loop condition in the φ's block
	hb := phi.Block()
	iff, ok := hb.Instrs[len(hb.Instrs)-1].(*ssa.If)
	if !ok {
		return nil, 0, 0, false
	}
	cmp, ok := iff.Cond.(*ssa.BinOp)
	if !ok || cmp.Op != token.LSS || hb.Succs[0] != bodyBlock {
		return nil, 0, 0, false
	}
	lb, lm, la := affine(cmp.X)
	if lm != 1 {
		return nil, 0, 0, false
	}
	if rangeForm {
		if cmp.X != I {
			return nil, 0, 0, false
		}
	} else if lb != ssa.Value(phi) {
		return nil, 0, 0, false
	}
	if !rangeForm {
		slack = la
	}
	lc, ok := cmp.Y.(*ssa.Call)
	if !ok {
		return nil, 0, 0, false
	}
	if b, isB := lc.Call.Value.(*ssa.Builtin); !isB || b.Name() != "len" {
		return nil, 0, 0, false
	}
	return lc.Call.Args[0], stride, slack, true
}

func (x *c01) r3() {
	x.r3enc()
	x.r3dec()
}

func unit16Lanes(src int) lanes.Vec {
	v := make(lanes.Vec, 16)
	for b := range v {
		v[b] = lanes.Bit{K: lanes.Src, S: src, I: 0, B: b}
	}
	return v
}

func (x *c01) r3enc() {
	fn := x.fEnc
	if fn == nil {
		return
	}
	name := x.P.FuncName(fn)
	u16enc := x.ext("unicode/utf16", "Encode")
	rets := cryptoSuccessReturns(fn)
	if len(rets) != 1 {
		x.R.Undecided(c01R3, name+": result buffer", x.pos(fn.Pos()), "more than one return")
		return
	}
	buf, ok := flow.Strip(rets[0].Results[0]).(*ssa.MakeSlice)
	if !ok {
		x.R.Undecided(c01R3, name+": result buffer", x.pos(rets[0].Pos()), "the result is "+flow.Expr(rets[0].Results[0])+", not a buffer allocated here with make")
		return
	}
	// units = utf16.Encode([]rune(s))
	calls := callsTo(fn, u16enc)
	uc := name + ": code units = unicode/utf16.Encode([]rune(s))"
	if len(calls) != 1 {
		x.R.Fail(c01R3, uc, x.pos(fn.Pos()), fmt.Sprintf("%d calls to unicode/utf16.Encode, expected one", len(calls)))
		return
	}
	units := calls[0]
	if cv, ok := units.Call.Args[0].(*ssa.Convert); ok && flow.Strip(cv.X) == ssa.Value(fn.Params[0]) {
		x.R.OK(c01R3, uc, x.pos(units.Pos()), "runes of the parameter go through the standard library (surrogate pairs delegated)")
	} else {
		x.R.Fail(c01R3, uc, x.pos(units.Pos()), "unicode/utf16.Encode is applied to "+flow.Expr(units.Call.Args[0])+", not to []rune(s) of the parameter")
	}
	// buffer length = 2·len(units)
	lc := name + ": buffer length = 2·len(units)"
	lb, lm, la := affine(buf.Len)
	if c, ok := lb.(*ssa.Call); ok && lm == 2 && la == 0 && len(c.Call.Args) == 1 && c.Call.Args[0] == ssa.Value(units) {
		x.R.OK(c01R3, lc, x.pos(buf.Pos()), "make([]byte, len(units)*2)")
	} else {
		x.R.Fail(c01R3, lc, x.pos(buf.Pos()), "the buffer is "+flow.Expr(buf)+": not exactly two bytes per code unit")
	}
	// stores
	type st struct {
		s   *ssa.Store
		idx ssa.Value
	}
	var stores []st
	for _, r := range *buf.Referrers() {
		switch y := r.(type) {
		case *ssa.IndexAddr:
			for _, rr := range *y.Referrers() {
				if s, ok := rr.(*ssa.Store); ok && s.Addr == ssa.Value(y) {
					stores = append(stores, st{s, y.Index})
				}
			}
		case *ssa.Return, *ssa.DebugRef:
		default:
			if !x.e.ReadOnly(buf) {
				x.R.Undecided(c01R3, name+": result buffer", x.pos(buf.Pos()), fmt.Sprintf("the buffer is also used by %T; its bytes may be written elsewhere", r))
				return
			}
		}
	}
	an := &lanes.Analyzer{InModule: x.P.InModule}
	var unitIdx ssa.Value
	an.Leaf = func(f *lanes.Frame, v ssa.Value) (lanes.Vec, bool) {
		u, ok := v.(*ssa.UnOp)
		if !ok || u.Op != token.MUL {
			return nil, false
		}
		ia, ok := u.X.(*ssa.IndexAddr)
		if !ok || ia.X != ssa.Value(units) {
			return nil, false
		}
		if unitIdx == nil {
			unitIdx = ia.Index
		}
		if ia.Index != unitIdx {
			return nil, false
		}
		return unit16Lanes(0), true
	}
	fr := an.Root(fn)
	seen := map[int64]bool{}
	for _, s := range stores {
		vec := fr.Lanes(s.s.Val)
		b, m, a := affine(s.idx, unitIdx)
		construct := fmt.Sprintf("%s: byte 2i+%d", name, a)
		if unitIdx == nil || b != unitIdx || m != 2 || (a != 0 && a != 1) {
			x.R.Fail(c01R3, fmt.Sprintf("%s: store at %s", name, flow.Expr(s.idx)), x.pos(s.s.Pos()), "the byte index is not 2·i or 2·i+1 of the code-unit index i the value is read at")
			continue
		}
		if seen[a] {
			x.R.Fail(c01R3, construct, x.pos(s.s.Pos()), "this byte position is stored twice")
			continue
		}
		seen[a] = true
		want := unit16Lanes(0)[8*a : 8*a+8]
		if len(vec) == 8 && vec.Equal(want) {
			x.R.OK(c01R3, construct, x.pos(s.s.Pos()), fmt.Sprintf("holds bits %d..%d of code unit i", 8*a, 8*a+7))
		} else if vec.HasTop() {
			x.R.Undecided(c01R3, construct, x.pos(s.s.Pos()), "not a pure bit movement: "+strings.Join(an.Why, "; "))
		} else {
			x.R.Fail(c01R3, construct, x.pos(s.s.Pos()), fmt.Sprintf("holds %s; UTF-16LE puts bits %d..%d of the code unit here (byte order)", vec.String(nil), 8*a, 8*a+7))
		}
	}
	for a := int64(0); a < 2; a++ {
		if !seen[a] {
			x.R.Fail(c01R3, fmt.Sprintf("%s: byte 2i+%d", name, a), x.pos(buf.Pos()), "this byte of each code unit is never written")
		}
	}
	// the loop visits every unit
	cc := name + ": loop covers every code unit"
	if unitIdx != nil && len(stores) > 0 {
		over, stride, slack, ok := counted(unitIdx, stores[0].s.Block())
		if ok && over == ssa.Value(units) && stride == 1 && slack == 0 {
			x.R.OK(c01R3, cc, x.pos(stores[0].s.Pos()), "i = 0..len(units)-1, stride 1")
		} else {
			x.R.Undecided(c01R3, cc, x.pos(stores[0].s.Pos()), "the loop is not a recognised counted loop over the code units with stride 1")
		}
	} else {
		x.R.Fail(c01R3, cc, x.pos(fn.Pos()), "no store reads a code unit")
	}
}

func (x *c01) r3dec() {
	fn := x.fDec
	if fn == nil {
		return
	}
	name := x.P.FuncName(fn)
	u16dec := x.ext("unicode/utf16", "Decode")
	calls := callsTo(fn, u16dec)
	rc := name + ": result = string(unicode/utf16.Decode(units))"
	if len(calls) != 1 {
		x.R.Fail(c01R3, rc, x.pos(fn.Pos()), fmt.Sprintf("%d calls to unicode/utf16.Decode, expected one", len(calls)))
		return
	}
	dec := calls[0]
	okRet := true
	for _, ret := range cryptoSuccessReturns(fn) {
		cv, ok := flow.Strip(ret.Results[0]).(*ssa.Convert)
		if !ok || cv.X != ssa.Value(dec) {
			okRet = false
		}
	}
	if okRet {
		x.R.OK(c01R3, rc, x.pos(dec.Pos()), "surrogate pairs delegated to the standard library")
	} else {
		x.R.Fail(c01R3, rc, x.pos(dec.Pos()), "some return is not string(utf16.Decode(units))")
	}
	units, ok := flow.Strip(dec.Call.Args[0]).(*ssa.MakeSlice)
	if !ok {
		x.R.Undecided(c01R3, name+": unit buffer", x.pos(dec.Pos()), "the decoded units "+flow.Expr(dec.Call.Args[0])+" are not a buffer allocated here with make")
		return
	}
	b := fn.Params[0]
	var stores []*ssa.Store
	var idxs []ssa.Value
	for _, r := range *units.Referrers() {
		if ia, ok := r.(*ssa.IndexAddr); ok {
			for _, rr := range *ia.Referrers() {
				if s, ok := rr.(*ssa.Store); ok && s.Addr == ssa.Value(ia) {
					stores = append(stores, s)
					idxs = append(idxs, ia.Index)
				}
			}
		}
	}
	sc := name + ": unit j = byte 2j | byte 2j+1 << 8"
	if len(stores) != 1 {
		x.R.Undecided(c01R3, sc, x.pos(units.Pos()), fmt.Sprintf("%d stores into the unit buffer, expected one", len(stores)))
		return
	}
	st, J := stores[0], idxs[0]
	// byte base: either J = I/2 with I even-stepping, or bytes at 2J, 2J+1
	var I ssa.Value // byte index of the low byte
	halfForm := false
	if q, ok := J.(*ssa.BinOp); ok {
		if k, okk := constI(q.Y); okk && ((q.Op == token.QUO && k == 2) || (q.Op == token.SHR && k == 1)) {
			I, halfForm = q.X, true
		}
	}
	an := &lanes.Analyzer{InModule: x.P.InModule}
	bad := ""
	an.Leaf = func(f *lanes.Frame, v ssa.Value) (lanes.Vec, bool) {
		u, ok := v.(*ssa.UnOp)
		if !ok || u.Op != token.MUL {
			return nil, false
		}
		ia, ok := u.X.(*ssa.IndexAddr)
		if !ok || ia.X != ssa.Value(b) {
			return nil, false
		}
		base, m, a := affine(ia.Index, I, J)
		if halfForm {
			if base == I && m == 1 && (a == 0 || a == 1) {
				return lanes.SrcByte(0, int(a)), true
			}
		} else if base == J && m == 2 && (a == 0 || a == 1) {
			return lanes.SrcByte(0, int(a)), true
		}
		bad = "reads input byte " + flow.Expr(ia.Index) + ", which is not byte 2j or 2j+1 of the unit index j it is stored at"
		return nil, false
	}
	vec := an.Root(fn).Lanes(st.Val)
	want := append(append(lanes.Vec{}, lanes.SrcByte(0, 0)...), lanes.SrcByte(0, 1)...)
	switch {
	case len(vec) == 16 && vec.Equal(want):
		x.R.OK(c01R3, sc, x.pos(st.Pos()), "bits 0..7 from byte 2j, bits 8..15 from byte 2j+1: the inverse of EncodeUTF16LE's lane map")
	case bad != "":
		x.R.Fail(c01R3, sc, x.pos(st.Pos()), bad)
	case vec.HasTop():
		x.R.Undecided(c01R3, sc, x.pos(st.Pos()), "not a pure bit movement: "+strings.Join(an.Why, "; "))
	default:
		x.R.Fail(c01R3, sc, x.pos(st.Pos()), "the unit holds "+vec.String(nil)+"; UTF-16LE has the low byte first (byte order)")
	}
	// loop: j covers every whole unit
	cc := name + ": loop covers every whole code unit"
	if halfForm {
		over, stride, slack, ok := counted(I, st.Block())
		if ok && over == ssa.Value(b) && stride == 2 && slack == 1 {
			x.R.OK(c01R3, cc, x.pos(st.Pos()), "i = 0,2,4,… while i+1 < len(b); unit index i/2")
		} else if ok && over == ssa.Value(b) && stride == 2 && slack == 0 {
			x.R.Fail(c01R3, cc, x.pos(st.Pos()), "the loop condition admits i = len(b)-1: the high byte is read past an odd-length input")
		} else {
			x.R.Undecided(c01R3, cc, x.pos(st.Pos()), "the loop is not a recognised counted loop over the input with stride 2")
		}
	} else {
		over, stride, slack, ok := counted(J, st.Block())
		if ok && over == ssa.Value(units) && stride == 1 && slack == 0 {
			x.R.OK(c01R3, cc, x.pos(st.Pos()), "j = 0..len(units)-1")
		} else {
			x.R.Undecided(c01R3, cc, x.pos(st.Pos()), "the loop is not a recognised counted loop over the units")
		}
	}
	// unit buffer length = len(b)/2
	lc := name + ": unit count = len(b)/2"
	if q, ok := units.Len.(*ssa.BinOp); ok {
		k, okk := constI(q.Y)
		if c, isC := q.X.(*ssa.Call); isC && okk && ((q.Op == token.QUO && k == 2) || (q.Op == token.SHR && k == 1)) && len(c.Call.Args) == 1 && c.Call.Args[0] == ssa.Value(b) {
			x.R.OK(c01R3, lc, x.pos(units.Pos()), "make([]uint16, len(b)/2)")
			return
		}
	}
	x.R.Fail(c01R3, lc, x.pos(units.Pos()), "the unit buffer is "+flow.Expr(units)+", not len(b)/2 units")
}

func (x *c01) r4() {
	// performed inside r2lm (the key-spread lanes also identify the halves)
	x.R.Extra["r4_note"] = "R4 obligations are produced while analysing lm.LMHash's two des.NewCipher chains"
}
