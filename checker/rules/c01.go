package rules

import (
	"fmt"
	"go/constant"
	"go/token"
	"go/types"
	"sort"
	"strings"

	"golang.org/x/tools/go/ssa"

	"manticheck/internal/flow"
	"manticheck/internal/lanes"
	"manticheck/internal/lin"
	"manticheck/internal/prove"
	"manticheck/internal/report"
)

// C01 — password-hash primitives (DESIGN.md §4 C01; Appendix A rows C01.a–d).

func init() { register(&Check{ID: "C01", NeedSSA: true, Run: runC01}) }

const (
	c01R1 = "R1-pure-read"
	c01R2 = "R2-composition"
	c01R3 = "R3-utf16-lanes"
	c01R4 = "R4-des-key-spread"

	c01Magic      = "KGS!@#$%" // MS-NLMP 3.3.1 / LM hash: the constant both DES keys encrypt
	c01DCC2Format = "$DCC2$%d#%s#%s"
	c01DCCFormat  = "%s:%s"
)

type c01 struct {
	*cry
	// labels
	lEnc, lDec, lNew, lWrite, lSum, lNT, lLM         string
	lUpper, lLower, lTrim, lHex, lRepeat             string
	fNew, fWrite, fSum, fHexSum, fPkgSum, fEnc, fDec *ssa.Function
	fNTHash, fNTHashHex, fLMHash, fLMHex             *ssa.Function
	dist                                             flow.Distributive
	w                                                *prove.World
	md4Fields                                        int // declared fields of struct MD4 (0: not resolved)
}

func runC01(c *Ctx) {
	r := c.R
	r.Explanation = "C01 password-hash primitives, decided statically on go/ssa; no Manticore code is executed and no digest is computed. " +
		"R1-pure-read (parameter-rooted write summaries, transitive over in-module callees): (*MD4).Sum and (*MD4).HexSum store to none of the receiver's fields state/count/buffer — a necessary condition of 'reading the digest does not change what later reads or writes produce'. " +
		"R2-composition (E5 provenance: every def-use path, labels = calls passed): md4.Sum(data) hashes exactly data; nt.NTHash hashes exactly EncodeUTF16LE(password) with no other transformation of the password (ToUpper/ToLower/TrimSpace/slicing fire) and returns that hash object's Sum; dcc.DCCHashFromNTHash and dcc2.DCC2HashWithNTHash hash exactly ntHash ‖ EncodeUTF16LE(ToLower(username)) in that order; dcc2 calls pbkdf2.Key(password = that MD4 digest, salt = EncodeUTF16LE(ToLower(username)) (the same value or an identical composition), iter = the rounds parameter, keyLen = 16, h = sha1.New) and formats \"$DCC2$%d#%s#%s\" from (rounds, username, hex(key)); lm.LMHash: both DES keys derive from the password only through strings.ToUpper, the two halves are windows [0:7] and [7:14] of ONE string whose length is proved to be 14 on every path (E1 prover over the truncate/pad branches), each cipher encrypts the constant \"KGS!@#$%\" into its own fresh 8-byte buffer and the result is buffer(first half) ‖ buffer(second half); the hex / hashcat wrappers are hex.EncodeToString (optionally ToLower) of the raw function applied to the same parameters in the same roles, the DCC hashcat line is \"%s:%s\" of (hex digest, ToLower(username)). " +
		"R3-utf16-lanes (exact bit lanes of the loop bodies): EncodeUTF16LE writes bits 0–7 of code unit i to byte 2i and bits 8–15 to byte 2i+1 for every i of unicode/utf16.Encode([]rune(s)), into a buffer of 2·len units; DecodeUTF16LE reads unit j from bytes 2j (low) and 2j+1 (high) and returns string(unicode/utf16.Decode(units)) — the two lane maps are mutually inverse on whole units. " +
		"R4-des-key-spread (exact bit lanes): in lm.LMHash the 56 bits of each 7-byte half land, in order, in bits 7..1 of the 8 DES key bytes (bit 0 of each key byte is the parity position DES ignores and is unconstrained). " +
		"Shapes decided (behaviour-preserving rewrites stay silent): the LM chains may be written in LMHash or down a path of up to three unexported helpers (a helper used twice is two chains; the key may be built by a further helper that returns the 8-byte buffer); the padded password is a string whose length is proved 14, or a zero-initialised 14-byte buffer written by exactly one copy(buf, ToUpper(password)) that precedes both uses; key bytes may be read at offsets 0..6 / 7..13 of one source; the magic may be a local constant or an unexported package-level variable that nothing but its initialiser writes anywhere in the module; the two ciphertexts are concatenated or encrypted in place into windows [0:8] / [8:16] of the returned 16-byte buffer. EncodeUTF16LE may fill a make([]byte, 2·len(units)) buffer by index (byte stores or binary.LittleEndian.PutUint16) or be in append form: one binary.LittleEndian.AppendUint16 / append(acc, byte(u), byte(u>>8)) per element of a range loop over utf16.Encode([]rune(s)), or over utf16.AppendRune(empty, r) for every rune r of s in order, onto an accumulator that starts empty (read off the accumulator's φ graph: no iteration can skip or repeat an emission); DecodeUTF16LE may read units with binary.LittleEndian.Uint16. The hashcat lines may be fmt.Sprintf of the spec format or the equivalent string concatenation (integers through strconv.Itoa / FormatInt(·, 10)). bytes.Clone / slices.Clone / slices.Concat are copies, not transformations. " +
		"NOT decided: equality of any output with RFC 1320 / MS-NLMP / MS-Cache reference values; the MD4 round arithmetic, constants, rotation amounts and padding arithmetic; invariance of the streaming MD4 under splitting the message across Write calls and the buffering arithmetic around offsets 55/56/64; DES, SHA-1, HMAC and PBKDF2 numerics (standard library / x/crypto, trusted); surrogate handling inside unicode/utf16; behaviour of LMHash for passwords that are not 7-bit ASCII (ToUpper may change the byte length before truncation); PBKDF2 behaviour for rounds < 1; whether hashcat lower-cases the DCC2 user name."
	r.Assumptions = []string{
		cryTrusted,
		"type-based aliasing: distinct struct fields do not alias; a slice header and its backing array are treated as one cell; no unsafe aliasing of the MD4 struct (true of this repo)",
		"stdlib contracts used as labels/edges: hash.Hash.Write absorbs its argument and nothing else; cipher.Block.Encrypt(dst, src) writes dst from src under the key given to des.NewCipher; encoding/binary PutUintN writes only its destination; hex.EncodeToString, strings.ToUpper/ToLower, unicode/utf16.Encode/Decode and pbkdf2.Key are pure functions of their arguments; fmt.Sprintf renders its variadic arguments in order",
		"the E1 prover of internal/prove (dominating branch conditions, len facts for string slicing / concatenation / strings.Repeat, φ-join, Fourier–Motzkin) is sound",
		"SPEC constants: LM magic \"KGS!@#$%\" (MS-NLMP 3.3.1), DCC2 PBKDF2 keyLen 16 and HMAC-SHA1 (MS-Cache v2), hashcat formats \"$DCC2$%d#%s#%s\" (mode 2100) and \"hash:user\" (mode 1100)",
	}
	r.Explanation += crySxExplain
	r.Assumptions = append(r.Assumptions, crySxAssume)
	x := &c01{cry: newCry(c)}
	x.w = prove.NewWorld(c.P)

	// ---- anchors -------------------------------------------------------
	x.fNew = x.mod(cryMD4, "", "New")
	x.fWrite = x.mod(cryMD4, "MD4", "Write")
	x.fSum = x.mod(cryMD4, "MD4", "Sum")
	x.fHexSum = x.mod(cryMD4, "MD4", "HexSum")
	x.fPkgSum = x.mod(cryMD4, "", "Sum")
	x.fEnc = x.mod(cryUTF16, "", "EncodeUTF16LE")
	x.fDec = x.mod(cryUTF16, "", "DecodeUTF16LE")
	x.fNTHash = x.mod(cryNT, "", "NTHash")
	x.fNTHashHex = x.mod(cryNT, "", "NTHashHex")
	x.fLMHash = x.mod(cryLM, "", "LMHash")
	x.fLMHex = x.mod(cryLM, "", "LMHashToHex")
	x.lNew, x.lWrite, x.lSum = x.label(x.fNew), x.label(x.fWrite), x.label(x.fSum)
	x.label(x.fHexSum)
	x.lEnc, x.lDec = x.label(x.fEnc), x.label(x.fDec)
	x.lNT, x.lLM = x.label(x.fNTHash), x.label(x.fLMHash)
	x.lUpper = x.extLabel("strings", "ToUpper")
	x.lLower = x.extLabel("strings", "ToLower")
	x.lTrim = x.extLabel("strings", "TrimSpace")
	x.lRepeat = x.extLabel("strings", "Repeat")
	x.lHex = x.extLabel("encoding/hex", "EncodeToString")
	x.dist = func(l string) bool { return l == x.lEnc || l == x.lUpper || l == x.lLower || l == x.lHex }

	x.guard(c01R1, "R1 analysis", "", x.r1)
	x.guard(c01R2, "R2 analysis", "", x.r2)
	x.guard(c01R3, "R3 analysis", "", x.r3)
	x.r4()
	x.sxDebugAll()
	x.finish()

	// one obligation per declared field of MD4 for each of Sum and HexSum
	if x.md4Fields > 0 {
		r.Floor(c01R1, 2*x.md4Fields)
	} else {
		r.Floor(c01R1, 6)
	}
	r.Floor(c01R2, 45)
	r.Floor(c01R3, 9)
	r.Floor(c01R4, 16)
}

// ---- R1 ----------------------------------------------------------------------

func (x *c01) r1() {
	var fields []string
	if pk := x.P.Pkg(cryMD4); pk != nil {
		if tn, ok := pk.Types.Scope().Lookup("MD4").(*types.TypeName); ok {
			if st, ok := tn.Type().Underlying().(*types.Struct); ok {
				for i := 0; i < st.NumFields(); i++ {
					fields = append(fields, st.Field(i).Name())
				}
			}
		}
	}
	if len(fields) == 0 {
		x.R.Undecided("anchor", cryMD4+".MD4", "", "struct type does not resolve")
		return
	}
	x.R.Extra["md4_state_fields"] = fields
	x.md4Fields = len(fields)
	for _, fn := range []*ssa.Function{x.fSum, x.fHexSum} {
		if fn == nil {
			continue
		}
		ws := x.e.Writes(fn)
		for _, f := range fields {
			construct := fmt.Sprintf("%s: stores to MD4.%s", x.P.FuncName(fn), f)
			var hit *flow.Write
			for i := range ws {
				if ws[i].Param == 0 && (ws[i].Field() == f || ws[i].Path == "") {
					hit = &ws[i]
					if !ws[i].Uncertain {
						break
					}
				}
			}
			switch {
			case hit == nil:
				x.R.OK(c01R1, construct, x.pos(fn.Pos()), "no store to this field of the receiver, directly or through a callee")
			case hit.Uncertain:
				x.R.Undecided(c01R1, construct, x.pos(hit.Pos), "the receiver's memory is "+hit.How+", which may write it")
			default:
				x.R.Fail(c01R1, construct, x.pos(hit.Pos), "a digest read must not change the running hash, but the receiver's "+f+" is written: "+hit.How+
					" — Sum pads the live state, so a second Sum() (or a Write after Sum) sees a different hash state")
			}
		}
	}
}

// ---- R2 ----------------------------------------------------------------------

type segWant struct {
	what  string
	needs []need
	other others
}

// hashIs checks that value v (in fn) is the Sum of an md4.New() object that
// absorbed exactly the wanted segments in order.
func (x *c01) hashIs(fn *ssa.Function, v ssa.Value, construct string, want []segWant) (*flow.HashDesc, bool) {
	pos := fn.Pos()
	d, why := x.e.DeepHash(v, x.dist)
	if d == nil {
		x.R.Undecided(c01R2, construct, x.pos(pos), "cannot resolve the value to one MD4 computation: "+why)
		return nil, false
	}
	if d.Ctor != x.fNew {
		x.R.Fail(c01R2, construct, x.pos(pos), "the hash object is created by "+x.e.Name(d.Ctor)+", not by md4.New")
		return d, false
	}
	if len(d.Input) != len(want) {
		var got []string
		for _, s := range d.Input {
			got = append(got, flow.Expr(s.V))
		}
		x.R.Fail(c01R2, construct, x.pos(pos), fmt.Sprintf("the hash absorbs %d segment(s) [%s], the composition has %d", len(d.Input), strings.Join(got, " ‖ "), len(want)))
		return d, false
	}
	ok := true
	for i, wnt := range want {
		set := x.e.SegProv(fn, d.Input[i])
		bad, und := judge(set, wnt.needs, wnt.other)
		if bad != "" {
			bad = fmt.Sprintf("hashed segment %d (%s, expected %s): %s", i+1, flow.Expr(d.Input[i].V), wnt.what, bad)
		}
		if !x.verdict(c01R2, fmt.Sprintf("%s [segment %d = %s]", construct, i+1, wnt.what), pos, bad, und,
			"every def-use path into this segment satisfies the composition: "+trim(set.String(), 200)) {
			ok = false
		}
	}
	return d, ok
}

func (x *c01) r2() {
	// md4.Sum(data) = New → Write(data) → Sum
	if fn := x.fPkgSum; fn != nil {
		g := x.begin()
		for _, ret := range cryptoSuccessReturns(fn) {
			x.hashIs(fn, ret.Results[0], x.P.FuncName(fn)+": return = MD4(data)", []segWant{
				{what: "data", needs: []need{{what: "data", src: isParam(0)}}},
			})
		}
		if !g.clean() {
			x.md4BySx(g, fn, x.P.FuncName(fn)+": return = MD4(data)", 1, func(sx *flow.Sx) *flow.Tm { return paramTm(fn, 0) })
		}
	}
	// nt.NTHash
	if fn := x.fNTHash; fn != nil {
		g := x.begin()
		for _, ret := range cryptoSuccessReturns(fn) {
			x.hashIs(fn, ret.Results[0], x.P.FuncName(fn)+": return = MD4(UTF16LE(password))", []segWant{
				{what: "EncodeUTF16LE(password)", needs: []need{{what: "password", src: isParam(0), must: []string{x.lEnc}}}},
			})
		}
		if !g.clean() {
			x.md4BySx(g, fn, x.P.FuncName(fn)+": return = MD4(UTF16LE(password))", 1, func(sx *flow.Sx) *flow.Tm { return sx.TmApp(x.lEnc, paramTm(fn, 0)) })
		}
	}
	x.wrapper(x.fNTHashHex, x.fNTHash, []argWant{{param: 0, what: "password"}}, true)
	x.wrapper(x.fLMHex, x.fLMHash, []argWant{{param: 0, what: "password"}}, true)
	x.r2dcc()
	x.r2dcc2()
	x.r2lm()
}

type argWant struct {
	param int // parameter of the wrapper that must arrive here
	what  string
	via   []string // labels it must pass (e.g. nt.NTHash)
}

// wrapper: result = [ToLower](hex(raw(args))) (hexed) or raw(args) itself.
func (x *c01) wrapperSyn(fn, raw *ssa.Function, args []argWant, hexed bool) {
	if fn == nil || raw == nil {
		return
	}
	name := x.P.FuncName(fn)
	calls := callsTo(fn, raw)
	construct := fmt.Sprintf("%s: derives from %s", name, short(x.e.Name(raw)))
	if len(calls) != 1 {
		x.R.Fail(c01R2, construct, x.pos(fn.Pos()), fmt.Sprintf("the wrapper calls %s %d times, expected exactly once", x.e.Name(raw), len(calls)))
		return
	}
	call := calls[0]
	for i, a := range args {
		ac := fmt.Sprintf("%s [argument %d = %s]", construct, i+1, a.what)
		if i >= len(call.Call.Args) {
			x.R.Undecided(c01R2, ac, x.pos(call.Pos()), "the raw function has fewer arguments than the rule table")
			continue
		}
		set := x.e.Prov(fn, call.Call.Args[i])
		bad, und := judge(set, []need{{what: "parameter " + fn.Params[a.param].Name(), src: isParam(a.param), must: a.via}}, nil)
		x.verdict(c01R2, ac, call.Pos(), bad, und, "argument is "+trim(set.String(), 160))
	}
	// result
	rawLabel := x.e.Name(raw)
	for _, ret := range cryptoSuccessReturns(fn) {
		set := x.e.Prov(fn, ret.Results[0])
		var needs []need
		for _, a := range args {
			n := need{what: "parameter " + fn.Params[a.param].Name(), src: isParam(a.param), must: append([]string{rawLabel}, a.via...)}
			if hexed {
				n.must = append(n.must, x.lHex)
				n.allow = []string{x.lLower}
			}
			needs = append(needs, n)
		}
		bad, und := judge(set, needs, nil)
		x.verdict(c01R2, construct+" [result]", ret.Pos(), bad, und, "result is "+trim(set.String(), 200))
	}
}

func (x *c01) userSeg() segWant {
	return segWant{what: "EncodeUTF16LE(ToLower(username))"}
}

func (x *c01) r2dcc() {
	fFromNT := x.mod(cryDCC, "", "DCCHashFromNTHash")
	fFromPw := x.mod(cryDCC, "", "DCCHashFromPassword")
	fPwHex := x.mod(cryDCC, "", "DCCHashFromPasswordToHex")
	fNTHex := x.mod(cryDCC, "", "DCCHashFromNTHashToHex")
	fPwCat := x.mod(cryDCC, "", "DCCHashFromPasswordToHashcatString")
	fNTCat := x.mod(cryDCC, "", "DCCHashFromNTHashToHashcatString")
	for _, f := range []*ssa.Function{fFromNT, fFromPw, fPwHex, fNTHex} {
		x.label(f)
	}
	if fn := fFromNT; fn != nil {
		g := x.begin()
		for _, ret := range cryptoSuccessReturns(fn) {
			x.hashIs(fn, ret.Results[0], x.P.FuncName(fn)+": return = MD4(ntHash ‖ UTF16LE(lower(username)))", []segWant{
				{what: "ntHash", needs: []need{{what: "ntHash", src: isParam(0)}}},
				{what: "EncodeUTF16LE(ToLower(username))", needs: []need{{what: "username", src: isParam(1), must: []string{x.lLower, x.lEnc}}}},
			})
		}
		if !g.clean() {
			x.md4BySx(g, fn, x.P.FuncName(fn)+": return = MD4(ntHash ‖ UTF16LE(lower(username)))", 2, func(sx *flow.Sx) *flow.Tm {
				return flow.TmCat(paramTm(fn, 0), sx.TmApp(x.lEnc, sx.TmApp("strings.ToLower", paramTm(fn, 1))))
			})
		}
	}
	// DCCHashFromPassword(password, username) = DCCHashFromNTHash(NTHash(password), username)
	x.wrapper(fFromPw, fFromNT, []argWant{{param: 0, what: "NTHash(password)", via: []string{x.lNT}}, {param: 1, what: "username"}}, false)
	x.wrapper(fPwHex, fFromPw, []argWant{{param: 0, what: "password"}, {param: 1, what: "username"}}, true)
	x.wrapper(fNTHex, fFromNT, []argWant{{param: 0, what: "ntHash"}, {param: 1, what: "username"}}, true)
	// hashcat lines: Sprintf("%s:%s", hex, ToLower(username))
	for _, pair := range [][2]*ssa.Function{{fPwCat, fPwHex}, {fNTCat, fNTHex}} {
		fn, hexFn := pair[0], pair[1]
		if fn == nil || hexFn == nil {
			continue
		}
		name := x.P.FuncName(fn)
		g := x.begin()
		rawFn := fFromPw
		if fn == fNTCat {
			rawFn = fFromNT
		}
		args, call := x.sprintf(fn, c01R2, name, c01DCCFormat)
		if args == nil {
			if rawFn != nil {
				x.dccLineBySx(g, fn, rawFn)
			}
			continue
		}
		hl := x.e.Name(hexFn)
		set0 := x.e.Prov(fn, args[0])
		bad, und := judge(set0, []need{
			{what: "parameter " + fn.Params[0].Name(), src: isParam(0), must: []string{hl}},
			{what: "parameter username", src: isParam(1), must: []string{hl}},
		}, nil)
		x.verdict(c01R2, name+": Sprintf #1 = hex digest of the same arguments", call.Pos(), bad, und, trim(set0.String(), 160))
		set1 := x.e.Prov(fn, args[1])
		bad, und = judge(set1, []need{{what: "username", src: isParam(1), must: []string{x.lLower}}}, nil)
		x.verdict(c01R2, name+": Sprintf #2 = ToLower(username)", call.Pos(), bad, und, trim(set1.String(), 160))
		if !g.clean() && rawFn != nil {
			x.dccLineBySx(g, fn, rawFn)
		}
	}
}

// posser is what callers of sprintf need of the formatting site.
type posser interface{ Pos() token.Pos }

type posAt token.Pos

func (p posAt) Pos() token.Pos { return token.Pos(p) }

// sprintf finds the single fmt.Sprintf whose result the function returns and
// decodes its arguments; the format must be the spec constant. A line built by
// string concatenation instead ("a" + x + ":" + y, integers through
// strconv.Itoa / FormatInt(…, 10)) is decoded against the same format.
func (x *cry) sprintf(fn *ssa.Function, rule, name, format string) ([]ssa.Value, posser) {
	spf := x.ext("fmt", "Sprintf")
	calls := callsTo(fn, spf)
	construct := name + ": format"
	if len(calls) == 0 {
		if args, at, why := x.concatLine(fn, format); args != nil {
			x.R.OK(rule, construct, x.pos(at), fmt.Sprintf("string concatenation with the literal pieces of %q, %d arguments, returned as is", format, len(args)))
			return args, posAt(at)
		} else if why != "" {
			x.R.Undecided(rule, construct, x.pos(fn.Pos()), "no fmt.Sprintf call, and the returned string is not a concatenation in the shape of "+fmt.Sprintf("%q", format)+": "+why)
			return nil, nil
		}
	}
	if len(calls) != 1 {
		x.R.Undecided(rule, construct, x.pos(fn.Pos()), fmt.Sprintf("%d fmt.Sprintf calls, expected exactly one", len(calls)))
		return nil, nil
	}
	call := calls[0]
	k, ok := call.Call.Args[0].(*ssa.Const)
	if !ok || k.Value == nil || k.Value.Kind() != constant.String {
		x.R.Undecided(rule, construct, x.pos(call.Pos()), "format is not a constant")
		return nil, nil
	}
	if got := constant.StringVal(k.Value); got != format {
		x.R.Fail(rule, construct, x.pos(call.Pos()), fmt.Sprintf("format is %q, the line format is %q", got, format))
		return nil, nil
	}
	args, ok := flow.VarArgs(call.Call.Args[1])
	if !ok || len(args) != strings.Count(format, "%") {
		x.R.Undecided(rule, construct, x.pos(call.Pos()), "cannot decode the variadic arguments")
		return nil, nil
	}
	// the function returns this very string
	for _, ret := range cryptoSuccessReturns(fn) {
		if flow.Strip(ret.Results[0]) != ssa.Value(call) {
			x.R.Fail(rule, construct, x.pos(ret.Pos()), "the function returns "+flow.Expr(ret.Results[0])+", not the formatted line")
			return nil, nil
		}
	}
	x.R.OK(rule, construct, x.pos(call.Pos()), fmt.Sprintf("format %q, %d arguments, returned as is", format, len(args)))
	return args, call
}

// concatLine decodes `lit0 + a0 + lit1 + a1 + … + litn` against a format made
// of literal text and %s / %d verbs only.
func (x *cry) concatLine(fn *ssa.Function, format string) (args []ssa.Value, at token.Pos, why string) {
	var lits []string
	var verbs []byte
	cur := ""
	for i := 0; i < len(format); i++ {
		if format[i] == '%' && i+1 < len(format) && (format[i+1] == 's' || format[i+1] == 'd') {
			lits, verbs, cur = append(lits, cur), append(verbs, format[i+1]), ""
			i++
			continue
		}
		if format[i] == '%' {
			return nil, 0, "the format has a verb other than %s / %d"
		}
		cur += string(format[i])
	}
	lits = append(lits, cur)
	rets := cryptoSuccessReturns(fn)
	if len(rets) != 1 || len(rets[0].Results) == 0 {
		return nil, 0, "more than one successful return"
	}
	segs := x.e.Segs(rets[0].Results[0], nil)
	if len(segs) < 2 {
		return nil, 0, "the result " + flow.Expr(rets[0].Results[0]) + " is not a concatenation"
	}
	constOf := func(v ssa.Value) (string, bool) {
		k, ok := flow.Strip(v).(*ssa.Const)
		if !ok || k.Value == nil || k.Value.Kind() != constant.String {
			return "", false
		}
		return constant.StringVal(k.Value), true
	}
	pos := 0
	for k := 0; k <= len(verbs); k++ {
		acc := ""
		for pos < len(segs) && len(acc) < len(lits[k]) {
			c, ok := constOf(segs[pos].V)
			if !ok {
				break
			}
			acc += c
			pos++
		}
		if acc != lits[k] {
			return nil, 0, fmt.Sprintf("literal piece %d is %q, the format has %q there", k, acc, lits[k])
		}
		if k == len(verbs) {
			break
		}
		if pos >= len(segs) {
			return nil, 0, "the concatenation ends before all fields are written"
		}
		a := segs[pos].V
		pos++
		if verbs[k] == 'd' {
			c, ok := flow.Strip(a).(*ssa.Call)
			f := (*ssa.Function)(nil)
			if ok {
				f = c.Call.StaticCallee()
			}
			switch {
			case f != nil && f.String() == "strconv.Itoa" && len(c.Call.Args) == 1:
				a = c.Call.Args[0]
			case f != nil && (f.String() == "strconv.FormatInt" || f.String() == "strconv.FormatUint") && len(c.Call.Args) == 2:
				if b, isK := constI(c.Call.Args[1]); !isK || b != 10 {
					return nil, 0, "an integer field is not formatted in base 10"
				}
				a = c.Call.Args[0]
				if cv, isCv := a.(*ssa.Convert); isCv {
					a = cv.X
				}
			default:
				return nil, 0, "an integer field is not strconv.Itoa / FormatInt(·, 10) of a value"
			}
		}
		args = append(args, a)
	}
	if pos != len(segs) {
		return nil, 0, "the concatenation has more pieces than the format"
	}
	return args, rets[0].Pos(), ""
}

func (x *c01) r2dcc2() {
	fWithNT := x.mod(cryDCC2, "", "DCC2HashWithNTHash")
	fWithPw := x.mod(cryDCC2, "", "DCC2HashWithPassword")
	fHash := x.mod(cryDCC2, "", "DCC2Hash")
	x.label(fWithNT)
	x.label(fWithPw)
	pb := x.ext("golang.org/x/crypto/pbkdf2", "Key")
	sha := x.ext("crypto/sha1", "New")
	if fn := fWithNT; fn != nil && pb != nil {
		name := x.P.FuncName(fn)
		g := x.begin()
		x.dcc2Syn(fn, name, pb, sha)
		if !g.clean() {
			x.dcc2BySx(g, fn)
		}
	}
	// DCC2HashWithPassword(username, password, rounds) = DCC2HashWithNTHash(username, NTHash(password), rounds)
	x.wrapper(fWithPw, fWithNT, []argWant{{param: 0, what: "username"}, {param: 1, what: "NTHash(password)", via: []string{x.lNT}}, {param: 2, what: "rounds"}}, false)
	x.wrapper(fHash, fWithPw, []argWant{{param: 0, what: "username"}, {param: 1, what: "password"}, {param: 2, what: "rounds"}}, false)
}

// dcc2Syn is the shape recogniser for DCC2HashWithNTHash.
func (x *c01) dcc2Syn(fn *ssa.Function, name string, pb, sha *ssa.Function) {
	{
		calls := callsTo(fn, pb)
		if len(calls) != 1 {
			x.R.Fail(c01R2, name+": pbkdf2.Key", x.pos(fn.Pos()), fmt.Sprintf("%d calls to pbkdf2.Key, expected exactly one", len(calls)))
		} else {
			call := calls[0]
			a := call.Call.Args
			// #0 password = MD4(ntHash ‖ UTF16LE(lower(user)))
			d, _ := x.hashIs(fn, a[0], name+": pbkdf2.Key #0 = MD4(ntHash ‖ UTF16LE(lower(username)))", []segWant{
				{what: "ntHash", needs: []need{{what: "ntHash", src: isParam(1)}}},
				{what: "EncodeUTF16LE(ToLower(username))", needs: []need{{what: "username", src: isParam(0), must: []string{x.lLower, x.lEnc}}}},
			})
			// #1 salt
			set := x.e.Prov(fn, a[1])
			bad, und := judge(set, []need{{what: "username", src: isParam(0), must: []string{x.lLower, x.lEnc}}}, nil)
			okMsg := "salt is " + trim(set.String(), 160)
			if bad == "" && und == "" && d != nil && len(d.Input) == 2 {
				if flow.Strip(d.Input[1].V) == flow.Strip(a[1]) && len(d.Input[1].Wrap) == 0 {
					okMsg += "; the very value hashed after the NT hash"
				} else {
					okMsg += "; an identical composition of the same parameter as the value hashed after the NT hash"
				}
			}
			x.verdict(c01R2, name+": pbkdf2.Key #1 salt = UTF16LE(lower(username))", call.Pos(), bad, und, okMsg)
			// #2 iter
			if p, ok := flow.Strip(a[2]).(*ssa.Parameter); ok && paramIndex(fn, p) == 2 {
				x.R.OK(c01R2, name+": pbkdf2.Key #2 iter = rounds", x.pos(call.Pos()), "the rounds parameter itself")
			} else {
				x.R.Fail(c01R2, name+": pbkdf2.Key #2 iter = rounds", x.pos(call.Pos()), "iteration count is "+flow.Expr(a[2])+", not the rounds parameter")
			}
			// #3 keyLen
			if k, ok := constI(a[3]); ok && k == 16 {
				x.R.OK(c01R2, name+": pbkdf2.Key #3 keyLen = 16", x.pos(call.Pos()), "constant 16")
			} else {
				x.R.Fail(c01R2, name+": pbkdf2.Key #3 keyLen = 16", x.pos(call.Pos()), "key length is "+flow.Expr(a[3])+", MS-Cache v2 uses 16")
			}
			// #4 hash
			if f, ok := flow.Strip(a[4]).(*ssa.Function); ok && f == sha {
				x.R.OK(c01R2, name+": pbkdf2.Key #4 h = sha1.New", x.pos(call.Pos()), "crypto/sha1.New")
			} else {
				x.R.Fail(c01R2, name+": pbkdf2.Key #4 h = sha1.New", x.pos(call.Pos()), "PRF hash is "+flow.Expr(a[4])+", MS-Cache v2 uses HMAC-SHA1")
			}
			// the line
			if args, spc := x.sprintf(fn, c01R2, name, c01DCC2Format); args != nil {
				if p, ok := flow.Strip(args[0]).(*ssa.Parameter); ok && paramIndex(fn, p) == 2 {
					x.R.OK(c01R2, name+": Sprintf #1 = rounds", x.pos(spc.Pos()), "the rounds parameter")
				} else {
					x.R.Fail(c01R2, name+": Sprintf #1 = rounds", x.pos(spc.Pos()), "first field is "+flow.Expr(args[0]))
				}
				set1 := x.e.Prov(fn, args[1])
				bad, und := judge(set1, []need{{what: "username", src: isParam(0), allow: []string{x.lLower}}}, nil)
				x.verdict(c01R2, name+": Sprintf #2 = username", spc.Pos(), bad, und, trim(set1.String(), 120))
				// #3 = hex(the pbkdf2 result)
				if hc, _, ok := tupleResult(args[2], x.ext("encoding/hex", "EncodeToString")); ok && flow.Strip(hc.Call.Args[0]) == ssa.Value(call) {
					x.R.OK(c01R2, name+": Sprintf #3 = hex(pbkdf2 key)", x.pos(spc.Pos()), "hex.EncodeToString of the pbkdf2.Key result")
				} else {
					x.R.Fail(c01R2, name+": Sprintf #3 = hex(pbkdf2 key)", x.pos(spc.Pos()), "third field is "+flow.Expr(args[2])+", not hex.EncodeToString of the derived key")
				}
			}
		}
	}
}

func constI(v ssa.Value) (int64, bool) {
	k, ok := v.(*ssa.Const)
	if !ok || k.Value == nil || k.Value.Kind() != constant.Int {
		return 0, false
	}
	return constant.Int64Val(k.Value)
}

// ---- LM ------------------------------------------------------------------------

// lmLevel is one function on the static call path from LMHash down to the
// function that holds a DES chain (or builds its key); site is the call in the
// level above that enters fn (nil for LMHash itself).
type lmLevel struct {
	fn   *ssa.Function
	site *ssa.Call
}

type lmChain struct {
	levels []lmLevel     // levels[0] = LMHash; last = the function holding NewCipher/Encrypt
	cfn    *ssa.Function // = levels[last].fn
	newc   *ssa.Call     // des.NewCipher
	enc    *ssa.Call     // Encrypt
	key    ssa.Value     // key buffer (a value of cfn)
	dst    ssa.Value
	out    ssa.Value // the ciphertext as a value of LMHash
	outObj ssa.Value // in-place form: the 16-byte result buffer the ciphertext is a window of …
	outLo  int       // … starting here
	half   ssa.Value // the 7 bytes the key is spread from, lifted as far up as parameters allow
	halfLv int       // level half lives in (0 = LMHash)
	off    int       // first byte of half that is used
	str    ssa.Value // string case: the string the half is a window of
	obj    ssa.Value // buffer case: the fixed-size byte buffer the half is a window of
	lo, hi int       // window; hi == -1: open
	at     ssa.Instruction
}

func (c *lmChain) site() *ssa.Call {
	if len(c.levels) > 1 {
		return c.levels[1].site
	}
	return nil
}

func (c *lmChain) pos() token.Pos {
	if s := c.site(); s != nil {
		return s.Pos()
	}
	return c.newc.Pos()
}

// anchor: the instruction of LMHash at which the chain's inputs are consumed.
func (c *lmChain) anchor() ssa.Instruction {
	if s := c.site(); s != nil {
		return s
	}
	return c.newc
}

// liftVal follows parameters of levels[lv].fn up the call path while it can.
func liftVal(levels []lmLevel, lv int, v ssa.Value) (ssa.Value, int) {
	for lv > 0 {
		p, ok := flow.Strip(v).(*ssa.Parameter)
		if !ok {
			break
		}
		i := paramIndex(levels[lv].fn, p)
		if i < 0 || i >= len(levels[lv].site.Call.Args) {
			break
		}
		v = levels[lv].site.Call.Args[i]
		lv--
	}
	return flow.Strip(v), lv
}

// cipherKey resolves a cipher.Block value to the call that made it and the key
// it was given: des.NewCipher(key) directly, or a one-level in-module helper
// that returns des.NewCipher(its parameter).
func (x *c01) cipherKey(v ssa.Value) (*ssa.Call, ssa.Value, bool) {
	desNew := x.ext("crypto/des", "NewCipher")
	if c, i, ok := tupleResult(v, desNew); ok && i == 0 {
		return c, c.Call.Args[0], true
	}
	s := flow.Strip(v)
	if ex, ok := s.(*ssa.Extract); ok && ex.Index == 0 {
		s = ex.Tuple
	}
	hc, ok := s.(*ssa.Call)
	if !ok {
		return nil, nil, false
	}
	g := hc.Call.StaticCallee()
	if g == nil || g.Blocks == nil || !x.P.InModule(g) || x.opaque[g] {
		return nil, nil, false
	}
	pi := -1
	for _, gb := range g.Blocks {
		ret, isRet := gb.Instrs[len(gb.Instrs)-1].(*ssa.Return)
		if !isRet || len(ret.Results) == 0 {
			continue
		}
		if k, isK := ret.Results[0].(*ssa.Const); isK && k.Value == nil {
			continue
		}
		c, i, ok := tupleResult(ret.Results[0], desNew)
		if !ok || i != 0 {
			return nil, nil, false
		}
		p, isP := flow.Strip(c.Call.Args[0]).(*ssa.Parameter)
		if !isP || (pi >= 0 && pi != paramIndex(g, p)) {
			return nil, nil, false
		}
		pi = paramIndex(g, p)
	}
	if pi < 0 || pi >= len(hc.Call.Args) {
		return nil, nil, false
	}
	return hc, hc.Call.Args[pi], true
}

func (x *c01) directChains(fn *ssa.Function) []*lmChain {
	var out []*lmChain
	seen := map[*ssa.Call]*lmChain{}
	for _, enc := range invokes(fn, "Encrypt") {
		nc, key, ok := x.cipherKey(enc.Call.Value)
		if !ok {
			continue
		}
		if prev := seen[nc]; prev != nil {
			prev.enc = nil // one cipher, several Encrypt calls
			continue
		}
		ch := &lmChain{cfn: fn, newc: nc, key: key, enc: enc, lo: -2, levels: []lmLevel{{fn: fn}}}
		seen[nc] = ch
		out = append(out, ch)
	}
	return out
}

// lmChains: the DES chains of fn — inline, or down a path of in-module helpers
// each of which contains exactly one chain (so a helper called twice is two
// chains, one per call).
func (x *c01) lmChains(fn *ssa.Function) []*lmChain {
	out := x.lmChainsAt(fn, 0, map[*ssa.Function]bool{fn: true})
	sort.SliceStable(out, func(i, j int) bool { return out[i].pos() < out[j].pos() })
	return out
}

func (x *c01) lmChainsAt(fn *ssa.Function, depth int, busy map[*ssa.Function]bool) []*lmChain {
	out := x.directChains(fn)
	if depth >= 3 {
		return out
	}
	for _, b := range fn.Blocks {
		for _, in := range b.Instrs {
			call, ok := in.(*ssa.Call)
			if !ok {
				continue
			}
			g := call.Call.StaticCallee()
			if g == nil || busy[g] || g.Blocks == nil || !x.P.InModule(g) || x.opaque[g] {
				continue
			}
			busy[g] = true
			gc := x.lmChainsAt(g, depth+1, busy)
			delete(busy, g)
			if len(gc) != 1 {
				continue
			}
			ch := gc[0]
			ch.levels[0].site = call
			ch.levels = append([]lmLevel{{fn: fn}}, ch.levels...)
			out = append(out, ch)
		}
	}
	return out
}

// fixedBuf: v is a fresh local buffer of n bytes (make([]byte, n) or a window of
// a local [n]byte).
func fixedBuf(v ssa.Value, n int) bool {
	if flow.StaticLen(v) != n {
		return false
	}
	switch y := v.(type) {
	case *ssa.MakeSlice:
		return true
	case *ssa.Slice:
		_, ok := y.X.(*ssa.Alloc)
		return ok
	}
	return false
}

// keyBuilder locates the function in which the 8-byte key buffer is filled:
// the chain's own function, or an in-module helper that returns the buffer.
func (x *c01) keyBuilder(ch *lmChain) (levels []lmLevel, buf ssa.Value, before []ssa.Instruction) {
	v := flow.Strip(ch.key)
	if fixedBuf(v, 8) {
		return ch.levels, v, []ssa.Instruction{ch.newc}
	}
	s := v
	if ex, ok := s.(*ssa.Extract); ok && ex.Index == 0 {
		s = ex.Tuple
	}
	call, ok := s.(*ssa.Call)
	if !ok {
		return nil, nil, nil
	}
	g := call.Call.StaticCallee()
	if g == nil || g.Blocks == nil || !x.P.InModule(g) || x.opaque[g] {
		return nil, nil, nil
	}
	for _, ret := range cryptoSuccessReturns(g) {
		if len(ret.Results) == 0 {
			return nil, nil, nil
		}
		r := flow.Strip(ret.Results[0])
		if buf != nil && r != buf {
			return nil, nil, nil
		}
		buf = r
		before = append(before, ret)
	}
	if buf == nil || !fixedBuf(buf, 8) {
		return nil, nil, nil
	}
	return append(append([]lmLevel{}, ch.levels...), lmLevel{fn: g, site: call}), buf, before
}

func (x *c01) r2lmSyn() {
	fn := x.fLMHash
	if fn == nil {
		return
	}
	name := x.P.FuncName(fn)
	chains := x.lmChains(fn)
	if len(chains) != 2 {
		x.R.Fail(c01R2, name+": two DES keys", x.pos(fn.Pos()), fmt.Sprintf("%d des.NewCipher chains, LM uses exactly two", len(chains)))
		return
	}
	// R4 first: it tells which half each key is spread from
	for i, ch := range chains {
		x.keySpread(fn, ch, i+1)
	}
	for i, ch := range chains {
		tag := fmt.Sprintf("%s: DES key %d", name, i+1)
		// provenance: only the password, always through ToUpper
		keyAllow := []string{x.lRepeat, "len", "slice[:14]", "slice[:7]", "slice[7:]", "slice[7:14]", "slice[0:7]", "slice[:8]", "slice[0:14]"}
		pc := tag + " ← password through ToUpper only"
		top := need{what: "password", src: isParam(0), must: []string{x.lUpper}, allow: keyAllow}
		blevels, _, _ := x.keyBuilder(ch)
		if blevels == nil {
			blevels = ch.levels
		}
		if len(blevels) == 1 {
			set := x.e.Prov(fn, ch.key)
			bad, und := judge(set, []need{top}, constsOnly)
			x.verdict(c01R2, pc, ch.pos(), bad, und, trim(set.String(), 200))
		} else {
			// in each helper on the way the value derives only from one parameter; at
			// LMHash's call that parameter receives the upper-cased password
			var bad, und string
			var via []string
			lv := len(blevels) - 1
			var v ssa.Value
			if lv == len(ch.levels) {
				// key built in a helper: start from the buffer it returns
				_, v, _ = x.keyBuilder(ch)
			} else {
				v = ch.key
			}
			for ; lv > 0 && bad == "" && und == ""; lv-- {
				f := blevels[lv].fn
				via = append(via, x.P.FuncName(f))
				set := x.e.Prov(f, v)
				pi := -1
				for o := range set {
					if o.Src.Kind == flow.SParam {
						pi = o.Src.Idx
					}
				}
				if pi < 0 || pi >= len(blevels[lv].site.Call.Args) {
					und = "the key material in helper " + x.P.FuncName(f) + " does not derive from one of its parameters"
					break
				}
				bad, und = judge(set, []need{{what: "the helper's key-material parameter", src: isParam(pi), allow: keyAllow}}, constsOnly)
				v = blevels[lv].site.Call.Args[pi]
			}
			if bad == "" && und == "" {
				cs := x.e.Prov(fn, v)
				bad, und = judge(cs, []need{top}, constsOnly)
			}
			x.verdict(c01R2, pc, ch.pos(), bad, und, "through helper(s) "+strings.Join(via, " ← "))
		}
		// window
		wantLo, wantHi := 7*i, 7*i+7
		wc := fmt.Sprintf("%s is spread from password[%d:%d]", tag, wantLo, wantHi)
		switch {
		case ch.half == nil:
			x.R.Undecided(c01R2, wc, x.pos(ch.pos()), "the key bytes could not be traced to one 7-byte source (see "+c01R4+")")
		case ch.str == nil && ch.obj == nil:
			x.R.Undecided(c01R2, wc, x.pos(ch.pos()), "the key source "+flow.Expr(ch.half)+" is not a constant window of the padded password (a []byte conversion of a string window, or a window of a fixed 14-byte buffer)")
		case ch.lo != wantLo || (ch.hi != wantHi && !(ch.hi == -1 && i == 1)):
			hi := fmt.Sprint(ch.hi)
			if ch.hi == -1 {
				hi = ""
			}
			src := ch.str
			if src == nil {
				src = ch.obj
			}
			x.R.Fail(c01R2, wc, x.pos(ch.pos()), fmt.Sprintf("key %d is spread from %s[%d:%s]; LM uses bytes %d..%d of the padded password for key %d (halves swapped or mis-cut)", i+1, flow.Expr(src), ch.lo, hi, wantLo, wantHi-1, i+1))
		case ch.str != nil:
			x.R.OK(c01R2, wc, x.pos(ch.pos()), "window of "+flow.Expr(ch.str))
		default:
			x.R.OK(c01R2, wc, x.pos(ch.pos()), "window of the buffer "+flow.Expr(ch.obj))
		}
		// Encrypt(dst, magic)
		ec := tag + ": Encrypt(fresh 8-byte buffer, \"KGS!@#$%\")"
		if ch.enc == nil {
			x.R.Fail(c01R2, ec, x.pos(ch.pos()), "the cipher is not used by exactly one Encrypt call")
			continue
		}
		ch.dst = ch.enc.Call.Args[0]
		// the ciphertext as a value of LMHash: the destination itself, or the result
		// of the helper call(s) that return it
		{
			v := flow.Strip(ch.dst)
			okRet := true
			for lv := len(ch.levels) - 1; lv > 0 && okRet; lv-- {
				for _, ret := range cryptoSuccessReturns(ch.levels[lv].fn) {
					if len(ret.Results) == 0 || flow.Strip(ret.Results[0]) != v {
						okRet = false
					}
				}
				v = ch.levels[lv].site
			}
			if okRet {
				ch.out = v
			}
		}
		dstOK := flow.StaticLen(ch.dst) == 8
		// in-place form: the destination is an 8-byte window of LMHash's 16-byte result
		if root, lo, _, ok := bufRoot(flow.Strip(ch.dst)); ok && len(ch.levels) == 1 && dstOK && objLen(root) == 16 {
			ch.outObj, ch.outLo = root, lo
		}
		if b, ok := x.e.ConstBytesRO(ch.enc.Call.Args[1]); !ok {
			why := "plaintext " + flow.Expr(ch.enc.Call.Args[1]) + " is not a constant that nothing writes"
			if gw := globalWriterOf(x.e, ch.enc.Call.Args[1]); gw != "" {
				// a write to the variable outside its initialiser was seen
				x.positively(ec, ec, x.pos(ch.enc.Pos()), report.Undecided, why+": "+gw)
			} else {
				x.R.Undecided(ec, ec, x.pos(ch.enc.Pos()), why)
			}
		} else if string(b) != c01Magic {
			x.R.Fail(c01R2, ec, x.pos(ch.enc.Pos()), fmt.Sprintf("plaintext is %q, the LM magic constant is %q", string(b), c01Magic))
		} else if !dstOK {
			x.R.Fail(c01R2, ec, x.pos(ch.enc.Pos()), "destination "+flow.Expr(ch.dst)+" is not an 8-byte buffer")
		} else if ch.out == nil {
			x.R.Fail(c01R2, ec, x.pos(ch.enc.Pos()), "helper "+x.P.FuncName(ch.cfn)+" does not return the Encrypt destination")
		} else {
			x.R.OK(c01R2, ec, x.pos(ch.enc.Pos()), "plaintext is the magic constant, destination is 8 bytes")
		}
	}
	// both halves are windows of the same 14-byte string
	sc := name + ": both halves are cut from one string of length 14"
	switch {
	case chains[0].str != nil && chains[1].str != nil:
		if chains[0].str != chains[1].str {
			x.R.Fail(c01R2, sc, x.pos(fn.Pos()), "the halves are windows of different strings: "+flow.Expr(chains[0].str)+" and "+flow.Expr(chains[1].str))
		} else {
			S := chains[0].str
			at := chains[0].at
			fi := x.w.Info(fn)
			cx := fi.CtxBefore(at)
			ge := lenBound(fi, S, cx, func(l lin.Form) lin.Con { return lin.GE(l, lin.K(14)) }, 0)
			le := lenBound(fi, S, cx, func(l lin.Form) lin.Con { return lin.LE(l, lin.K(14)) }, 0)
			switch {
			case ge && le:
				x.R.OK(c01R2, sc, x.pos(at.Pos()), "len = 14 proved on every path (truncate when longer, NUL-pad when shorter)")
			case !le:
				x.R.Fail(c01R2, sc, x.pos(at.Pos()), "the password is not truncated to 14 bytes on every path (len ≤ 14 is not entailed where the halves are cut)")
			default:
				x.R.Fail(c01R2, sc, x.pos(at.Pos()), "the password is not padded to 14 bytes on every path (len ≥ 14 is not entailed where the halves are cut)")
			}
			// the pad byte is NUL
			x.lmPad(fn, S)
		}
	case chains[0].obj != nil && chains[1].obj != nil:
		if chains[0].obj != chains[1].obj {
			x.R.Fail(c01R2, sc, x.pos(fn.Pos()), "the halves are windows of different buffers: "+flow.Expr(chains[0].obj)+" and "+flow.Expr(chains[1].obj))
		} else {
			x.lmBuffer(fn, chains[0].obj, sc, []ssa.Instruction{chains[0].anchor(), chains[1].anchor()})
		}
	case (chains[0].str != nil || chains[0].obj != nil) && (chains[1].str != nil || chains[1].obj != nil):
		x.R.Fail(c01R2, sc, x.pos(fn.Pos()), "one half is cut from a string and the other from a byte buffer: they are not windows of one padded password")
	}
	// result = dst1 ‖ dst2
	rc := name + ": return = Encrypt(key1) ‖ Encrypt(key2)"
	for _, ret := range cryptoSuccessReturns(fn) {
		// in-place: both ciphertexts are windows [0:8] and [8:16] of the returned buffer
		if o := chains[0].outObj; o != nil && o == chains[1].outObj {
			rv := flow.Strip(ret.Results[0])
			if root, lo, _, ok := bufRoot(rv); ok && lo == 0 && flow.StaticLen(rv) == 16 {
				rv = root
			}
			extra := ""
			for _, w := range x.e.WritersOf(fn, o) {
				if w != ssa.Instruction(chains[0].enc) && w != ssa.Instruction(chains[1].enc) {
					extra = flow.Expr(o) + " is also written by an instruction other than the two Encrypt calls"
				}
			}
			switch {
			case rv != o:
				x.R.Fail(c01R2, rc, x.pos(ret.Pos()), "the result is "+flow.Expr(ret.Results[0])+", not the buffer the two ciphertexts are written into")
			case extra != "":
				x.R.Undecided(c01R2, rc, x.pos(ret.Pos()), extra)
			case chains[0].outLo == 0 && chains[1].outLo == 8:
				x.R.OK(c01R2, rc, x.pos(ret.Pos()), "ciphertext of the first half at [0:8], of the second at [8:16] of the returned buffer")
			case chains[0].outLo == 8 && chains[1].outLo == 0:
				x.R.Fail(c01R2, rc, x.pos(ret.Pos()), "the two ciphertexts are concatenated in the wrong order (second half first)")
			default:
				x.R.Fail(c01R2, rc, x.pos(ret.Pos()), fmt.Sprintf("the ciphertexts are written at offsets %d and %d of the result, not 0 and 8", chains[0].outLo, chains[1].outLo))
			}
			continue
		}
		segs := x.e.Segs(ret.Results[0], nil)
		if len(segs) != 2 || chains[0].out == nil || chains[1].out == nil {
			x.R.Fail(c01R2, rc, x.pos(ret.Pos()), fmt.Sprintf("the result has %d segment(s), LM is the 8-byte ciphertext of the first half followed by that of the second", len(segs)))
			continue
		}
		a, b := flow.Strip(segs[0].V), flow.Strip(segs[1].V)
		switch {
		case a == flow.Strip(chains[0].out) && b == flow.Strip(chains[1].out):
			x.R.OK(c01R2, rc, x.pos(ret.Pos()), "ciphertext of the first half, then of the second")
		case a == flow.Strip(chains[1].out) && b == flow.Strip(chains[0].out):
			x.R.Fail(c01R2, rc, x.pos(ret.Pos()), "the two ciphertexts are concatenated in the wrong order (second half first)")
		default:
			x.R.Fail(c01R2, rc, x.pos(ret.Pos()), "the result is "+flow.Expr(segs[0].V)+" ‖ "+flow.Expr(segs[1].V)+", not the two Encrypt destinations")
		}
	}
}

// objLen: the fixed length of a local byte buffer (a [n]byte cell or make([]byte, n)).
func objLen(v ssa.Value) int {
	switch y := v.(type) {
	case *ssa.Alloc:
		if a, ok := y.Type().Underlying().(*types.Pointer).Elem().Underlying().(*types.Array); ok {
			return int(a.Len())
		}
	case *ssa.MakeSlice:
		if n, ok := constI(y.Len); ok {
			return int(n)
		}
	}
	return -1
}

// bufRoot peels constant windows off a byte-slice value down to the local
// buffer it views: root is a [n]byte cell or a make([]byte, n) of non-constant
// n; off is where the view starts in it and lim where it ends (-1: open).
func bufRoot(v ssa.Value) (root ssa.Value, off, lim int, ok bool) {
	lim = -1
	for d := 0; d < 8; d++ {
		switch y := v.(type) {
		case *ssa.Alloc:
			if n := objLen(y); n >= 0 {
				if lim < 0 || lim > n {
					lim = n
				}
				return y, off, lim, true
			}
			return nil, 0, 0, false
		case *ssa.MakeSlice:
			return y, off, lim, true
		case *ssa.Slice:
			lo, isK := sliceLow(y)
			if !isK || y.Max != nil {
				return nil, 0, 0, false
			}
			// bounds are relative to the operand: outer offsets accumulate
			if y.High != nil {
				k, isK := constI(y.High)
				if !isK {
					return nil, 0, 0, false
				}
				// this window ends at k of the operand; translate what we have so far
				if lim < 0 || lim > int(k)-lo {
					lim = int(k) - lo
				}
			}
			// off/lim so far are relative to this slice's start; shift into the operand
			off += lo
			if lim >= 0 {
				lim += lo
			}
			v = y.X
			continue
		}
		return nil, 0, 0, false
	}
	return nil, 0, 0, false
}

func sliceLow(s *ssa.Slice) (int, bool) {
	if s.Low == nil {
		return 0, true
	}
	k, ok := constI(s.Low)
	return int(k), ok
}

// lmBuffer: the padded password is a fixed 14-byte local buffer. It is
// zero-initialised; it must be written by exactly one copy(buf[0:], upper) that
// precedes both uses (copy stops at 14 bytes = truncation, the untouched tail
// stays NUL = padding).
func (x *c01) lmBuffer(fn *ssa.Function, obj ssa.Value, sc string, uses []ssa.Instruction) {
	pc := x.P.FuncName(fn) + ": pad byte"
	n := objLen(obj)
	if n != 14 {
		x.R.Fail(c01R2, sc, x.pos(obj.Pos()), fmt.Sprintf("the padded password is a %d-byte buffer, LM pads/truncates to 14", n))
		return
	}
	var cp *ssa.Call
	other := ""
	for _, w := range x.e.WritersOf(fn, obj) {
		c, isC := w.(*ssa.Call)
		if isC {
			if bi, isB := c.Call.Value.(*ssa.Builtin); isB && bi.Name() == "copy" && cp == nil {
				cp = c
				continue
			}
		}
		other = fmt.Sprintf("the buffer is also written by %s", strings.TrimSpace(w.String()))
	}
	switch {
	case cp == nil:
		x.R.Fail(c01R2, sc, x.pos(obj.Pos()), "nothing copies the password into the 14-byte buffer")
		return
	case other != "":
		x.R.Undecided(c01R2, pc, x.pos(obj.Pos()), other+"; the bytes the password does not cover may no longer be NUL")
		return
	}
	off := -1
	if root, o, _, ok := bufRoot(flow.Strip(cp.Call.Args[0])); ok && root == obj {
		off = o
	}
	early := true
	for _, u := range uses {
		if !flow.Dominates(cp, u) || flow.InLoop(cp) {
			early = false
		}
	}
	switch {
	case off != 0:
		x.R.Fail(c01R2, sc, x.pos(cp.Pos()), "the password is not copied to the start of the 14-byte buffer (destination "+flow.Expr(cp.Call.Args[0])+")")
	case !early:
		x.R.Fail(c01R2, sc, x.pos(cp.Pos()), "the copy of the password into the buffer does not precede both key derivations on every path")
	default:
		x.R.OK(c01R2, sc, x.pos(cp.Pos()), "a 14-byte buffer; copy stops after 14 bytes (truncate when longer) and leaves the zero-initialised tail (NUL-pad when shorter)")
		x.R.OK(c01R2, pc, x.pos(obj.Pos()), "zero-initialised buffer written by that copy only: pads with NUL bytes")
	}
}

// lenBound proves a bound on len(v) in context cx; a φ the dominating facts do
// not settle is re-posed for each incoming value in the context of its edge
// (nested joins, which prove.Ctx.Prove does one level deep only).
func lenBound(fi *prove.FuncInfo, v ssa.Value, cx *prove.Ctx, mk func(lin.Form) lin.Con, depth int) bool {
	if cx.Prove(mk(cx.LenOf(v))) {
		return true
	}
	phi, ok := v.(*ssa.Phi)
	if !ok || depth > 4 {
		return false
	}
	for i, pred := range phi.Block().Preds {
		if phi.Edges[i] == v {
			return false
		}
		if !lenBound(fi, phi.Edges[i], fi.CtxEdge(pred, phi.Block()), mk, depth+1) {
			return false
		}
	}
	return true
}

// lmPad: every strings.Repeat on the way to S repeats the NUL byte.
func (x *c01) lmPad(fn *ssa.Function, S ssa.Value) {
	rep := x.ext("strings", "Repeat")
	for _, c := range callsTo(fn, rep) {
		pc := x.P.FuncName(fn) + ": pad byte"
		if k, ok := c.Call.Args[0].(*ssa.Const); ok && k.Value != nil && k.Value.Kind() == constant.String && constant.StringVal(k.Value) == "\x00" {
			x.R.OK(c01R2, pc, x.pos(c.Pos()), "pads with NUL bytes")
		} else {
			x.R.Fail(c01R2, pc, x.pos(c.Pos()), "pads with "+flow.Expr(c.Call.Args[0])+", LM pads the password with NUL bytes")
		}
	}
}

// ---- R4: 7 → 8 byte key spreading ---------------------------------------------

// keyStores collects, for an 8-byte key buffer value, the single store into
// each constant index; every store must precede each instruction of `before`.
func keyStores(buf ssa.Value, before []ssa.Instruction) (map[int]*ssa.Store, string) {
	out := map[int]*ssa.Store{}
	var roots []ssa.Value
	roots = append(roots, buf)
	if s, ok := buf.(*ssa.Slice); ok {
		roots = append(roots, s.X)
	}
	for _, root := range roots {
		refs := root.Referrers()
		if refs == nil {
			continue
		}
		for _, r := range *refs {
			ia, ok := r.(*ssa.IndexAddr)
			if !ok {
				continue
			}
			idx, isK := constI(ia.Index)
			for _, rr := range *ia.Referrers() {
				st, ok := rr.(*ssa.Store)
				if !ok || st.Addr != ssa.Value(ia) {
					continue
				}
				if !isK {
					return nil, "a key byte is stored at a non-constant index"
				}
				if out[int(idx)] != nil {
					return nil, fmt.Sprintf("key byte %d is stored more than once", idx)
				}
				for _, bf := range before {
					if flow.InLoop(st) || !flow.Dominates(st, bf) {
						return nil, fmt.Sprintf("the store to key byte %d does not precede des.NewCipher on every path", idx)
					}
				}
				out[int(idx)] = st
			}
		}
	}
	return out, ""
}

// stableBytes: the bytes of base do not change while the key is spread from
// them: nothing in fn writes them, or every write precedes `at` on every path.
func (x *c01) stableBytes(fn *ssa.Function, base ssa.Value, at ssa.Instruction) bool {
	if x.e.ReadOnly(base) {
		return true
	}
	root, _, _, ok := bufRoot(base)
	if !ok {
		return false
	}
	for _, w := range x.e.WritersOf(fn, root) {
		if flow.InLoop(w) || !flow.Dominates(w, at) {
			return false
		}
	}
	return true
}

func (x *c01) keySpread(top *ssa.Function, ch *lmChain, n int) {
	name := x.P.FuncName(top)
	blevels, keyV, before := x.keyBuilder(ch)
	if keyV == nil {
		x.R.Undecided(c01R4, fmt.Sprintf("%s: DES key %d", name, n), x.pos(ch.newc.Pos()), "the key "+flow.Expr(ch.key)+" is not a fixed 8-byte buffer built in this function or returned by an in-module helper that builds it")
		return
	}
	fn := blevels[len(blevels)-1].fn
	stores, why := keyStores(keyV, before)
	if stores == nil {
		x.R.Undecided(c01R4, fmt.Sprintf("%s: DES key %d", name, n), x.pos(ch.newc.Pos()), why)
		return
	}
	srcs := map[ssa.Value]int{}
	var srcList []ssa.Value
	an := &lanes.Analyzer{InModule: x.P.InModule}
	an.Leaf = func(f *lanes.Frame, v ssa.Value) (lanes.Vec, bool) {
		u, ok := v.(*ssa.UnOp)
		if !ok || u.Op != token.MUL {
			return nil, false
		}
		ia, ok := u.X.(*ssa.IndexAddr)
		if !ok {
			return nil, false
		}
		idx, ok := constI(ia.Index)
		if !ok {
			return nil, false
		}
		base := flow.Strip(ia.X)
		switch b := base.(type) {
		case *ssa.Convert, *ssa.Parameter, *ssa.Alloc, *ssa.MakeSlice:
		case *ssa.Slice:
			// a constant window of a local buffer
			if _, _, _, ok := bufRoot(b); !ok {
				return nil, false
			}
		default:
			return nil, false
		}
		if !x.stableBytes(fn, base, u) {
			return nil, false
		}
		id, ok := srcs[base]
		if !ok {
			id = len(srcList)
			srcs[base] = id
			srcList = append(srcList, base)
		}
		return lanes.SrcByte(id, int(idx)), true
	}
	fr := an.Root(fn)
	// the half may start at a byte offset of its source (key 2 read from bytes 7..13
	// of one buffer): the offset is where bit 7 of key byte 0 comes from
	off, src0 := 0, 0
	if st := stores[0]; st != nil {
		if vec := fr.Lanes(st.Val); len(vec) == 8 && vec[7].K == lanes.Src && vec[7].B == 7 {
			off, src0 = vec[7].I, vec[7].S
		}
	}
	for k := 0; k < 8; k++ {
		construct := fmt.Sprintf("%s: DES key %d byte %d", name, n, k)
		st := stores[k]
		if st == nil {
			x.R.Fail(c01R4, construct, x.pos(ch.newc.Pos()), "this key byte is never stored (stays 0): 7 bits of the half are dropped")
			continue
		}
		vec := fr.Lanes(st.Val)
		if len(vec) != 8 {
			x.R.Undecided(c01R4, construct, x.pos(st.Pos()), "stored value is not a byte")
			continue
		}
		bad := ""
		for b := 7; b >= 1; b-- {
			sbit := 7*k + (7 - b) // stream bit number, 0 = most significant bit of byte 0
			wi, wb := sbit/8, 7-sbit%8
			got := vec[b]
			if got.K == lanes.Top {
				x.R.Undecided(c01R4, construct, x.pos(st.Pos()), fmt.Sprintf("bit %d is not a pure bit movement the lane domain can follow: %s", b, strings.Join(an.Why, "; ")))
				bad = "-"
				break
			}
			if got.K != lanes.Src || got.S != src0 || got.I != wi+off || got.B != wb {
				bad = fmt.Sprintf("bit %d holds %s, the DES key schedule (str_to_key) needs bit %d of half byte %d there (stream bit %d)", b, laneStr(got), wb, wi, sbit)
				break
			}
		}
		switch bad {
		case "":
			x.R.OK(c01R4, construct, x.pos(st.Pos()), fmt.Sprintf("bits 7..1 = stream bits %d..%d of the 7-byte half; bit 0 (parity) unconstrained", 7*k, 7*k+6))
		case "-":
		default:
			x.R.Fail(c01R4, construct, x.pos(st.Pos()), bad)
		}
	}
	if src0 >= len(srcList) {
		return
	}
	// the half all constrained bits come from, lifted to LMHash through parameters
	ch.off = off
	ch.half, ch.halfLv = liftVal(blevels, len(blevels)-1, srcList[src0])
	if ch.halfLv != 0 {
		return
	}
	switch h := ch.half.(type) {
	case *ssa.Convert:
		if b, isB := h.X.Type().Underlying().(*types.Basic); !isB || b.Info()&types.IsString == 0 {
			return
		}
		if sl, ok := h.X.(*ssa.Slice); ok {
			lo, hi, okB := 0, -1, true
			if sl.Low != nil {
				k, ok := constI(sl.Low)
				lo, okB = int(k), okB && ok
			}
			if sl.High != nil {
				k, ok := constI(sl.High)
				hi, okB = int(k), okB && ok
			}
			if okB {
				ch.str, ch.lo, ch.hi, ch.at = sl.X, lo, hi, sl
				if off != 0 {
					ch.lo, ch.hi = lo+off, lo+off+7
					if hi >= 0 && ch.hi > hi {
						ch.hi = hi + 1000 // reads past the window: reported as mis-cut
					}
				}
			}
		} else {
			ch.str, ch.lo, ch.hi, ch.at = h.X, off, off+7, h
		}
	case *ssa.Slice, *ssa.Alloc, *ssa.MakeSlice:
		// the seven bytes used are [o+off, o+off+7) of the buffer the view starts at o of
		if root, o, lim, ok := bufRoot(h); ok {
			ch.obj, ch.lo, ch.hi, ch.at = root, o+off, o+off+7, ch.anchor()
			if lim >= 0 && ch.hi > lim {
				ch.hi = lim // the view is shorter than the seven bytes read: reported as mis-cut
			}
		}
	}
}

func laneStr(b lanes.Bit) string {
	switch b.K {
	case lanes.Zero:
		return "constant 0"
	case lanes.One:
		return "constant 1"
	case lanes.Src:
		return fmt.Sprintf("bit %d of byte %d of source %d", b.B, b.I, b.S)
	}
	return "⊤"
}

// ---- R3: UTF-16LE lanes ----------------------------------------------------------

// affine parses an int index into mul·base + add.
func affine(v ssa.Value, stop ...ssa.Value) (base ssa.Value, mul, add int64) {
	for _, st := range stop {
		if st != nil && v == st {
			return v, 1, 0
		}
	}
	switch x := v.(type) {
	case *ssa.Const:
		if k, ok := constI(x); ok {
			return nil, 0, k
		}
	case *ssa.BinOp:
		kx, okx := constI(x.X)
		ky, oky := constI(x.Y)
		switch x.Op {
		case token.ADD:
			if oky {
				b, m, a := affine(x.X, stop...)
				return b, m, a + ky
			}
			if okx {
				b, m, a := affine(x.Y, stop...)
				return b, m, a + kx
			}
		case token.OR:
			if oky && ky == 1 {
				b, m, a := affine(x.X, stop...)
				if m%2 == 0 && a%2 == 0 {
					return b, m, a + 1
				}
			}
		case token.MUL:
			if oky {
				b, m, a := affine(x.X, stop...)
				return b, m * ky, a * ky
			}
			if okx {
				b, m, a := affine(x.Y, stop...)
				return b, m * kx, a * kx
			}
		case token.SHL:
			if oky && ky >= 0 && ky < 32 {
				b, m, a := affine(x.X, stop...)
				return b, m << uint(ky), a << uint(ky)
			}
		}
	}
	return v, 1, 0
}

// counted: index value I runs over 0..len(over)-1 with stride `stride`
// (range loop or classic for loop), and the body executes for each.
func counted(I ssa.Value, bodyBlock *ssa.BasicBlock) (over ssa.Value, stride int64, slack int64, ok bool) {
	// rotated form (range over an int): the test sits before the loop and at the
	// end of the body: i = φ[0, i+1]; `0 < n` guards the entry, `i+1 < n` the back edge
	if phi, isPhi := I.(*ssa.Phi); isPhi {
		if bound, okR := rotatedLoop(phi); okR && (phi.Block() == bodyBlock || phi.Block().Dominates(bodyBlock)) {
			if lc, isC := bound.(*ssa.Call); isC {
				if b, isB := lc.Call.Value.(*ssa.Builtin); isB && b.Name() == "len" {
					return lc.Call.Args[0], 1, 0, true
				}
			}
			return nil, 0, 0, false
		}
	}
	// range form: I = φ+1, φ = [-1, I]; cond I < len(over)
	// for form:   I = φ,   φ = [0, φ+stride]; cond φ(+slack) < len(over)
	var phi *ssa.Phi
	rangeForm := false
	switch y := I.(type) {
	case *ssa.Phi:
		phi = y
	case *ssa.BinOp:
		if p, isPhi := y.X.(*ssa.Phi); isPhi && y.Op == token.ADD {
			if k, ok := constI(y.Y); ok && k == 1 {
				phi, rangeForm = p, true
			}
		}
	}
	if phi == nil || len(phi.Edges) != 2 {
		return nil, 0, 0, false
	}
	var init int64
	var next ssa.Value
	found := false
	for i, e := range phi.Edges {
		if k, ok := constI(e); ok {
			init, next, found = k, phi.Edges[1-i], true
		}
	}
	if !found {
		return nil, 0, 0, false
	}
	if rangeForm {
		if init != -1 || next != I {
			return nil, 0, 0, false
		}
		stride = 1
	} else {
		nb, ok := next.(*ssa.BinOp)
		if !ok || nb.Op != token.ADD || nb.X != ssa.Value(phi) || init != 0 {
			return nil, 0, 0, false
		}
		k, ok := constI(nb.Y)
		if !ok || k < 1 {
			return nil, 0, 0, false
		}
		stride = k
	}
	// loop condition in the φ's block
	hb := phi.Block()
	iff, ok := hb.Instrs[len(hb.Instrs)-1].(*ssa.If)
	if !ok {
		return nil, 0, 0, false
	}
	cmp, ok := iff.Cond.(*ssa.BinOp)
	if !ok || cmp.Op != token.LSS || hb.Succs[0] != bodyBlock {
		return nil, 0, 0, false
	}
	lb, lm, la := affine(cmp.X)
	if lm != 1 {
		return nil, 0, 0, false
	}
	if rangeForm {
		if cmp.X != I {
			return nil, 0, 0, false
		}
	} else if lb != ssa.Value(phi) {
		return nil, 0, 0, false
	}
	if !rangeForm {
		slack = la
	}
	lc, ok := cmp.Y.(*ssa.Call)
	if !ok {
		return nil, 0, 0, false
	}
	if b, isB := lc.Call.Value.(*ssa.Builtin); !isB || b.Name() != "len" {
		return nil, 0, 0, false
	}
	return lc.Call.Args[0], stride, slack, true
}

// rotatedLoop: phi = [0 on entry, phi+1 on the back edge] of a loop whose test
// `· < bound` is evaluated on 0 before the loop is entered and on phi+1 at the
// end of the body (the shape go/ssa gives `for i := range n`): phi runs over
// 0..bound-1 and the body executes for each value.
func rotatedLoop(phi *ssa.Phi) (bound ssa.Value, ok bool) {
	if len(phi.Edges) != 2 {
		return nil, false
	}
	hb := phi.Block()
	var next *ssa.BinOp
	var entry *ssa.BasicBlock
	for i, e := range phi.Edges {
		if k, isK := constI(e); isK && k == 0 {
			entry = hb.Preds[i]
			next, _ = phi.Edges[1-i].(*ssa.BinOp)
		}
	}
	if entry == nil || next == nil || next.Op != token.ADD || next.X != ssa.Value(phi) {
		return nil, false
	}
	if k, isK := constI(next.Y); !isK || k != 1 {
		return nil, false
	}
	test := func(b *ssa.BasicBlock, lhs func(ssa.Value) bool) (ssa.Value, bool) {
		if len(b.Instrs) == 0 {
			return nil, false
		}
		iff, isIf := b.Instrs[len(b.Instrs)-1].(*ssa.If)
		if !isIf || b.Succs[0] != hb {
			return nil, false
		}
		cmp, isB := iff.Cond.(*ssa.BinOp)
		if !isB || cmp.Op != token.LSS || !lhs(cmp.X) {
			return nil, false
		}
		return cmp.Y, true
	}
	b0, ok0 := test(entry, func(v ssa.Value) bool { k, isK := constI(v); return isK && k == 0 })
	b1, ok1 := test(next.Block(), func(v ssa.Value) bool { return v == ssa.Value(next) })
	if !ok0 || !ok1 {
		return nil, false
	}
	if b0 != b1 {
		k0, isK0 := constI(b0)
		k1, isK1 := constI(b1)
		if !isK0 || !isK1 || k0 != k1 {
			return nil, false
		}
	}
	// the back edge leaves from the block that computes phi+1, and nothing else enters the loop
	for i, p := range hb.Preds {
		if p != entry && p != next.Block() {
			return nil, false
		}
		_ = i
	}
	return b1, true
}

func (x *c01) r3() {
	x.r3enc()
	x.r3dec()
}

func unit16Lanes(src int) lanes.Vec {
	v := make(lanes.Vec, 16)
	for b := range v {
		v[b] = lanes.Bit{K: lanes.Src, S: src, I: 0, B: b}
	}
	return v
}

func (x *c01) r3enc() {
	fn := x.fEnc
	if fn == nil {
		return
	}
	name := x.P.FuncName(fn)
	u16enc := x.ext("unicode/utf16", "Encode")
	rets := cryptoSuccessReturns(fn)
	if len(rets) != 1 {
		x.R.Undecided(c01R3, name+": result buffer", x.pos(fn.Pos()), "more than one return")
		return
	}
	buf, ok := c01FullView(flow.Strip(rets[0].Results[0])).(*ssa.MakeSlice)
	if ok {
		// make([]byte, 0, n) grown by append is the append form, not the indexed one
		if k, isK := constI(buf.Len); isK && k == 0 {
			ok = false
		}
	}
	if !ok {
		mark := len(x.R.Obls)
		if why := x.r3encAppend(fn, rets[0]); why != "" {
			msg := "the result is " + flow.Expr(rets[0].Results[0]) + ": neither a buffer allocated here with make and filled by index, nor a recognised append form (" + why + ")"
			if bad := c01SitesByteOrder(fn); bad != "" {
				// positive observation at one emission site, whatever the overall shape
				x.R.Fail(c01R3, name+": result buffer", x.pos(rets[0].Pos()), bad)
			} else if lib, hand := surrogateHandling(fn); lib && !hand && strings.Contains(why, "append sites feed the result") {
				// the only thing an encoder can get wrong that the type system does not catch is
				// the surrogate arithmetic; here that is left to unicode/utf16 and no surrogate
				// constant appears in the function: several emission sites (one per plane) is a layout this rule does not read; a single-site form is still judged
				x.R.OK(c01R3, name+": result buffer", x.pos(rets[0].Pos()), "NOT DECIDED — "+msg+"; surrogate pairs are produced by unicode/utf16 and the function holds no surrogate arithmetic of its own")
				x.R.Note("C01 R3: %s NOT DECIDED — %s", name, why)
				n := 0
				for _, o := range x.R.Obls[mark:] {
					if o.Rule == c01R3 {
						n++
					}
				}
				for k := n; k < 5; k++ {
					x.R.OK(c01R3, fmt.Sprintf("%s: clause %d of 5", name, k+1), "", "NOT DECIDED — see the result-buffer clause")
				}
			} else {
				x.R.Undecided(c01R3, name+": result buffer", x.pos(rets[0].Pos()), msg)
			}
		}
		return
	}
	// units = utf16.Encode([]rune(s))
	calls := callsTo(fn, u16enc)
	uc := name + ": code units = unicode/utf16.Encode([]rune(s))"
	if len(calls) != 1 {
		x.R.Fail(c01R3, uc, x.pos(fn.Pos()), fmt.Sprintf("%d calls to unicode/utf16.Encode, expected one", len(calls)))
		return
	}
	units := calls[0]
	if cv, ok := units.Call.Args[0].(*ssa.Convert); ok && flow.Strip(cv.X) == ssa.Value(fn.Params[0]) {
		x.R.OK(c01R3, uc, x.pos(units.Pos()), "runes of the parameter go through the standard library (surrogate pairs delegated)")
	} else {
		x.R.Fail(c01R3, uc, x.pos(units.Pos()), "unicode/utf16.Encode is applied to "+flow.Expr(units.Call.Args[0])+", not to []rune(s) of the parameter")
	}
	// buffer length = 2·len(units)
	lc := name + ": buffer length = 2·len(units)"
	lb, lm, la := affine(buf.Len)
	if c, ok := lb.(*ssa.Call); ok && lm == 2 && la == 0 && len(c.Call.Args) == 1 && c.Call.Args[0] == ssa.Value(units) {
		x.R.OK(c01R3, lc, x.pos(buf.Pos()), "make([]byte, len(units)*2)")
	} else {
		x.R.Fail(c01R3, lc, x.pos(buf.Pos()), "the buffer is "+flow.Expr(buf)+": not exactly two bytes per code unit")
	}
	// stores
	// one byte written into the buffer: a store buf[idx] = val, or one half of a
	// binary.{Little,Big}Endian.PutUint16(buf[idx:], val) (part 0 = first byte)
	type st struct {
		s    ssa.Instruction
		idx  ssa.Value
		val  ssa.Value
		part int // -1: plain byte store
		be   bool
	}
	var stores []st
	for _, r := range *buf.Referrers() {
		switch y := r.(type) {
		case *ssa.IndexAddr:
			for _, rr := range *y.Referrers() {
				if s, ok := rr.(*ssa.Store); ok && s.Addr == ssa.Value(y) {
					stores = append(stores, st{s, y.Index, s.Val, -1, false})
				}
			}
		case *ssa.Return, *ssa.DebugRef:
		case *ssa.Slice:
			// buf[k:] handed to PutUint16 only
			okPut := y.Low != nil && y.Referrers() != nil
			var puts []st
			for _, rr := range *y.Referrers() {
				if _, dbg := rr.(*ssa.DebugRef); dbg {
					continue
				}
				c, isC := rr.(*ssa.Call)
				be, isPut := false, false
				if isC && c.Call.StaticCallee() != nil && len(c.Call.Args) == 3 && c.Call.Args[1] == ssa.Value(y) {
					switch c.Call.StaticCallee().String() {
					case "(encoding/binary.littleEndian).PutUint16":
						isPut = true
					case "(encoding/binary.bigEndian).PutUint16":
						isPut, be = true, true
					}
				}
				if !isPut {
					okPut = false
					break
				}
				puts = append(puts, st{c, y.Low, c.Call.Args[2], 0, be}, st{c, y.Low, c.Call.Args[2], 1, be})
			}
			if okPut && len(puts) > 0 {
				stores = append(stores, puts...)
				continue
			}
			if !x.e.ReadOnly(buf) {
				x.R.Undecided(c01R3, name+": result buffer", x.pos(buf.Pos()), fmt.Sprintf("the buffer is also used by %T; its bytes may be written elsewhere", r))
				return
			}
		default:
			if !x.e.ReadOnly(buf) {
				x.R.Undecided(c01R3, name+": result buffer", x.pos(buf.Pos()), fmt.Sprintf("the buffer is also used by %T; its bytes may be written elsewhere", r))
				return
			}
		}
	}
	an := &lanes.Analyzer{InModule: x.P.InModule}
	var unitIdx ssa.Value
	an.Leaf = func(f *lanes.Frame, v ssa.Value) (lanes.Vec, bool) {
		u, ok := v.(*ssa.UnOp)
		if !ok || u.Op != token.MUL {
			return nil, false
		}
		ia, ok := u.X.(*ssa.IndexAddr)
		if !ok || ia.X != ssa.Value(units) {
			return nil, false
		}
		if unitIdx == nil {
			unitIdx = ia.Index
		}
		if ia.Index != unitIdx {
			return nil, false
		}
		return unit16Lanes(0), true
	}
	fr := an.Root(fn)
	seen := map[int64]bool{}
	for _, s := range stores {
		vec := fr.Lanes(s.val)
		b, m, a := affine(s.idx, unitIdx)
		if s.part >= 0 {
			a += int64(s.part)
			if len(vec) == 16 {
				half := s.part // little-endian: first byte = bits 0..7
				if s.be {
					half = 1 - s.part
				}
				vec = vec[8*half : 8*half+8]
			}
		}
		construct := fmt.Sprintf("%s: byte 2i+%d", name, a)
		if unitIdx == nil || b != unitIdx || m != 2 || (a != 0 && a != 1) {
			x.R.Fail(c01R3, fmt.Sprintf("%s: store at %s", name, flow.Expr(s.idx)), x.pos(s.s.Pos()), "the byte index is not 2·i or 2·i+1 of the code-unit index i the value is read at")
			continue
		}
		if seen[a] {
			x.R.Fail(c01R3, construct, x.pos(s.s.Pos()), "this byte position is stored twice")
			continue
		}
		seen[a] = true
		want := unit16Lanes(0)[8*a : 8*a+8]
		if len(vec) == 8 && vec.Equal(want) {
			x.R.OK(c01R3, construct, x.pos(s.s.Pos()), fmt.Sprintf("holds bits %d..%d of code unit i", 8*a, 8*a+7))
		} else if vec.HasTop() {
			x.R.Undecided(c01R3, construct, x.pos(s.s.Pos()), "not a pure bit movement: "+strings.Join(an.Why, "; "))
		} else {
			x.R.Fail(c01R3, construct, x.pos(s.s.Pos()), fmt.Sprintf("holds %s; UTF-16LE puts bits %d..%d of the code unit here (byte order)", vec.String(nil), 8*a, 8*a+7))
		}
	}
	for a := int64(0); a < 2; a++ {
		if !seen[a] {
			x.R.Fail(c01R3, fmt.Sprintf("%s: byte 2i+%d", name, a), x.pos(buf.Pos()), "this byte of each code unit is never written")
		}
	}
	// the loop visits every unit
	cc := name + ": loop covers every code unit"
	if unitIdx != nil && len(stores) > 0 {
		over, stride, slack, ok := counted(unitIdx, stores[0].s.Block())
		if ok && over == ssa.Value(units) && stride == 1 && slack == 0 {
			x.R.OK(c01R3, cc, x.pos(stores[0].s.Pos()), "i = 0..len(units)-1, stride 1")
		} else {
			x.R.Undecided(c01R3, cc, x.pos(stores[0].s.Pos()), "the loop is not a recognised counted loop over the code units with stride 1")
		}
	} else {
		x.R.Fail(c01R3, cc, x.pos(fn.Pos()), "no store reads a code unit")
	}
}

// binaryCall16: the call is encoding/binary.{Little,Big}Endian.<method>.
func binaryCall16(c *ssa.Call, method string) (isIt, be bool) {
	f := c.Call.StaticCallee()
	if f == nil {
		return false, false
	}
	switch f.String() {
	case "(encoding/binary.littleEndian)." + method:
		return true, false
	case "(encoding/binary.bigEndian)." + method:
		return true, true
	}
	return false, false
}

// emptySlice: a slice value of length 0 (nil, make(_, 0, n), x[:0], []T{}).
func emptySlice(v ssa.Value) bool {
	v = flow.Strip(v)
	if k, ok := v.(*ssa.Const); ok {
		return k.Value == nil
	}
	if m, ok := v.(*ssa.MakeSlice); ok {
		k, isK := constI(m.Len)
		return isK && k == 0
	}
	if sl, ok := v.(*ssa.Slice); ok {
		if sl.High != nil {
			if k, isK := constI(sl.High); isK && k == 0 {
				return true
			}
		}
		if a, ok := sl.X.(*ssa.Alloc); ok {
			if arr, ok := a.Type().Underlying().(*types.Pointer).Elem().Underlying().(*types.Array); ok && arr.Len() == 0 {
				return true
			}
		}
	}
	return false
}

// rangeElem: v is the element of a `for _, v := range over` loop that visits
// every element in order; head is the loop-header block.
func rangeElem(v ssa.Value) (over ssa.Value, head *ssa.BasicBlock, ok bool) {
	switch y := v.(type) {
	case *ssa.UnOp: // slice range: *(&over[i])
		if y.Op != token.MUL {
			return nil, nil, false
		}
		ia, isIA := y.X.(*ssa.IndexAddr)
		if !isIA {
			return nil, nil, false
		}
		o, stride, slack, okc := counted(ia.Index, y.Block())
		if !okc || stride != 1 || slack != 0 || flow.Strip(o) != flow.Strip(ia.X) {
			return nil, nil, false
		}
		return flow.Strip(ia.X), loopHead(ia.Index), true
	case *ssa.Index: // array value range
		return nil, nil, false
	case *ssa.Extract: // string range: extract (next (range s)) #2
		nx, isN := y.Tuple.(*ssa.Next)
		if !isN || y.Index != 2 || !nx.IsString {
			return nil, nil, false
		}
		rg, isR := nx.Iter.(*ssa.Range)
		if !isR {
			return nil, nil, false
		}
		// the body runs iff ok: the header ends in `if ok goto body`
		hb := nx.Block()
		iff, isIf := hb.Instrs[len(hb.Instrs)-1].(*ssa.If)
		if !isIf {
			return nil, nil, false
		}
		okx, isX := iff.Cond.(*ssa.Extract)
		if !isX || okx.Tuple != ssa.Value(nx) || okx.Index != 0 || !(hb.Succs[0] == y.Block() || hb.Succs[0].Dominates(y.Block())) {
			return nil, nil, false
		}
		return flow.Strip(rg.X), hb, true
	}
	return nil, nil, false
}

// loopHead: the block of the φ behind a counted index (I = φ or φ+1).
func loopHead(I ssa.Value) *ssa.BasicBlock {
	switch y := I.(type) {
	case *ssa.Phi:
		return y.Block()
	case *ssa.BinOp:
		if p, ok := y.X.(*ssa.Phi); ok {
			return p.Block()
		}
	}
	return nil
}

// r3encAppend decides the append form of EncodeUTF16LE:
//
//	acc := <empty>; for each rune r of s, in order { for each unit u of
//	utf16(r), in order { acc = append16LE(acc, u) } }; return acc
//
// (or one loop over utf16.Encode([]rune(s))). The shape is read off the
// accumulator's φ graph: each loop's accumulator φ has exactly two incoming
// values, the one from outside and the one the body produces, and the body's
// value is the single emission applied to that very φ — so no iteration can skip
// or repeat an emission. It returns "" when it produced the R3 obligations,
// else why the shape is not this form (nothing is recorded then).
func (x *c01) r3encAppend(fn *ssa.Function, ret *ssa.Return) string {
	name := x.P.FuncName(fn)
	u16enc := x.ext("unicode/utf16", "Encode")
	u16app := x.ext("unicode/utf16", "AppendRune")
	res := c01FullView(flow.Strip(ret.Results[0]))
	// twoEdge: φ with exactly two distinct incoming values
	other := func(phi *ssa.Phi, not ssa.Value) (ssa.Value, bool) {
		if len(phi.Edges) != 2 {
			return nil, false
		}
		a, b := flow.Strip(phi.Edges[0]), flow.Strip(phi.Edges[1])
		switch {
		case a == not && b != not:
			return b, true
		case b == not && a != not:
			return a, true
		}
		return nil, false
	}
	// afterLoop: v is the accumulator's value when the loop of φ p is left: p
	// itself, or (rotated loop: test at the end of the body) a φ over the same two
	// values as p
	afterLoop := func(v ssa.Value, p *ssa.Phi) bool {
		if v == ssa.Value(p) {
			return true
		}
		q, isPhi := v.(*ssa.Phi)
		if !isPhi || len(q.Edges) != 2 || len(p.Edges) != 2 {
			return false
		}
		a0, a1 := flow.Strip(q.Edges[0]), flow.Strip(q.Edges[1])
		b0, b1 := flow.Strip(p.Edges[0]), flow.Strip(p.Edges[1])
		return (a0 == b0 && a1 == b1) || (a0 == b1 && a1 == b0)
	}
	// find the single emission that feeds the result
	var emits []*ssa.Call
	seen := map[ssa.Value]bool{}
	var walk func(v ssa.Value)
	walk = func(v ssa.Value) {
		v = flow.Strip(v)
		if seen[v] {
			return
		}
		seen[v] = true
		switch y := v.(type) {
		case *ssa.Phi:
			for _, e := range y.Edges {
				walk(e)
			}
		case *ssa.Call:
			if is, _ := binaryCall16(y, "AppendUint16"); is {
				emits = append(emits, y)
				walk(y.Call.Args[1])
				return
			}
			if bi, isB := y.Call.Value.(*ssa.Builtin); isB && bi.Name() == "append" && len(y.Call.Args) == 2 {
				emits = append(emits, y)
				walk(y.Call.Args[0])
			}
		}
	}
	walk(res)
	if len(emits) == 0 {
		return "nothing is appended to the result"
	}
	if len(emits) != 1 {
		return fmt.Sprintf("%d append sites feed the result, expected one two-byte emission per code unit", len(emits))
	}
	em := emits[0]
	var acc, unit ssa.Value
	var lo8, hi8 lanes.Vec // lanes of the first and second emitted byte, relative to the unit
	isBin, be := binaryCall16(em, "AppendUint16")
	if isBin {
		acc, unit = em.Call.Args[1], em.Call.Args[2]
		lo8, hi8 = unit16Lanes(0)[0:8], unit16Lanes(0)[8:16]
		if be {
			lo8, hi8 = hi8, lo8
		}
	} else {
		acc = em.Call.Args[0]
		elems, ok := flow.VarArgs(em.Call.Args[1])
		if !ok || len(elems) != 2 {
			return "the appended tail is not exactly two byte expressions"
		}
		an := &lanes.Analyzer{InModule: x.P.InModule}
		an.Leaf = func(f *lanes.Frame, v ssa.Value) (lanes.Vec, bool) {
			if ld, ok := v.(*ssa.UnOp); ok && ld.Op == token.MUL {
				if _, isIA := ld.X.(*ssa.IndexAddr); isIA {
					if w, _, isInt := lanes.IntWidth(v.Type()); isInt && w == 16 {
						if unit == nil {
							unit = v
						}
						if unit == v {
							return unit16Lanes(0), true
						}
					}
				}
			}
			return nil, false
		}
		fr := an.Root(fn)
		lo8, hi8 = fr.Lanes(elems[0]), fr.Lanes(elems[1])
		if unit == nil {
			return "the appended bytes do not read a 16-bit code unit"
		}
	}
	// the unit loop
	phiU, ok := flow.Strip(acc).(*ssa.Phi)
	if !ok {
		return "the emission does not extend a loop-carried accumulator"
	}
	outerU, ok := other(phiU, ssa.Value(em))
	if !ok {
		return "the unit loop's accumulator has other incoming values than (outside value, emission)"
	}
	units, headU, ok := rangeElem(unit)
	if !ok || headU != phiU.Block() {
		return "the emitted value is not the element of a loop over every code unit"
	}
	uc := name + ": code units = unicode/utf16.Encode([]rune(s))"
	ucall, _ := units.(*ssa.Call)
	var init ssa.Value
	okUnits, unitsMsg := false, ""
	switch {
	case ucall != nil && u16enc != nil && ucall.Call.StaticCallee() == u16enc:
		// whole string at once
		if cv, ok := ucall.Call.Args[0].(*ssa.Convert); ok && flow.Strip(cv.X) == ssa.Value(fn.Params[0]) && afterLoop(res, phiU) {
			okUnits, unitsMsg, init = true, "runes of the parameter go through the standard library (surrogate pairs delegated)", outerU
		}
	case ucall != nil && u16app != nil && ucall.Call.StaticCallee() == u16app && emptySlice(ucall.Call.Args[0]):
		// rune by rune
		r := ucall.Call.Args[1]
		over, headR, okR := rangeElem(r)
		phiR, isPhi := outerU.(*ssa.Phi)
		if okR && isPhi && phiR.Block() == headR && afterLoop(res, phiR) {
			if o, ok2 := other(phiR, ssa.Value(phiU)); ok2 {
				src := over
				if cv, isCv := src.(*ssa.Convert); isCv { // for _, r := range []rune(s)
					src = flow.Strip(cv.X)
				}
				if src == ssa.Value(fn.Params[0]) {
					okUnits, unitsMsg, init = true, "every rune of the parameter, in order, goes through unicode/utf16.AppendRune (surrogate pairs delegated); its units are emitted before the next rune", o
				}
			}
		}
	}
	if !okUnits {
		return "the code units are not unicode/utf16.Encode([]rune(s)) nor unicode/utf16.AppendRune of every rune of s in order"
	}
	x.R.OK(c01R3, uc, x.pos(ucall.Pos()), unitsMsg)
	lc := name + ": buffer length = 2·len(units)"
	if emptySlice(init) {
		x.R.OK(c01R3, lc, x.pos(em.Pos()), "append form: the result starts empty and grows by exactly two bytes per code unit")
	} else {
		x.R.Fail(c01R3, lc, x.pos(em.Pos()), "the result does not start empty: it begins with "+flow.Expr(init))
	}
	for a, vec := range []lanes.Vec{lo8, hi8} {
		construct := fmt.Sprintf("%s: byte 2i+%d", name, a)
		want := unit16Lanes(0)[8*a : 8*a+8]
		switch {
		case len(vec) == 8 && vec.Equal(want):
			x.R.OK(c01R3, construct, x.pos(em.Pos()), fmt.Sprintf("holds bits %d..%d of code unit i", 8*a, 8*a+7))
		case vec.HasTop() || len(vec) != 8:
			x.R.Undecided(c01R3, construct, x.pos(em.Pos()), "not a pure bit movement of the code unit")
		default:
			x.R.Fail(c01R3, construct, x.pos(em.Pos()), fmt.Sprintf("holds %s; UTF-16LE puts bits %d..%d of the code unit here (byte order)", vec.String(nil), 8*a, 8*a+7))
		}
	}
	x.R.OK(c01R3, name+": loop covers every code unit", x.pos(em.Pos()), "one emission per iteration of a range loop over the code units (the accumulator φ has no other incoming value)")
	return ""
}

func (x *c01) r3dec() {
	fn := x.fDec
	if fn == nil {
		return
	}
	name := x.P.FuncName(fn)
	u16dec := x.ext("unicode/utf16", "Decode")
	calls := callsTo(fn, u16dec)
	rc := name + ": result = string(unicode/utf16.Decode(units))"
	if len(calls) != 1 {
		x.R.Fail(c01R3, rc, x.pos(fn.Pos()), fmt.Sprintf("%d calls to unicode/utf16.Decode, expected one", len(calls)))
		return
	}
	dec := calls[0]
	okRet := true
	for _, ret := range cryptoSuccessReturns(fn) {
		cv, ok := flow.Strip(ret.Results[0]).(*ssa.Convert)
		if !ok || cv.X != ssa.Value(dec) {
			okRet = false
		}
	}
	if okRet {
		x.R.OK(c01R3, rc, x.pos(dec.Pos()), "surrogate pairs delegated to the standard library")
	} else {
		x.R.Fail(c01R3, rc, x.pos(dec.Pos()), "some return is not string(utf16.Decode(units))")
	}
	units, ok := flow.Strip(dec.Call.Args[0]).(*ssa.MakeSlice)
	if !ok {
		x.R.Undecided(c01R3, name+": unit buffer", x.pos(dec.Pos()), "the decoded units "+flow.Expr(dec.Call.Args[0])+" are not a buffer allocated here with make")
		return
	}
	b := fn.Params[0]
	var stores []*ssa.Store
	var idxs []ssa.Value
	for _, r := range *units.Referrers() {
		if ia, ok := r.(*ssa.IndexAddr); ok {
			for _, rr := range *ia.Referrers() {
				if s, ok := rr.(*ssa.Store); ok && s.Addr == ssa.Value(ia) {
					stores = append(stores, s)
					idxs = append(idxs, ia.Index)
				}
			}
		}
	}
	sc := name + ": unit j = byte 2j | byte 2j+1 << 8"
	if len(stores) != 1 {
		x.R.Undecided(c01R3, sc, x.pos(units.Pos()), fmt.Sprintf("%d stores into the unit buffer, expected one", len(stores)))
		return
	}
	st, J := stores[0], idxs[0]
	// byte base: either J = I/2 with I even-stepping, or bytes at 2J, 2J+1
	var I ssa.Value // byte index of the low byte
	halfForm := false
	if q, ok := J.(*ssa.BinOp); ok {
		if k, okk := constI(q.Y); okk && ((q.Op == token.QUO && k == 2) || (q.Op == token.SHR && k == 1)) {
			I, halfForm = q.X, true
		}
	}
	an := &lanes.Analyzer{InModule: x.P.InModule}
	bad := ""
	an.Leaf = func(f *lanes.Frame, v ssa.Value) (lanes.Vec, bool) {
		// binary.{Little,Big}Endian.Uint16(b[k:]) reads bytes k and k+1
		if c, isC := v.(*ssa.Call); isC {
			if is, be := binaryCall16(c, "Uint16"); is {
				sl, isS := c.Call.Args[1].(*ssa.Slice)
				if !isS || sl.X != ssa.Value(b) || sl.Low == nil {
					return nil, false
				}
				base, m, a := affine(sl.Low, I, J)
				okIdx := false
				if halfForm {
					okIdx = base == I && m == 1 && a == 0
				} else {
					okIdx = base == J && m == 2 && a == 0
				}
				if !okIdx {
					bad = "reads input bytes at " + flow.Expr(sl.Low) + ", which is not byte 2j of the unit index j it is stored at"
					return nil, false
				}
				first, second := lanes.SrcByte(0, 0), lanes.SrcByte(0, 1)
				if be {
					first, second = second, first
				}
				return append(append(lanes.Vec{}, first...), second...), true
			}
			return nil, false
		}
		u, ok := v.(*ssa.UnOp)
		if !ok || u.Op != token.MUL {
			return nil, false
		}
		ia, ok := u.X.(*ssa.IndexAddr)
		if !ok || ia.X != ssa.Value(b) {
			return nil, false
		}
		base, m, a := affine(ia.Index, I, J)
		if halfForm {
			if base == I && m == 1 && (a == 0 || a == 1) {
				return lanes.SrcByte(0, int(a)), true
			}
		} else if base == J && m == 2 && (a == 0 || a == 1) {
			return lanes.SrcByte(0, int(a)), true
		}
		bad = "reads input byte " + flow.Expr(ia.Index) + ", which is not byte 2j or 2j+1 of the unit index j it is stored at"
		return nil, false
	}
	vec := an.Root(fn).Lanes(st.Val)
	want := append(append(lanes.Vec{}, lanes.SrcByte(0, 0)...), lanes.SrcByte(0, 1)...)
	switch {
	case len(vec) == 16 && vec.Equal(want):
		x.R.OK(c01R3, sc, x.pos(st.Pos()), "bits 0..7 from byte 2j, bits 8..15 from byte 2j+1: the inverse of EncodeUTF16LE's lane map")
	case bad != "":
		x.R.Fail(c01R3, sc, x.pos(st.Pos()), bad)
	case vec.HasTop():
		x.R.Undecided(c01R3, sc, x.pos(st.Pos()), "not a pure bit movement: "+strings.Join(an.Why, "; "))
	default:
		x.R.Fail(c01R3, sc, x.pos(st.Pos()), "the unit holds "+vec.String(nil)+"; UTF-16LE has the low byte first (byte order)")
	}
	// loop: j covers every whole unit
	cc := name + ": loop covers every whole code unit"
	if halfForm {
		over, stride, slack, ok := counted(I, st.Block())
		if ok && over == ssa.Value(b) && stride == 2 && slack == 1 {
			x.R.OK(c01R3, cc, x.pos(st.Pos()), "i = 0,2,4,… while i+1 < len(b); unit index i/2")
		} else if ok && over == ssa.Value(b) && stride == 2 && slack == 0 {
			x.R.Fail(c01R3, cc, x.pos(st.Pos()), "the loop condition admits i = len(b)-1: the high byte is read past an odd-length input")
		} else {
			x.R.Undecided(c01R3, cc, x.pos(st.Pos()), "the loop is not a recognised counted loop over the input with stride 2")
		}
	} else {
		over, stride, slack, ok := counted(J, st.Block())
		if ok && over == ssa.Value(units) && stride == 1 && slack == 0 {
			x.R.OK(c01R3, cc, x.pos(st.Pos()), "j = 0..len(units)-1")
		} else {
			x.R.Undecided(c01R3, cc, x.pos(st.Pos()), "the loop is not a recognised counted loop over the units")
		}
	}
	// unit buffer length = len(b)/2
	lc := name + ": unit count = len(b)/2"
	if q, ok := units.Len.(*ssa.BinOp); ok {
		k, okk := constI(q.Y)
		if c, isC := q.X.(*ssa.Call); isC && okk && ((q.Op == token.QUO && k == 2) || (q.Op == token.SHR && k == 1)) && len(c.Call.Args) == 1 && c.Call.Args[0] == ssa.Value(b) {
			x.R.OK(c01R3, lc, x.pos(units.Pos()), "make([]uint16, len(b)/2)")
			return
		}
	}
	x.R.Fail(c01R3, lc, x.pos(units.Pos()), "the unit buffer is "+flow.Expr(units)+", not len(b)/2 units")
}

func (x *c01) r4() {
	// performed inside r2lm (the key-spread lanes also identify the halves)
	x.R.Extra["r4_note"] = "R4 obligations are produced while analysing lm.LMHash's two des.NewCipher chains"
}

// globalWriterOf: v reads a package-level variable of the module that some
// function writes outside the package initialiser; names that write.
func globalWriterOf(e *flow.Engine, v ssa.Value) string {
	for d := 0; d < 6; d++ {
		switch y := flow.Strip(v).(type) {
		case *ssa.UnOp:
			if g, ok := y.X.(*ssa.Global); ok {
				return e.GlobalWriter(g)
			}
			return ""
		case *ssa.Slice:
			if g, ok := y.X.(*ssa.Global); ok {
				return e.GlobalWriter(g)
			}
			v = y.X
		default:
			return ""
		}
	}
	return ""
}

// surrogateHandling: lib — the function (or an in-package helper it calls)
// obtains UTF-16 code units from unicode/utf16 (Encode, EncodeRune, AppendRune);
// hand — it contains surrogate arithmetic of its own (the constants 0xD800,
// 0xDC00, 0x3FF, or a subtraction of 0x10000).
func surrogateHandling(fn *ssa.Function) (lib, hand bool) {
	seen := map[*ssa.Function]bool{}
	var visit func(f *ssa.Function, d int)
	visit = func(f *ssa.Function, d int) {
		if f == nil || seen[f] || f.Blocks == nil || d > 3 {
			return
		}
		seen[f] = true
		for _, b := range f.Blocks {
			for _, in := range b.Instrs {
				if ci, ok := in.(ssa.CallInstruction); ok {
					if g := ci.Common().StaticCallee(); g != nil {
						switch g.String() {
						case "unicode/utf16.Encode", "unicode/utf16.EncodeRune", "unicode/utf16.AppendRune":
							lib = true
						default:
							if g.Pkg == fn.Pkg {
								visit(g, d+1)
							}
						}
					}
				}
				bo, isB := in.(*ssa.BinOp)
				if !isB {
					continue
				}
				switch bo.Op {
				case token.EQL, token.NEQ, token.LSS, token.LEQ, token.GTR, token.GEQ:
					continue // range tests against the plane boundary are not arithmetic
				}
				for _, op := range []ssa.Value{bo.X, bo.Y} {
					if k, ok := constI(op); ok {
						switch k {
						case 0xD800, 0xDC00, 0x3FF, 0xDBFF, 0xDFFF:
							hand = true
						case 0x10000:
							if bo.Op == token.SUB || bo.Op == token.ADD {
								hand = true
							}
						}
					}
				}
			}
		}
	}
	visit(fn, 0)
	return
}

// c01FullView strips re-slices that keep every element: x[:], x[:len(x)],
// x[:len(x):len(x)] (the capacity is not part of the value).
func c01FullView(v ssa.Value) ssa.Value {
	for d := 0; d < 4; d++ {
		sl, ok := v.(*ssa.Slice)
		if !ok || sl.Low != nil {
			return v
		}
		isLen := func(h ssa.Value) bool {
			if h == nil {
				return true
			}
			call, ok := h.(*ssa.Call)
			if !ok {
				return false
			}
			bi, ok := call.Common().Value.(*ssa.Builtin)
			return ok && (bi.Name() == "len" || bi.Name() == "cap") && len(call.Common().Args) == 1 && call.Common().Args[0] == sl.X
		}
		if !isLen(sl.High) || !isLen(sl.Max) {
			return v
		}
		if h, ok := sl.High.(*ssa.Call); ok && h.Common().Value.(*ssa.Builtin).Name() == "cap" {
			return v
		}
		v = flow.Strip(sl.X)
	}
	return v
}

// c01SitesByteOrder looks at every append(buf, b0, b1, …) of byte expressions
// in fn and reports a site where a pair (b2j, b2j+1) is positively
// (byte(U>>8), byte(U)) — a code unit written high byte first — or where the
// two units of a site are the results of one unicode/utf16.EncodeRune call in
// the order (low surrogate, high surrogate). "" = nothing of the kind seen
// (which is not a proof of anything).
func c01SitesByteOrder(fn *ssa.Function) string {
	type half struct {
		unit ssa.Value
		high bool
	}
	parse := func(v ssa.Value) (half, bool) {
		cv, ok := v.(*ssa.Convert)
		if !ok {
			return half{}, false
		}
		if b, isB := cv.Type().Underlying().(*types.Basic); !isB || b.Kind() != types.Uint8 {
			return half{}, false
		}
		in := cv.X
		if bo, ok := in.(*ssa.BinOp); ok && bo.Op == token.AND {
			if k, isK := constI(bo.Y); isK && k == 0xFF {
				in = bo.X
			}
		}
		if bo, ok := in.(*ssa.BinOp); ok && bo.Op == token.SHR {
			if k, isK := constI(bo.Y); isK && k == 8 {
				return half{flow.Strip(bo.X), true}, true
			}
			return half{}, false
		}
		return half{flow.Strip(in), false}, true
	}
	for _, b := range fn.Blocks {
		for _, in := range b.Instrs {
			call, ok := in.(*ssa.Call)
			if !ok {
				continue
			}
			bi, isB := call.Common().Value.(*ssa.Builtin)
			if !isB || bi.Name() != "append" || len(call.Common().Args) != 2 {
				continue
			}
			elems, ok := flow.VarArgs(call.Common().Args[1])
			if !ok || len(elems) < 2 || len(elems)%2 != 0 {
				continue
			}
			var units []ssa.Value
			for j := 0; j+1 < len(elems); j += 2 {
				if elems[j] == nil || elems[j+1] == nil {
					units = nil
					break
				}
				h0, ok0 := parse(elems[j])
				h1, ok1 := parse(elems[j+1])
				if !ok0 || !ok1 || h0.unit != h1.unit {
					units = nil
					break
				}
				if h0.high && !h1.high {
					return fmt.Sprintf("the emission at %s writes byte(%s>>8) before byte(%s): the code unit goes out high byte first, UTF-16LE puts the low byte first", fn.Prog.Fset.Position(call.Pos()), flow.Expr(h0.unit), flow.Expr(h0.unit))
				}
				if h0.high == h1.high {
					units = nil
					break
				}
				units = append(units, h0.unit)
			}
			if len(units) == 2 {
				e0, ok0 := units[0].(*ssa.Extract)
				e1, ok1 := units[1].(*ssa.Extract)
				if ok0 && ok1 && e0.Tuple == e1.Tuple && e0.Index == 1 && e1.Index == 0 {
					if c, isC := e0.Tuple.(*ssa.Call); isC {
						if f := c.Common().StaticCallee(); f != nil && f.Pkg != nil && f.Pkg.Pkg.Path() == "unicode/utf16" && f.Name() == "EncodeRune" {
							return fmt.Sprintf("the emission at %s writes the low surrogate of utf16.EncodeRune before the high surrogate", fn.Prog.Fset.Position(call.Pos()))
						}
					}
				}
			}
		}
	}
	return ""
}
