package rules

import (
	"fmt"
	"go/token"
	"go/types"
	"sort"
	"strconv"
	"strings"

	"golang.org/x/tools/go/ssa"

	"manticheck/internal/codec"
	"manticheck/internal/flow"
	"manticheck/internal/prove"
	"manticheck/internal/report"
)

// C02 — NTLMv1/NTLMv2 responses (DESIGN.md §4 C02; Appendix A rows C02.a–d).

func init() { register(&Check{ID: "C02", NeedSSA: true, Run: runC02}) }

const (
	c02R1 = "R1-desl"
	c02R2 = "R2-ntowfv2"
	c02R3 = "R3-proof-blob"
	c02R4 = "R4-blob-layout"
	c02R5 = "R5-hashcat"

	c02HashcatFormat = "%s::%s:%s:%s:%s" // hashcat mode 5600: user::domain:challenge:NTProofStr:blob

	c02DomAsIs = "EncodeUTF16LE, no case mapping"
	c02DomWhy  = " — MS-NLMP 3.3.2 upper-cases only the user name; the Domain is stored, printed in the hashcat line and meant to be verified exactly as supplied, so a domain that is not already upper case gives a response no conforming verifier accepts"
)

type c02 struct {
	*cry
	w                                   *prove.World
	lEnc, lUpper, lLower, lHex          string
	lNT, lLM, lParity, lHash            string
	fParity, fNTHash, fLMHash           *ssa.Function
	fHmacNew, fMd5New, fDesNew, fRepeat *ssa.Function
	dist                                flow.Distributive
}

func runC02(c *Ctx) {
	r := c.R
	r.Explanation = "C02 NTLMv1/NTLMv2 responses, decided statically on go/ssa; no Manticore code is executed, no DES or HMAC is computed. " +
		"R1-desl: (*NTLMv1).Hash, NTResponse and LMResponse each consist of exactly three chains ParityAdjust → des.NewCipher → Encrypt(fresh 8-byte buffer, the ServerChallenge field as is); the three keys are the windows [0:7], [7:14] and [14:21] of the hash zero-padded to 21 bytes (append of make([]byte,5) to [14:16], or [14:21] of append(hash, bytes.Repeat({0}, 21-len(hash)))); the returned slice is the three ciphertexts concatenated in window order; the hash is the NTHash field (or nt.NTHash(Password) stored into it) for Hash/NTResponse and lm.LMHash(Password) for LMResponse; the three siblings have the same chain descriptor; ntlm.calculateNTLMv1Response returns (LMResponse(), NTResponse()) of an NTLMv1 built from its own challenge and password parameters; the second DESL implementation in the ntlm package (desEncrypt/createDesKey) is unreferenced. " +
		"R2-ntowfv2 (E5 provenance on every def-use path), at ntlmv2.NewNTLMv2, (*NTLMv2).Hash and ntlm.ntowfv2: the identity HMAC is hmac.New(md5.New, key) with key deriving only from nt.NTHash(password) (or the NTHash field); it absorbs exactly two segments, user then domain; the user reaches it through strings.ToUpper and EncodeUTF16LE; the domain reaches it through EncodeUTF16LE and (a) in package ntlmv2, where the Domain is stored, printed in the hashcat line and verified exactly as supplied, through NO case mapping (MS-NLMP 3.3.2: NTOWFv2 = HMAC_MD5(NT hash, UNICODE(Uppercase(User) + UserDom))); (b) in ntlm.ntowfv2, whose verifier sees the DomainName carried by the AUTHENTICATE message, through exactly the case mapping that CreateAuthenticateMessage applies to the domain on every path into the message outside the response computation (today: ToUpper on both, which is wire-consistent and demonstrated to verify; dropping it on one side only fires). Parameter roles in the unexported ntlm helpers are propagated from the exported CreateAuthenticateMessage(challenge, username, password, domain, workstation) along the static call chain, never by parameter name. " +
		"R3-proof-blob: the NT response is proof ‖ blob where proof = Sum of hmac.New(md5.New, key) with key = the identity HMAC's Sum (same SSA value, or ntowfv2 called with role-correct arguments), the HMAC absorbs the 8-byte server challenge first and then exactly the segments that follow the proof in the response (same SSA values, every write into them precedes the proof). " +
		"R4-blob-layout (E2 atoms of internal/codec + E5 identity): the blob starts 01 01 00×6, then an 8-byte little-endian integer (timestamp), then the 8-byte client challenge (the struct field / the caller's 8-byte crypto/rand buffer, unmodified), then 00×4, then the target information. " +
		"R5-hashcat: (*NTLMv2).ToHashcatString formats \"%s::%s:%s:%s:%s\" from (Username, Domain, hex(ServerChallenge), hex(response[:16]), hex(response[16:])) where response is the result of Hash() — hashcat mode 5600 parses field 4 as NTProofStr and field 5 as the blob. " +
		"Shapes decided (behaviour-preserving rewrites stay silent): the three DESL chains may be written out, or be the iterations of one counted loop (range over an array / an int, or for i := 0; i < 3; i++) whose key is row i of a constant local table of three key slices or the window hash[7i:7i+7] of the zero-padded hash (append of zero bytes, or a zero-initialised [21]byte written by one copy of the hash at offset 0); each entry point may hold them itself or forward to ONE shared unexported helper (hash, challenge) whose parameters are then bound to the entry point's arguments — the per-entry-point obligations are the same either way; the ciphertexts are concatenated, appended one per loop iteration to an accumulator that starts empty, or encrypted in place into windows [0:8], [8:16], [16:24] of the returned 24-byte buffer. The NTOWFv2 identity HMAC may sit in the function or one call level down in a helper that returns the Sum of an HMAC over its own parameters (bound to the call's arguments). The NTLMv2 blob may be built by append (including binary.LittleEndian.AppendUint64 and literal bytes into a pre-sized buffer) or be one zero-initialised buffer filled at constant offsets (byte stores, PutUint64, copy). The hashcat line may be fmt.Sprintf or the equivalent string concatenation. " +
		"NOT decided: DES and HMAC-MD5 numerics (standard library, trusted); the bit arithmetic of ParityAdjust/ParityBit (value-level; the exhaustive 7-bit check the property mentions is a dynamic technique) — only that every key passes through it; that caller-supplied NT hashes are 16 bytes and challenges 8 bytes; the value of the timestamp (ntlmv2.Hash uses UnixNano/100 without the 1601 epoch offset — a value-level matter not judged here); well-formedness of the AV pairs inside the blob (ntlmv2.Hash appends the raw UTF-16 domain, not AV pairs); acceptance by a real server; LMv2; session keys and MIC."
	r.Assumptions = []string{
		cryTrusted,
		"stdlib contracts used as labels/edges: hash.Hash.Write absorbs exactly its argument, Sum(nil) returns the MAC of everything written in order; cipher.Block.Encrypt(dst, src) writes dst from src under the key given to des.NewCipher; strings.ToUpper, hex.EncodeToString, bytes.Repeat and fmt.Sprintf are pure and render arguments in order; make/new zero-initialise",
		"EncodeUTF16LE(a+b) = EncodeUTF16LE(a) ‖ EncodeUTF16LE(b) and ToUpper(a+b) = ToUpper(a)+ToUpper(b) (used to split a concatenation into its user and domain segments)",
		"SPEC: MS-NLMP 3.3.1 (DESL key windows 0..6, 7..13, 14..15 + 5 zero bytes), 3.3.2 (NTOWFv2 upper-cases the user name only; NTProofStr = HMAC_MD5(ResponseKeyNT, ServerChallenge ‖ temp); response = NTProofStr ‖ temp), 2.2.2.7 (NTLMv2_CLIENT_CHALLENGE: 01 01 00×6, TimeStamp 8 LE, ChallengeFromClient 8, Reserved 4, AvPairs); hashcat mode 5600 line format user::domain:challenge:NTProofStr:blob",
		"type-based aliasing; a slice header and its backing store are one cell",
	}
	r.Explanation += crySxExplain
	r.Assumptions = append(r.Assumptions, crySxAssume, "when DESL is decided by evaluation, the NTHash field is taken to be 16 bytes (or empty, for Hash) and the ServerChallenge field 8 bytes long, as the constructors guarantee (lengths of caller-supplied values are listed under NOT decided)")
	x := &c02{cry: newCry(c)}
	x.w = prove.NewWorld(c.P)

	x.fParity = x.mod(cryNTLMv1, "", "ParityAdjust")
	x.fNTHash = x.mod(cryNT, "", "NTHash")
	x.fLMHash = x.mod(cryLM, "", "LMHash")
	fEnc := x.mod(cryUTF16, "", "EncodeUTF16LE")
	x.lEnc = x.label(fEnc)
	x.lNT, x.lLM, x.lParity = x.label(x.fNTHash), x.label(x.fLMHash), x.label(x.fParity)
	x.lUpper = x.extLabel("strings", "ToUpper")
	x.lLower = x.extLabel("strings", "ToLower")
	x.lHex = x.extLabel("encoding/hex", "EncodeToString")
	x.fHmacNew = x.ext("crypto/hmac", "New")
	x.fMd5New = x.ext("crypto/md5", "New")
	x.fDesNew = x.ext("crypto/des", "NewCipher")
	x.fRepeat = x.ext("bytes", "Repeat")
	x.dist = func(l string) bool { return l == x.lEnc || l == x.lUpper || l == x.lLower }

	x.guard(c02R1, "R1 analysis", "", x.r1)
	x.guard(c02R2, "R2/R3/R4 analysis", "", x.r2r3r4)
	x.guard(c02R5, "R5 analysis", "", x.r5)
	x.sxDebugAll()
	x.finish()

	r.Floor(c02R1, 38)
	r.Floor(c02R2, 16)
	r.Floor(c02R3, 8)
	r.Floor(c02R4, 8)
	r.Floor(c02R5, 6)
}

// ---- R1: DESL -------------------------------------------------------------------

type deslChain struct {
	at      token.Pos
	key0    ssa.Value // the 7-byte key source handed to ParityAdjust (a value of the analysed function)
	plain   ssa.Value
	out     ssa.Value // direct: the Encrypt destination
	outCall *ssa.Call // helper: the call whose first result is the ciphertext
	dstOK   bool
	hash    ssa.Value
	lo, hi  int
	desc    string
	// loop form: this chain is iteration `iter` of the loop around Encrypt `loop`
	loop *ssa.Call
	iter int
	// window already resolved (affine in the loop counter): key0 = wX[wLo:wHi]
	pre      bool
	wX       ssa.Value
	wLo, wHi int
	// in-place destination: out is the window [outLo:outLo+8] of the buffer outObj
	outObj ssa.Value
	outLo  int
}

func (c *deslChain) isOut(v ssa.Value) bool {
	if c.outCall != nil {
		call, idx, ok := tupleResult(v, c.outCall.Call.StaticCallee())
		return ok && call == c.outCall && idx == 0
	}
	return c.out != nil && flow.Strip(v) == flow.Strip(c.out)
}

// loopCounter: idx is the counter of a loop that runs it over 0..n-1 in steps
// of one (range over an array / an int, or `for i := 0; i < n; i++`), n a
// constant, and `body` executes in every iteration.
func loopCounter(idx ssa.Value, body *ssa.BasicBlock) (phi *ssa.Phi, n int, ok bool) {
	rangeForm := false
	switch y := idx.(type) {
	case *ssa.Phi:
		phi = y
	case *ssa.BinOp:
		if p, isPhi := y.X.(*ssa.Phi); isPhi && y.Op == token.ADD {
			if k, okk := constI(y.Y); okk && k == 1 {
				phi, rangeForm = p, true
			}
		}
	}
	if phi == nil || len(phi.Edges) != 2 {
		return nil, 0, false
	}
	if !rangeForm {
		// `for i := range 3`: the test is rotated to the end of the body
		if bound, okR := rotatedLoop(phi); okR && (phi.Block() == body || phi.Block().Dominates(body)) {
			if k, isK := constI(bound); isK && k >= 1 && k <= 16 {
				return phi, int(k), true
			}
			return nil, 0, false
		}
	}
	var init int64
	var next ssa.Value
	found := false
	for i, e := range phi.Edges {
		if k, isK := constI(e); isK {
			init, next, found = k, phi.Edges[1-i], true
		}
	}
	if !found {
		return nil, 0, false
	}
	if rangeForm {
		if init != -1 || next != idx {
			return nil, 0, false
		}
	} else {
		nb, isB := next.(*ssa.BinOp)
		if !isB || nb.Op != token.ADD || nb.X != ssa.Value(phi) || init != 0 {
			return nil, 0, false
		}
		if k, isK := constI(nb.Y); !isK || k != 1 {
			return nil, 0, false
		}
	}
	hb := phi.Block()
	iff, isIf := hb.Instrs[len(hb.Instrs)-1].(*ssa.If)
	if !isIf {
		return nil, 0, false
	}
	cmp, isB := iff.Cond.(*ssa.BinOp)
	if !isB || cmp.Op != token.LSS || cmp.X != idx {
		return nil, 0, false
	}
	if !(hb.Succs[0] == body || hb.Succs[0].Dominates(body)) {
		return nil, 0, false
	}
	k, isK := constI(cmp.Y)
	if !isK {
		// len(array) folds to a constant; len(x) of a fixed-size local does not
		if lc, isC := cmp.Y.(*ssa.Call); isC {
			if bi, isBi := lc.Call.Value.(*ssa.Builtin); isBi && bi.Name() == "len" {
				if sl := flow.StaticLen(lc.Call.Args[0]); sl >= 0 {
					k, isK = int64(sl), true
				}
			}
		}
	}
	if !isK || k < 1 || k > 16 {
		return nil, 0, false
	}
	return phi, int(k), true
}

// tableElems: v is element idx of a local array whose n elements are each
// stored exactly once, at a constant index, before the loop: returns them.
func tableElems(v ssa.Value, loopHead *ssa.BasicBlock) (idx ssa.Value, elems []ssa.Value, ok bool) {
	var arr *ssa.Alloc
	switch y := v.(type) {
	case *ssa.Index: // t = *A; t[i]
		ld, isL := y.X.(*ssa.UnOp)
		if !isL || ld.Op != token.MUL {
			return nil, nil, false
		}
		arr, _ = ld.X.(*ssa.Alloc)
		idx = y.Index
	case *ssa.UnOp: // *(&A[i])
		if y.Op != token.MUL {
			return nil, nil, false
		}
		ia, isIA := y.X.(*ssa.IndexAddr)
		if !isIA {
			return nil, nil, false
		}
		arr, _ = ia.X.(*ssa.Alloc)
		idx = ia.Index
	}
	if arr == nil {
		return nil, nil, false
	}
	at, isArr := arr.Type().Underlying().(*types.Pointer).Elem().Underlying().(*types.Array)
	if !isArr || at.Len() < 1 || at.Len() > 16 {
		return nil, nil, false
	}
	elems = make([]ssa.Value, at.Len())
	for _, r := range *arr.Referrers() {
		switch y := r.(type) {
		case *ssa.DebugRef:
		case *ssa.UnOp:
			if y.Op != token.MUL {
				return nil, nil, false
			}
		case *ssa.IndexAddr:
			k, isK := constI(y.Index)
			for _, rr := range *y.Referrers() {
				switch z := rr.(type) {
				case *ssa.Store:
					if z.Addr != ssa.Value(y) || !isK || k < 0 || k >= at.Len() || elems[k] != nil {
						return nil, nil, false
					}
					if flow.InLoop(z) || (loopHead != nil && !(z.Block() == loopHead || z.Block().Dominates(loopHead))) {
						return nil, nil, false
					}
					elems[k] = z.Val
				case *ssa.UnOp:
					if z.Op != token.MUL {
						return nil, nil, false
					}
				case *ssa.DebugRef:
				default:
					return nil, nil, false
				}
			}
		default:
			return nil, nil, false
		}
	}
	for _, e := range elems {
		if e == nil {
			return nil, nil, false
		}
	}
	return idx, elems, true
}

// directDesl: the ParityAdjust → des.NewCipher → Encrypt chains written in fn
// itself. A chain inside a counted loop over a constant table of keys (or over
// windows whose bounds are affine in the loop counter) is unrolled into one
// chain per iteration.
func (x *c02) directDesl(fn *ssa.Function) []*deslChain {
	var out []*deslChain
	for _, enc := range invokes(fn, "Encrypt") {
		ch := &deslChain{at: enc.Pos(), lo: -1}
		nc, idx, ok := tupleResult(enc.Call.Value, x.fDesNew)
		if !ok || idx != 0 {
			ch.desc = "cipher " + flow.Expr(enc.Call.Value) + " is not the result of des.NewCipher in this function"
			out = append(out, ch)
			continue
		}
		pa, idx, ok := tupleResult(nc.Call.Args[0], x.fParity)
		if !ok || idx != 0 {
			ch.desc = "DES key " + flow.Expr(nc.Call.Args[0]) + " is not the result of ParityAdjust (the 7→8 byte odd-parity expansion is skipped)"
			out = append(out, ch)
			continue
		}
		ch.key0, ch.plain, ch.out = pa.Call.Args[0], enc.Call.Args[1], enc.Call.Args[0]
		ch.dstOK = flow.StaticLen(ch.out) == 8
		if root, lo, _, okb := bufRoot(flow.Strip(ch.out)); okb && ch.dstOK && objLen(root) == 24 {
			ch.outObj, ch.outLo = root, lo
		}
		if !flow.InLoop(enc) {
			out = append(out, ch)
			continue
		}
		// ---- loop form
		if !(flow.Dominates(pa, nc) && flow.Dominates(nc, enc)) {
			ch.desc = "the chain sits in a loop and its steps are not in one straight line of the body"
			out = append(out, ch)
			continue
		}
		var n int
		var counter ssa.Value
		var elems []ssa.Value
		k0 := flow.Strip(ch.key0)
		if ti, te, okT := tableElems(k0, nil); okT {
			// re-check placement against the loop head once the counter is known
			if phi, cnt, okC := loopCounter(ti, pa.Block()); okC && cnt == len(te) {
				if _, te2, ok2 := tableElems(k0, phi.Block()); ok2 {
					n, counter, elems = cnt, ti, te2
				}
			}
		} else if sl, isS := k0.(*ssa.Slice); isS && sl.Low != nil && sl.High != nil {
			// hash[m·i+a : m·i+b]
			lb, lm, la := affine(sl.Low)
			hb, hm, ha := affine(sl.High)
			if lb != nil && lb == hb && lm == hm && lm > 0 {
				if _, cnt, okC := loopCounter(lb, pa.Block()); okC {
					n, counter = cnt, lb
					for k := 0; k < cnt; k++ {
						out = append(out, &deslChain{at: enc.Pos(), lo: -1, key0: ch.key0, plain: ch.plain, out: ch.out, dstOK: ch.dstOK,
							loop: enc, iter: k, pre: true, wX: sl.X, wLo: int(lm)*k + int(la), wHi: int(hm)*k + int(ha)})
					}
				}
			}
		}
		if n == 0 {
			ch.desc = "the chain sits in a loop whose key is neither an element of a constant local table indexed by the loop counter nor a window that is affine in it"
			out = append(out, ch)
			continue
		}
		// in-place destination result[8·i : 8·i+8]
		var oObj ssa.Value
		om, oa := int64(0), int64(0)
		if ds, isS := flow.Strip(ch.out).(*ssa.Slice); isS && ds.Low != nil && ds.High != nil {
			lb, lm, la := affine(ds.Low)
			hb, hm, ha := affine(ds.High)
			if lb == counter && hb == counter && lm == hm && ha-la == 8 {
				if root, lo, _, okb := bufRoot(ds.X); okb && lo == 0 && objLen(root) == 24 {
					oObj, om, oa = root, lm, la
				}
			}
		}
		first := len(out) - n
		if elems != nil {
			first = len(out)
			for k := 0; k < n; k++ {
				out = append(out, &deslChain{at: enc.Pos(), lo: -1, key0: elems[k], plain: ch.plain, out: ch.out, dstOK: ch.dstOK, loop: enc, iter: k})
			}
		}
		if oObj != nil {
			for k := 0; k < n; k++ {
				out[first+k].outObj, out[first+k].outLo, out[first+k].dstOK = oObj, int(om)*k+int(oa), true
			}
		}
	}
	return out
}

// deslChains: chains of fn, inline or one call level down in an in-module
// helper that holds exactly one chain over its own parameters.
func (x *c02) deslChains(fn *ssa.Function) []*deslChain {
	out := x.directDesl(fn)
	for _, b := range fn.Blocks {
		for _, in := range b.Instrs {
			call, ok := in.(*ssa.Call)
			if !ok {
				continue
			}
			g := call.Call.StaticCallee()
			if g == nil || g == fn || g.Blocks == nil || !x.P.InModule(g) || x.opaque[g] {
				continue
			}
			gc := x.directDesl(g)
			if len(gc) != 1 || gc[0].desc != "" || gc[0].loop != nil {
				continue
			}
			kp, ok1 := flow.Strip(gc[0].key0).(*ssa.Parameter)
			pp, ok2 := flow.Strip(gc[0].plain).(*ssa.Parameter)
			ch := &deslChain{at: call.Pos(), lo: -1, outCall: call, dstOK: gc[0].dstOK}
			if !ok1 || !ok2 {
				ch.desc = "helper " + x.P.FuncName(g) + " does not take the 7-byte key and the plaintext as parameters"
				out = append(out, ch)
				continue
			}
			for _, ret := range cryptoSuccessReturns(g) {
				if flow.Strip(ret.Results[0]) != flow.Strip(gc[0].out) {
					ch.desc = "helper " + x.P.FuncName(g) + " does not return the Encrypt destination"
				}
			}
			ch.key0, ch.plain = call.Call.Args[paramIndex(g, kp)], call.Call.Args[paramIndex(g, pp)]
			out = append(out, ch)
		}
	}
	return out
}

// zeroTail: v is n zero bytes (n = -1: "pads base to total bytes", returned in total).
func (x *c02) zeroTail(v ssa.Value, base ssa.Value) (n int, total int, ok bool) {
	if b, okc := x.e.ConstBytes(v); okc && flow.AllZero(b) {
		return len(b), -1, true
	}
	if c, _, okc := tupleResult(v, x.fRepeat); okc && x.fRepeat != nil {
		if b, okb := x.e.ConstBytes(c.Call.Args[0]); okb && len(b) == 1 && b[0] == 0 {
			if sub, oks := c.Call.Args[1].(*ssa.BinOp); oks && sub.Op == token.SUB {
				if k, okk := constI(sub.X); okk {
					if lc, okl := sub.Y.(*ssa.Call); okl {
						if bi, isB := lc.Call.Value.(*ssa.Builtin); isB && bi.Name() == "len" && sameCell(x.e, lc.Call.Args[0], base) {
							return -1, int(k), true
						}
					}
				}
			}
		}
	}
	// make([]byte, k - len(base)) is zero-filled too
	if m, okm := flow.Strip(v).(*ssa.MakeSlice); okm && x.e.ReadOnly(m) {
		if sub, oks := m.Len.(*ssa.BinOp); oks && sub.Op == token.SUB {
			if k, okk := constI(sub.X); okk {
				if lc, okl := sub.Y.(*ssa.Call); okl {
					if bi, isB := lc.Call.Value.(*ssa.Builtin); isB && bi.Name() == "len" && sameCell(x.e, lc.Call.Args[0], base) {
						return -1, int(k), true
					}
				}
			}
		}
	}
	return 0, 0, false
}

// sameCell: two values denote the same slice (same SSA value, or loads of the
// same field with the same provenance).
func sameCell(e *flow.Engine, a, b ssa.Value) bool {
	a, b = flow.Strip(a), flow.Strip(b)
	if a == b {
		return true
	}
	ua, oka := a.(*ssa.UnOp)
	ub, okb := b.(*ssa.UnOp)
	if oka && okb && ua.Op == token.MUL && ub.Op == token.MUL {
		fa, oka := ua.X.(*ssa.FieldAddr)
		fb, okb := ub.X.(*ssa.FieldAddr)
		return oka && okb && fa.Field == fb.Field && flow.Strip(fa.X) == flow.Strip(fb.X)
	}
	return false
}

// windowOf: the key is X[lo:hi]; resolves X to the hash it holds (X itself, or
// the hash zero-padded by an append).
func (x *c02) windowOf(X ssa.Value, lo, hi int) (hash ssa.Value, rlo, rhi int, why string) {
	if ap, okc := flow.Strip(X).(*ssa.Call); okc {
		if bi, isB := ap.Call.Value.(*ssa.Builtin); isB && bi.Name() == "append" && len(ap.Call.Args) == 2 {
			_, total, okz := x.zeroTail(ap.Call.Args[1], ap.Call.Args[0])
			if !okz {
				return nil, 0, 0, "the key buffer is extended by " + flow.Expr(ap.Call.Args[1]) + ", which is not provably zero bytes"
			}
			if total >= 0 && hi > total {
				return nil, 0, 0, fmt.Sprintf("window [%d:%d] reaches past the %d bytes the key is padded to", lo, hi, total)
			}
			if total < 0 {
				// append(hash, k zero bytes): windows beyond 16+k would read past the padding of a 16-byte hash
				if n, _, _ := x.zeroTail(ap.Call.Args[1], ap.Call.Args[0]); n >= 0 && hi > 16+n {
					return nil, 0, 0, fmt.Sprintf("window [%d:%d] reaches past the 16-byte hash and its %d zero bytes", lo, hi, n)
				}
			}
			return ap.Call.Args[0], lo, hi, ""
		}
	}
	// a zero-initialised local buffer of at least 21 bytes that holds the hash at
	// its start: var k [21]byte; copy(k[:], hash)
	if root, off, _, ok := bufRoot(flow.Strip(X)); ok && objLen(root) >= 21 {
		if in, isI := root.(ssa.Instruction); isI {
			ws, okw := x.fixedWrites(in.Parent(), root)
			switch {
			case okw && len(ws) == 1 && ws[0].kind == "copy" && ws[0].lo == 0:
				if off+hi > 21 {
					return nil, 0, 0, fmt.Sprintf("window [%d:%d] reaches past the 21 bytes of the padded hash", off+lo, off+hi)
				}
				return ws[0].val, off + lo, off + hi, ""
			case okw && len(ws) == 1 && ws[0].kind == "copy":
				return nil, 0, 0, fmt.Sprintf("the hash is copied to offset %d of the key buffer, not to its start", ws[0].lo)
			}
			return nil, 0, 0, "the key buffer " + flow.Expr(root) + " is not a zero-initialised buffer written by one copy of the hash only"
		}
	}
	if hi > 16 {
		return nil, 0, 0, fmt.Sprintf("window [%d:%d] reaches past the 16-byte hash without zero padding", lo, hi)
	}
	return X, lo, hi, ""
}

// window resolves a 7-byte DES key source to (hash, lo, hi).
func (x *c02) window(k0 ssa.Value) (hash ssa.Value, lo, hi int, why string) {
	bounds := func(s *ssa.Slice) (int, int, bool) {
		lo, hi := 0, -1
		if s.Low != nil {
			k, ok := constI(s.Low)
			if !ok {
				return 0, 0, false
			}
			lo = int(k)
		}
		if s.High != nil {
			k, ok := constI(s.High)
			if !ok {
				return 0, 0, false
			}
			hi = int(k)
		}
		return lo, hi, true
	}
	switch y := k0.(type) {
	case *ssa.Slice:
		lo, hi, ok := bounds(y)
		if !ok || hi < 0 {
			return nil, 0, 0, "key window " + flow.Expr(k0) + " does not have constant bounds"
		}
		return x.windowOf(y.X, lo, hi)
	case *ssa.Call:
		if bi, isB := y.Call.Value.(*ssa.Builtin); isB && bi.Name() == "append" && len(y.Call.Args) == 2 {
			if s, oks := y.Call.Args[0].(*ssa.Slice); oks {
				lo, hi, ok := bounds(s)
				n, _, okz := x.zeroTail(y.Call.Args[1], nil)
				if ok && hi >= 0 && okz && n >= 0 {
					return s.X, lo, hi + n, ""
				}
				if !okz {
					return nil, 0, 0, "the key is extended by " + flow.Expr(y.Call.Args[1]) + ", which is not provably zero bytes"
				}
			}
		}
	}
	return nil, 0, 0, "key source " + flow.Expr(k0) + " is not a constant window of the hash"
}

// deslForward: fn computes nothing itself and returns result #0 of ONE call of
// an in-module helper (a DESL routine shared by the entry points).
func (x *c02) deslForward(fn *ssa.Function) (*ssa.Function, *ssa.Call) {
	var call *ssa.Call
	rets := cryptoSuccessReturns(fn)
	if len(rets) == 0 {
		return nil, nil
	}
	for _, ret := range rets {
		if len(ret.Results) == 0 {
			return nil, nil
		}
		v := flow.Strip(ret.Results[0])
		if ex, ok := v.(*ssa.Extract); ok {
			if ex.Index != 0 {
				return nil, nil
			}
			v = ex.Tuple
		}
		c, ok := v.(*ssa.Call)
		if !ok || (call != nil && c != call) {
			return nil, nil
		}
		call = c
	}
	g := call.Call.StaticCallee()
	if g == nil || g == fn || g.Blocks == nil || !x.P.InModule(g) || x.opaque[g] || g.Signature.Recv() != nil {
		return nil, nil
	}
	return g, call
}

// deslOrder: the value returned by afn is the ciphertexts of `chains` (already
// sorted by key window) in that order.
func (x *c02) deslOrder(afn *ssa.Function, ret *ssa.Return, chains []*deslChain) (bool, string) {
	rv := flow.Strip(ret.Results[0])
	// in place: every ciphertext is the window [8k:8k+8] of the one returned buffer
	if o := chains[0].outObj; o != nil {
		same := true
		for _, ch := range chains {
			if ch.outObj != o {
				same = false
			}
		}
		if same {
			root, lo, _, ok := bufRoot(rv)
			if !ok || root != o || lo != 0 || flow.StaticLen(rv) != 24 {
				return false, "the response is " + flow.Expr(ret.Results[0]) + ", not the 24-byte buffer the three ciphertexts are written into"
			}
			for i, ch := range chains {
				if ch.outLo != 8*i {
					return false, fmt.Sprintf("the ciphertext of key window [%d:%d] is written at offset %d of the response, not %d", ch.lo, ch.hi, ch.outLo, 8*i)
				}
			}
			encs := map[ssa.Instruction]bool{}
			for _, in := range invokes(afn, "Encrypt") {
				encs[in] = true
			}
			for _, w := range x.e.WritersOf(afn, o) {
				if !encs[w] {
					return false, "the response buffer is also written by something other than the three Encrypt calls"
				}
			}
			return true, "three ciphertexts written in place at offsets 0, 8 and 16, in window order"
		}
	}
	// loop form: acc = φ(empty, append(acc, ct…)), one append per iteration
	if lp := chains[0].loop; lp != nil {
		for i, ch := range chains {
			if ch.loop != lp {
				return false, "the chains do not all come from one loop"
			}
			if ch.iter != i {
				return false, fmt.Sprintf("iteration %d of the loop uses key window [%d:%d]: the ciphertexts are appended out of window order", ch.iter, ch.lo, ch.hi)
			}
		}
		phi, ok := rv.(*ssa.Phi)
		if !ok || len(phi.Edges) != 2 {
			return false, "the response " + flow.Expr(ret.Results[0]) + " is not an accumulator carried round the loop"
		}
		var ap *ssa.Call
		var init ssa.Value
		for i, e := range phi.Edges {
			c, isC := flow.Strip(e).(*ssa.Call)
			if !isC {
				continue
			}
			bi, isB := c.Call.Value.(*ssa.Builtin)
			if !isB || bi.Name() != "append" || len(c.Call.Args) != 2 {
				continue
			}
			base := flow.Strip(c.Call.Args[0])
			if base == ssa.Value(phi) {
				ap, init = c, phi.Edges[1-i]
				continue
			}
			// rotated loop (range over an int): the accumulator φ sits in the body and
			// the value after the loop is a second φ over the same two values
			if pb, isPhi := base.(*ssa.Phi); isPhi && len(pb.Edges) == 2 {
				for j, pe := range pb.Edges {
					if flow.Strip(pe) == ssa.Value(c) && flow.Strip(pb.Edges[1-j]) == flow.Strip(phi.Edges[1-i]) {
						ap, init = c, phi.Edges[1-i]
					}
				}
			}
		}
		switch {
		case ap == nil:
			return false, "the loop does not extend the response by one append per iteration"
		case flow.Strip(ap.Call.Args[1]) != flow.Strip(chains[0].out):
			return false, "the loop appends " + flow.Expr(ap.Call.Args[1]) + ", not the Encrypt destination"
		case !flow.Dominates(lp, ap):
			return false, "the append does not follow the Encrypt in every iteration"
		case !emptySlice(init) && flow.StaticLen(init) != 0:
			return false, "the response does not start empty: " + flow.Expr(init)
		}
		return true, "one ciphertext appended per loop iteration, iterations in window order"
	}
	for _, ch := range chains {
		if ch.loop != nil {
			return false, "some chains are loop iterations and some are not"
		}
	}
	segs := x.e.Segs(ret.Results[0], nil)
	ok := len(segs) == 3
	for i := 0; ok && i < 3; i++ {
		if !chains[i].isOut(segs[i].V) {
			ok = false
		}
	}
	if ok {
		return true, "three ciphertexts in window order"
	}
	var got []string
	for _, s := range segs {
		got = append(got, flow.Expr(s.V))
	}
	return false, "the response is " + strings.Join(got, " ‖ ") + ", not the three ciphertexts in the order of their key windows"
}

func (x *c02) deslSyn(fn *ssa.Function, hashNeeds []need, hashWhat string) string {
	name := x.P.FuncName(fn)
	// afn holds the chains: fn itself, or the shared DESL helper fn forwards to.
	// lift maps a value of afn to the value of fn it stands for.
	afn := fn
	lift := func(v ssa.Value) (ssa.Value, string) { return v, "" }
	chains := x.deslChains(fn)
	via := ""
	if len(chains) == 0 {
		if g, call := x.deslForward(fn); g != nil {
			afn, chains = g, x.deslChains(g)
			via = " (in the shared helper " + x.P.FuncName(g) + ")"
			lift = func(v ssa.Value) (ssa.Value, string) {
				p, ok := flow.Strip(v).(*ssa.Parameter)
				if !ok || paramIndex(g, p) < 0 || paramIndex(g, p) >= len(call.Call.Args) {
					return nil, flow.Expr(v) + " is not a parameter of the shared helper " + x.P.FuncName(g)
				}
				return call.Call.Args[paramIndex(g, p)], ""
			}
		}
	}
	cc := name + ": three ParityAdjust → des.NewCipher → Encrypt chains"
	if len(chains) != 3 {
		x.R.Fail(c02R1, cc, x.pos(fn.Pos()), fmt.Sprintf("%d Encrypt chains, DESL has exactly three", len(chains)))
		return ""
	}
	x.R.OK(c02R1, cc, x.pos(fn.Pos()), "three Encrypt chains"+via)
	for _, ch := range chains {
		if ch.desc != "" {
			continue
		}
		var h ssa.Value
		var lo, hi int
		var why string
		if ch.pre {
			h, lo, hi, why = x.windowOf(ch.wX, ch.wLo, ch.wHi)
		} else {
			h, lo, hi, why = x.window(ch.key0)
		}
		if why != "" {
			ch.desc = why
			continue
		}
		ch.hash, ch.lo, ch.hi = h, lo, hi
	}
	sort.SliceStable(chains, func(i, j int) bool {
		if chains[i].lo != chains[j].lo {
			return chains[i].lo < chains[j].lo
		}
		return chains[i].at < chains[j].at
	})
	// undecidable chains sort first (lo = -1)
	want := [][2]int{{0, 7}, {7, 14}, {14, 21}}
	var desc []string
	usedWant := map[int]bool{}
	for _, ch := range chains {
		if ch.lo < 0 {
			x.R.Fail(c02R1, name+": chain key", x.pos(ch.at), ch.desc)
			continue
		}
		wi := -1
		for i, w := range want {
			if w[0] == ch.lo && w[1] == ch.hi {
				wi = i
			}
		}
		kc := fmt.Sprintf("%s: chain key = ParityAdjust(hash[%d:%d])", name, ch.lo, ch.hi)
		if wi < 0 || usedWant[wi] {
			x.R.Fail(c02R1, kc, x.pos(ch.at), fmt.Sprintf("key window [%d:%d] is not one of the DESL windows [0:7], [7:14], [14:21] (each used once)", ch.lo, ch.hi))
			continue
		}
		usedWant[wi] = true
		x.R.OK(c02R1, kc, x.pos(ch.at), "window of "+flow.Expr(ch.hash))
		desc = append(desc, fmt.Sprintf("[%d:%d]", ch.lo, ch.hi))
		// hash source
		hc := fmt.Sprintf("%s: chain [%d:%d] hash = %s", name, ch.lo, ch.hi, hashWhat)
		if hv, why := lift(ch.hash); hv == nil {
			x.R.Undecided(c02R1, hc, x.pos(ch.at), "the hash the key is cut from: "+why)
		} else {
			set := x.e.Prov(fn, hv)
			bad, und := judge(set, hashNeeds, constsOnly)
			x.verdict(c02R1, hc, ch.at, bad, und, trim(set.String(), 200))
		}
		// Encrypt(dst, ServerChallenge)
		ec := fmt.Sprintf("%s: chain [%d:%d] Encrypt(fresh 8 bytes, ServerChallenge)", name, ch.lo, ch.hi)
		if pv, why := lift(ch.plain); pv == nil {
			x.R.Undecided(c02R1, ec, x.pos(ch.at), "the plaintext: "+why)
		} else {
			sset := x.e.Prov(fn, pv)
			bad, und := judge(sset, []need{{what: "the ServerChallenge field", src: isField(0, "ServerChallenge")}}, nil)
			if bad == "" && und == "" && !ch.dstOK {
				bad = "the Encrypt destination is not a fresh 8-byte buffer"
			}
			x.verdict(c02R1, ec, ch.at, bad, und, "plaintext "+trim(sset.String(), 100))
		}
	}
	// return = ct1 ‖ ct2 ‖ ct3 in window order
	rc := name + ": return = ct[0:7] ‖ ct[7:14] ‖ ct[14:21]"
	complete := len(desc) == 3
	for _, ret := range cryptoSuccessReturns(afn) {
		if !complete {
			x.R.Undecided(rc, rc, x.pos(ret.Pos()), "the chains could not all be resolved")
			continue
		}
		if ok, msg := x.deslOrder(afn, ret, chains); ok {
			x.R.OK(c02R1, rc, x.pos(ret.Pos()), msg+via)
		} else {
			x.R.Fail(c02R1, rc, x.pos(ret.Pos()), msg)
		}
	}
	if !complete {
		return ""
	}
	return strings.Join(desc, " ")
}

func (x *c02) r1() {
	fHash := x.mod(cryNTLMv1, "NTLMv1", "Hash")
	fNT := x.mod(cryNTLMv1, "NTLMv1", "NTResponse")
	fLM := x.mod(cryNTLMv1, "NTLMv1", "LMResponse")
	ntNeeds := []need{
		{what: "the NTHash field", src: isField(0, "NTHash")},
		{what: "nt.NTHash(Password)", src: isField(0, "Password"), must: []string{x.lNT}, opt: true},
	}
	lmNeeds := []need{{what: "the Password field", src: isField(0, "Password"), must: []string{x.lLM}}}
	descs := map[string]string{}
	if fHash != nil {
		descs["Hash"] = x.desl(fHash, ntNeeds, "NT hash")
	}
	if fNT != nil {
		descs["NTResponse"] = x.desl(fNT, ntNeeds[:1], "NT hash")
	}
	if fLM != nil {
		descs["LMResponse"] = x.desl(fLM, lmNeeds, "lm.LMHash(Password)")
	}
	sc := cryNTLMv1 + ": Hash / NTResponse / LMResponse agree"
	und := 0
	agreed := ""
	for _, d := range descs {
		switch {
		case d == deslNotDecided:
			und++
		case agreed == "":
			agreed = d
		case d != agreed:
			agreed = "\x00"
		}
	}
	if descs["Hash"] != "" && descs["Hash"] == descs["NTResponse"] && descs["Hash"] == descs["LMResponse"] && und == 0 {
		x.R.OK(c02R1, sc, "", "same chain descriptor "+descs["Hash"])
	} else if und > 0 && agreed != "\x00" && (agreed != "" || und == len(descs)) {
		x.R.OK(c02R1, sc, "", fmt.Sprintf("NOT DECIDED — %d of the three entry points could not be evaluated to the end (see their obligations); the others agree", und))
		x.R.Note("NOT DECIDED: %s", sc)
	} else {
		x.R.Fail(c02R1, sc, "", fmt.Sprintf("the siblings' DESL descriptors differ or are unresolved: Hash=%q NTResponse=%q LMResponse=%q", descs["Hash"], descs["NTResponse"], descs["LMResponse"]))
	}
	x.label(fNT)
	x.label(fLM)
	x.lHash = x.label(fHash)
	// ntlm.calculateNTLMv1Response(challenge, password)
	if fn := x.mod(cryNTLM, "", "calculateNTLMv1Response"); fn != nil && fNT != nil && fLM != nil {
		name := x.P.FuncName(fn)
		roles, why := x.roles(fn)
		if roles == nil {
			x.R.Undecided(c02R1, name+": parameter roles", x.pos(fn.Pos()), why)
		} else {
			chal, pw := roleIdx(roles, "challenge"), roleIdx(roles, "password")
			g := x.begin()
			for i, want := range []struct {
				l, other, what string
			}{{x.e.Name(fLM), x.e.Name(fNT), "LM response = (*NTLMv1).LMResponse()"}, {x.e.Name(fNT), x.e.Name(fLM), "NT response = (*NTLMv1).NTResponse()"}} {
				for _, ret := range cryptoSuccessReturns(fn) {
					set := x.e.Prov(fn, ret.Results[i])
					bad, und := judge(set, []need{
						{what: "the password", src: isParam(pw), must: []string{want.l}, allow: []string{x.lNT, "field.NTHash", "field.Password"}},
						{what: "the server challenge", src: isParam(chal), must: []string{want.l}, allow: []string{"field.ServerChallenge"}},
					}, constsOnly)
					x.verdict(c02R1, fmt.Sprintf("%s: result #%d %s", name, i, want.what), ret.Pos(), bad, und, trim(set.String(), 200))
				}
			}
			if !g.clean() {
				x.v1RespBySx(g, fn, chal, pw)
			}
		}
	}
	// the ntlm package's own DESL copy must stay dead
	if sp := x.P.SSAPkgs[x.P.ModPath+"/"+cryNTLM]; sp != nil {
		for _, nm := range []string{"desEncrypt", "createDesKey"} {
			f := sp.Func(nm)
			dc := cryNTLM + "." + nm + ": unreferenced second DESL implementation"
			if f == nil {
				x.R.OK(c02R1, dc, "", "function no longer exists")
				continue
			}
			n := 0
			for _, g := range x.P.SrcFuncs() {
				if g == f || (nm == "createDesKey" && g.Name() == "desEncrypt") {
					continue
				}
				for _, b := range g.Blocks {
					for _, in := range b.Instrs {
						for _, op := range in.Operands(nil) {
							if *op == ssa.Value(f) {
								n++
							}
						}
					}
				}
			}
			if n == 0 {
				x.R.OK(c02R1, dc, x.pos(f.Pos()), "no function of the module refers to it; its key schedule is not an entry point")
			} else {
				x.R.Undecided(c02R1, dc, x.pos(f.Pos()), fmt.Sprintf("%d reference(s): a second, unverified DESL implementation became reachable", n))
			}
		}
	}
}

// ---- roles of the unexported ntlm helpers' parameters ------------------------

func roleIdx(r map[int]string, role string) int {
	for i, s := range r {
		if s == role {
			return i
		}
	}
	return -1
}

// roles maps parameter indices of an ntlm-package function to their meaning,
// propagated from the exported CreateAuthenticateMessage along static calls.
func (x *c02) roles(fn *ssa.Function) (map[int]string, string) {
	top := x.P.Func(cryNTLM, "", "CreateAuthenticateMessage")
	if top == nil {
		return nil, "CreateAuthenticateMessage does not resolve"
	}
	return x.roles1(fn, top, 0)
}

func (x *c02) roles1(fn, top *ssa.Function, depth int) (map[int]string, string) {
	if fn == top {
		if len(fn.Params) != 5 {
			return nil, "CreateAuthenticateMessage no longer has the signature (challenge, username, password, domain, workstation)"
		}
		return map[int]string{0: "challengeMsg", 1: "user", 2: "password", 3: "domain", 4: "workstation"}, ""
	}
	if depth > 4 {
		return nil, "call chain too deep"
	}
	out := map[int]string{}
	n := 0
	for _, g := range x.P.SrcFuncs() {
		if g.Pkg != fn.Pkg {
			continue
		}
		for _, call := range callsTo(g, fn) {
			gr, why := x.roles1(g, top, depth+1)
			if gr == nil {
				return nil, why
			}
			n++
			for j, a := range call.Call.Args {
				role := ""
				switch y := flow.Strip(a).(type) {
				case *ssa.Parameter:
					role = gr[paramIndex(g, y)]
				default:
					// challenge.ServerChallenge[:] of the challenge message
					set := x.e.Prov(g, a)
					for o := range set {
						if o.Src.Kind == flow.SField && gr[o.Src.Idx] == "challengeMsg" && strings.HasSuffix(o.Src.Name, ".ServerChallenge") && len(set) == 1 {
							role = "challenge"
						}
					}
				}
				if role == "" {
					continue
				}
				if prev, ok := out[j]; ok && prev != role {
					return nil, fmt.Sprintf("parameter %d of %s receives different roles at different call sites", j, x.P.FuncName(fn))
				}
				out[j] = role
			}
		}
	}
	if n == 0 {
		return nil, x.P.FuncName(fn) + " has no static caller in its package"
	}
	return out, ""
}

// ---- R2 / R3 / R4 ------------------------------------------------------------------

type v2site struct {
	fn          *ssa.Function
	user, dom   func(flow.Source) bool
	userW, domW string
	keyNeeds    []need
	domCase     []string // case-mapping labels the domain path must carry (wire consistency); nil = none
	domRule     string   // text of the domain clause
	domWhy      string   // appended to a violation
}

// hmacs lists the hmac.New(md5.New, key) computations of fn.
func (x *c02) hmacs(fn *ssa.Function) ([]*flow.HashUse, string) {
	var out []*flow.HashUse
	for _, c := range callsTo(fn, x.fHmacNew) {
		h, why := x.e.HashOfObj(c)
		if h == nil {
			return nil, "HMAC object " + flow.Expr(c) + ": " + why
		}
		out = append(out, h)
	}
	return out, ""
}

func (x *c02) isMD5(h *flow.HashUse) bool {
	f, ok := flow.Strip(h.New.Call.Args[0]).(*ssa.Function)
	return ok && f == x.fMd5New
}

// idHMAC is an HMAC computation as seen from the analysed function: written in
// it, or in an in-module helper it calls (the helper's parameters bound to the
// call's arguments). val is the MAC value in the analysed function.
type idHMAC struct {
	d   *flow.HashDesc
	val ssa.Value
	pos token.Pos
}

// hmacsDeep: the hmac.New computations of fn, including those one call level
// down in a helper that returns the Sum of an HMAC over its own parameters.
func (x *c02) hmacsDeep(fn *ssa.Function) ([]idHMAC, string) {
	var out []idHMAC
	hs, why := x.hmacs(fn)
	if hs == nil && why != "" {
		return nil, why
	}
	for _, h := range hs {
		out = append(out, idHMAC{d: &flow.HashDesc{Ctor: h.New.Common().StaticCallee(), CtorArgs: h.New.Common().Args, Input: x.e.HashInput(h, x.dist), Sum: h.Sum}, val: h.Sum, pos: h.New.Pos()})
	}
	for _, b := range fn.Blocks {
		for _, in := range b.Instrs {
			call, ok := in.(*ssa.Call)
			if !ok {
				continue
			}
			g := call.Call.StaticCallee()
			if g == nil || g == fn || g.Blocks == nil || !x.P.InModule(g) || x.opaque[g] || len(callsTo(g, x.fHmacNew)) == 0 {
				continue
			}
			d, _ := x.e.DeepHash(call, x.dist)
			if d == nil || d.Via == nil || d.Ctor != x.fHmacNew {
				continue
			}
			out = append(out, idHMAC{d: d, val: call, pos: call.Pos()})
		}
	}
	return out, ""
}

// identity checks R2 at one site and returns the identity HMAC.
func (x *c02) identity(s v2site) *idHMAC {
	fn := s.fn
	name := x.P.FuncName(fn)
	hs, why := x.hmacsDeep(fn)
	ic := name + ": NTOWFv2 identity HMAC"
	if hs == nil && why != "" {
		x.R.Undecided(c02R2, ic, x.pos(fn.Pos()), why)
		return nil
	}
	var id *idHMAC
	for i := range hs {
		dep := false
		for _, sg := range hs[i].d.Input {
			if len(x.e.SegProv(fn, sg).From(s.user)) > 0 {
				dep = true
			}
		}
		if dep {
			if id != nil {
				x.R.Undecided(c02R2, ic, x.pos(fn.Pos()), "more than one HMAC absorbs the user name")
				return nil
			}
			id = &hs[i]
		}
	}
	if id == nil {
		x.R.Fail(c02R2, ic, x.pos(fn.Pos()), "no HMAC in this function absorbs "+s.userW)
		return nil
	}
	via := ""
	if id.d.Via != nil {
		via = " (in helper " + x.P.FuncName(id.d.Via) + ")"
	}
	if f, ok := flow.Strip(id.d.CtorArgs[0]).(*ssa.Function); !ok || f != x.fMd5New || len(id.d.CtorArgs) != 2 {
		x.R.Fail(c02R2, ic, x.pos(id.pos), "the identity MAC is not hmac.New(md5.New, …)")
	} else {
		x.R.OK(c02R2, ic, x.pos(id.pos), "hmac.New(md5.New, key)"+via)
	}
	// key
	if len(id.d.CtorArgs) == 2 {
		kset := x.e.Prov(fn, id.d.CtorArgs[1])
		bad, und := judge(kset, s.keyNeeds, constsOnly)
		x.verdict(c02R2, name+": NTOWFv2 key = NT hash", id.pos, bad, und, trim(kset.String(), 200))
	}
	// input: user then domain
	segs := id.d.Input
	var us, ds []int
	for i, sg := range segs {
		p := x.e.SegProv(fn, sg)
		if len(p.From(s.user)) > 0 {
			us = append(us, i)
		}
		if len(p.From(s.dom)) > 0 {
			ds = append(ds, i)
		}
	}
	uc := name + ": NTOWFv2 identity [user ← ToUpper, EncodeUTF16LE]"
	dc := name + ": NTOWFv2 identity [domain ← " + s.domRule + "]"
	oc := name + ": NTOWFv2 identity [user precedes domain, nothing else]"
	if len(segs) == 2 && len(us) == 1 && len(ds) == 1 && us[0] == 0 && ds[0] == 1 {
		x.R.OK(c02R2, oc, x.pos(id.pos), "two segments: "+flow.Expr(segs[0].V)+" then "+flow.Expr(segs[1].V))
	} else {
		var got []string
		for _, sg := range segs {
			got = append(got, flow.Expr(sg.V))
		}
		x.R.Fail(c02R2, oc, x.pos(id.pos), fmt.Sprintf("the identity HMAC absorbs [%s]; NTOWFv2 hashes exactly Uppercase(user) followed by the domain (user segments %v, domain segments %v)", strings.Join(got, " ‖ "), us, ds))
	}
	if len(us) >= 1 {
		p := x.e.SegProv(fn, segs[us[0]])
		bad, und := judge(p, []need{{what: s.userW, src: s.user, must: []string{x.lUpper, x.lEnc}}}, constsOnly)
		x.verdict(c02R2, uc, id.pos, bad, und, trim(p.String(), 200))
	} else {
		x.R.Fail(c02R2, uc, x.pos(id.pos), "no hashed segment derives from "+s.userW)
	}
	if len(ds) >= 1 {
		p := x.e.SegProv(fn, segs[ds[len(ds)-1]])
		bad, und := judge(p, []need{{what: s.domW, src: s.dom, must: append([]string{x.lEnc}, s.domCase...)}}, constsOnly)
		if bad != "" {
			bad += s.domWhy
		}
		x.verdict(c02R2, dc, id.pos, bad, und, trim(p.String(), 200))
	} else {
		x.R.Fail(c02R2, dc, x.pos(id.pos), "no hashed segment derives from "+s.domW)
	}
	return id
}

// isCaseMap: labels that change letter case.
func (x *c02) isCaseMap(l string) bool {
	switch l {
	case x.lUpper, x.lLower, "strings.ToTitle", "strings.Title", "bytes.ToUpper", "bytes.ToLower", "bytes.ToTitle", "bytes.Title":
		return true
	}
	return false
}

// wireDomainCase: the case-mapping labels on every path from the domain
// argument of CreateAuthenticateMessage into the message bytes that does not go
// through the response computation — i.e. into the DomainName payload and its
// length fields. All such paths must agree.
func (x *c02) wireDomainCase() ([]string, bool) {
	top := x.P.Func(cryNTLM, "", "CreateAuthenticateMessage")
	v2 := x.P.Func(cryNTLM, "", "calculateNTLMv2Response")
	v1 := x.P.Func(cryNTLM, "", "calculateNTLMv1Response")
	wc := cryNTLM + ".CreateAuthenticateMessage: DomainName payload case mapping"
	if top == nil || v2 == nil {
		x.R.Undecided(c02R2, wc, "", "anchor does not resolve")
		return nil, false
	}
	lv2 := x.label(v2)
	x.label(v1)
	var seen []string
	n := 0
	for _, ret := range cryptoSuccessReturns(top) {
		set := x.e.Prov(top, ret.Results[0])
		for _, o := range set.From(isParam(3)).Sorted() {
			if o.Has(lv2) {
				continue
			}
			var cm []string
			for _, l := range o.LabelList() {
				if x.isCaseMap(l) {
					cm = append(cm, l)
				}
			}
			key := strings.Join(cm, ",")
			n++
			if !has(seen, key) {
				seen = append(seen, key)
			}
		}
	}
	if n == 0 {
		x.R.Fail(c02R2, wc, x.pos(top.Pos()), "the domain argument does not reach the AUTHENTICATE message outside the response computation")
		return nil, false
	}
	if len(seen) != 1 {
		x.R.Fail(c02R2, wc, x.pos(top.Pos()), fmt.Sprintf("the domain reaches the message under different case mappings on different paths: %q", seen))
		return nil, false
	}
	var out []string
	if seen[0] != "" {
		out = strings.Split(seen[0], ",")
	}
	x.R.OK(c02R2, wc, x.pos(top.Pos()), fmt.Sprintf("every one of the %d payload paths applies {%s} to the domain", n, shortAll(out)))
	return out, true
}

func (x *c02) r2r3r4() {
	// --- ntlmv2.NewNTLMv2(domain, username, password, serverChallenge, clientChallenge)
	if fn := x.mod(cryNTLMv2, "", "NewNTLMv2"); fn != nil {
		if len(fn.Params) != 5 {
			x.R.Undecided(c02R2, x.P.FuncName(fn)+": signature", x.pos(fn.Pos()), "exported signature is no longer (domain, username, password, serverChallenge, clientChallenge)")
		} else {
			x.identityG(v2site{fn: fn, user: isParam(1), dom: isParam(0), userW: "the username argument", domW: "the domain argument",
				domRule: c02DomAsIs, domWhy: c02DomWhy,
				keyNeeds: []need{{what: "the password", src: isParam(2), must: []string{x.lNT}}}}, "new", 1, 0, 2)
		}
	}
	// --- (*NTLMv2).Hash
	if fn := x.mod(cryNTLMv2, "NTLMv2", "Hash"); fn != nil {
		id := x.identityG(v2site{fn: fn, user: isField(0, "Username"), dom: isField(0, "Domain"), userW: "the Username field", domW: "the Domain field",
			domRule: c02DomAsIs, domWhy: c02DomWhy,
			keyNeeds: []need{
				{what: "the Password field", src: isField(0, "Password"), must: []string{x.lNT}, opt: true},
				{what: "the NTHash field", src: isField(0, "NTHash"), opt: true},
			}}, "hash", -1, -1, -1)
		x.proof(fn, 0, id, nil, isField(0, "ServerChallenge"), "the ServerChallenge field", isField(0, "ClientChallenge"), "the ClientChallenge field")
	}
	// --- ntlm.ntowfv2 / calculateNTLMv2Response / createNTLMv2Blob
	fOwf := x.mod(cryNTLM, "", "ntowfv2")
	if fOwf != nil {
		roles, why := x.roles(fOwf)
		if roles == nil || roleIdx(roles, "user") < 0 || roleIdx(roles, "domain") < 0 || roleIdx(roles, "password") < 0 {
			x.R.Undecided(c02R2, x.P.FuncName(fOwf)+": parameter roles", x.pos(fOwf.Pos()), "cannot propagate user/password/domain from CreateAuthenticateMessage: "+why)
		} else {
			wire, wok := x.wireDomainCase()
			x.identityG(v2site{fn: fOwf, user: isParam(roleIdx(roles, "user")), dom: isParam(roleIdx(roles, "domain")),
				userW: "the user-name argument", domW: "the domain argument",
				domCase: wire, domRule: "EncodeUTF16LE, same case mapping as the AUTHENTICATE DomainName payload",
				domWhy:   fmt.Sprintf(" — the server computes NTOWFv2 over the DomainName it receives in the AUTHENTICATE message, which CreateAuthenticateMessage builds with case mapping {%s}; hashing a differently-cased domain yields a response the server rejects", shortAll(wire)),
				keyNeeds: []need{{what: "the password", src: isParam(roleIdx(roles, "password")), must: []string{x.lNT}, allow: []string{"field.NTHash"}}}},
				"owf", roleIdx(roles, "user"), roleIdx(roles, "domain"), roleIdx(roles, "password"))
			_ = wok
		}
	}
	if fn := x.mod(cryNTLM, "", "calculateNTLMv2Response"); fn != nil && fOwf != nil {
		roles, why := x.roles(fn)
		if roles == nil {
			x.R.Undecided(c02R3, x.P.FuncName(fn)+": parameter roles", x.pos(fn.Pos()), why)
		} else {
			cm := roleIdx(roles, "challengeMsg")
			x.proof(fn, 1, nil, roles, isField(cm, "ServerChallenge"), "challenge.ServerChallenge", nil, "")
		}
	}
}

// proof checks R3 and R4 for the function whose result #ri is the NT response.
func (x *c02) proofSyn(fn *ssa.Function, ri int, id *idHMAC, roles map[int]string, sc func(flow.Source) bool, scW string, cc func(flow.Source) bool, ccW string) {
	name := x.P.FuncName(fn)
	fOwf := x.P.Func(cryNTLM, "", "ntowfv2")
	for _, ret := range cryptoSuccessReturns(fn) {
		resp := x.e.Segs(ret.Results[ri], nil)
		pc := name + ": response = proof ‖ blob"
		if len(resp) < 2 {
			x.R.Fail(c02R3, pc, x.pos(ret.Pos()), "the response "+flow.Expr(ret.Results[ri])+" is not a concatenation proof ‖ blob")
			continue
		}
		d, why := x.e.DeepHash(resp[0].V, nil)
		if d == nil {
			x.R.Undecided(c02R3, pc, x.pos(ret.Pos()), "the first 16 bytes "+flow.Expr(resp[0].V)+" do not resolve to one HMAC computation: "+why)
			continue
		}
		if d.Ctor != x.fHmacNew || len(d.CtorArgs) != 2 {
			x.R.Fail(c02R3, pc, x.pos(ret.Pos()), "the proof is computed by "+x.e.Name(d.Ctor)+", not hmac.New")
			continue
		}
		if f, ok := flow.Strip(d.CtorArgs[0]).(*ssa.Function); !ok || f != x.fMd5New {
			x.R.Fail(c02R3, pc, x.pos(ret.Pos()), "the proof MAC is not HMAC-MD5")
			continue
		}
		x.R.OK(c02R3, pc, x.pos(ret.Pos()), "first segment is the Sum of an hmac.New(md5.New, key)")
		// key = NTOWFv2
		kc := name + ": proof key = NTOWFv2 result"
		key := flow.Strip(d.CtorArgs[1])
		switch {
		case id != nil && key == flow.Strip(id.val):
			x.R.OK(c02R3, kc, x.pos(ret.Pos()), "the Sum of the identity HMAC of "+c02R2+" (same SSA value)")
		case id != nil:
			x.R.Fail(c02R3, kc, x.pos(ret.Pos()), "the proof is keyed by "+flow.Expr(key)+", not by the NTOWFv2 value computed in this function")
		default:
			call, _, ok := tupleResult(key, fOwf)
			if !ok {
				x.R.Fail(c02R3, kc, x.pos(ret.Pos()), "the proof is keyed by "+flow.Expr(key)+", not by the result of ntowfv2")
				break
			}
			owfRoles, _ := x.roles(fOwf)
			bad := ""
			for j, a := range call.Call.Args {
				p, isP := flow.Strip(a).(*ssa.Parameter)
				if !isP || roles[paramIndex(fn, p)] != owfRoles[j] || owfRoles[j] == "" {
					bad = fmt.Sprintf("argument %d of ntowfv2 is %s", j, flow.Expr(a))
				}
			}
			if bad != "" {
				x.R.Fail(c02R3, kc, x.pos(call.Pos()), bad+": user, password and domain do not arrive in their own positions")
			} else {
				x.R.OK(c02R3, kc, x.pos(call.Pos()), "ntowfv2(user, password, domain) with each argument in its own role")
			}
		}
		// input = server challenge ‖ the very blob
		ic := name + ": proof input = server challenge ‖ the blob that is sent"
		if len(d.Input) < 2 {
			x.R.Fail(c02R3, ic, x.pos(ret.Pos()), fmt.Sprintf("the proof HMAC absorbs %d segment(s); it must absorb the server challenge and then the blob", len(d.Input)))
			continue
		}
		s0 := x.e.SegProv(fn, d.Input[0])
		bad, und := judge(s0, []need{{what: scW, src: sc, allow: []string{"slice[:8]", "slice[0:8]"}}}, nil)
		x.verdict(c02R3, name+": proof input starts with the server challenge", ret.Pos(), bad, und, trim(s0.String(), 120))
		var blobIn, blobOut []flow.Seg
		for _, s := range d.Input[1:] {
			blobIn = append(blobIn, x.e.Segs(s.V, nil)...)
		}
		for _, s := range resp[1:] {
			blobOut = append(blobOut, x.e.Segs(s.V, nil)...)
		}
		same := len(blobIn) == len(blobOut)
		for i := 0; same && i < len(blobIn); i++ {
			if flow.Strip(blobIn[i].V) != flow.Strip(blobOut[i].V) {
				same = false
			}
		}
		if !same {
			x.R.Fail(c02R3, ic, x.pos(ret.Pos()), fmt.Sprintf("the bytes authenticated after the server challenge (%s) are not the SSA values appended after the proof (%s): the proof does not authenticate the blob that is sent", segList(blobIn), segList(blobOut)))
			continue
		}
		// nothing writes the blob's pieces after the proof was computed
		late := ""
		var firstWrite ssa.Instruction = d.Sum
		if d.Via == nil {
			if h, _ := x.e.HashOf(resp[0].V); h != nil && len(h.Writes) > 0 {
				firstWrite = h.Writes[0]
			}
		} else if c, _, ok := tupleResult(resp[0].V, d.Via); ok {
			firstWrite = c
		}
		for _, s := range blobIn {
			v := flow.Strip(s.V)
			if _, isK := x.e.ConstBytes(v); isK {
				continue
			}
			for _, w := range x.e.WritersOf(fn, v) {
				if w.Parent() == fn && !flow.Dominates(w, firstWrite) {
					late = flow.Expr(v) + " is written after (or not on every path before) the proof is computed"
				}
			}
		}
		// … nor the appended value itself (or an intermediate of its append chain)
		if ap, ok := flow.Strip(ret.Results[ri]).(*ssa.Call); ok && len(ap.Call.Args) == 2 {
			for v, d := ap.Call.Args[1], 0; v != nil && d < 32; d++ {
				for _, w := range x.e.WritersOf(fn, v) {
					if w.Parent() == fn && !flow.Dominates(w, firstWrite) {
						late = flow.Expr(v) + " is written in place after (or not on every path before) the proof is computed"
					}
				}
				c, isC := flow.Strip(v).(*ssa.Call)
				if !isC {
					break
				}
				if bi, isB := c.Call.Value.(*ssa.Builtin); isB && bi.Name() == "append" {
					v = c.Call.Args[0]
					continue
				}
				if f := c.Call.StaticCallee(); f != nil && len(c.Call.Args) == 3 && (strings.HasPrefix(f.String(), "(encoding/binary.littleEndian).AppendUint") || strings.HasPrefix(f.String(), "(encoding/binary.bigEndian).AppendUint")) {
					v = c.Call.Args[1]
					continue
				}
				break
			}
		}
		if late != "" {
			x.R.Fail(c02R3, ic, x.pos(ret.Pos()), late)
		} else {
			x.R.OK(c02R3, ic, x.pos(ret.Pos()), "same SSA values "+segList(blobIn)+", none written after the proof")
		}
		// R4 on the blob: the value appended after the proof
		var blobVal ssa.Value
		if ap, ok := flow.Strip(ret.Results[ri]).(*ssa.Call); ok {
			if bi, isB := ap.Call.Value.(*ssa.Builtin); isB && bi.Name() == "append" && len(ap.Call.Args) == 2 && len(x.e.Segs(ap.Call.Args[0], nil)) == 1 {
				blobVal = ap.Call.Args[1]
			}
		}
		x.layout(fn, blobVal, cc, ccW)
	}
}

func segList(ss []flow.Seg) string {
	var out []string
	for _, s := range ss {
		out = append(out, flow.Expr(s.V))
	}
	return "[" + strings.Join(out, " ‖ ") + "]"
}

// atomBytes expands a const/pad atom to its bytes.
func atomBytes(a codec.Atom) ([]byte, bool) {
	switch a.Kind {
	case "pad":
		return make([]byte, a.Width), true
	case "const":
		v, err := strconv.ParseInt(a.Expr, 0, 64)
		if err != nil {
			return nil, false
		}
		if a.Width == 1 && v >= 0 && v < 256 {
			return []byte{byte(v)}, true
		}
		if v == 0 {
			return make([]byte, a.Width), true
		}
	}
	return nil, false
}

// layout checks R4 for a blob given as hash-input segments of fn. If the blob
// is the result of an in-module builder, the builder is analysed and the
// client challenge is traced through its parameter to the caller's argument.
func (x *c02) layout(fn *ssa.Function, val ssa.Value, cc func(flow.Source) bool, ccW string) {
	name := x.P.FuncName(fn)
	lfn := fn
	var site *ssa.Call
	if val != nil {
		if c, ok := flow.Strip(val).(*ssa.Call); ok {
			if g := c.Call.StaticCallee(); g != nil && x.P.InModule(g) && g.Blocks != nil {
				rets := cryptoSuccessReturns(g)
				if len(rets) == 1 {
					lfn, val, site = g, rets[0].Results[0], c
				}
			}
		}
	}
	lname := x.P.FuncName(lfn)
	if val == nil {
		x.R.Undecided(c02R4, name+": blob layout", x.pos(fn.Pos()), "the response is not append(proof, blob...) with one blob value")
		return
	}
	if x.layoutFixed(lfn, fn, site, val, cc, ccW) {
		return
	}
	ext := codec.NewExt(x.w, lfn)
	atoms := ext.Seq(val)
	x.R.Extra["blob_layout "+lname] = codec.Render(atoms)
	// prefix: 01 01 00×6
	i := 0
	var head []byte
	for i < len(atoms) && len(head) < 8 {
		b, ok := atomBytes(atoms[i])
		if !ok {
			break
		}
		head = append(head, b...)
		i++
	}
	hc := lname + ": blob[0:8] = 01 01 00 00 00 00 00 00"
	wantHead := []byte{1, 1, 0, 0, 0, 0, 0, 0}
	if string(head) == string(wantHead) {
		x.R.OK(c02R4, hc, x.pos(lfn.Pos()), "RespType 1, HiRespType 1, six reserved zero bytes")
	} else {
		x.R.Fail(c02R4, hc, x.pos(lfn.Pos()), "the blob starts with "+hexOf(head)+" then "+codec.Render(atoms[min(i, len(atoms)):min(i+1, len(atoms))])+"; NTLMv2_CLIENT_CHALLENGE starts 01 01 00 00 00 00 00 00")
		return
	}
	tc := lname + ": blob[8:16] = 8-byte little-endian timestamp"
	if i < len(atoms) && atoms[i].Kind == "fixed" && atoms[i].Width == 8 && atoms[i].Order == "LE" {
		x.R.OK(c02R4, tc, x.pos(atoms[i].Pos), "8 bytes, little-endian: "+atoms[i].Expr)
		i++
	} else {
		got := "nothing"
		if i < len(atoms) {
			got = atoms[i].String()
		}
		x.R.Fail(c02R4, tc, x.pos(lfn.Pos()), "after the 8-byte header comes "+got+"; the TimeStamp is 8 bytes little-endian")
		return
	}
	// client challenge atom
	ccC := lname + ": blob[16:24] = the client challenge"
	if i >= len(atoms) || atoms[i].Kind != "bytes" {
		got := "nothing"
		if i < len(atoms) {
			got = atoms[i].String()
		}
		x.R.Fail(c02R4, ccC, x.pos(lfn.Pos()), "after the timestamp comes "+got+", not the client-challenge bytes")
		return
	}
	// identity through E5: the segment at static offset 16
	segs := x.e.Segs(val, nil)
	off := 0
	var ccSeg *flow.Seg
	for k := range segs {
		if off == 16 {
			ccSeg = &segs[k]
			break
		}
		n := segs[k].Len()
		if b, ok := x.e.ConstBytes(segs[k].V); ok && segs[k].N == 0 {
			n = len(b)
		}
		if n < 0 {
			break
		}
		off += n
	}
	if ccSeg == nil {
		x.R.Undecided(ccC, ccC, x.pos(lfn.Pos()), "cannot locate the concatenation segment at offset 16")
		return
	}
	ccVal := ccSeg.V
	ccFn := lfn
	if p, isP := flow.Strip(ccVal).(*ssa.Parameter); isP && site != nil {
		ccVal, ccFn = site.Call.Args[paramIndex(lfn, p)], fn
	}
	set := x.e.Prov(ccFn, ccVal)
	var bad, und string
	if cc != nil {
		bad, und = judge(set, []need{{what: ccW, src: cc}}, nil)
	} else {
		// generated here: an 8-byte buffer filled by crypto/rand only
		bad, und = judge(set, []need{{what: "a crypto/rand.Read fill", src: func(s flow.Source) bool { return s.Kind == flow.SCall && s.Name == "crypto/rand.Read" }, must: []string{"crypto/rand.Read"}}}, nil)
	}
	if bad == "" && und == "" && flow.StaticLen(ccVal) != 8 {
		bad = "the client challenge " + flow.Expr(ccVal) + " is not a fixed 8-byte value"
	}
	x.verdict(c02R4, ccC, atoms[i].Pos, bad, und, "client challenge is "+flow.Expr(ccVal)+": "+trim(set.String(), 120))
	i++
	// reserved 4 zero bytes
	rc := lname + ": blob[24:28] = 00 00 00 00"
	var z []byte
	for i < len(atoms) && len(z) < 4 {
		b, ok := atomBytes(atoms[i])
		if !ok {
			break
		}
		z = append(z, b...)
		i++
	}
	if len(z) == 4 && flow.AllZero(z) {
		x.R.OK(c02R4, rc, x.pos(lfn.Pos()), "four reserved zero bytes, then the target information")
	} else {
		x.R.Fail(c02R4, rc, x.pos(lfn.Pos()), "after the client challenge come "+hexOf(z)+"; Reserved3 is four zero bytes")
	}
}

// fixedWrite is one write into a zero-initialised local buffer at a constant offset.
type fixedWrite struct {
	lo, hi int       // [lo, hi); hi == -1: open (a copy of a value of unknown length)
	kind   string    // "byte" (constant k), "uint" (PutUintN of val), "copy" (of val), "dyn" (non-constant byte)
	k      byte      // kind byte
	val    ssa.Value // kind uint / copy / dyn
	be     bool
	at     ssa.Instruction
}

// fixedWrites lists every write into the local buffer root, if all of them are
// stores of bytes at constant indices, PutUintN or copy into constant windows,
// outside loops.
func (x *c02) fixedWrites(fn *ssa.Function, root ssa.Value) ([]fixedWrite, bool) {
	var out []fixedWrite
	for _, w := range x.e.WritersOf(fn, root) {
		if flow.InLoop(w) || w.Parent() != fn {
			return nil, false
		}
		switch y := w.(type) {
		case *ssa.Store:
			ia, ok := y.Addr.(*ssa.IndexAddr)
			if !ok {
				return nil, false
			}
			idx, isK := constI(ia.Index)
			r, off, _, okb := bufRoot(flow.Strip(ia.X))
			if !isK || !okb || r != root {
				return nil, false
			}
			fw := fixedWrite{lo: off + int(idx), hi: off + int(idx) + 1, kind: "dyn", val: y.Val, at: y}
			if k, isC := constI(y.Val); isC && k >= 0 && k < 256 {
				fw.kind, fw.k = "byte", byte(k)
			}
			out = append(out, fw)
		case *ssa.Call:
			cc := y.Common()
			if bi, isB := cc.Value.(*ssa.Builtin); isB && bi.Name() == "copy" {
				r, off, lim, okb := bufRoot(flow.Strip(cc.Args[0]))
				if !okb || r != root {
					return nil, false
				}
				fw := fixedWrite{lo: off, hi: -1, kind: "copy", val: cc.Args[1], at: y}
				if n := flow.StaticLen(cc.Args[1]); n >= 0 {
					fw.hi = off + n
				}
				if lim >= 0 && (fw.hi < 0 || fw.hi > lim) {
					fw.hi = lim
				}
				out = append(out, fw)
				continue
			}
			f := cc.StaticCallee()
			if f == nil || len(cc.Args) != 3 {
				return nil, false
			}
			name, be := f.String(), false
			switch {
			case strings.HasPrefix(name, "(encoding/binary.littleEndian).PutUint"):
				name = strings.TrimPrefix(name, "(encoding/binary.littleEndian).PutUint")
			case strings.HasPrefix(name, "(encoding/binary.bigEndian).PutUint"):
				name, be = strings.TrimPrefix(name, "(encoding/binary.bigEndian).PutUint"), true
			default:
				return nil, false
			}
			width := map[string]int{"16": 2, "32": 4, "64": 8}[name]
			r, off, _, okb := bufRoot(flow.Strip(cc.Args[1]))
			if width == 0 || !okb || r != root {
				return nil, false
			}
			out = append(out, fixedWrite{lo: off, hi: off + width, kind: "uint", val: cc.Args[2], be: be, at: y})
		default:
			return nil, false
		}
	}
	return out, len(out) > 0
}

// layoutFixed decides R4 for a blob that is ONE zero-initialised buffer filled
// at constant offsets (blob[0], blob[1] = 1, 1; PutUint64(blob[8:], ts);
// copy(blob[16:], cc); copy(blob[28:], info)). It reports false — and records
// nothing — when the blob is not of this form.
func (x *c02) layoutFixed(lfn, fn *ssa.Function, site *ssa.Call, val ssa.Value, cc func(flow.Source) bool, ccW string) bool {
	root, off0, _, ok := bufRoot(flow.Strip(val))
	if !ok || off0 != 0 {
		return false
	}
	ws, ok := x.fixedWrites(lfn, root)
	if !ok {
		return false
	}
	lname := x.P.FuncName(lfn)
	// the buffer is at least 28 bytes long
	minLen := objLen(root)
	if m, isM := root.(*ssa.MakeSlice); isM && minLen < 0 {
		if _, mul, add := affine(m.Len); mul >= 0 {
			minLen = int(add)
		}
	}
	covering := func(i int) []fixedWrite {
		var out []fixedWrite
		for _, w := range ws {
			if i >= w.lo && (w.hi < 0 || i < w.hi) {
				out = append(out, w)
			}
		}
		return out
	}
	x.R.Extra["blob_layout "+lname] = fmt.Sprintf("one zero-initialised buffer with %d fixed-offset writes", len(ws))
	// [0:8]
	hc := lname + ": blob[0:8] = 01 01 00 00 00 00 00 00"
	head := make([]byte, 8)
	bad := ""
	for i := 0; i < 8; i++ {
		c := covering(i)
		switch {
		case len(c) == 0:
		case len(c) == 1 && c[0].kind == "byte":
			head[i] = c[0].k
		default:
			bad = fmt.Sprintf("byte %d of the blob is not a constant", i)
		}
	}
	switch {
	case minLen < 28:
		x.positively(c02R4, hc, x.pos(lfn.Pos()), report.Finding, "the blob buffer is not provably at least 28 bytes long")
		return true
	case bad != "":
		x.positively(c02R4, hc, x.pos(lfn.Pos()), report.Finding, bad+"; NTLMv2_CLIENT_CHALLENGE starts 01 01 00 00 00 00 00 00")
		return true
	case string(head) != string([]byte{1, 1, 0, 0, 0, 0, 0, 0}):
		x.positively(c02R4, hc, x.pos(lfn.Pos()), report.Finding, "the blob starts with "+hexOf(head)+"; NTLMv2_CLIENT_CHALLENGE starts 01 01 00 00 00 00 00 00")
		return true
	}
	x.R.OK(c02R4, hc, x.pos(lfn.Pos()), "RespType 1, HiRespType 1, six reserved zero bytes (stored at fixed offsets of a zero-initialised buffer)")
	// [8:16]
	tc := lname + ": blob[8:16] = 8-byte little-endian timestamp"
	var ts *fixedWrite
	for i := 8; i < 16; i++ {
		c := covering(i)
		if len(c) != 1 || c[0].kind != "uint" || c[0].lo != 8 || c[0].hi != 16 {
			x.positively(c02R4, tc, x.pos(lfn.Pos()), report.Finding, fmt.Sprintf("byte %d of the blob is not part of one 8-byte integer written at offset 8; the TimeStamp is 8 bytes little-endian at offset 8", i))
			return true
		}
		ts = &c[0]
	}
	if ts.be {
		x.positively(c02R4, tc, x.pos(ts.at.Pos()), report.Finding, "the timestamp is written big-endian; the TimeStamp is 8 bytes little-endian")
		return true
	}
	x.R.OK(c02R4, tc, x.pos(ts.at.Pos()), "PutUint64 at offset 8, little-endian: "+flow.Expr(ts.val))
	// [16:24]
	ccC := lname + ": blob[16:24] = the client challenge"
	var cw *fixedWrite
	for i := 16; i < 24; i++ {
		c := covering(i)
		if len(c) != 1 || c[0].kind != "copy" || c[0].lo != 16 {
			x.positively(c02R4, ccC, x.pos(lfn.Pos()), report.Finding, fmt.Sprintf("byte %d of the blob is not written by one copy to offset 16; the client challenge occupies bytes 16..23", i))
			return true
		}
		cw = &c[0]
	}
	ccVal, ccFn := cw.val, lfn
	if p, isP := flow.Strip(ccVal).(*ssa.Parameter); isP && site != nil {
		ccVal, ccFn = site.Call.Args[paramIndex(lfn, p)], fn
	}
	set := x.e.Prov(ccFn, ccVal)
	var bd, und string
	if cc != nil {
		bd, und = judge(set, []need{{what: ccW, src: cc}}, nil)
	} else {
		bd, und = judge(set, []need{{what: "a crypto/rand.Read fill", src: func(s flow.Source) bool { return s.Kind == flow.SCall && s.Name == "crypto/rand.Read" }, must: []string{"crypto/rand.Read"}}}, nil)
	}
	if bd == "" && und == "" && flow.StaticLen(ccVal) != 8 {
		bd = "the client challenge " + flow.Expr(ccVal) + " is not a fixed 8-byte value"
	}
	x.verdict(c02R4, ccC, cw.at.Pos(), bd, und, "client challenge is "+flow.Expr(ccVal)+": "+trim(set.String(), 120))
	// [24:28]
	rc := lname + ": blob[24:28] = 00 00 00 00"
	for i := 24; i < 28; i++ {
		for _, c := range covering(i) {
			if !(c.kind == "byte" && c.k == 0) {
				x.positively(c02R4, rc, x.pos(c.at.Pos()), report.Finding, fmt.Sprintf("byte %d of the blob is written; Reserved3 is four zero bytes", i))
				return true
			}
		}
	}
	x.R.OK(c02R4, rc, x.pos(lfn.Pos()), "four reserved zero bytes (never written), then the target information")
	return true
}

// ---- R5 ---------------------------------------------------------------------------

func (x *c02) r5Syn() {
	fn := x.mod(cryNTLMv2, "NTLMv2", "ToHashcatString")
	fHash := x.P.Func(cryNTLMv2, "NTLMv2", "Hash")
	if fn == nil || fHash == nil {
		return
	}
	lHash := x.label(fHash)
	name := x.P.FuncName(fn)
	args, call := x.sprintf(fn, c02R5, name, c02HashcatFormat)
	if args == nil {
		return
	}
	recvOnly := func(s flow.Source) bool { return s.Kind == flow.SParam && s.Idx == 0 }
	wants := []struct {
		what  string
		needs []need
	}{
		{"Username", []need{{what: "the Username field", src: isField(0, "Username")}}},
		{"Domain", []need{{what: "the Domain field", src: isField(0, "Domain")}}},
		{"hex(ServerChallenge)", []need{{what: "the ServerChallenge field", src: isField(0, "ServerChallenge"), must: []string{x.lHex}}}},
		{"hex(response[:16]) (NTProofStr)", []need{{what: "the response of Hash()", src: recvOnly, must: []string{lHash, "slice[:16]", x.lHex}}}},
		{"hex(response[16:]) (blob)", []need{{what: "the response of Hash()", src: recvOnly, must: []string{lHash, "slice[16:]", x.lHex}}}},
	}
	for i, w := range wants {
		set := x.e.Prov(fn, args[i])
		// "slice[0:16]" is the same window as "slice[:16]"
		norm := flow.Set{}
		for o := range set {
			ls := o.LabelList()
			for k, l := range ls {
				if l == "slice[0:16]" {
					ls[k] = "slice[:16]"
				}
			}
			sort.Strings(ls)
			norm[flow.Origin{Src: o.Src, Labels: strings.Join(ls, "\x00")}] = struct{}{}
		}
		bad, und := judge(norm, w.needs, nil)
		if bad != "" {
			bad = fmt.Sprintf("field %d is %s: %s — hashcat mode 5600 expects user::domain:challenge:NTProofStr:blob", i+1, flow.Expr(args[i]), bad)
		}
		x.verdict(c02R5, fmt.Sprintf("%s: Sprintf #%d = %s", name, i+1, w.what), call.Pos(), bad, und, trim(norm.String(), 160))
	}
}
