package rules

import (
	"fmt"
	"go/token"
	"go/types"

	"golang.org/x/tools/go/ssa"

	"manticheck/internal/strtmpl"
)

// c20_table.go — R2, tables: `table[j]` read by a parser is resolved to the
// value assigned to element j, wherever the assignment is made:
//
//   - in the function the table lives in (constant-index stores, a counted loop,
//     one append per iteration), or
//   - in an in-module helper the table (or table[:]) is handed to — also a
//     generic one (the SSA is monomorphised) and up to three calls deep — with
//     the helper's parameters bound to the arguments of the call, or
//   - in an in-module helper that makes the table and returns it.
//
// COMPLETENESS comes first: every use of the table is classified. A use that
// may write elements and that this code does not read (the table is handed to
// a function outside the module, captured by a closure, stored, merged at a φ,
// re-sliced from a non-zero offset, filled by copy …) makes the extraction
// incomplete, and the element is then NOT DECIDED — "element j is never
// assigned" is only ever reported for a table all of whose uses were read.

// c20TblStore is one store into an element of a table.
type c20TblStore struct {
	idx   ssa.Value
	st    *ssa.Store
	rs    *c20Res
	calls []*ssa.Call // the in-module calls through which the table reached the storing function (outermost first)
}

const c20MaxTableDepth = 3

// c20TableStores collects the stores into elements of the table value v (an
// array cell, a made slice, a slice parameter, or a full view of one of those)
// and returns a non-empty reason when some use of the table was not read.
func c20TableStores(v ssa.Value, rs *c20Res, calls []*ssa.Call, out *[]c20TblStore, seen map[ssa.Value]bool, retFn *ssa.Function) string {
	if seen[v] {
		return ""
	}
	seen[v] = true
	refs := v.Referrers()
	if refs == nil {
		return ""
	}
	for _, r := range *refs {
		switch x := r.(type) {
		case *ssa.DebugRef:
		case *ssa.IndexAddr:
			if x.X != v || x.Referrers() == nil {
				continue
			}
			for _, rr := range *x.Referrers() {
				switch y := rr.(type) {
				case *ssa.DebugRef:
				case *ssa.Store:
					if y.Addr == ssa.Value(x) {
						*out = append(*out, c20TblStore{idx: x.Index, st: y, rs: rs, calls: calls})
					} else {
						return "the address of one of its elements is stored"
					}
				case *ssa.UnOp:
					if y.Op != token.MUL {
						return fmt.Sprintf("the address of one of its elements is used by %T", rr)
					}
				default:
					return fmt.Sprintf("the address of one of its elements is used by %T", rr)
				}
			}
		case *ssa.Index:
		case *ssa.Slice:
			if x.X != v {
				continue
			}
			if x.Low != nil {
				if k, ok := c20ConstInt(rs.resolve(x.Low)); !ok || k != 0 {
					return "it is re-sliced from a non-zero offset"
				}
			}
			if why := c20TableStores(x, rs, calls, out, seen, retFn); why != "" {
				return why
			}
		case *ssa.UnOp:
			// *table: the whole array is read
		case *ssa.Store:
			if x.Addr == v {
				if k, ok := x.Val.(*ssa.Const); ok && k.Value == nil {
					continue // zero value of the whole array
				}
				return "it is overwritten as a whole"
			}
			return "it is stored into another object"
		case *ssa.Call:
			cc := x.Common()
			if b, ok := cc.Value.(*ssa.Builtin); ok {
				switch b.Name() {
				case "len", "cap":
					continue
				case "copy":
					if len(cc.Args) == 2 && cc.Args[0] != v {
						continue // copied FROM the table
					}
					return "it is filled by copy"
				}
				return "it is handed to the builtin " + b.Name()
			}
			g := cc.StaticCallee()
			if g == nil || g.Blocks == nil || !rs.c.P.InModule(g) || len(g.Params) != len(cc.Args) {
				_, _, name := c20CalleeName(cc)
				if name == "" {
					name = "a dynamic call"
				}
				return "it is handed to " + name + ", which is not read"
			}
			if len(calls) >= c20MaxTableDepth {
				return "it is handed down more than three helpers deep"
			}
			for _, f := range calls {
				if f.Common().StaticCallee() == g {
					return "it is handed to a recursive helper"
				}
			}
			in := rs.withBind(g, cc.Args)
			sub := append(append([]*ssa.Call(nil), calls...), x)
			for i, a := range cc.Args {
				if a != v {
					continue
				}
				// every call site is its own instance of the helper's frame
				if why := c20TableStores(g.Params[i], in, sub, out, map[ssa.Value]bool{}, nil); why != "" {
					return why
				}
			}
		case *ssa.Return:
			if retFn != nil && x.Parent() == retFn {
				continue // the helper that made the table hands it back: the caller's copy is a root of its own
			}
			return "it is returned to a caller that is not read"
		case *ssa.Extract:
		case *ssa.BinOp:
			if x.Op != token.EQL && x.Op != token.NEQ {
				return fmt.Sprintf("it is used by %T", r)
			}
			// compared (with nil): a read
		default:
			return fmt.Sprintf("it is used by %T", r)
		}
	}
	return ""
}

// c20CondOn normalises a branch condition to a test of one value:
// kind 'b': cond ⇔ (v == pos) for a boolean v; kind 'n': cond ⇔ ((v == nil) == pos).
func c20CondOn(cond ssa.Value) (v ssa.Value, kind byte, pos bool) {
	pos = true
	for {
		u, ok := cond.(*ssa.UnOp)
		if !ok || u.Op != token.NOT {
			break
		}
		cond, pos = u.X, !pos
	}
	if bo, ok := cond.(*ssa.BinOp); ok && (bo.Op == token.EQL || bo.Op == token.NEQ) {
		x, y := bo.X, bo.Y
		if _, isK := x.(*ssa.Const); isK {
			x, y = y, x
		}
		if k, isK := y.(*ssa.Const); isK {
			if bo.Op == token.NEQ {
				pos = !pos
			}
			if k.Value == nil {
				return x, 'n', pos
			}
			if b, ok := c20ConstBool(k); ok {
				if !b {
					pos = !pos
				}
				return x, 'b', pos
			}
		}
		return nil, 0, false
	}
	return cond, 'b', pos
}

func c20ConstBool(v ssa.Value) (bool, bool) {
	k, ok := v.(*ssa.Const)
	if !ok || k.Value == nil {
		return false, false
	}
	b, isB := k.Type().Underlying().(*types.Basic)
	if !isB || b.Info()&types.IsBoolean == 0 {
		return false, false
	}
	return k.Value.String() == "true", true
}

func c20IsErrorType(t types.Type) bool {
	n, ok := types.Unalias(t).(*types.Named)
	return ok && n.Obj().Pkg() == nil && n.Obj().Name() == "error"
}

// c20Rejects: leaving the filling loop through ret means that the input is
// rejected — the code after the loop (and after the helper calls it sits in)
// that reads the table does not run:
//
//   - in the function the table lives in: the parser answers nil (a helper that
//     was inlined into the parser answers constants);
//   - in a helper the table was handed to: ret hands its caller a failure signal
//     (false, a non-nil error, a nil pointer) and the caller tests that result
//     and, on the failure edge, itself leaves through a rejecting return.
//
// ok=false with nd=true: the caller's handling of the result was not read.
func c20Rejects(rs *c20Res, ret *ssa.Return, calls []*ssa.Call, d int) (ok, nd bool) {
	if len(ret.Results) == 0 || d > 4 {
		return false, d > 4
	}
	if len(calls) == 0 {
		if k, isK := ret.Results[0].(*ssa.Const); isK && k.Value == nil {
			return true, false
		}
		if rs.prm != nil && ret.Parent() != rs.prm.Parent() {
			// a helper the parser was followed into: it gives up with constants
			for _, res := range ret.Results {
				if _, isK := res.(*ssa.Const); !isK && !c20IsErrorType(res.Type()) {
					return false, false
				}
			}
			return true, false
		}
		return false, false
	}
	call := calls[len(calls)-1]
	nres := ret.Parent().Signature.Results().Len()
	used := false
	if call.Referrers() != nil {
		for _, r := range *call.Referrers() {
			if _, isDbg := r.(*ssa.DebugRef); !isDbg {
				used = true
			}
		}
	}
	if !used {
		return false, false // the caller ignores the helper's verdict: observed, not a gap of this rule
	}
	for ri, res := range ret.Results {
		// the failure value of result ri
		var kind byte
		failWhen := false // kind 'b': fails when rv == failWhen; kind 'n': fails when (rv == nil) == failWhen
		if b, isB := c20ConstBool(res); isB {
			kind, failWhen = 'b', b
		} else if k, isK := res.(*ssa.Const); isK && k.Value == nil && !c20IsErrorType(res.Type()) {
			switch res.Type().Underlying().(type) {
			case *types.Pointer, *types.Slice, *types.Map:
				kind, failWhen = 'n', true
			}
		} else if c20IsErrorType(res.Type()) && !isK {
			kind, failWhen = 'n', false
		}
		if kind == 0 {
			continue
		}
		var rvs []ssa.Value
		if nres == 1 {
			rvs = append(rvs, call)
		} else if call.Referrers() != nil {
			for _, r := range *call.Referrers() {
				if e, ok := r.(*ssa.Extract); ok && e.Index == ri {
					rvs = append(rvs, e)
				}
			}
		}
		for _, b := range call.Parent().Blocks {
			iff, ok := b.Instrs[len(b.Instrs)-1].(*ssa.If)
			if !ok {
				continue
			}
			v, k2, pos := c20CondOn(iff.Cond)
			if v == nil || k2 != kind {
				continue
			}
			match := false
			for _, rv := range rvs {
				if rv == v {
					match = true
				}
			}
			if !match {
				continue
			}
			// cond ⇔ (pred(v) == pos); failure ⇔ (pred(v) == failWhen)
			fail := b.Succs[1]
			if pos == failWhen {
				fail = b.Succs[0]
			}
			fr, isRet := fail.Instrs[len(fail.Instrs)-1].(*ssa.Return)
			if !isRet {
				continue
			}
			if ok2, _ := c20Rejects(rs, fr, calls[:len(calls)-1], d+1); ok2 {
				return true, false
			}
		}
	}
	return false, true
}

// c20SolveIndex: the element index idx of a store equals j in the iteration in
// which the returned loop counter has the returned value. idx is the counter
// itself or a constant offset / reflection of it (i+K, i-K, K-i).
func c20SolveIndex(rs *c20Res, idx ssa.Value, j int64) (counter ssa.Value, cj int64, why string) {
	isCounter := func(v ssa.Value) bool {
		var phi *ssa.Phi
		switch x := v.(type) {
		case *ssa.Phi:
			phi = x
		case *ssa.BinOp:
			phi, _ = x.X.(*ssa.Phi)
		}
		if phi == nil {
			return false
		}
		l, err := rs.ev.LoopOf(phi.Block())
		return err == nil && l.Counter == v
	}
	if isCounter(idx) {
		return idx, j, ""
	}
	if bo, ok := idx.(*ssa.BinOp); ok && (bo.Op == token.ADD || bo.Op == token.SUB) {
		kx, xk := c20ConstInt(rs.resolve(bo.X))
		ky, yk := c20ConstInt(rs.resolve(bo.Y))
		switch {
		case bo.Op == token.SUB && xk && isCounter(bo.Y):
			return bo.Y, kx - j, ""
		case bo.Op == token.SUB && yk && isCounter(bo.X):
			return bo.X, j + ky, ""
		case bo.Op == token.ADD && yk && isCounter(bo.X):
			return bo.X, j - ky, ""
		case bo.Op == token.ADD && xk && isCounter(bo.Y):
			return bo.Y, j - kx, ""
		}
	}
	return nil, 0, c20ND + "the element index is not the counter of a counted loop or a constant offset from one"
}

// c20LoopCovers: the instruction at (a store, an append) runs in every iteration
// of the counted loop whose counter is k, the loop starts at 0, reaches j, and
// is left early only to reject the input (c20Rejects). "" = yes.
func c20LoopCovers(rs *c20Res, k ssa.Value, at ssa.Instruction, j int64, calls []*ssa.Call) string {
	var phi *ssa.Phi
	switch x := k.(type) {
	case *ssa.Phi:
		phi = x
	case *ssa.BinOp:
		phi, _ = x.X.(*ssa.Phi)
	}
	if phi == nil {
		return c20ND + "the element index is not a loop counter"
	}
	l, err := rs.ev.LoopOf(phi.Block())
	if err != nil {
		return c20ND + "the table is filled by a loop that is not a counted loop: " + err.Error()
	}
	if l.Counter != k {
		return c20ND + "the element index is not the counter of the enclosing loop"
	}
	first := l.Start
	if l.Range {
		first++
	}
	if first != 0 {
		return fmt.Sprintf("the filling loop starts at %d", first)
	}
	if j < 0 {
		return fmt.Sprintf("no iteration of the filling loop assigns the element (it would be iteration %d)", j)
	}
	if kb, ok := c20ConstInt(rs.resolve(l.Bound)); ok {
		if (l.Op == token.LSS && j >= kb) || (l.Op == token.LEQ && j > kb) {
			return fmt.Sprintf("element %d is read but the filling loop stops before it (bound %d)", j, kb)
		}
	} else if call, ok := l.Bound.(*ssa.Call); ok {
		if _, _, name := c20CalleeName(call.Common()); name != "len" {
			return c20ND + "the bound of the filling loop is not a constant or a length"
		}
	} else {
		return c20ND + "the bound of the filling loop is not a constant or a length"
	}
	body := strtmpl.LoopBlocks(l.Header)
	if !body[at.Block()] {
		return c20ND + "the element is assigned outside the loop its index counts"
	}
	for _, pr := range l.Header.Preds {
		if l.Header.Dominates(pr) && !at.Block().Dominates(pr) {
			return "the element is not assigned in every iteration"
		}
	}
	for b := range body {
		if b == l.Header {
			continue
		}
		for _, sc := range b.Succs {
			if body[sc] {
				continue
			}
			ret, isRet := sc.Instrs[len(sc.Instrs)-1].(*ssa.Return)
			if !isRet || sc == l.Header.Succs[1] {
				// control goes on after the loop — also when the code after the loop is a
				// return: it is the one the completed loop reaches, so leaving early cannot
				// be told from completing
				return "the filling loop can be left early (break) without rejecting the input"
			}
			ok, nd := c20Rejects(rs, ret, calls, 0)
			if ok {
				continue // leaves the loop to reject the input
			}
			if nd {
				return c20ND + "the filling loop (in " + ret.Parent().Name() + ") is left early with a result whose handling by the caller is not read"
			}
			return "the filling loop can be left early (break) without rejecting the input"
		}
	}
	return ""
}

// c20TblRoot is one value all of whose uses must be read to know who writes a table.
type c20TblRoot struct {
	v     ssa.Value
	rs    *c20Res
	calls []*ssa.Call
	retFn *ssa.Function // returns of the table in this function are not an escape
}

// c20TableOf finds the object(s) behind a table expression: the array cell /
// made slice whose uses must be read, and the context it lives in. A table
// made by an in-module helper and returned has two roots: the object inside
// the helper and the caller's copy of the result.
func c20TableOf(v ssa.Value, rs *c20Res, d int) ([]c20TblRoot, string) {
	if d > 4 {
		return nil, c20ND + "table too deep"
	}
	v = rs.resolve(v)
	switch x := v.(type) {
	case *ssa.Slice:
		if x.Low == nil {
			return c20TableOf(x.X, rs, d+1)
		}
		if k, ok := c20ConstInt(rs.resolve(x.Low)); ok && k == 0 {
			return c20TableOf(x.X, rs, d+1)
		}
		return nil, c20ND + "the table is a view that starts at a non-zero offset"
	case *ssa.Alloc, *ssa.MakeSlice:
		return []c20TblRoot{{v: v, rs: rs}}, ""
	case *ssa.Parameter:
		return nil, c20ND + "the table is a parameter whose caller is not read"
	case *ssa.Extract:
		if call, ok := x.Tuple.(*ssa.Call); ok {
			return c20TableFromCall(call, x, x.Index, rs, d)
		}
	case *ssa.Call:
		return c20TableFromCall(x, x, 0, rs, d)
	}
	return nil, c20ND + fmt.Sprintf("table of shape %T is not modelled", v)
}

func c20TableFromCall(call *ssa.Call, res ssa.Value, ri int, rs *c20Res, d int) ([]c20TblRoot, string) {
	g := call.Common().StaticCallee()
	if g == nil || g.Blocks == nil || !rs.c.P.InModule(g) || len(g.Params) != len(call.Common().Args) {
		_, _, name := c20CalleeName(call.Common())
		return nil, c20ND + "the table is the result of " + name + ", which is not read"
	}
	in := rs.withBind(g, call.Common().Args)
	var roots []c20TblRoot
	for _, b := range g.Blocks {
		ret, ok := b.Instrs[len(b.Instrs)-1].(*ssa.Return)
		if !ok || ri >= len(ret.Results) {
			continue
		}
		if k, isK := ret.Results[ri].(*ssa.Const); isK && k.Value == nil {
			continue // gives up
		}
		sub, why := c20TableOf(ret.Results[ri], in, d+1)
		if why != "" {
			return nil, why
		}
		if len(sub) != 1 || (len(roots) > 0 && roots[0].v != sub[0].v) {
			return nil, c20ND + "helper " + g.Name() + " returns different tables on different paths"
		}
		if len(roots) == 0 {
			sub[0].retFn = g
			roots = append(roots, sub[0])
		}
	}
	if len(roots) == 0 {
		return nil, c20ND + "helper " + g.Name() + " returns no table"
	}
	return append(roots, c20TblRoot{v: res, rs: rs}), ""
}

// c20Element resolves `table[j]` to the value assigned to element j.
func c20Element(load *ssa.UnOp, rs *c20Res, d int) (b c20Binding) {
	ia := load.X.(*ssa.IndexAddr)
	j, ok := rs.constIndex(ia.Index)
	if !ok {
		b.err = c20ND + "table element selected with a non-constant index"
		return
	}
	type cand struct {
		v  ssa.Value
		rs *c20Res
	}
	var cands []cand
	if x, isPhi := rs.resolve(ia.X).(*ssa.Phi); isPhi {
		// s = append(s, v) once per iteration: element j is the v of iteration j
		l, err := rs.ev.LoopOf(x.Block())
		if err != nil {
			b.err = c20ND + "table of shape φ that is not the accumulator of a counted loop"
			return
		}
		for i, e := range x.Edges {
			if !x.Block().Dominates(x.Block().Preds[i]) {
				switch iv := e.(type) {
				case *ssa.MakeSlice:
					if n, ok := c20ConstInt(iv.Len); !ok || n != 0 {
						b.err = c20ND + "appended table does not start empty"
						return
					}
				case *ssa.Slice: // make([]T, 0, constant) is lowered to new [n]T + [:0]
					_, fresh := iv.X.(*ssa.Alloc)
					if n, ok := c20ConstInt(iv.High); !fresh || iv.Low != nil || iv.High == nil || !ok || n != 0 {
						b.err = c20ND + "appended table does not start empty"
						return
					}
				case *ssa.Const:
				default:
					b.err = c20ND + "appended table does not start empty"
					return
				}
				continue
			}
			call, ok := e.(*ssa.Call)
			if !ok {
				b.err = c20ND + "table is not grown by one append per iteration"
				return
			}
			if _, _, name := c20CalleeName(call.Common()); name != "append" || call.Common().Args[0] != ssa.Value(x) {
				b.err = c20ND + "table is not grown by one append per iteration"
				return
			}
			vals, ok := c20Varargs(call.Common().Args[1])
			if !ok || len(vals) != 1 {
				b.err = c20ND + "table is not grown by one append per iteration"
				return
			}
			if why := c20LoopCovers(rs, l.Counter, call, j, nil); why != "" {
				b.err = why
				return
			}
			cands = append(cands, cand{vals[0], rs.withIdx(l.Counter, j)})
		}
	} else {
		roots, why := c20TableOf(ia.X, rs, 0)
		if why != "" {
			b.err = why
			return
		}
		var stores []c20TblStore
		for _, rt := range roots {
			if escaped := c20TableStores(rt.v, rt.rs, rt.calls, &stores, map[ssa.Value]bool{}, rt.retFn); escaped != "" {
				b.err = c20ND + "the table escapes the part of the code that was read: " + escaped
				return
			}
		}
		for _, s := range stores {
			if k, isK := c20ConstInt(s.rs.resolve(s.idx)); isK {
				if k == j {
					cands = append(cands, cand{s.st.Val, s.rs})
				}
				continue
			}
			counter, cj, why := c20SolveIndex(s.rs, s.idx, j)
			if why != "" {
				b.err = why
				return
			}
			if cj < 0 {
				continue // this store never assigns element j
			}
			if why := c20LoopCovers(s.rs, counter, s.st, cj, s.calls); why != "" {
				b.err = why
				return
			}
			cands = append(cands, cand{s.st.Val, s.rs.withIdx(counter, cj)})
		}
	}
	if len(cands) == 0 {
		b.err = fmt.Sprintf("element %d of the table is never assigned", j)
		return
	}
	set := false
	for _, cd := range cands {
		nb := c20Numeric(cd.v, cd.rs, d+1)
		if nb.err != "" {
			return nb
		}
		if set && (!c20SameSteps(b.steps, nb.steps) || b.base != nb.base) {
			b.err = fmt.Sprintf("element %d of the table is assigned from different parts", j)
			return
		}
		b, set = nb, true
	}
	return
}

// c20LenConstants: the constants the number of parts of a split result is
// compared with — `len(parts) == 4`, also when the comparison sits in an
// in-module helper the parts are handed to, and also against the length of a
// fixed-size table (`len(fields) != len(dst)` with dst = octets[:] of a [4]uint8).
func (c *Ctx) c20LenConstants(split ssa.Value) []int64 {
	var out []int64
	type env map[*ssa.Parameter]ssa.Value
	resolve := func(v ssa.Value, bind env) ssa.Value {
		for i := 0; i < 6; i++ {
			q, ok := v.(*ssa.Parameter)
			if !ok {
				return v
			}
			b, ok := bind[q]
			if !ok {
				return v
			}
			v = b
		}
		return v
	}
	arrayLen := func(t types.Type) (int64, bool) {
		if p, ok := t.Underlying().(*types.Pointer); ok {
			t = p.Elem()
		}
		if a, ok := t.Underlying().(*types.Array); ok {
			return a.Len(), true
		}
		return 0, false
	}
	constLen := func(v ssa.Value, bind env) (int64, bool) {
		v = resolve(v, bind)
		if k, ok := c20ConstInt(v); ok {
			return k, true
		}
		call, ok := v.(*ssa.Call)
		if !ok {
			return 0, false
		}
		if _, _, name := c20CalleeName(call.Common()); name != "len" || len(call.Common().Args) != 1 {
			return 0, false
		}
		y := resolve(call.Common().Args[0], bind)
		if n, ok := arrayLen(y.Type()); ok {
			return n, true
		}
		switch s := y.(type) {
		case *ssa.MakeSlice:
			return c20ConstInt(resolve(s.Len, bind))
		case *ssa.Slice:
			lo, hi := int64(0), int64(-1)
			if n, ok := arrayLen(s.X.Type()); ok {
				hi = n
			}
			if s.Low != nil {
				k, ok := c20ConstInt(resolve(s.Low, bind))
				if !ok {
					return 0, false
				}
				lo = k
			}
			if s.High != nil {
				k, ok := c20ConstInt(resolve(s.High, bind))
				if !ok {
					return 0, false
				}
				hi = k
			}
			if hi >= lo {
				return hi - lo, true
			}
		}
		return 0, false
	}
	var walk func(v ssa.Value, bind env, d int)
	walk = func(v ssa.Value, bind env, d int) {
		if v.Referrers() == nil {
			return
		}
		for _, r := range *v.Referrers() {
			call, ok := r.(*ssa.Call)
			if !ok {
				continue
			}
			cc := call.Common()
			if _, _, name := c20CalleeName(cc); name == "len" && call.Referrers() != nil {
				if _, isB := cc.Value.(*ssa.Builtin); isB {
					for _, rr := range *call.Referrers() {
						if bo, ok := rr.(*ssa.BinOp); ok && (bo.Op == token.EQL || bo.Op == token.NEQ) {
							other := bo.Y
							if other == ssa.Value(call) {
								other = bo.X
							}
							if k, ok := constLen(other, bind); ok {
								out = append(out, k)
							}
						}
					}
					continue
				}
			}
			g := cc.StaticCallee()
			if g == nil || g.Blocks == nil || !c.P.InModule(g) || len(g.Params) != len(cc.Args) || d >= 2 {
				continue
			}
			nb := env{}
			for k, b := range bind {
				nb[k] = b
			}
			for i, q := range g.Params {
				nb[q] = resolve(cc.Args[i], bind)
			}
			for i, a := range cc.Args {
				if a == v {
					walk(g.Params[i], nb, d+1)
				}
			}
		}
	}
	walk(split, env{}, 0)
	return out
}
