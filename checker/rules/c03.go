package rules

import (
	"fmt"
	"go/constant"
	"go/token"
	"go/types"
	"sort"
	"strings"

	"golang.org/x/tools/go/ssa"

	"manticheck/internal/codec"
	"manticheck/internal/lanes"
	"manticheck/internal/lin"
	"manticheck/internal/load"
	"manticheck/internal/prove"
)

func init() { register(&Check{ID: "C03", NeedSSA: true, Run: runC03}) }

const (
	msgPkg    = smbPrefix + "/message"
	hdrPkg    = smbPrefix + "/message/header"
	paramsPkg = smbPrefix + "/message/parameters"
	dataPkg   = smbPrefix + "/message/data"
	secPkg    = smbPrefix + "/message/securityfeatures"
)

// factories not returning a type although it has Marshal+Unmarshal, with reason
var c03FactoryExempt = map[string]string{
	"WriteRawInterim": "interim server response of SMB_COM_WRITE_RAW: sent between request and final response, never selected by (code, reply flag)",
}

func runC03(c *Ctx) {
	p, r := c.P, c.R
	r.Explanation = "C03 SMB1 envelope, decided structurally. `factory`: each case of CreateRequestCommand/CreateResponseCommand returns a constructor whose body sets the command code to the very constant of that case; no type is returned by both factories; every command type is returned by a factory (one documented exemption); Message.Unmarshal selects the response factory exactly on the branch where Header.IsResponse() is true, IsResponse is Flags&FLAGS_REPLY == FLAGS_REPLY, and AddCommand copies the command's code into the header. " +
		"`header`: Header.Marshal emits and Header.Unmarshal reads the twelve MS-CIFS 2.2.3.1 fields at offsets 0,4,5,9,10,12,14,22,24,26,28,30 with widths 4,1,4,1,2,2,8,2,2,2,2,2, little-endian, every SecurityFeatures implementation is 8 bytes both ways, and SMB_HEADER_SIZE = 32 = the sum; GetPID/SetPID are mutually inverse bit maps (PIDHigh = bits 16-31, PIDLow = bits 0-15). " +
		"`framing`: Parameters.Marshal emits WordCount then the words only under the guard WordCount == uint8(len(Words)) whose failing branch returns an error; Data keeps ByteCount == len(Bytes) in every function that writes Bytes (pair invariant, module-wide who-writes) and Data.Marshal emits ByteCount (2, little-endian) then Bytes; Message.Marshal is header bytes followed by command bytes and nothing else. " +
		"`idempotent`: every call in a command's Marshal that accumulates into the embedded Parameters/Data (a callee that stores append(old field value, …) back into the field) is dominated by an unconditional reset of that object to a freshly constructed one, and Header/Message/SecurityFeatures encoders contain no accumulating store at all; so a second Marshal, or a Marshal after Unmarshal, emits the same bytes. " +
		"Not decided: that arbitrary block contents survive (C04/C06), behaviour beyond 255 words / 65535 bytes."
	r.Assumptions = []string{"go/types + go/ssa faithful", "encoding/binary accessor layouts", "the lanes domain is exact for shifts/masks/or"}
	w := prove.NewWorld(p)
	c03Factory(c, w)
	c03Header(c, w)
	c03Framing(c, w)
	c03Idempotent(c, w)
}

// ---- factory ----------------------------------------------------------

type factoryCase struct {
	code     string // constant value
	codeName string
	ctor     *ssa.Function
	typ      string
	pos      token.Pos
}

func factoryCases(p *load.Program, fn *ssa.Function) ([]factoryCase, []string) {
	var out []factoryCase
	var problems []string
	if fn == nil {
		return nil, []string{"factory not found"}
	}
	codeParam := fn.Params[0]
	for _, b := range fn.Blocks {
		iff, ok := b.Instrs[len(b.Instrs)-1].(*ssa.If)
		if !ok {
			continue
		}
		bo, ok := iff.Cond.(*ssa.BinOp)
		if !ok || bo.Op != token.EQL {
			continue
		}
		var k *ssa.Const
		if bo.X == ssa.Value(codeParam) {
			k, _ = bo.Y.(*ssa.Const)
		} else if bo.Y == ssa.Value(codeParam) {
			k, _ = bo.X.(*ssa.Const)
		}
		if k == nil || k.Value == nil {
			continue
		}
		tb := b.Succs[0]
		// the case body: a call to a constructor whose result is returned
		var ctor *ssa.Function
		var pos token.Pos
		for _, in := range tb.Instrs {
			if call, ok := in.(*ssa.Call); ok {
				if f := call.Common().StaticCallee(); f != nil && strings.HasPrefix(f.Name(), "New") {
					ctor = f
					pos = call.Pos()
				}
			}
		}
		if ctor == nil {
			problems = append(problems, fmt.Sprintf("case %s returns no constructor call", k.Value.ExactString()))
			continue
		}
		typ := ""
		if ptr, ok := ctor.Signature.Results().At(0).Type().(*types.Pointer); ok {
			if nt, ok := ptr.Elem().(*types.Named); ok {
				typ = nt.Obj().Name()
			}
		}
		out = append(out, factoryCase{code: k.Value.ExactString(), ctor: ctor, typ: typ, pos: pos})
	}
	return out, problems
}

// ctorCode: the constant the constructor passes to SetCommandCode.
func ctorCode(fn *ssa.Function) (string, bool) {
	for _, b := range fn.Blocks {
		for _, in := range b.Instrs {
			call, ok := in.(*ssa.Call)
			if !ok {
				continue
			}
			f := call.Common().StaticCallee()
			if f == nil || f.Name() != "SetCommandCode" {
				continue
			}
			args := call.Common().Args
			if k, ok := args[len(args)-1].(*ssa.Const); ok && k.Value != nil {
				return k.Value.ExactString(), true
			}
		}
	}
	return "", false
}

func codeNames(p *load.Program) map[string]string {
	out := map[string]string{}
	pk := p.Pkg(cmdPkg + "/codes")
	if pk == nil {
		return out
	}
	sc := pk.Types.Scope()
	for _, n := range sc.Names() {
		if k, ok := sc.Lookup(n).(*types.Const); ok && strings.HasPrefix(n, "SMB_COM_") {
			v := k.Val().ExactString()
			if _, dup := out[v]; !dup {
				out[v] = n
			}
		}
	}
	return out
}

func c03Factory(c *Ctx, w *prove.World) {
	p, r := c.P, c.R
	names := codeNames(p)
	returned := map[string]string{}
	for _, fname := range []string{"CreateRequestCommand", "CreateResponseCommand"} {
		fn := p.Func(cmdPkg, "", fname)
		cases, problems := factoryCases(p, fn)
		for _, pr := range problems {
			r.Undecided("factory", fname, "", pr)
		}
		seenCode := map[string]bool{}
		for _, fc := range cases {
			key := fmt.Sprintf("%s case %s", fname, names[fc.code])
			pos := p.Rel(fc.pos)
			if seenCode[fc.code] {
				r.Fail("factory", key, pos, "command code appears twice in the factory")
			}
			seenCode[fc.code] = true
			cc, ok := ctorCode(fc.ctor)
			switch {
			case !ok:
				r.Undecided("factory", key, pos, fc.ctor.Name()+" does not set a constant command code")
			case cc != fc.code:
				r.Fail("factory", key, pos, fmt.Sprintf("case %s returns %s(), which sets command code %s", names[fc.code], fc.ctor.Name(), names[cc]))
			default:
				r.OK("factory", key, pos, fmt.Sprintf("%s() sets %s", fc.ctor.Name(), names[cc]))
			}
			if other, dup := returned[fc.typ]; dup && other != fname {
				r.Fail("factory", "type "+fc.typ, pos, "returned by both factories")
			}
			returned[fc.typ] = fname
		}
	}
	r.Floor("factory", 114)
	for _, nt := range commandTypes(p) {
		n := nt.Obj().Name()
		if _, ok := returned[n]; ok {
			continue
		}
		if why, ex := c03FactoryExempt[n]; ex {
			r.OK("factory-cover", n, "", "exempt: "+why)
			continue
		}
		r.Fail("factory-cover", n, "", "command type with Marshal+Unmarshal is returned by neither factory")
	}
	// Message.Unmarshal dispatch
	un := p.Func(msgPkg, "Message", "Unmarshal")
	if un == nil {
		r.Undecided("dispatch", "Message.Unmarshal", "", "not found")
	} else {
		ok := false
		// the branch may sit in Unmarshal itself or in a helper it calls (same package, two levels)
		scope := []*ssa.Function{un}
		seenF := map[*ssa.Function]bool{un: true}
		for d := 0; d < 2; d++ {
			for _, f := range append([]*ssa.Function{}, scope...) {
				for _, b := range f.Blocks {
					for _, in := range b.Instrs {
						if ci, isCall := in.(ssa.CallInstruction); isCall {
							if g := ci.Common().StaticCallee(); g != nil && g.Blocks != nil && g.Pkg == un.Pkg && !seenF[g] {
								seenF[g] = true
								scope = append(scope, g)
							}
						}
					}
				}
			}
		}
		// the reply test may be handed on as a bool argument (CreateCommand(code, h.IsResponse())):
		// the callee's parameter then stands for it (negation tracked), in any package of the module
		isRespCall := func(v ssa.Value) bool {
			call, isCall := v.(*ssa.Call)
			return isCall && call.Common().StaticCallee() != nil && call.Common().StaticCallee().Name() == "IsResponse"
		}
		stripNot := func(v ssa.Value) (ssa.Value, bool) {
			neg := false
			for {
				if u, isNot := v.(*ssa.UnOp); isNot && u.Op == token.NOT {
					neg = !neg
					v = u.X
					continue
				}
				return v, neg
			}
		}
		alias := map[ssa.Value]bool{} // parameter → negated?
		sawIsResponse := false
		for d := 0; d < 3; d++ {
			for _, f := range append([]*ssa.Function{}, scope...) {
				for _, b := range f.Blocks {
					for _, in := range b.Instrs {
						if isRespCall(valueOf(in)) {
							sawIsResponse = true
						}
						ci, isCall := in.(ssa.CallInstruction)
						if !isCall {
							continue
						}
						g := ci.Common().StaticCallee()
						if g == nil || g.Blocks == nil || !p.InModule(g) || len(ci.Common().Args) != len(g.Params) {
							continue
						}
						for i, a := range ci.Common().Args {
							v, neg := stripNot(a)
							nv, isAlias := alias[v]
							if isRespCall(v) || isAlias {
								alias[g.Params[i]] = neg != nv
								if !seenF[g] {
									seenF[g] = true
									scope = append(scope, g)
								}
							}
						}
					}
				}
			}
		}
		for _, f := range scope {
			for _, b := range f.Blocks {
				iff, isIf := b.Instrs[len(b.Instrs)-1].(*ssa.If)
				if !isIf {
					continue
				}
				cond, neg := stripNot(iff.Cond)
				if nv, isAlias := alias[cond]; isAlias {
					neg = neg != nv
				} else if !isRespCall(cond) {
					continue
				}
				t, fls := blockCalls(b.Succs[0]), blockCalls(b.Succs[1])
				// the factory may also be selected as a function VALUE: a φ of the two
				// factories whose incoming edges come from the two arms of this branch
				for _, jb := range f.Blocks {
					for _, in := range jb.Instrs {
						phi, isPhi := in.(*ssa.Phi)
						if !isPhi {
							break
						}
						for i, ed := range phi.Edges {
							fv, isFn := ed.(*ssa.Function)
							if !isFn {
								continue
							}
							pr := jb.Preds[i]
							onTrue := pr == b.Succs[0] || (b.Succs[0] != jb && b.Succs[0].Dominates(pr)) || (pr == b && jb == b.Succs[0])
							onFalse := pr == b.Succs[1] || (b.Succs[1] != jb && b.Succs[1].Dominates(pr)) || (pr == b && jb == b.Succs[1])
							if onTrue && !onFalse {
								t[fv.Name()] = true
							} else if onFalse && !onTrue {
								fls[fv.Name()] = true
							}
						}
					}
				}
				if neg {
					t, fls = fls, t
				}
				if t["CreateResponseCommand"] && !t["CreateRequestCommand"] && fls["CreateRequestCommand"] && !fls["CreateResponseCommand"] {
					ok = true
				} else {
					r.Fail("dispatch", "Message.Unmarshal", p.Rel(iff.Pos()), "the IsResponse() branch does not select CreateResponseCommand / the other branch CreateRequestCommand")
					return
				}
			}
		}
		if ok {
			r.OK("dispatch", "Message.Unmarshal", p.Rel(un.Pos()), "IsResponse() → CreateResponseCommand, else CreateRequestCommand")
		} else if sawIsResponse {
			// the reply test is made, but what is done with its result is not a branch this rule reads
			c.NotDecided("dispatch", "Message.Unmarshal", p.Rel(un.Pos()), "Header.IsResponse() is evaluated but no branch on it (directly, negated, or through a bool parameter) selects between the two factories in a form this rule reads")
		} else {
			r.Undecided("dispatch", "Message.Unmarshal", p.Rel(un.Pos()), "no branch on Header.IsResponse() found")
		}
	}
	// IsResponse = Flags & FLAGS_REPLY == FLAGS_REPLY
	if fn := p.Func(hdrPkg, "Header", "IsResponse"); fn != nil {
		reply := constOf(p, hdrPkg+"/flags", "FLAGS_REPLY")
		ok := false
		for _, b := range fn.Blocks {
			for _, in := range b.Instrs {
				bo, isB := in.(*ssa.BinOp)
				if !isB || (bo.Op != token.EQL && bo.Op != token.NEQ) {
					continue
				}
				and, isAnd := bo.X.(*ssa.BinOp)
				if !isAnd || and.Op != token.AND {
					continue
				}
				mk, _ := and.Y.(*ssa.Const)
				ck, _ := bo.Y.(*ssa.Const)
				if mk != nil && ck != nil && mk.Value != nil && ck.Value != nil && mk.Value.ExactString() == reply {
					if (bo.Op == token.EQL && ck.Value.ExactString() == reply) || (bo.Op == token.NEQ && ck.Value.ExactString() == "0") {
						e := codec.NewExt(w, fn)
						if f, _, _ := e.ValueSrc(and.X); f == "Flags" {
							ok = true
						}
					}
				}
			}
		}
		if !ok {
			// return h.Flags.IsReply(): the test delegated to a method of the flags type
			// whose receiver is the Flags field
			for _, b := range fn.Blocks {
				for _, in := range b.Instrs {
					call, isCall := in.(*ssa.Call)
					if !isCall || call.Common().StaticCallee() == nil || len(call.Common().Args) == 0 {
						continue
					}
					g := call.Common().StaticCallee()
					if g.Blocks == nil || !p.InModule(g) || len(g.Params) == 0 {
						continue
					}
					e := codec.NewExt(w, fn)
					if f, _, _ := e.ValueSrc(call.Common().Args[0]); f != "Flags" {
						continue
					}
					// the call's result must be what IsResponse returns
					returned := false
					for _, rb := range fn.Blocks {
						if ret, isRet := rb.Instrs[len(rb.Instrs)-1].(*ssa.Return); isRet && len(ret.Results) == 1 && ret.Results[0] == ssa.Value(call) {
							returned = true
						}
					}
					if !returned {
						continue
					}
					for _, gb := range g.Blocks {
						for _, gin := range gb.Instrs {
							bo, isB := gin.(*ssa.BinOp)
							if !isB || (bo.Op != token.EQL && bo.Op != token.NEQ) {
								continue
							}
							and, isAnd := bo.X.(*ssa.BinOp)
							if !isAnd || and.Op != token.AND {
								continue
							}
							mk, _ := and.Y.(*ssa.Const)
							ck, _ := bo.Y.(*ssa.Const)
							if mk == nil || ck == nil || mk.Value == nil || ck.Value == nil || mk.Value.ExactString() != reply {
								continue
							}
							subj := and.X
							for {
								if cv, isCv := subj.(*ssa.Convert); isCv {
									subj = cv.X
									continue
								}
								if ct, isCt := subj.(*ssa.ChangeType); isCt {
									subj = ct.X
									continue
								}
								break
							}
							if subj == ssa.Value(g.Params[0]) && ((bo.Op == token.EQL && ck.Value.ExactString() == reply) || (bo.Op == token.NEQ && ck.Value.ExactString() == "0")) {
								ok = true
							}
						}
					}
				}
			}
		}
		if ok {
			r.OK("dispatch", "Header.IsResponse", p.Rel(fn.Pos()), "Flags & FLAGS_REPLY == FLAGS_REPLY")
		} else {
			r.Fail("dispatch", "Header.IsResponse", p.Rel(fn.Pos()), "is not a test of the FLAGS_REPLY bit of Flags")
		}
	} else {
		r.Undecided("dispatch", "Header.IsResponse", "", "not found")
	}
	// AddCommand stores command.GetCommandCode() into Header.Command
	if fn := p.Func(msgPkg, "Message", "AddCommand"); fn != nil {
		ok := false
		for _, b := range fn.Blocks {
			for _, in := range b.Instrs {
				st, isS := in.(*ssa.Store)
				if !isS {
					continue
				}
				fa, isFA := st.Addr.(*ssa.FieldAddr)
				if !isFA {
					continue
				}
				stt, _ := derefType(fa.X.Type()).Underlying().(*types.Struct)
				if stt == nil || stt.Field(fa.Field).Name() != "Command" {
					continue
				}
				if call, isC := st.Val.(*ssa.Call); isC && call.Common().IsInvoke() && call.Common().Method.Name() == "GetCommandCode" && call.Common().Value == ssa.Value(fn.Params[1]) {
					ok = true
				}
			}
		}
		if ok {
			r.OK("dispatch", "Message.AddCommand", p.Rel(fn.Pos()), "Header.Command = command.GetCommandCode()")
		} else {
			r.Fail("dispatch", "Message.AddCommand", p.Rel(fn.Pos()), "the first command's code is not copied into Header.Command")
		}
	} else {
		r.Undecided("dispatch", "Message.AddCommand", "", "not found")
	}
}

func derefType(t types.Type) types.Type {
	if p, ok := t.Underlying().(*types.Pointer); ok {
		return p.Elem()
	}
	return t
}

func blockCalls(b *ssa.BasicBlock) map[string]bool {
	out := map[string]bool{}
	seen := map[*ssa.BasicBlock]bool{}
	work := []*ssa.BasicBlock{b}
	for steps := 0; len(work) > 0 && steps < 6; steps++ {
		x := work[0]
		work = work[1:]
		if seen[x] {
			continue
		}
		seen[x] = true
		for _, in := range x.Instrs {
			if call, ok := in.(*ssa.Call); ok {
				if f := call.Common().StaticCallee(); f != nil {
					out[f.Name()] = true
				}
			}
		}
		if len(x.Succs) == 1 || len(x.Preds) == 1 {
			// stay within the branch: follow single-entry successors only
			for _, s := range x.Succs {
				if len(s.Preds) == 1 {
					work = append(work, s)
				}
			}
		}
	}
	return out
}

// ---- header -----------------------------------------------------------

var c03HeaderSpec = []struct {
	field string
	off   int
	width int
	kind  string
}{
	{"Protocol", 0, 4, "bytes"}, {"Command", 4, 1, "fixed"}, {"Status", 5, 4, "fixed"}, {"Flags", 9, 1, "fixed"},
	{"Flags2", 10, 2, "fixed"}, {"PIDHigh", 12, 2, "fixed"}, {"SecurityFeatures", 14, 8, "nested"}, {"Reserved", 22, 2, "fixed"},
	{"TID", 24, 2, "fixed"}, {"PIDLow", 26, 2, "fixed"}, {"UID", 28, 2, "fixed"}, {"MID", 30, 2, "fixed"},
}

func c03Header(c *Ctx, w *prove.World) {
	p, r := c.P, c.R
	m := p.Func(hdrPkg, "Header", "Marshal")
	u := p.Func(hdrPkg, "Header", "Unmarshal")
	if m == nil || u == nil {
		r.Undecided("header", "Header codec", "", "Marshal/Unmarshal not found")
		return
	}
	// SecurityFeatures implementations are 8 bytes both ways
	secW := 8
	pk := p.Pkg(secPkg)
	nImpl := 0
	if pk != nil {
		for _, n := range pk.Types.Scope().Names() {
			tn, ok := pk.Types.Scope().Lookup(n).(*types.TypeName)
			if !ok {
				continue
			}
			if _, isStruct := tn.Type().Underlying().(*types.Struct); !isStruct {
				continue
			}
			mf, uf := p.Func(secPkg, n, "Marshal"), p.Func(secPkg, n, "Unmarshal")
			if mf == nil || uf == nil {
				continue
			}
			nImpl++
			enc := encStreams(w, mf)["out"]
			tw, fixed := totalWidth(enc)
			if hasUnknown(enc) != "" {
				r.Undecided("header", n+".Marshal width", p.Rel(mf.Pos()), "layout not recognised: "+hasUnknown(enc))
			} else if !fixed || tw != secW {
				r.Fail("header", n+".Marshal width", p.Rel(mf.Pos()), fmt.Sprintf("emits %d bytes (fixed=%v), the SecurityFeatures slot is 8 bytes", tw, fixed))
			} else {
				r.OK("header", n+".Marshal width", p.Rel(mf.Pos()), "8 bytes")
			}
			if n2, ok := fixedConsumed(uf); !ok || n2 != secW {
				r.Fail("header", n+".Unmarshal width", p.Rel(uf.Pos()), fmt.Sprintf("consumes %d bytes, the SecurityFeatures slot is 8 bytes", n2))
			} else {
				r.OK("header", n+".Unmarshal width", p.Rel(uf.Pos()), "8 bytes")
			}
		}
	}
	if nImpl < 3 {
		r.Undecided("header", "SecurityFeatures implementations", "", fmt.Sprintf("only %d found", nImpl))
	}
	// encoder
	enc := encStreams(w, m)["out"]
	mpos := p.Rel(m.Pos())
	opaque := ""
	if bad := hasUnknown(enc); bad != "" {
		opaque = "layout not read: " + bad
	} else if why := codec.NewExt(w, m).Incomplete(); why != "" {
		opaque = why
	} else {
		// an integer that is not a plain field load (h.GetPID()>>16, a helper's result):
		// resolved by bit lanes — exactly the bits of ONE field, in order, is that field;
		// bits of several fields or of the wrong one stay as they are and are compared
		for i := range enc {
			if enc[i].Kind == "fixed" && enc[i].Field == "" && enc[i].Val != nil {
				if f := c03FieldByLanes(p, m, enc[i].Val, enc[i].Width*8); f != "" {
					enc[i].Field, enc[i].Expr = f, ""
				} else if f == "" && c03LanesKnown(p, m, enc[i].Val, enc[i].Width*8) {
					enc[i].Field = "bits of other fields: " + enc[i].Expr
				}
			}
		}
		// bytes produced by something that is not a field of the receiver (a library
		// encoder fed a local struct, a helper): the layout is not read off Marshal
		for _, a := range enc {
			if (a.Kind == "nested" || a.Kind == "bytes" || a.Kind == "fixed") && a.Field == "" {
				opaque = "part of the header is produced by " + a.String() + ", which is not traced to a field of the receiver"
			}
		}
	}
	if opaque != "" {
		c.NotDecided("header", "Header.Marshal", mpos, opaque)
	} else {
		off := 0
		ok := len(enc) == len(c03HeaderSpec)
		why := ""
		for i := 0; ok && i < len(enc); i++ {
			sp := c03HeaderSpec[i]
			a := enc[i]
			width := a.Width
			if a.Kind == "nested" {
				width = secW
			}
			if a.Kind == "bytes" && width == 0 {
				// Protocol is a [4]byte field appended whole
				width = sp.width
			}
			if a.Field != sp.field || off != sp.off || width != sp.width || (a.Kind == "fixed" && a.Width > 1 && a.Order != "LE") {
				ok = false
				why = fmt.Sprintf("atom #%d is %s at offset %d (width %d), MS-CIFS has %s at %d (width %d) little-endian", i, a.String(), off, width, sp.field, sp.off, sp.width)
			}
			off += width
		}
		if !ok && why == "" {
			why = fmt.Sprintf("%d atoms, MS-CIFS header has %d fields: %s", len(enc), len(c03HeaderSpec), codec.Render(enc))
		}
		if ok {
			r.OK("header", "Header.Marshal", mpos, "twelve fields at the MS-CIFS 2.2.3.1 offsets: "+codec.Render(enc))
		} else {
			r.Fail("header", "Header.Marshal", mpos, why)
		}
	}
	// decoder: each field at its offset (entailed in the context of the read)
	eu := codec.NewExt(w, u)
	dec := eu.Decoded()
	fi := w.Info(u)
	byField := map[string]codec.Atom{}
	for _, a := range dec {
		byField[a.Field] = a
	}
	if why := eu.Incomplete(); why != "" {
		// the input is consumed through something this extractor does not follow (a cursor
		// type, a closure, a helper that stores what it reads): nothing was observed
		for _, sp := range c03HeaderSpec {
			c.NotDecided("header", "Header.Unmarshal "+sp.field, p.Rel(u.Pos()), why)
		}
		c03PID(c, w)
		return
	}
	for _, sp := range c03HeaderSpec {
		key := "Header.Unmarshal " + sp.field
		if sp.kind == "nested" {
			// read through the interface: the window handed to SecurityFeatures.Unmarshal
			okN, seen, unread := false, false, ""
			okBlocks := map[*ssa.BasicBlock]bool{}
			for _, b := range u.Blocks {
				for _, in := range b.Instrs {
					call, isC := in.(*ssa.Call)
					if !isC {
						continue
					}
					// through the interface, or on a concrete security-features value
					argIdx := -1
					if call.Common().IsInvoke() && call.Common().Method.Name() == "Unmarshal" {
						argIdx = 0
					} else if g := call.Common().StaticCallee(); g != nil && g.Name() == "Unmarshal" && g.Pkg != nil && strings.HasSuffix(g.Pkg.Pkg.Path(), "/securityfeatures") && len(call.Common().Args) == 2 {
						argIdx = 1
					}
					if argIdx < 0 {
						continue
					}
					seen = true
					cx := fi.CtxBefore(call)
					// absolute window of the argument: follow the re-slice chain down to the input parameter
					lo, hi, haveHi := lin.K(0), lin.K(0), false
					v := call.Common().Args[argIdx]
					for d := 0; d < 6; d++ {
						sl, isS := v.(*ssa.Slice)
						if !isS {
							break
						}
						hadHi := haveHi
						if !haveHi && sl.High != nil {
							hi, haveHi = cx.Lin(sl.High), true
						}
						if sl.Low != nil {
							l := cx.Lin(sl.Low)
							lo = lo.Add(l)
							if hadHi {
								hi = hi.Add(l)
							}
						}
						v = sl.X
					}
					if _, isP := v.(*ssa.Parameter); !isP {
						unread = "the window handed to SecurityFeatures.Unmarshal is not a re-slice of the input parameter"
						continue
					}
					if !haveHi {
						unread = "the window handed to SecurityFeatures.Unmarshal has no upper bound in this function"
						continue
					}
					if cx.Prove(lin.GE(lo, lin.K(int64(sp.off)))) && cx.Prove(lin.LE(lo, lin.K(int64(sp.off)))) &&
						cx.Prove(lin.GE(hi, lin.K(int64(sp.off+sp.width)))) && cx.Prove(lin.LE(hi, lin.K(int64(sp.off+sp.width)))) {
						okN = true
						okBlocks[b] = true
					}
				}
			}
			if okN {
				// … and on EVERY path to a success return (a decode made only under a flag
				// leaves the eight bytes unread for the other messages)
				skipped := ""
				seenB := map[*ssa.BasicBlock]bool{}
				work := []*ssa.BasicBlock{u.Blocks[0]}
				for len(work) > 0 && skipped == "" {
					x := work[len(work)-1]
					work = work[:len(work)-1]
					if seenB[x] || okBlocks[x] {
						continue
					}
					seenB[x] = true
					if ret, isRet := x.Instrs[len(x.Instrs)-1].(*ssa.Return); isRet && len(ret.Results) == 2 {
						if k, isK := ret.Results[1].(*ssa.Const); isK && k.Value == nil {
							skipped = p.Rel(ret.Pos())
						}
					}
					work = append(work, x.Succs...)
				}
				if skipped != "" {
					okN = false
					r.Fail("header", key, p.Rel(u.Pos()), fmt.Sprintf("bytes %d..%d are handed to SecurityFeatures.Unmarshal only on some paths: the success return at %s is reached without decoding them", sp.off, sp.off+sp.width, skipped))
					continue
				}
			}
			if okN {
				r.OK("header", key, p.Rel(u.Pos()), fmt.Sprintf("bytes %d..%d handed to SecurityFeatures.Unmarshal", sp.off, sp.off+sp.width))
			} else if unread != "" || (!seen && c03HandsOn(u)) {
				if unread == "" {
					unread = "no Unmarshal call through the SecurityFeatures interface in this function, which hands its input or receiver to a helper that is not followed"
				}
				c.NotDecided("header", key, p.Rel(u.Pos()), unread)
			} else {
				r.Fail("header", key, p.Rel(u.Pos()), fmt.Sprintf("SecurityFeatures is not decoded from bytes %d..%d", sp.off, sp.off+sp.width))
			}
			continue
		}
		a, ok := byField[sp.field]
		if !ok || a.OffForm == nil || a.At == nil {
			r.Fail("header", key, p.Rel(u.Pos()), "field is never decoded from the input")
			continue
		}
		cx := fi.CtxBefore(a.At)
		atOff := cx.Prove(lin.GE(*a.OffForm, lin.K(int64(sp.off)))) && cx.Prove(lin.LE(*a.OffForm, lin.K(int64(sp.off))))
		width := a.Width
		if atOff && width == sp.width && !(a.Kind == "fixed" && a.Width > 1 && a.Order != "LE") {
			r.OK("header", key, p.Rel(a.Pos), fmt.Sprintf("offset %d width %d", sp.off, sp.width))
		} else {
			r.Fail("header", key, p.Rel(a.Pos), fmt.Sprintf("decoded as %s; MS-CIFS: offset %d, width %d, little-endian", a.String(), sp.off, sp.width))
		}
	}
	// SMB_HEADER_SIZE
	if v := constOf(p, hdrPkg, "SMB_HEADER_SIZE"); v == "32" {
		r.OK("header", "SMB_HEADER_SIZE", "", "32 = sum of the field widths")
	} else {
		r.Fail("header", "SMB_HEADER_SIZE", "", "is "+v+", the header is 32 bytes")
	}
	for i, ret := range successReturns(u) {
		cx := fi.CtxBefore(ret)
		f := cx.Lin(ret.Results[0])
		key := fmt.Sprintf("Header.Unmarshal success return #%d", i+1)
		if cx.Prove(lin.GE(f, lin.K(32))) && cx.Prove(lin.LE(f, lin.K(32))) {
			r.OK("header", key, p.Rel(ret.Pos()), "returns 32")
		} else {
			r.Fail("header", key, p.Rel(ret.Pos()), "returned count is not entailed to be 32")
		}
	}
	c03PID(c, w)
}

func c03PID(c *Ctx, w *prove.World) {
	p, r := c.P, c.R
	get := p.Func(hdrPkg, "Header", "GetPID")
	set := p.Func(hdrPkg, "Header", "SetPID")
	if get == nil || set == nil {
		r.Undecided("header", "GetPID/SetPID", "", "not found")
		return
	}
	const (
		sHi = 1 + iota
		sLo
		sPid
	)
	eg := codec.NewExt(w, get)
	an := &lanes.Analyzer{InModule: p.InModule}
	an.Leaf = func(f *lanes.Frame, v ssa.Value) (lanes.Vec, bool) {
		if _, isLoad := v.(*ssa.UnOp); isLoad {
			switch fld, _, _ := eg.ValueSrc(v); fld {
			case "PIDHigh":
				return srcVec(sHi, 16), true
			case "PIDLow":
				return srcVec(sLo, 16), true
			}
		}
		return nil, false
	}
	var ret *ssa.Return
	for _, b := range get.Blocks {
		if x, ok := b.Instrs[len(b.Instrs)-1].(*ssa.Return); ok {
			ret = x
		}
	}
	name := func(b lanes.Bit) string {
		return map[int]string{sHi: "PIDHigh", sLo: "PIDLow", sPid: "pid"}[b.S] + fmt.Sprintf("[%d]", b.B)
	}
	got := an.Root(get).Lanes(ret.Results[0])
	want := make(lanes.Vec, 32)
	for i := 0; i < 16; i++ {
		want[i] = lanes.Bit{K: lanes.Src, S: sLo, B: i}
		want[16+i] = lanes.Bit{K: lanes.Src, S: sHi, B: i}
	}
	if got.Equal(want) {
		r.OK("header", "Header.GetPID lanes", p.Rel(get.Pos()), "PIDHigh in bits 16-31, PIDLow in bits 0-15")
	} else {
		r.Fail("header", "Header.GetPID lanes", p.Rel(get.Pos()), "result is "+got.String(name))
	}
	es := codec.NewExt(w, set)
	an2 := &lanes.Analyzer{InModule: p.InModule}
	an2.Leaf = func(f *lanes.Frame, v ssa.Value) (lanes.Vec, bool) {
		if prm, ok := v.(*ssa.Parameter); ok && prm == set.Params[1] {
			return srcVec(sPid, 32), true
		}
		return nil, false
	}
	fr := an2.Root(set)
	seen := map[string]bool{}
	for _, b := range set.Blocks {
		for _, in := range b.Instrs {
			st, ok := in.(*ssa.Store)
			if !ok {
				continue
			}
			fld, ok := es.FieldPath(st.Addr)
			if !ok {
				continue
			}
			base := -1
			switch fld {
			case "PIDHigh":
				base = 16
			case "PIDLow":
				base = 0
			default:
				continue
			}
			seen[fld] = true
			gv := fr.Lanes(st.Val)
			okL := len(gv) == 16
			for i := 0; okL && i < 16; i++ {
				if gv[i] != (lanes.Bit{K: lanes.Src, S: sPid, B: base + i}) {
					okL = false
				}
			}
			if okL {
				r.OK("header", "Header.SetPID "+fld+" lanes", p.Rel(st.Pos()), fmt.Sprintf("pid bits %d-%d", base, base+15))
			} else {
				r.Fail("header", "Header.SetPID "+fld+" lanes", p.Rel(st.Pos()), fld+" receives "+gv.String(name))
			}
		}
	}
	for _, f := range []string{"PIDHigh", "PIDLow"} {
		if !seen[f] {
			r.Fail("header", "Header.SetPID "+f+" lanes", p.Rel(set.Pos()), "field not written")
		}
	}
}

// ---- framing ----------------------------------------------------------

func c03Framing(c *Ctx, w *prove.World) {
	p, r := c.P, c.R
	// (a) Parameters.Marshal guard
	if fn := p.Func(paramsPkg, "Parameters", "Marshal"); fn != nil {
		pos := p.Rel(fn.Pos())
		e := codec.NewExt(w, fn)
		var guard *ssa.BasicBlock
		var okEdge int
		for _, b := range fn.Blocks {
			iff, ok := b.Instrs[len(b.Instrs)-1].(*ssa.If)
			if !ok {
				continue
			}
			bo, ok := iff.Cond.(*ssa.BinOp)
			if !ok || (bo.Op != token.NEQ && bo.Op != token.EQL) {
				continue
			}
			for _, pair := range [][2]ssa.Value{{bo.X, bo.Y}, {bo.Y, bo.X}} {
				f1, _, _ := e.ValueSrc(pair[0])
				_, e2, _ := e.ValueSrc(pair[1])
				if f1 == "WordCount" && e2 == "len(Words)" {
					guard = b
					if bo.Op == token.NEQ {
						okEdge = 1
					} else {
						okEdge = 0
					}
				}
			}
		}
		if guard == nil {
			r.Fail("framing", "Parameters.Marshal guard", pos, "no comparison of WordCount with len(Words) guards the emission")
		} else {
			bad := guard.Succs[1-okEdge]
			good := guard.Succs[okEdge]
			errRet := false
			if ret, ok := bad.Instrs[len(bad.Instrs)-1].(*ssa.Return); ok && len(ret.Results) == 2 {
				if k, isK := ret.Results[1].(*ssa.Const); !isK || k.Value != nil {
					errRet = true
				}
			}
			okDom := true
			for _, ret := range successReturns2(fn) {
				if !(good == ret.Block() || good.Dominates(ret.Block())) {
					okDom = false
				}
			}
			if errRet && okDom {
				r.OK("framing", "Parameters.Marshal guard", pos, "every success return is dominated by WordCount == uint8(len(Words)); the other branch returns an error")
			} else {
				r.Fail("framing", "Parameters.Marshal guard", pos, fmt.Sprintf("the WordCount/len(Words) mismatch branch returns an error: %v; all success returns dominated by the matching branch: %v", errRet, okDom))
			}
		}
		enc := encStreams(w, fn)["out"]
		want := "WordCount fixed 1 ; repeat{Words[*] fixed 2 BE}"
		var got []string
		for _, a := range enc {
			got = append(got, atomSig(a))
		}
		if strings.Join(got, "; ") == want {
			r.OK("framing", "Parameters.Marshal layout", pos, "WordCount byte then exactly the words of Words")
		} else {
			r.Fail("framing", "Parameters.Marshal layout", pos, "layout is ["+strings.Join(got, "; ")+"]")
		}
	} else {
		r.Undecided("framing", "Parameters.Marshal", "", "not found")
	}
	// (b) Data: layout and pair invariant
	if fn := p.Func(dataPkg, "Data", "Marshal"); fn != nil {
		enc := encStreams(w, fn)["out"]
		var got []string
		for _, a := range enc {
			got = append(got, atomSig(a))
		}
		if strings.Join(got, "; ") == "ByteCount fixed 2 LE; Bytes bytes" {
			r.OK("framing", "Data.Marshal layout", p.Rel(fn.Pos()), "ByteCount (2, little-endian) then Bytes")
		} else {
			r.Fail("framing", "Data.Marshal layout", p.Rel(fn.Pos()), "layout is ["+strings.Join(got, "; ")+"]")
		}
	} else {
		r.Undecided("framing", "Data.Marshal", "", "not found")
	}
	c03PairInvariant(c, w)
	// (b') the decoders consume exactly the count they read: 1 + 2·WordCount and 2 + ByteCount
	for _, wt := range []wireType{{paramsPkg, "Parameters", "plain"}, {dataPkg, "Data", "plain"}} {
		m, u := p.Func(wt.rel, wt.name, "Marshal"), p.Func(wt.rel, wt.name, "Unmarshal")
		if m == nil || u == nil {
			r.Undecided("count", wt.name, "", "codec not found")
			continue
		}
		enc := encStreams(w, m)["out"]
		decs, _ := decStreams(w, u)
		c06VarCount(c, w, wt.name, u, enc, decs["data"])
	}
	// (c) Message.Marshal
	if fn := p.Func(msgPkg, "Message", "Marshal"); fn != nil {
		enc := encStreams(w, fn)["out"]
		ok := len(enc) == 2 && enc[0].Kind == "nested" && enc[0].Field == "Header" && strings.HasSuffix(enc[0].Type, "Marshal") &&
			enc[1].Kind == "nested" && enc[1].Field == "Command" && strings.HasSuffix(enc[1].Type, "Marshal")
		if ok {
			r.OK("framing", "Message.Marshal layout", p.Rel(fn.Pos()), "header bytes followed by command bytes")
		} else {
			r.Fail("framing", "Message.Marshal layout", p.Rel(fn.Pos()), "layout is ["+codec.Render(enc)+"], expected Header.Marshal then Command.Marshal")
		}
	} else {
		r.Undecided("framing", "Message.Marshal", "", "not found")
	}
}

func successReturns2(fn *ssa.Function) []*ssa.Return {
	var out []*ssa.Return
	for _, b := range fn.Blocks {
		ret, ok := b.Instrs[len(b.Instrs)-1].(*ssa.Return)
		if !ok || len(ret.Results) != 2 {
			continue
		}
		if k, isK := ret.Results[1].(*ssa.Const); isK && k.Value == nil {
			out = append(out, ret)
		}
	}
	return out
}

// c03PairInvariant: every function in the module that stores Data.Bytes keeps
// ByteCount == len(Bytes): it also stores ByteCount = uint16(len(v)) of the
// stored value (or of the field re-loaded), or the stored value is a slice
// whose length is ByteCount, or an empty slice with ByteCount 0 on that path.
func c03PairInvariant(c *Ctx, w *prove.World) {
	p, r := c.P, c.R
	n := 0
	for _, fn := range w.Funcs {
		var bytesStores []*ssa.Store
		var countStores []*ssa.Store
		for _, b := range fn.Blocks {
			for _, in := range b.Instrs {
				st, ok := in.(*ssa.Store)
				if !ok {
					continue
				}
				fa, ok := st.Addr.(*ssa.FieldAddr)
				if !ok {
					continue
				}
				nt, ok := derefType(fa.X.Type()).(*types.Named)
				if !ok || nt.Obj().Pkg() == nil || !strings.HasSuffix(nt.Obj().Pkg().Path(), dataPkg) || nt.Obj().Name() != "Data" {
					continue
				}
				switch nt.Underlying().(*types.Struct).Field(fa.Field).Name() {
				case "Bytes":
					bytesStores = append(bytesStores, st)
				case "ByteCount":
					countStores = append(countStores, st)
				}
			}
		}
		if len(bytesStores) == 0 {
			continue
		}
		fi := w.Info(fn)
		for i, st := range bytesStores {
			n++
			key := fmt.Sprintf("%s: store #%d to Data.Bytes", p.FuncName(fn), i+1)
			pos := p.Rel(st.Pos())
			// composite literal initialisation (&Data{ByteCount: 0, Bytes: []byte{}}): both constant
			cx := fi.CtxBefore(st)
			lenV := cx.LenOf(st.Val)
			ok := false
			why := ""
			for _, cs := range countStores {
				if !sameObject(cs.Addr, st.Addr) {
					continue
				}
				cv := cs.Val
				ccx := fi.CtxBefore(cs)
				cf := ccx.Lin(cv)
				// the count stored must equal len(value stored) (narrowing to uint16 is the stated 65535 limit)
				if countIsLenOf(cv, st.Val, fi) || (cf.Equal(lenV)) {
					ok = true
				}
				if k, isK := cf.ConstVal(); isK && k.Sign() == 0 {
					if lk, isLK := lenV.ConstVal(); isLK && lk.Sign() == 0 {
						ok = true
					}
				}
			}
			if !ok {
				// Unmarshal: Bytes = data[:ByteCount]
				if sl, isS := st.Val.(*ssa.Slice); isS && sl.High != nil {
					e := codec.NewExt(w, fn)
					f, _, _ := e.ValueSrc(sl.High)
					if f == "ByteCount" && (sl.Low == nil) {
						ok = true
					}
				}
				// empty slice under a dominating ByteCount == 0 / !(ByteCount > 0)
				if lk, isLK := lenV.ConstVal(); isLK && lk.Sign() == 0 {
					for _, b := range fn.Blocks {
						_ = b
					}
					if emptyUnderZeroCount(st, fn, w) {
						ok = true
					}
				}
			}
			if ok {
				r.OK("framing-pair", key, pos, "ByteCount is kept equal to len(Bytes)")
			} else {
				if why == "" {
					why = "Data.Bytes is written without ByteCount being set to its length"
				}
				r.Fail("framing-pair", key, pos, why)
			}
		}
	}
	r.Floor("framing-pair", 3)
	_ = n
}

func sameObject(a, b ssa.Value) bool {
	fa, ok1 := a.(*ssa.FieldAddr)
	fb, ok2 := b.(*ssa.FieldAddr)
	return ok1 && ok2 && fa.X == fb.X
}

// countIsLenOf: cv is uintN(len(v)) or uintN(len(load of the Bytes field just stored)).
func countIsLenOf(cv, v ssa.Value, fi *prove.FuncInfo) bool {
	for {
		if c, ok := cv.(*ssa.Convert); ok {
			cv = c.X
			continue
		}
		break
	}
	call, ok := cv.(*ssa.Call)
	if !ok {
		return false
	}
	b, ok := call.Call.Value.(*ssa.Builtin)
	if !ok || b.Name() != "len" {
		return false
	}
	arg := call.Call.Args[0]
	if arg == v {
		return true
	}
	if ld, ok := arg.(*ssa.UnOp); ok && ld.Op == token.MUL {
		if fi.LoadRep(ld) == v {
			return true
		}
	}
	return false
}

func emptyUnderZeroCount(st *ssa.Store, fn *ssa.Function, w *prove.World) bool {
	e := codec.NewExt(w, fn)
	for x := st.Block(); x != nil; x = x.Idom() {
		d := x.Idom()
		if d == nil || len(x.Preds) != 1 || x.Preds[0] != d {
			continue
		}
		iff, ok := d.Instrs[len(d.Instrs)-1].(*ssa.If)
		if !ok {
			continue
		}
		bo, ok := iff.Cond.(*ssa.BinOp)
		if !ok {
			continue
		}
		f, _, _ := e.ValueSrc(bo.X)
		k, isK := bo.Y.(*ssa.Const)
		if f != "ByteCount" || !isK || k.Value == nil || !constant.Compare(k.Value, token.EQL, constant.MakeInt64(0)) {
			continue
		}
		onTrue := d.Succs[0] == x
		if (bo.Op == token.GTR && !onTrue) || (bo.Op == token.EQL && onTrue) || (bo.Op == token.NEQ && !onTrue) {
			return true
		}
	}
	return false
}

// ---- idempotent -------------------------------------------------------

// accumulates: fn stores into a field of its receiver a value that depends on
// the field's previous value through append (p.F = append(p.F, …)).
func accumulates(fn *ssa.Function) []string {
	var out []string
	if fn == nil || fn.Blocks == nil || fn.Signature.Recv() == nil {
		return nil
	}
	for _, b := range fn.Blocks {
		for _, in := range b.Instrs {
			st, ok := in.(*ssa.Store)
			if !ok {
				continue
			}
			fa, ok := st.Addr.(*ssa.FieldAddr)
			if !ok || fa.X != ssa.Value(fn.Params[0]) {
				continue
			}
			if dependsOnAppendOfField(st.Val, fa, 0) {
				stt := derefType(fa.X.Type()).Underlying().(*types.Struct)
				out = append(out, stt.Field(fa.Field).Name())
			}
		}
	}
	sort.Strings(out)
	return out
}

func dependsOnAppendOfField(v ssa.Value, fa *ssa.FieldAddr, d int) bool {
	if d > 6 {
		return false
	}
	switch x := v.(type) {
	case *ssa.Call:
		if b, ok := x.Call.Value.(*ssa.Builtin); ok && b.Name() == "append" {
			base := x.Call.Args[0]
			if ld, ok := base.(*ssa.UnOp); ok && ld.Op == token.MUL {
				if f2, ok := ld.X.(*ssa.FieldAddr); ok && f2.X == fa.X && f2.Field == fa.Field {
					return true
				}
			}
			return dependsOnAppendOfField(base, fa, d+1)
		}
	case *ssa.Phi:
		for _, e := range x.Edges {
			if e != ssa.Value(x) && dependsOnAppendOfField(e, fa, d+1) {
				return true
			}
		}
	}
	return false
}

func c03Idempotent(c *Ctx, w *prove.World) {
	p, r := c.P, c.R
	// accumulating methods of Parameters and Data
	accum := map[*ssa.Function][]string{}
	for _, fn := range w.Funcs {
		rel := relPkg(p, fn)
		if rel != paramsPkg && rel != dataPkg {
			continue
		}
		if fs := accumulates(fn); len(fs) > 0 {
			accum[fn] = fs
		}
	}
	var names []string
	for fn, fs := range accum {
		names = append(names, fmt.Sprintf("%s → %s", p.FuncName(fn), strings.Join(fs, ",")))
	}
	sort.Strings(names)
	r.Extra["accumulating_methods"] = names
	if len(accum) < 3 {
		r.Undecided("idempotent", "accumulating methods", "", fmt.Sprintf("expected AddWord, AddWordsFromBytesStream and Data.Add to be recognised as accumulating, found %v", names))
	}
	objOf := func(v ssa.Value) string {
		// the object an accumulating call works on: c.GetParameters() / c.GetData()
		if call, ok := v.(*ssa.Call); ok {
			if f := call.Common().StaticCallee(); f != nil && strings.HasPrefix(f.Name(), "Get") {
				return strings.TrimPrefix(f.Name(), "Get")
			}
		}
		return ""
	}
	for _, nt := range commandTypes(p) {
		name := nt.Obj().Name()
		fn := p.Func(cmdPkg, name, "Marshal")
		if fn == nil {
			continue
		}
		pos := p.Rel(fn.Pos())
		// resets: c.SetX(fresh)
		resets := map[string][]*ssa.Call{}
		var accCalls []*ssa.Call
		for _, b := range fn.Blocks {
			for _, in := range b.Instrs {
				call, ok := in.(*ssa.Call)
				if !ok {
					continue
				}
				f := call.Common().StaticCallee()
				if f == nil {
					continue
				}
				if strings.HasPrefix(f.Name(), "Set") && len(call.Common().Args) == 2 {
					if ctor, ok := call.Common().Args[1].(*ssa.Call); ok && returnsFresh(ctor.Common().StaticCallee()) {
						resets[strings.TrimPrefix(f.Name(), "Set")] = append(resets[strings.TrimPrefix(f.Name(), "Set")], call)
					}
				}
				if _, isAcc := accum[f]; isAcc {
					accCalls = append(accCalls, call)
				}
			}
		}
		ok := true
		why := ""
		for _, ac := range accCalls {
			// the accumulating call works directly on a block this very call of Marshal created
			// (params := parameters.NewParameters(); c.SetParameters(params); params.AddWord(…))
			if ctor, isCall := ac.Common().Args[0].(*ssa.Call); isCall && returnsFresh(ctor.Common().StaticCallee()) &&
				(ctor.Block() == ac.Block() && instrBefore(ctor, ac) || ctor.Block() != ac.Block() && ctor.Block().Dominates(ac.Block())) {
				continue
			}
			obj := objOf(ac.Common().Args[0])
			dominated := false
			for _, rs := range resets[obj] {
				if rs.Block() == ac.Block() {
					if instrBefore(rs, ac) {
						dominated = true
					}
				} else if rs.Block().Dominates(ac.Block()) {
					dominated = true
				}
			}
			if obj == "" || !dominated {
				ok = false
				why = fmt.Sprintf("%s appends to the %s block, and no unconditional reset of it to a fresh object dominates the call", ac.Common().StaticCallee().Name(), obj)
			}
		}
		if len(accCalls) == 0 {
			r.Undecided("idempotent", name+".Marshal", pos, "no accumulating call recognised (encoder shape changed?)")
		} else if ok {
			r.OK("idempotent", name+".Marshal", pos, fmt.Sprintf("%d accumulating calls, each dominated by an unconditional reset to a fresh block", len(accCalls)))
		} else {
			r.Fail("idempotent", name+".Marshal", pos, why)
		}
	}
	r.Floor("idempotent", 115)
	// envelope encoders: no accumulating store at all
	var env []*ssa.Function
	env = append(env, p.Func(msgPkg, "Message", "Marshal"), p.Func(hdrPkg, "Header", "Marshal"), p.Func(paramsPkg, "Parameters", "Marshal"), p.Func(dataPkg, "Data", "Marshal"))
	if pk := p.Pkg(secPkg); pk != nil {
		for _, n := range pk.Types.Scope().Names() {
			if f := p.Func(secPkg, n, "Marshal"); f != nil {
				env = append(env, f)
			}
		}
	}
	for _, fn := range env {
		if fn == nil {
			continue
		}
		// envelope encoders must be pure with respect to their own structure: no store, direct or
		// through callees, to any field of the receiver's type
		recvT := derefType(fn.Signature.Recv().Type())
		prefix := "F:" + types.TypeString(recvT, nil) + "."
		var written []string
		for k := range w.ModSet(fn) {
			if strings.HasPrefix(k, prefix) {
				written = append(written, strings.TrimPrefix(k, prefix))
			}
		}
		sort.Strings(written)
		if len(written) > 0 {
			r.Fail("idempotent", p.FuncName(fn), p.Rel(fn.Pos()), "the encoder writes its own fields ("+strings.Join(written, ",")+"), so a second call may emit different bytes")
		} else {
			r.OK("idempotent", p.FuncName(fn), p.Rel(fn.Pos()), "no store to any field of the receiver's type, directly or through callees")
		}
	}
}

func instrBefore(a, b ssa.Instruction) bool {
	for _, in := range a.Block().Instrs {
		if in == a {
			return true
		}
		if in == b {
			return false
		}
	}
	return false
}

// returnsFresh: the function returns a newly allocated object on every path.
func returnsFresh(fn *ssa.Function) bool {
	if fn == nil || fn.Blocks == nil {
		return false
	}
	for _, b := range fn.Blocks {
		ret, ok := b.Instrs[len(b.Instrs)-1].(*ssa.Return)
		if !ok {
			continue
		}
		if len(ret.Results) != 1 {
			return false
		}
		if _, isAlloc := ret.Results[0].(*ssa.Alloc); !isAlloc {
			return false
		}
	}
	return true
}

// c03HandsOn: fn passes its receiver or a byte slice to an in-module function
// other than a method invoked through an interface (the decode may continue there).
func c03HandsOn(fn *ssa.Function) bool {
	for _, b := range fn.Blocks {
		for _, in := range b.Instrs {
			ci, ok := in.(ssa.CallInstruction)
			if !ok {
				continue
			}
			cc := ci.Common()
			callee := cc.StaticCallee()
			if callee == nil || callee.Pkg == nil || !strings.HasPrefix(callee.Pkg.Pkg.Path(), "github.com/TheManticoreProject/") {
				if _, isMC := cc.Value.(*ssa.MakeClosure); !isMC {
					continue
				}
			}
			for _, a := range cc.Args {
				if len(fn.Params) > 0 && a == ssa.Value(fn.Params[0]) {
					return true
				}
				if sl, isS := a.Type().Underlying().(*types.Slice); isS {
					if bt, isB := sl.Elem().Underlying().(*types.Basic); isB && bt.Kind() == types.Uint8 {
						return true
					}
				}
			}
		}
	}
	return false
}

func valueOf(in ssa.Instruction) ssa.Value {
	if v, ok := in.(ssa.Value); ok {
		return v
	}
	return nil
}

// c03HeaderLanes: bit provenance of an integer computed in Header.Marshal in
// terms of the receiver's integer fields (field index = source id), entering
// in-module helpers such as GetPID.
func c03HeaderLanes(p *load.Program, m *ssa.Function, v ssa.Value) (lanes.Vec, *types.Struct) {
	st, _ := derefType(m.Params[0].Type()).Underlying().(*types.Struct)
	if st == nil {
		return nil, nil
	}
	an := &lanes.Analyzer{InModule: p.InModule}
	an.Leaf = func(f *lanes.Frame, x ssa.Value) (lanes.Vec, bool) {
		ld, ok := x.(*ssa.UnOp)
		if !ok || ld.Op != token.MUL {
			return nil, false
		}
		fa, ok := ld.X.(*ssa.FieldAddr)
		if !ok {
			return nil, false
		}
		if s2, ok := derefType(fa.X.Type()).Underlying().(*types.Struct); !ok || !types.Identical(s2, st) {
			return nil, false
		}
		w, _, isInt := lanes.IntWidth(ld.Type())
		if !isInt {
			return nil, false
		}
		return srcVec(fa.Field+1, w), true
	}
	return an.Root(m).Lanes(v), st
}

// c03FieldByLanes: the low `bits` bits of v are exactly bits 0..bits-1 of one field; its name.
func c03FieldByLanes(p *load.Program, m *ssa.Function, v ssa.Value, bits int) string {
	vec, st := c03HeaderLanes(p, m, v)
	if st == nil || len(vec) < bits {
		return ""
	}
	src := -1
	for b := 0; b < bits; b++ {
		bit := vec[b]
		if bit.K != lanes.Src || bit.B != b {
			return ""
		}
		if src == -1 {
			src = bit.S
		} else if src != bit.S {
			return ""
		}
	}
	if src < 1 || src-1 >= st.NumFields() {
		return ""
	}
	if w, _, ok := lanes.IntWidth(st.Field(src - 1).Type()); !ok || w != bits {
		return ""
	}
	return st.Field(src - 1).Name()
}

// c03LanesKnown: every one of the low `bits` bits of v is a known bit of some field or a constant.
func c03LanesKnown(p *load.Program, m *ssa.Function, v ssa.Value, bits int) bool {
	vec, st := c03HeaderLanes(p, m, v)
	if st == nil || len(vec) < bits {
		return false
	}
	for b := 0; b < bits; b++ {
		if vec[b].K != lanes.Src && vec[b].K != lanes.Zero && vec[b].K != lanes.One {
			return false
		}
	}
	return true
}
