package rules

import (
	"fmt"
	"os"
	"go/token"
	"strings"

	"golang.org/x/tools/go/ssa"

	"manticheck/internal/lin"
	"manticheck/internal/prove"
)

// C08 extension `exact-fit` (added after an independently seeded change — the
// CHALLENGE TargetName guard written `end < len(data)` instead of `<=` — was
// missed): a payload field may end exactly at the end of the message, so the
// conditions guarding a read data[lo:hi] of the input must not exclude
// hi == len(data). Decided with the E1 prover as a feasibility question: the
// facts that dominate the slice expression, together with hi == len(data),
// must be satisfiable over the integers' linear relaxation. A guard that is
// stricter than the bounds requirement (`<` for `<=`, `+1` too many) makes them
// unsatisfiable. The rule says nothing about guards that are too weak (C07).

// no floors: the number of computed-bound reads is a property of the code's
// spelling, not of the protocol; positive examples live in the self-test
var exactFitFloors = map[string]int{}

func init() {
	for id, pk := range widenScopes {
		ck := registry[id]
		if ck == nil {
			continue
		}
		orig := ck.Run
		scope := map[string]bool{}
		for _, q := range pk {
			scope[q] = true
		}
		id := id
		ck.Run = func(c *Ctx) {
			orig(c)
			exactFit(c, scope, exactFitFloors[id])
			c.R.Explanation += " Shared rule `exact-fit`: for every read data[lo:hi] of a []byte parameter with a computed upper bound in this property's codec packages, every dominating guard that compares that same upper bound with len(data) admits hi == len(data), i.e. no guard rejects or drops a field that ends exactly at the end of the input (reads whose byte at hi is itself read — terminator idiom — are exempt)."
		}
	}
}

func exactFit(c *Ctx, scope map[string]bool, floor int) {
	const rule = "exact-fit"
	p, r := c.P, c.R
	var w *prove.World
	n := 0
	for _, fn := range p.SrcFuncs() {
		rp := relPkg(p, fn)
		if (os.Getenv("EXACTALL") == "" && !scope[rp]) || fn.Blocks == nil {
			continue
		}
		params := map[ssa.Value]bool{}
		for _, q := range fn.Params {
			if prove.IsByteSeq(q.Type()) {
				params[q] = true
			}
		}
		if len(params) == 0 {
			continue
		}
		if w == nil {
			w = sharedWorld(p)
		}
		fi := w.Info(fn)
		ord := map[string]int{}
		for _, b := range fn.Blocks {
			for _, in := range b.Instrs {
				sl, ok := in.(*ssa.Slice)
				if !ok || sl.High == nil || !params[sl.X] {
					continue
				}
				if _, isK := sl.High.(*ssa.Const); isK {
					continue
				}
				n++
				key := fmt.Sprintf("%s: %s[..:%s] may end at the end of the input", p.FuncName(fn), sl.X.Name(), hiName(sl.High))
				ord[key]++
				if ord[key] > 1 {
					key = fmt.Sprintf("%s #%d", key, ord[key])
				}
				ctx := fi.CtxBefore(sl)
				hi := ctx.Lin(sl.High)
				var bad []string
				guards := 0
				for y := sl.Block(); y != nil; y = y.Idom() {
					d := y.Idom()
					if d == nil || len(y.Preds) != 1 || y.Preds[0] != d {
						continue
					}
					iff, ok := d.Instrs[len(d.Instrs)-1].(*ssa.If)
					if !ok {
						continue
					}
					bo, ok := iff.Cond.(*ssa.BinOp)
					if !ok {
						continue
					}
					op := bo.Op
					var e ssa.Value
					if isLenOf(bo.Y, sl.X) {
						e = bo.X
					} else if isLenOf(bo.X, sl.X) {
						e = bo.Y
						switch op {
						case token.LSS:
							op = token.GTR
						case token.LEQ:
							op = token.GEQ
						case token.GTR:
							op = token.LSS
						case token.GEQ:
							op = token.LEQ
						}
					} else {
						continue
					}
					ef := ctx.Lin(e)
					if !(ctx.Prove(lin.GE(ef, hi)) && ctx.Prove(lin.LE(ef, hi))) {
						// a guard on the START of this read: a field of variable width may be empty, and an
						// empty field may sit exactly at the end of the input (lo == hi == len)
						if sl.Low != nil {
							lo := ctx.Lin(sl.Low)
							if ctx.Prove(lin.GE(ef, lo)) && ctx.Prove(lin.LE(ef, lo)) && !ctx.Prove(lin.GE(hi, lo.AddK(1))) && !indexedAt(ctx, fn, sl.X, lo) {
								atEqual := op == token.LEQ || op == token.GEQ || op == token.EQL
								taken := d.Succs[0] == y
								if atEqual != taken {
									bad = append(bad, fmt.Sprintf("the guard at %s (%s against len) on the START of this read is %v on this path, which excludes an empty field at the very end of the input (lo == hi == len(input))", p.Rel(iff.Cond.Pos()), bo.Op, taken))
								}
							}
						}
						continue // a guard on another quantity (a header, a start offset)
					}
					guards++
					atEqual := op == token.LEQ || op == token.GEQ || op == token.EQL
					taken := d.Succs[0] == y
					if atEqual != taken {
						bad = append(bad, fmt.Sprintf("the guard at %s (%s against len) is %v on this path, which excludes hi == len(input)", p.Rel(iff.Cond.Pos()), bo.Op, taken))
					}
				}
				if len(bad) > 0 && byteAtRead(ctx, fn, sl) {
					r.OK(rule, key, p.Rel(sl.Pos()), "the byte at index hi is itself read (terminator idiom): hi < len(input) by construction")
					continue
				}
				if len(bad) > 0 {
					r.Fail(rule, key, p.Rel(sl.Pos()), strings.Join(bad, "; ")+": a field that ends exactly at the end of the message is rejected or silently dropped")
				} else {
					r.OK(rule, key, p.Rel(sl.Pos()), fmt.Sprintf("%d dominating guard(s) compare this upper bound with len(input); all admit equality", guards))
				}
			}
		}
	}
	r.Floor(rule, floor)
	r.Extra["exact_fit_sites"] = n
}

func hiName(v ssa.Value) string {
	switch x := v.(type) {
	case *ssa.BinOp:
		return hiName(x.X) + x.Op.String() + hiName(x.Y)
	case *ssa.Const:
		return x.Value.ExactString()
	case *ssa.Convert:
		return hiName(x.X)
	}
	if v.Name() != "" && v.Name()[0] != 't' {
		return v.Name()
	}
	return "e"
}

// isLenOf: v is len(x), possibly converted.
func isLenOf(v, x ssa.Value) bool {
	for {
		switch y := v.(type) {
		case *ssa.Convert:
			v = y.X
			continue
		case *ssa.Call:
			if bi, ok := y.Call.Value.(*ssa.Builtin); ok && bi.Name() == "len" && y.Call.Args[0] == x {
				return true
			}
		}
		return false
	}
}

// byteAtRead: the function reads x[i] for an index provably equal to the
// slice's upper bound.
func byteAtRead(ctx *prove.Ctx, fn *ssa.Function, sl *ssa.Slice) bool {
	hi := ctx.Lin(sl.High)
	for _, b := range fn.Blocks {
		for _, in := range b.Instrs {
			ia, ok := in.(*ssa.IndexAddr)
			if !ok || ia.X != sl.X {
				continue
			}
			if ia.Index == sl.High {
				return true
			}
			f := ctx.Lin(ia.Index)
			if ctx.Prove(lin.GE(f, hi)) && ctx.Prove(lin.LE(f, hi)) {
				return true
			}
		}
	}
	return false
}

// indexedAt: the function reads x[i] for an index provably equal to f (the
// byte at the start of the read is needed anyway, so lo < len is implied).
func indexedAt(ctx *prove.Ctx, fn *ssa.Function, x ssa.Value, f lin.Form) bool {
	for _, b := range fn.Blocks {
		for _, in := range b.Instrs {
			ia, ok := in.(*ssa.IndexAddr)
			if !ok || ia.X != x {
				continue
			}
			g := ctx.Lin(ia.Index)
			if ctx.Prove(lin.GE(g, f)) && ctx.Prove(lin.LE(g, f)) {
				return true
			}
		}
	}
	return false
}
