package rules

import (
	"fmt"
	"go/token"
	"go/types"
	"strings"

	"golang.org/x/tools/go/ssa"

	"manticheck/internal/codec"
	"manticheck/internal/lin"
	"manticheck/internal/report"
)

// R4: the CHALLENGE parser and the AV_PAIR walker.

// c08Get recognises binary.<Order>.UintN(buf[lo:hi]) and returns the slice read.
func c08Get(v ssa.Value) (call *ssa.Call, window ssa.Value, width int, order string, ok bool) {
	call, isCall := c08Strip(v).(*ssa.Call)
	if !isCall {
		return nil, nil, 0, "", false
	}
	f := call.Common().StaticCallee()
	if f == nil || f.Signature.Recv() == nil {
		return nil, nil, 0, "", false
	}
	rt := f.Signature.Recv().Type().String()
	if !strings.HasPrefix(rt, "encoding/binary.") {
		return nil, nil, 0, "", false
	}
	switch f.Name() {
	case "Uint16":
		width = 2
	case "Uint32":
		width = 4
	case "Uint64":
		width = 8
	default:
		return nil, nil, 0, "", false
	}
	order = "LE"
	if strings.Contains(rt, "bigEndian") {
		order = "BE"
	}
	return call, call.Common().Args[1], width, order, true
}

// c08ConstWindow: window = buf[lo:…] with constant lo; returns buf and lo.
func c08ConstWindow(window ssa.Value) (buf ssa.Value, lo int64, ok bool) {
	sl, isS := window.(*ssa.Slice)
	if !isS {
		return nil, 0, false
	}
	lo = 0
	if sl.Low != nil {
		k, isK := c08ConstInt(sl.Low)
		if !isK || !k.IsInt64() {
			return nil, 0, false
		}
		lo = k.Int64()
	}
	return sl.X, lo, true
}

// wireIntAt: v is an N-byte integer read at constant offset off of buf in the given order.
func c08WireIntAt(v ssa.Value, buf ssa.Value, off int64, width int, order string) (bool, string) {
	_, win, w, o, ok := c08Get(v)
	if !ok {
		return false, "is not read with encoding/binary from the message"
	}
	b, lo, ok := c08ConstWindow(win)
	if !ok || b != buf {
		return false, "is not read at a constant offset of the message buffer"
	}
	if lo != off || w != width {
		return false, fmt.Sprintf("is read as %d bytes at offset %d (MS-NLMP: %d bytes at %d)", w, lo, width, off)
	}
	if o != order {
		return false, fmt.Sprintf("is read %s (must be %s)", o, order)
	}
	return true, ""
}

func (c *c08) parseChallenge(sig *ssa.Global) {
	name := c08NTLM + ".ParseChallengeMessage"
	fn := c.P.Func(c08NTLM, "", "ParseChallengeMessage")
	if fn == nil || fn.Blocks == nil || len(fn.Params) == 0 {
		c.R.Undecided("R4.challenge-field", name, "-", "anchor function not found")
		return
	}
	c.guard("R4.challenge-field", name, c.pos(fn.Pos()), func() { c.parseChallenge1(fn, name, sig) })
}

func (c *c08) parseChallenge1(fn *ssa.Function, name string, sig *ssa.Global) {
	r := c.R
	data := fn.Params[0]
	// the struct being filled: the allocation returned on success
	var root *ssa.Alloc
	var okRets []*ssa.Return
	for _, b := range fn.Blocks {
		ret, ok := b.Instrs[len(b.Instrs)-1].(*ssa.Return)
		if !ok || len(ret.Results) != 2 {
			continue
		}
		if k, isK := ret.Results[0].(*ssa.Const); isK && k.Value == nil {
			continue
		}
		al, ok := ret.Results[0].(*ssa.Alloc)
		if !ok || (root != nil && al != root) {
			r.Undecided("R4.challenge-field", name, c.ipos(ret), "the success return does not return one locally allocated ChallengeMessage")
			return
		}
		root = al
		okRets = append(okRets, ret)
	}
	if root == nil {
		r.Undecided("R4.challenge-field", name, c.pos(fn.Pos()), "no success return found")
		return
	}
	e := codec.NewExt(c.w, fn)
	e.Roots[root] = ""
	atoms := e.Decoded()
	r.Extra["layout ParseChallengeMessage"] = codec.Render(atoms)
	byField := map[string][]codec.Atom{}
	for _, a := range atoms {
		byField[a.Field] = append(byField[a.Field], a)
	}
	type fspec struct {
		field string
		off   int64
		width int
		kind  string // fixed | bytes | nested | desc
		cond  bool   // may be conditional
	}
	spec := []fspec{
		{"Signature", 0, 8, "bytes", false},
		{"MessageType", 8, 4, "fixed", false},
		{"TargetName", 12, 0, "desc", true},
		{"NegotiateFlags", 20, 4, "fixed", false},
		{"ServerChallenge", 24, 8, "bytes", false},
		{"Reserved", 32, 8, "bytes", false},
		{"TargetInfo", 40, 0, "desc", true},
		{"Version", 48, 8, "nested", true},
	}
	unmarshal := c.P.Func(c08Version, "Version", "Unmarshal")
	for _, s := range spec {
		construct := name + ": " + s.field
		as := byField[s.field]
		if len(as) != 1 {
			r.Fail("R4.challenge-field", construct, c.pos(fn.Pos()), fmt.Sprintf("field %s is filled from the message %d times (expected once); decoder layout: %s", s.field, len(as), codec.Render(atoms)))
			continue
		}
		a := as[0]
		if a.Stream != data.Name() {
			r.Fail("R4.challenge-field", construct, c.pos(a.Pos), "the field is not read from the message buffer but from "+a.Stream)
			continue
		}
		if a.Cond && !s.cond {
			r.Fail("R4.challenge-field", construct, c.pos(a.Pos), "the field is only filled under a data-dependent condition")
			continue
		}
		if s.kind == "desc" {
			c.challengeDesc(fn, name, root, data, s.field, s.off)
			r.OK("R4.challenge-field", construct, c.pos(a.Pos), fmt.Sprintf("payload designated by the descriptor at %d (see R4.challenge-desc)", s.off))
			continue
		}
		off := int64(-1)
		if a.OffForm != nil {
			off, _ = c08FormConst(*a.OffForm)
		}
		bad := ""
		switch {
		case off != s.off:
			bad = fmt.Sprintf("is read at offset %s; MS-NLMP places it at %d", a.Off, s.off)
		case s.kind == "nested":
			if a.Kind != "nested" || a.Callee == nil || a.Callee != unmarshal || a.Window != s.width {
				bad = fmt.Sprintf("is not decoded by version.Version.Unmarshal from an %d-byte window (%s)", s.width, a.String())
			}
		case a.Kind != s.kind || a.Width != s.width:
			bad = fmt.Sprintf("is read as %s; MS-NLMP: %d bytes at %d", a.String(), s.width, s.off)
		case s.kind == "fixed" && a.Order != "LE":
			bad = "is read " + a.Order + "; every NTLMSSP integer is little-endian"
		}
		if bad != "" {
			r.Fail("R4.challenge-field", construct, c.pos(a.Pos), s.field+" "+bad)
		} else {
			r.OK("R4.challenge-field", construct, c.pos(a.Pos), a.String())
		}
	}

	// challenge-check: the signature and the message type are enforced
	dominatesSuccess := func(pass *ssa.BasicBlock, from *ssa.BasicBlock) bool {
		if len(pass.Preds) != 1 || pass.Preds[0] != from {
			return false
		}
		for _, ret := range okRets {
			if !pass.Dominates(ret.Block()) {
				return false
			}
		}
		return true
	}
	{
		construct := name + ": signature check"
		ok, why := false, "no comparison of data[0:8] with NTLM_SIGNATURE guards the success path"
		for _, b := range fn.Blocks {
			iff, isIf := b.Instrs[len(b.Instrs)-1].(*ssa.If)
			if !isIf {
				continue
			}
			cond, neg := iff.Cond, false
			if u, isU := cond.(*ssa.UnOp); isU && u.Op == token.NOT {
				cond, neg = u.X, true
			}
			call, f := c08StaticCall(cond)
			if call == nil || f == nil || f.String() != "bytes.Equal" {
				continue
			}
			a0, a1 := call.Common().Args[0], call.Common().Args[1]
			if c08IsSigGlobal(a0, sig) {
				a0, a1 = a1, a0
			}
			if !c08IsSigGlobal(a1, sig) {
				continue
			}
			sl, isS := a0.(*ssa.Slice)
			if !isS || sl.X != ssa.Value(data) {
				continue
			}
			loV, okLo := int64(0), true
			if sl.Low != nil {
				k, isK := c08ConstInt(sl.Low)
				okLo = isK && k.IsInt64()
				if okLo {
					loV = k.Int64()
				}
			}
			hi, okHi := c08ConstInt(sl.High)
			if !okLo || !okHi || loV != 0 || !hi.IsInt64() || hi.Int64() != 8 {
				why = "the signature comparison does not cover bytes 0..8"
				continue
			}
			pass := b.Succs[0]
			if neg {
				pass = b.Succs[1]
			}
			if dominatesSuccess(pass, b) {
				ok = true
			} else {
				why = "the signature comparison does not guard every success return"
			}
		}
		if ok {
			r.OK("R4.challenge-check", construct, c.pos(fn.Pos()), "bytes.Equal(data[0:8], NTLM_SIGNATURE) must hold on every success path")
		} else {
			r.Fail("R4.challenge-check", construct, c.pos(fn.Pos()), why)
		}
	}
	{
		construct := name + ": message type check"
		want, okc := c08PkgConst(c.P, c08NTLM, "NTLM_CHALLENGE")
		ok, why := false, "no comparison of the MessageType at offset 8 with NTLM_CHALLENGE guards the success path"
		if !okc || want.Int64() != 2 {
			why = "constant NTLM_CHALLENGE is not 2"
		} else {
			for _, b := range fn.Blocks {
				iff, isIf := b.Instrs[len(b.Instrs)-1].(*ssa.If)
				if !isIf {
					continue
				}
				cmp, isB := iff.Cond.(*ssa.BinOp)
				if !isB || (cmp.Op != token.EQL && cmp.Op != token.NEQ) {
					continue
				}
				x, k := cmp.X, cmp.Y
				if _, isK := c08ConstInt(x); isK {
					x, k = k, x
				}
				kv, isK := c08ConstInt(k)
				if !isK {
					continue
				}
				if is, _ := c08WireIntAt(x, data, 8, 4, "LE"); !is {
					continue
				}
				if kv.Cmp(want) != 0 {
					why = fmt.Sprintf("MessageType is compared with %s, not NTLM_CHALLENGE = 2", kv)
					continue
				}
				pass := b.Succs[0]
				if cmp.Op == token.NEQ {
					pass = b.Succs[1]
				}
				if dominatesSuccess(pass, b) {
					ok = true
				} else {
					why = "the message type comparison does not guard every success return"
				}
			}
		}
		if ok {
			r.OK("R4.challenge-check", construct, c.pos(fn.Pos()), "LE32 at 8 must equal NTLM_CHALLENGE (2) on every success path")
		} else {
			r.Fail("R4.challenge-check", construct, c.pos(fn.Pos()), why)
		}
	}
}

func c08IsSigGlobal(v ssa.Value, sig *ssa.Global) bool {
	u, ok := v.(*ssa.UnOp)
	return ok && sig != nil && u.Op == token.MUL && u.X == ssa.Value(sig)
}

// challengeDesc: root.<field> = data[Offset : Offset+Len] with Len 2LE at off,
// Offset 4LE at off+4, in bounds by E1.
func (c *c08) challengeDesc(fn *ssa.Function, name string, root *ssa.Alloc, data *ssa.Parameter, field string, off int64) {
	r := c.R
	construct := name + ": " + field + " descriptor"
	var stores []*ssa.Store
	for _, b := range fn.Blocks {
		for _, in := range b.Instrs {
			st, ok := in.(*ssa.Store)
			if !ok {
				continue
			}
			fa, ok := st.Addr.(*ssa.FieldAddr)
			if !ok || fa.X != ssa.Value(root) {
				continue
			}
			s, _ := c08Deref(fa.X.Type()).Underlying().(*types.Struct)
			if s != nil && s.Field(fa.Field).Name() == field {
				stores = append(stores, st)
			}
		}
	}
	if len(stores) != 1 {
		r.Undecided("R4.challenge-desc", construct, c.pos(fn.Pos()), fmt.Sprintf("%d stores to the field (expected one)", len(stores)))
		return
	}
	sl, ok := stores[0].Val.(*ssa.Slice)
	if !ok || sl.X != ssa.Value(data) || sl.Low == nil || sl.High == nil || sl.Max != nil {
		r.Undecided("R4.challenge-desc", construct, c.ipos(stores[0]), "the field is not assigned data[lo:hi]")
		return
	}
	if is, why := c08WireIntAt(sl.Low, data, off+4, 4, "LE"); !is {
		r.Fail("R4.challenge-desc", construct, c.ipos(sl), "the lower bound of the payload slice "+why+fmt.Sprintf(" — it must be the descriptor's BufferOffset (4LE at %d)", off+4))
		return
	}
	z := codec.NewSym()
	d := z.Of(sl.High).Sub(z.Of(sl.Low))
	ts := d.Terms()
	okLen := false
	why := "is not BufferOffset + Len: " + z.String(d)
	if len(ts) == 1 && d.C.Sign() == 0 && d.Coef[ts[0]].IsInt64() && d.Coef[ts[0]].Int64() == 1 {
		v, isLen := z.TermValue(ts[0])
		if !isLen {
			var w string
			okLen, w = c08WireIntAt(v, data, off, 2, "LE")
			if !okLen {
				why = "is BufferOffset plus a value that " + w + fmt.Sprintf(" — it must be the descriptor's Len (2LE at %d)", off)
			}
		}
	}
	if !okLen {
		r.Fail("R4.challenge-desc", construct, c.ipos(sl), "the upper bound of the payload slice "+why)
		return
	}
	out := c.w.ProveBounds(sl)
	if !out.Proved {
		r.Add("R4.challenge-desc", construct, c.ipos(sl), report.Finding, "data[Offset:Offset+Len] is not proved in bounds from the dominating guard (the guard must test the very values that are sliced, without wrap): "+out.Failed, map[string]any{"facts": out.Facts})
		return
	}
	r.OK("R4.challenge-desc", construct, c.ipos(sl), fmt.Sprintf("data[LE32@%d : LE32@%d + LE16@%d], in bounds by E1", off+4, off+4, off))
}

// ---------------------------------------------------------------------------
// ParseTargetInfo

func (c *c08) parseTargetInfo() {
	name := c08NTLM + ".ParseTargetInfo"
	fn := c.P.Func(c08NTLM, "", "ParseTargetInfo")
	if fn == nil || fn.Blocks == nil || len(fn.Params) == 0 {
		c.R.Undecided("R4.avpair", name, "-", "anchor function not found")
		return
	}
	c.guard("R4.avpair", name, c.pos(fn.Pos()), func() { c.parseTargetInfo1(fn, name) })
}

func (c *c08) parseTargetInfo1(fn *ssa.Function, name string) {
	r := c.R
	data := fn.Params[0]
	z := codec.NewSym()
	// the map update that records a pair
	var mus []*ssa.MapUpdate
	for _, b := range fn.Blocks {
		for _, in := range b.Instrs {
			if mu, ok := in.(*ssa.MapUpdate); ok {
				mus = append(mus, mu)
			}
		}
	}
	if len(mus) != 1 {
		r.Undecided("R4.avpair", name+": AvId", c.pos(fn.Pos()), fmt.Sprintf("%d map updates (expected the one that records an AV pair)", len(mus)))
		return
	}
	mu := mus[0]
	// the map must be what is returned
	for _, b := range fn.Blocks {
		if ret, ok := b.Instrs[len(b.Instrs)-1].(*ssa.Return); ok && len(ret.Results) == 2 {
			if k, isK := ret.Results[0].(*ssa.Const); isK && k.Value == nil {
				continue
			}
			if ret.Results[0] != mu.Map {
				r.Undecided("R4.avpair", name+": AvId", c.ipos(ret), "the map returned is not the one the pairs are stored in")
				return
			}
		}
	}
	symWindow := func(v ssa.Value) (lo, hi lin.Form, ok bool) {
		sl, isS := v.(*ssa.Slice)
		if !isS || sl.X != ssa.Value(data) || sl.Low == nil || sl.High == nil {
			return lo, hi, false
		}
		return z.Of(sl.Low), z.Of(sl.High), true
	}
	// AvId
	idCall, idWin, idW, idOrder, ok := c08Get(mu.Key)
	if !ok {
		r.Fail("R4.avpair", name+": AvId", c.ipos(mu), "the key under which a value is stored is not an integer read from the buffer")
		return
	}
	idLo, idHi, ok := symWindow(idWin)
	var phi *ssa.Phi
	if ok {
		ts := idLo.Terms()
		if len(ts) == 1 && idLo.C.Sign() == 0 && idLo.Coef[ts[0]].IsInt64() && idLo.Coef[ts[0]].Int64() == 1 {
			v, isLen := z.TermValue(ts[0])
			if p, isP := v.(*ssa.Phi); isP && !isLen {
				phi = p
			}
		}
	}
	if phi == nil {
		r.Undecided("R4.avpair", name+": AvId", c.ipos(idCall), "AvId is not read at the running offset of the loop")
		return
	}
	hb := phi.Block()
	var backs, entries []int
	for i, p := range hb.Preds {
		if hb.Dominates(p) {
			backs = append(backs, i)
		} else {
			entries = append(entries, i)
		}
	}
	if len(backs) == 0 || len(entries) != 1 {
		r.Undecided("R4.avpair", name+": AvId", c.ipos(idCall), "the running offset is not a loop-carried variable")
		return
	}
	if k, isK := c08ConstInt(phi.Edges[entries[0]]); !isK || k.Sign() != 0 {
		r.Fail("R4.avpair", name+": AvId", c.ipos(phi), "the walk does not start at offset 0 of the target info")
		return
	}
	P := lin.V(idLo.Terms()[0])
	if idW != 2 || idOrder != "LE" || !idHi.Equal(P.AddK(2)) {
		r.Fail("R4.avpair", name+": AvId", c.ipos(idCall), fmt.Sprintf("AvId is read as %d bytes %s from [%s:%s]; MS-NLMP AV_PAIR: AvId 2 bytes little-endian at +0", idW, idOrder, z.String(idLo), z.String(idHi)))
	} else {
		r.OK("R4.avpair", name+": AvId", c.ipos(idCall), "2LE at offset+0")
	}
	// value and AvLen
	vLo, vHi, ok := symWindow(mu.Value)
	if !ok {
		r.Undecided("R4.avpair", name+": value", c.ipos(mu), "the value stored is not a window of the target info")
		return
	}
	d := vHi.Sub(vLo)
	var lenCall *ssa.Call
	var lenTerm lin.Form
	if ts := d.Terms(); len(ts) == 1 && d.C.Sign() == 0 && d.Coef[ts[0]].IsInt64() && d.Coef[ts[0]].Int64() == 1 {
		v, isLen := z.TermValue(ts[0])
		if !isLen {
			if call, win, w, order, ok := c08Get(v); ok {
				lo, hi, ok2 := symWindow(win)
				switch {
				case !ok2:
				case w != 2 || order != "LE" || !lo.Equal(P.AddK(2)) || !hi.Equal(P.AddK(4)):
					r.Fail("R4.avpair", name+": AvLen", c.ipos(call), fmt.Sprintf("AvLen is read as %d bytes %s from [%s:%s]; MS-NLMP AV_PAIR: AvLen 2 bytes little-endian at +2", w, order, z.String(lo), z.String(hi)))
					return
				default:
					lenCall, lenTerm = call, lin.V(ts[0])
				}
			}
		}
	}
	if lenCall == nil {
		r.Fail("R4.avpair", name+": AvLen", c.ipos(mu), "the width of the stored value, "+z.String(d)+", is not an AvLen read from the pair header")
		return
	}
	r.OK("R4.avpair", name+": AvLen", c.ipos(lenCall), "2LE at offset+2")
	if !vLo.Equal(P.AddK(4)) {
		r.Fail("R4.avpair", name+": value", c.ipos(mu), fmt.Sprintf("the value is taken from [%s:%s]; it occupies AvLen bytes from offset+4", z.String(vLo), z.String(vHi)))
	} else {
		r.OK("R4.avpair", name+": value", c.ipos(mu), "result[AvId] = targetInfo[offset+4 : offset+4+AvLen]")
	}
	// advance
	{
		bad := ""
		for _, i := range backs {
			if nf := z.Of(phi.Edges[i]); !nf.Equal(P.AddK(4).Add(lenTerm)) {
				bad = fmt.Sprintf("the next pair is sought at %s; it starts at offset + 4 + AvLen", z.String(nf))
			}
		}
		if bad != "" {
			r.Fail("R4.avpair", name+": advance", c.ipos(phi), bad)
		} else {
			r.OK("R4.avpair", name+": advance", c.ipos(phi), "offset' = offset + 4 + AvLen on every back edge")
		}
	}
	// stop at MsvAvEOL
	{
		construct := name + ": MsvAvEOL"
		eol, okc := c08PkgConst(c.P, c08NTLM, "MsvAvEOL")
		if !okc || eol.Sign() != 0 {
			r.Fail("R4.avpair", construct, c.pos(fn.Pos()), "constant MsvAvEOL is not 0x0000")
			return
		}
		// blocks entered only when AvId != EOL
		var cont []*ssa.BasicBlock
		edge := map[[2]*ssa.BasicBlock]bool{}
		for _, b := range fn.Blocks {
			iff, isIf := b.Instrs[len(b.Instrs)-1].(*ssa.If)
			if !isIf {
				continue
			}
			cmp, isB := iff.Cond.(*ssa.BinOp)
			if !isB || (cmp.Op != token.EQL && cmp.Op != token.NEQ) {
				continue
			}
			x, k := cmp.X, cmp.Y
			if _, isK := c08ConstInt(x); isK {
				x, k = k, x
			}
			kv, isK := c08ConstInt(k)
			if !isK || kv.Cmp(eol) != 0 || c08Strip(x) != ssa.Value(idCall) {
				continue
			}
			ne := b.Succs[0]
			if cmp.Op == token.EQL {
				ne = b.Succs[1]
			}
			edge[[2]*ssa.BasicBlock{b, ne}] = true
			if len(ne.Preds) == 1 {
				cont = append(cont, ne)
			}
		}
		ok := true
		for _, i := range backs {
			p := hb.Preds[i]
			good := edge[[2]*ssa.BasicBlock{p, hb}]
			for _, cb := range cont {
				if cb == p || cb.Dominates(p) {
					good = true
				}
			}
			if !good {
				ok = false
			}
		}
		if ok {
			r.OK("R4.avpair", construct, c.ipos(phi), "the loop continues only on AvId != MsvAvEOL")
		} else {
			r.Fail("R4.avpair", construct, c.ipos(phi), "the walk can continue past a pair whose AvId is MsvAvEOL (the list terminator)")
		}
	}
}
