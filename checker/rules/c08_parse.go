package rules

import (
	"fmt"
	"go/constant"
	"go/token"
	"go/types"
	"strings"

	"golang.org/x/tools/go/ssa"

	"manticheck/internal/codec"
	"manticheck/internal/lin"
	"manticheck/internal/report"
)

// R4: the CHALLENGE parser and the AV_PAIR walker.
//
// Verdict policy (c08_complete.go): a mismatch is a violation only when the
// value in question was resolved to reads of the message (wireIntAt3's
// `observed`); an unresolved value, a struct or buffer handed to code that is
// not followed, or a walk of another shape is NOT DECIDED.

// c08Get recognises binary.<Order>.UintN(buf[lo:hi]) and returns the slice read.
func c08Get(v ssa.Value) (call *ssa.Call, window ssa.Value, width int, order string, ok bool) {
	call, isCall := c08Strip(v).(*ssa.Call)
	if !isCall {
		return nil, nil, 0, "", false
	}
	f := call.Common().StaticCallee()
	if f == nil || f.Signature.Recv() == nil {
		return nil, nil, 0, "", false
	}
	rt := f.Signature.Recv().Type().String()
	if !strings.HasPrefix(rt, "encoding/binary.") {
		return nil, nil, 0, "", false
	}
	switch f.Name() {
	case "Uint16":
		width = 2
	case "Uint32":
		width = 4
	case "Uint64":
		width = 8
	default:
		return nil, nil, 0, "", false
	}
	order = "LE"
	if strings.Contains(rt, "bigEndian") {
		order = "BE"
	}
	return call, call.Common().Args[1], width, order, true
}

// c08Window resolves a byte-slice value to the bytes [lo, hi) of a root buffer:
// nested re-slices are composed (h := data[d:d+8]; h[4:8] is data[d+4:d+8]),
// parameters of inlined helpers are followed to their arguments. open = no
// upper bound was given (the window extends to the end of the root).
func c08Window(z *codec.Sym, v ssa.Value, fr *codec.Frame) (root ssa.Value, rootFr *codec.Frame, lo, hi lin.Form, open bool) {
	v, fr = codec.Resolve(v, fr)
	sl, ok := v.(*ssa.Slice)
	if !ok || sl.Max != nil {
		return v, fr, lin.K(0), lin.K(0), true
	}
	if _, isSl := sl.X.Type().Underlying().(*types.Slice); !isSl {
		return v, fr, lin.K(0), lin.K(0), true
	}
	root, rootFr, lo0, hi0, open0 := c08Window(z, sl.X, fr)
	lo = lo0
	if sl.Low != nil {
		lo = lo0.Add(z.OfIn(sl.Low, fr))
	}
	if sl.High != nil {
		return root, rootFr, lo, lo0.Add(z.OfIn(sl.High, fr)), false
	}
	return root, rootFr, lo, hi0, open0
}

// c08Read: an integer obtained with encoding/binary from bytes [lo, lo+width) of root.
type c08Read struct {
	call   *ssa.Call
	root   ssa.Value
	rootFr *codec.Frame
	lo     lin.Form
	width  int
	order  string
}

// c08WireRead recognises v (in activation fr) as such a read, directly or
// through up to two in-module accessor helpers with a single return.
func (c *c08) wireRead(z *codec.Sym, v ssa.Value, fr *codec.Frame, depth int) (*c08Read, bool) {
	for d := 0; d < 8; d++ {
		v = c08Strip(v)
		w, wf := codec.Resolve(v, fr)
		if w == v && wf == fr {
			break
		}
		v, fr = w, wf
	}
	if call, win, w, order, ok := c08Get(v); ok {
		root, rfr, lo, _, _ := c08Window(z, win, fr)
		return &c08Read{call: call, root: root, rootFr: rfr, lo: lo, width: w, order: order}, true
	}
	idx, tuple := 0, false
	if ex, isEx := v.(*ssa.Extract); isEx {
		// one of several results of an accessor: length, offset := readDescriptor(d)
		v, idx, tuple = ex.Tuple, ex.Index, true
	}
	call, f := c08StaticCall(v)
	if call == nil || f == nil || f.Blocks == nil || !c.P.InModule(f) || depth >= 2 || idx >= f.Signature.Results().Len() || (!tuple && f.Signature.Results().Len() != 1) {
		return nil, false
	}
	var ret *ssa.Return
	for _, b := range f.Blocks {
		if r, ok := b.Instrs[len(b.Instrs)-1].(*ssa.Return); ok {
			if ret != nil {
				return nil, false
			}
			ret = r
		}
	}
	if ret == nil {
		return nil, false
	}
	return c.wireRead(z, ret.Results[idx], codec.ChildFrame(call, f, fr), depth+1)
}

// wireIntAt: v is an N-byte integer read at constant offset off of buf in the given order.
func (c *c08) wireIntAt(z *codec.Sym, v ssa.Value, fr *codec.Frame, buf ssa.Value, off int64, width int, order string) (bool, string) {
	is, why, _ := c.wireIntAt3(z, v, fr, buf, off, width, order)
	return is, why
}

// wireIntAt3 also says whether a mismatch was positively observed (the value
// IS a wire read, of other bytes / another width / the other order — or a
// combination of wire reads and constants) as opposed to not resolved.
func (c *c08) wireIntAt3(z *codec.Sym, v ssa.Value, fr *codec.Frame, buf ssa.Value, off int64, width int, order string) (is bool, why string, observed bool) {
	rd, ok := c.wireRead(z, v, fr, 0)
	if !ok {
		// an expression over wire reads and constants is observed, anything else is not
		f := z.OfIn(v, fr)
		observed = true
		for _, t := range f.Terms() {
			tv, isLen := z.TermValue(t)
			if isLen {
				observed = false
				break
			}
			if _, isRd := c.wireRead(z, tv, z.TermFrame(t), 0); !isRd {
				observed = false
				break
			}
		}
		if observed {
			return false, "is " + z.String(f) + ", not one integer read with encoding/binary from the message", true
		}
		return false, "is not read with encoding/binary from the message", false
	}
	lo, isK := c08FormConst(rd.lo)
	if !isK || rd.root != buf || rd.rootFr != nil {
		return false, "is not read at a constant offset of the message buffer", false
	}
	observed = true
	if lo != off || rd.width != width {
		return false, fmt.Sprintf("is read as %d bytes at offset %d (MS-NLMP: %d bytes at %d)", rd.width, lo, width, off), true
	}
	if rd.order != order {
		return false, fmt.Sprintf("is read %s (must be %s)", rd.order, order), true
	}
	return true, "", true
}

func (c *c08) parseChallenge(sig *ssa.Global) {
	name := c08NTLM + ".ParseChallengeMessage"
	fn := c.P.Func(c08NTLM, "", "ParseChallengeMessage")
	if fn == nil || fn.Blocks == nil || len(fn.Params) == 0 {
		c.R.Undecided("R4.challenge-field", name, "-", "anchor function not found")
		return
	}
	c.entity(map[string]int{"R4.challenge-field": 8, "R4.challenge-check": 2, "R4.challenge-desc": 2}, func() {
		c.guard("R4.challenge-field", name, c.pos(fn.Pos()), func() { c.parseChallenge1(fn, name, sig) })
	})
}

func (c *c08) parseChallenge1(fn *ssa.Function, name string, sig *ssa.Global) {
	r := c.R
	data := fn.Params[0]
	// the struct being filled: the allocation returned on success
	var root *ssa.Alloc
	var okRets []*ssa.Return
	for _, b := range fn.Blocks {
		ret, ok := b.Instrs[len(b.Instrs)-1].(*ssa.Return)
		if !ok || len(ret.Results) != 2 {
			continue
		}
		if k, isK := ret.Results[0].(*ssa.Const); isK && k.Value == nil {
			continue
		}
		al, ok := ret.Results[0].(*ssa.Alloc)
		if !ok || (root != nil && al != root) {
			c.notDecided("R4.challenge-field", name, c.ipos(ret), "the success return does not return one locally allocated ChallengeMessage (the struct is built elsewhere)")
			return
		}
		root = al
		okRets = append(okRets, ret)
	}
	if root == nil {
		c.notDecided("R4.challenge-field", name, c.pos(fn.Pos()), "no return of a locally allocated ChallengeMessage with a nil error found")
		return
	}
	e := codec.NewExt(c.w, fn)
	e.Roots[root] = ""
	atoms := e.Decoded()
	r.Extra["layout ParseChallengeMessage"] = codec.Render(atoms)
	byField := map[string][]codec.Atom{}
	for _, a := range atoms {
		byField[a.Field] = append(byField[a.Field], a)
	}
	type fspec struct {
		field string
		off   int64
		width int
		kind  string // fixed | bytes | nested | desc
		cond  bool   // may be conditional
	}
	spec := []fspec{
		{"Signature", 0, 8, "bytes", false},
		{"MessageType", 8, 4, "fixed", false},
		{"TargetName", 12, 0, "desc", true},
		{"NegotiateFlags", 20, 4, "fixed", false},
		{"ServerChallenge", 24, 8, "bytes", false},
		{"Reserved", 32, 8, "bytes", false},
		{"TargetInfo", 40, 0, "desc", true},
		{"Version", 48, 8, "nested", true},
	}
	unmarshal := c.P.Func(c08Version, "Version", "Unmarshal")
	// where the struct being filled is handed to code that is not followed
	rootFlows := c.flowsOut(root, c08FlowOpts{ignore: func(f *ssa.Function) bool { return f == unmarshal }})
	for _, s := range spec {
		construct := name + ": " + s.field
		as := byField[s.field]
		if len(as) == 0 && s.kind == "bytes" {
			// root.F = [N]byte(data[a:b]) (slice-to-array conversion) instead of copy(root.F[:], data[a:b])
			if off, w, pos, ok := c.arrayFromWindow(fn, root, data, s.field); ok {
				if off != s.off || w != int64(s.width) {
					r.Fail("R4.challenge-field", construct, c.pos(pos), fmt.Sprintf("%s is converted from bytes %d..%d; MS-NLMP: %d bytes at %d", s.field, off, off+w, s.width, s.off))
				} else {
					r.OK("R4.challenge-field", construct, c.pos(pos), fmt.Sprintf("%s:[%d]byte(data[%d:%d])", s.field, w, off, off+w))
				}
				continue
			}
		}
		if len(as) != 1 {
			// Complete only if every write of the struct was seen: the struct does not
			// leave the function before it is returned and the field is stored nowhere.
			why := rootFlows
			if why == "" && c.fieldStored(fn, root, s.field) {
				why = "the field is assigned a value that the decoder extraction does not trace to the message"
			}
			if len(as) > 1 {
				why = fmt.Sprintf("the field is filled from the message on %d alternative paths", len(as))
			}
			if why != "" {
				c.notDecided("R4.challenge-field", construct, c.pos(fn.Pos()), fmt.Sprintf("field %s: %s (decoder layout seen: %s)", s.field, why, codec.Render(atoms)))
				if s.kind == "desc" {
					c.notDecided("R4.challenge-desc", name+": "+s.field+" descriptor", c.pos(fn.Pos()), "the field's assignment was not traced (see R4.challenge-field)")
				}
				continue
			}
			r.Fail("R4.challenge-field", construct, c.pos(fn.Pos()), fmt.Sprintf("field %s is never assigned (the struct does not leave the function before it is returned); decoder layout: %s", s.field, codec.Render(atoms)))
			continue
		}
		a := as[0]
		if a.Stream != data.Name() {
			c.notDecided("R4.challenge-field", construct, c.pos(a.Pos), "the field is read from "+a.Stream+", whose relation to the message buffer is not followed")
			if s.kind == "desc" {
				c.notDecided("R4.challenge-desc", name+": "+s.field+" descriptor", c.pos(a.Pos), "the field's source was not traced (see R4.challenge-field)")
			}
			continue
		}
		if a.Cond && !s.cond {
			r.Fail("R4.challenge-field", construct, c.pos(a.Pos), "the field is only filled under a data-dependent condition")
			continue
		}
		if s.kind == "desc" {
			c.challengeDesc(fn, name, root, data, s.field, s.off)
			r.OK("R4.challenge-field", construct, c.pos(a.Pos), fmt.Sprintf("payload designated by the descriptor at %d (see R4.challenge-desc)", s.off))
			continue
		}
		off := int64(-1)
		if a.OffForm != nil {
			off, _ = c08FormConst(*a.OffForm)
		}
		bad := ""
		switch {
		case off != s.off:
			bad = fmt.Sprintf("is read at offset %s; MS-NLMP places it at %d", a.Off, s.off)
		case s.kind == "nested":
			if a.Kind != "nested" || a.Callee == nil || a.Callee != unmarshal || a.Window != s.width {
				bad = fmt.Sprintf("is not decoded by version.Version.Unmarshal from an %d-byte window (%s)", s.width, a.String())
			}
		case a.Kind != s.kind || a.Width != s.width:
			bad = fmt.Sprintf("is read as %s; MS-NLMP: %d bytes at %d", a.String(), s.width, s.off)
		case s.kind == "fixed" && a.Order != "LE":
			bad = "is read " + a.Order + "; every NTLMSSP integer is little-endian"
		}
		if bad != "" {
			r.Fail("R4.challenge-field", construct, c.pos(a.Pos), s.field+" "+bad)
		} else {
			r.OK("R4.challenge-field", construct, c.pos(a.Pos), a.String())
		}
	}

	// challenge-check: the signature and the message type are enforced
	dominatesSuccess := func(pass *ssa.BasicBlock, from *ssa.BasicBlock) bool {
		if len(pass.Preds) != 1 || pass.Preds[0] != from {
			return false
		}
		for _, ret := range okRets {
			if !pass.Dominates(ret.Block()) {
				return false
			}
		}
		return true
	}
	{
		construct := name + ": signature check"
		ok, why := false, "no comparison of data[0:8] with NTLM_SIGNATURE guards the success path"
		for _, b := range fn.Blocks {
			iff, isIf := b.Instrs[len(b.Instrs)-1].(*ssa.If)
			if !isIf {
				continue
			}
			cond, neg := iff.Cond, false
			if u, isU := cond.(*ssa.UnOp); isU && u.Op == token.NOT {
				cond, neg = u.X, true
			}
			// bytes.Equal(data[0:8], SIG), bytes.HasPrefix(data[0:…], SIG), or
			// string(data[0:8]) ==/!= string(SIG) / "NTLMSSP\x00"
			var a0, a1 ssa.Value
			prefix := false
			if call, f := c08StaticCall(cond); call != nil && f != nil && (f.String() == "bytes.Equal" || f.String() == "bytes.HasPrefix") {
				a0, a1 = call.Common().Args[0], call.Common().Args[1]
				prefix = f.String() == "bytes.HasPrefix"
			} else if cmp, isB := cond.(*ssa.BinOp); isB && (cmp.Op == token.EQL || cmp.Op == token.NEQ) && c08IsString(cmp.X.Type()) {
				a0, a1 = c08UnString(cmp.X), c08UnString(cmp.Y)
				if cmp.Op == token.NEQ {
					neg = !neg
				}
			} else {
				continue
			}
			isSig := func(v ssa.Value) bool {
				if c08IsSigGlobal(v, sig) {
					return true
				}
				k, isK := v.(*ssa.Const)
				return isK && k.Value != nil && k.Value.Kind() == constant.String && constant.StringVal(k.Value) == string(c08Signature)
			}
			if a0 == nil || a1 == nil {
				continue
			}
			if isSig(a0) && !prefix {
				a0, a1 = a1, a0
			}
			if !isSig(a1) {
				continue
			}
			root, rfr, lo, hi, open := c08Window(codec.NewSym(), a0, nil)
			if root != ssa.Value(data) || rfr != nil {
				continue
			}
			loV, okLo := c08FormConst(lo)
			hiV, okHi := c08FormConst(hi)
			covers := okLo && loV == 0 && ((okHi && !open && hiV == 8) || (prefix && (open || (okHi && hiV >= 8))))
			if !covers {
				why = "the signature comparison does not cover bytes 0..8"
				continue
			}
			pass := b.Succs[0]
			if neg {
				pass = b.Succs[1]
			}
			if dominatesSuccess(pass, b) {
				ok = true
			} else {
				why = "the signature comparison does not guard every success return"
			}
		}
		if ok {
			r.OK("R4.challenge-check", construct, c.pos(fn.Pos()), "bytes.Equal(data[0:8], NTLM_SIGNATURE) must hold on every success path")
		} else if esc := c.flowsOut(data, c08FlowOpts{validators: true, ignore: func(f *ssa.Function) bool { return f == unmarshal }}); esc != "" {
			c.notDecided("R4.challenge-check", construct, c.pos(fn.Pos()), why+" in the parser itself, but "+esc+", which may perform it")
		} else {
			r.Fail("R4.challenge-check", construct, c.pos(fn.Pos()), why)
		}
	}
	{
		construct := name + ": message type check"
		want, okc := c08PkgConst(c.P, c08NTLM, "NTLM_CHALLENGE")
		ok, why := false, "no comparison of the MessageType at offset 8 with NTLM_CHALLENGE guards the success path"
		if !okc || want.Int64() != 2 {
			why = "constant NTLM_CHALLENGE is not 2"
		} else {
			for _, b := range fn.Blocks {
				iff, isIf := b.Instrs[len(b.Instrs)-1].(*ssa.If)
				if !isIf {
					continue
				}
				cmp, isB := iff.Cond.(*ssa.BinOp)
				if !isB || (cmp.Op != token.EQL && cmp.Op != token.NEQ) {
					continue
				}
				x, k := cmp.X, cmp.Y
				if _, isK := c08ConstInt(x); isK {
					x, k = k, x
				}
				kv, isK := c08ConstInt(k)
				if !isK {
					continue
				}
				if is, _ := c.wireIntAt(codec.NewSym(), x, nil, data, 8, 4, "LE"); !is {
					continue
				}
				if kv.Cmp(want) != 0 {
					why = fmt.Sprintf("MessageType is compared with %s, not NTLM_CHALLENGE = 2", kv)
					continue
				}
				pass := b.Succs[0]
				if cmp.Op == token.NEQ {
					pass = b.Succs[1]
				}
				if dominatesSuccess(pass, b) {
					ok = true
				} else {
					why = "the message type comparison does not guard every success return"
				}
			}
		}
		if ok {
			r.OK("R4.challenge-check", construct, c.pos(fn.Pos()), "LE32 at 8 must equal NTLM_CHALLENGE (2) on every success path")
		} else if esc := c.flowsOut(data, c08FlowOpts{validators: true, lengths: true, ignore: func(f *ssa.Function) bool { return f == unmarshal }}); esc != "" && okc && want.Int64() == 2 {
			c.notDecided("R4.challenge-check", construct, c.pos(fn.Pos()), why+" in the parser itself, but "+esc+", which may perform it")
		} else {
			r.Fail("R4.challenge-check", construct, c.pos(fn.Pos()), why)
		}
	}
}

// c08UnString: string(b) → b; a constant string stays itself.
func c08UnString(v ssa.Value) ssa.Value {
	if cv, ok := v.(*ssa.Convert); ok {
		if _, isSl := cv.X.Type().Underlying().(*types.Slice); isSl {
			return cv.X
		}
	}
	if k, ok := v.(*ssa.Const); ok {
		return k
	}
	return nil
}

// arrayFromWindow: the only store to root.<field> (an array field) is
// *(*[N]byte)(data[a:b]) — Go's slice-to-array conversion — executed on every
// path to the success returns; returns the window.
func (c *c08) arrayFromWindow(fn *ssa.Function, root *ssa.Alloc, data *ssa.Parameter, field string) (off, width int64, pos token.Pos, ok bool) {
	var stores []*ssa.Store
	for _, b := range fn.Blocks {
		for _, in := range b.Instrs {
			st, isSt := in.(*ssa.Store)
			if !isSt {
				continue
			}
			fa, isFa := st.Addr.(*ssa.FieldAddr)
			if !isFa || fa.X != ssa.Value(root) {
				continue
			}
			if t, _ := c08Deref(fa.X.Type()).Underlying().(*types.Struct); t != nil && t.Field(fa.Field).Name() == field {
				stores = append(stores, st)
			}
		}
	}
	if len(stores) != 1 {
		return 0, 0, 0, false
	}
	st := stores[0]
	ld, isLd := st.Val.(*ssa.UnOp)
	if !isLd || ld.Op != token.MUL {
		return 0, 0, 0, false
	}
	cv, isCv := ld.X.(*ssa.SliceToArrayPointer)
	if !isCv {
		return 0, 0, 0, false
	}
	arr, isArr := c08Deref(cv.Type()).Underlying().(*types.Array)
	if !isArr {
		return 0, 0, 0, false
	}
	rootV, rfr, lo, hi, open := c08Window(codec.NewSym(), cv.X, nil)
	loK, ok1 := c08FormConst(lo)
	hiK, ok2 := c08FormConst(hi)
	if rootV != ssa.Value(data) || rfr != nil || !ok1 || (!open && (!ok2 || hiK-loK != arr.Len())) {
		return 0, 0, 0, false
	}
	// unconditional: the store's block dominates every success return
	for _, b := range fn.Blocks {
		ret, isRet := b.Instrs[len(b.Instrs)-1].(*ssa.Return)
		if !isRet || len(ret.Results) != 2 {
			continue
		}
		if k, isK := ret.Results[0].(*ssa.Const); isK && k.Value == nil {
			continue
		}
		if !st.Block().Dominates(b) {
			return 0, 0, 0, false
		}
	}
	return loK, arr.Len(), st.Pos(), true
}

func c08IsSigGlobal(v ssa.Value, sig *ssa.Global) bool {
	u, ok := v.(*ssa.UnOp)
	return ok && sig != nil && u.Op == token.MUL && u.X == ssa.Value(sig)
}

// challengeDesc: root.<field> = data[Offset : Offset+Len] with Len 2LE at off,
// Offset 4LE at off+4, in bounds by E1.
func (c *c08) challengeDesc(fn *ssa.Function, name string, root *ssa.Alloc, data *ssa.Parameter, field string, off int64) {
	r := c.R
	construct := name + ": " + field + " descriptor"
	var stores []*ssa.Store
	for _, b := range fn.Blocks {
		for _, in := range b.Instrs {
			st, ok := in.(*ssa.Store)
			if !ok {
				continue
			}
			fa, ok := st.Addr.(*ssa.FieldAddr)
			if !ok || fa.X != ssa.Value(root) {
				continue
			}
			s, _ := c08Deref(fa.X.Type()).Underlying().(*types.Struct)
			if s != nil && s.Field(fa.Field).Name() == field {
				stores = append(stores, st)
			}
		}
	}
	if len(stores) != 1 {
		c.notDecided("R4.challenge-desc", construct, c.pos(fn.Pos()), fmt.Sprintf("%d stores to the field; the payload is read off exactly one", len(stores)))
		return
	}
	// what is stored: data[lo:hi] itself, or the result of an in-module helper
	// (up to two levels) every non-nil return of which is such a slice of the
	// helper's view of data
	type leaf struct {
		sl *ssa.Slice
		fr *codec.Frame
	}
	var leaves []leaf
	var collect func(v ssa.Value, fr *codec.Frame, depth int) string
	collect = func(v ssa.Value, fr *codec.Frame, depth int) string {
		v, fr = codec.Resolve(v, fr)
		switch x := v.(type) {
		case *ssa.Const:
			if x.Value == nil {
				return "" // the field keeps its zero value
			}
		case *ssa.Phi:
			for _, p := range x.Block().Preds {
				if x.Block().Dominates(p) {
					return "the payload is computed in a loop"
				}
			}
			for _, e := range x.Edges {
				if why := collect(e, fr, depth); why != "" {
					return why
				}
			}
			return ""
		case *ssa.Slice:
			leaves = append(leaves, leaf{x, fr})
			return ""
		case *ssa.Call:
			f := x.Common().StaticCallee()
			if f == nil || f.Blocks == nil || !c.P.InModule(f) || f.Signature.Results().Len() != 1 {
				break
			}
			if depth >= 2 {
				return "the payload is produced through more than two levels of helpers"
			}
			fr2 := codec.ChildFrame(x, f, fr)
			n := 0
			for _, b := range f.Blocks {
				if ret, ok := b.Instrs[len(b.Instrs)-1].(*ssa.Return); ok {
					n++
					if why := collect(ret.Results[0], fr2, depth+1); why != "" {
						return why
					}
				}
			}
			if n == 0 {
				return "helper " + f.Name() + " never returns"
			}
			return ""
		}
		return "the field is not assigned data[lo:hi]"
	}
	if why := collect(stores[0].Val, nil, 0); why != "" {
		c.notDecided("R4.challenge-desc", construct, c.ipos(stores[0]), why)
		return
	}
	if len(leaves) == 0 {
		r.Fail("R4.challenge-desc", construct, c.ipos(stores[0]), "no slice of the message is ever stored into the field")
		return
	}
	for _, lf := range leaves {
		sl, fr := lf.sl, lf.fr
		if root, rfr := codec.Resolve(sl.X, fr); root != ssa.Value(data) || rfr != nil || sl.Low == nil || sl.High == nil || sl.Max != nil {
			c.notDecided("R4.challenge-desc", construct, c.ipos(sl), "the field is assigned a slice that is not data[lo:hi] of the message buffer itself")
			return
		}
		z := codec.NewSym()
		if is, why, observed := c.wireIntAt3(z, sl.Low, fr, data, off+4, 4, "LE"); !is {
			msg := "the lower bound of the payload slice " + why + fmt.Sprintf(" — it must be the descriptor's BufferOffset (4LE at %d)", off+4)
			if observed {
				r.Fail("R4.challenge-desc", construct, c.ipos(sl), msg)
			} else {
				c.notDecided("R4.challenge-desc", construct, c.ipos(sl), msg+": "+z.String(z.OfIn(sl.Low, fr))+" was not resolved")
			}
			return
		}
		d := z.OfIn(sl.High, fr).Sub(z.OfIn(sl.Low, fr))
		ts := d.Terms()
		okLen := false
		why := "is not BufferOffset + Len: " + z.String(d)
		observed := true // every term of the width is a wire read
		for _, t := range ts {
			tv, isLen := z.TermValue(t)
			if isLen {
				observed = false
			} else if _, isRd := c.wireRead(z, tv, z.TermFrame(t), 0); !isRd {
				observed = false
			}
		}
		if len(ts) == 1 && d.C.Sign() == 0 && d.Coef[ts[0]].IsInt64() && d.Coef[ts[0]].Int64() == 1 {
			v, isLen := z.TermValue(ts[0])
			if !isLen {
				var w string
				okLen, w, observed = c.wireIntAt3(z, v, z.TermFrame(ts[0]), data, off, 2, "LE")
				if !okLen {
					why = "is BufferOffset plus a value that " + w + fmt.Sprintf(" — it must be the descriptor's Len (2LE at %d)", off)
				}
			}
		}
		if !okLen && !observed {
			c.notDecided("R4.challenge-desc", construct, c.ipos(sl), "the upper bound of the payload slice "+why+": not resolved to reads of the message")
			return
		}
		if !okLen {
			r.Fail("R4.challenge-desc", construct, c.ipos(sl), "the upper bound of the payload slice "+why)
			return
		}
		out := c.w.ProveBounds(sl)
		if !out.Proved {
			// the guard may live in code that was not read: the message or the
			// descriptor values are handed to a function or closure that can reject them
			esc := c.flowsOut(data, c08FlowOpts{validators: true, lengths: true, ignore: func(f *ssa.Function) bool { return f == c.P.Func(c08Version, "Version", "Unmarshal") }})
			if esc != "" {
				c.notDecided("R4.challenge-desc", construct, c.ipos(sl), "data[Offset:Offset+Len] is not proved in bounds from the guards read ("+out.Failed+"), but "+esc+", which may establish the bound")
				return
			}
			r.Add("R4.challenge-desc", construct, c.ipos(sl), report.Finding, "data[Offset:Offset+Len] is not proved in bounds from the dominating guard (the guard must test the very values that are sliced, without wrap): "+out.Failed, map[string]any{"facts": out.Facts})
			return
		}
	}
	via := ""
	if leaves[0].fr != nil {
		via = " (through helper " + leaves[0].fr.Callee.Name() + ", read at its call site)"
	}
	r.OK("R4.challenge-desc", construct, c.ipos(leaves[0].sl), fmt.Sprintf("data[LE32@%d : LE32@%d + LE16@%d], in bounds by E1%s", off+4, off+4, off, via))
}

// ---------------------------------------------------------------------------
// ParseTargetInfo

func (c *c08) parseTargetInfo() {
	name := c08NTLM + ".ParseTargetInfo"
	fn := c.P.Func(c08NTLM, "", "ParseTargetInfo")
	if fn == nil || fn.Blocks == nil || len(fn.Params) == 0 {
		c.R.Undecided("R4.avpair", name, "-", "anchor function not found")
		return
	}
	c.entity(map[string]int{"R4.avpair": 5}, func() {
		c.guard("R4.avpair", name, c.pos(fn.Pos()), func() { c.parseTargetInfo1(fn, name) })
	})
}

func (c *c08) parseTargetInfo1(fn *ssa.Function, name string) {
	r := c.R
	data := fn.Params[0]
	z := codec.NewSym()
	// the map update that records a pair
	var mus []*ssa.MapUpdate
	for _, b := range fn.Blocks {
		for _, in := range b.Instrs {
			if mu, ok := in.(*ssa.MapUpdate); ok {
				mus = append(mus, mu)
			}
		}
	}
	if len(mus) != 1 {
		c.notDecided("R4.avpair", name+": AvId", c.pos(fn.Pos()), fmt.Sprintf("%d map updates in the function itself; the walk is read off the one that records an AV pair", len(mus)))
		return
	}
	mu := mus[0]
	// the map must be what is returned
	for _, b := range fn.Blocks {
		if ret, ok := b.Instrs[len(b.Instrs)-1].(*ssa.Return); ok && len(ret.Results) == 2 {
			if k, isK := ret.Results[0].(*ssa.Const); isK && k.Value == nil {
				continue
			}
			if ret.Results[0] != mu.Map {
				c.notDecided("R4.avpair", name+": AvId", c.ipos(ret), "the map returned is not the one the pairs are stored in")
				return
			}
		}
	}
	// The walk keeps a position in the target info: an integer offset
	// (targetInfo[offset:…]) or the not-yet-consumed tail (rest = rest[n:]).
	// Either way a window is bytes [lo, hi) of targetInfo with lo, hi linear in
	// the position P at the start of the iteration.
	var phi *ssa.Phi // the loop-carried position
	var P lin.Form   // its value at the start of an iteration, as an offset into targetInfo
	symWindow := func(v ssa.Value) (lo, hi lin.Form, open, ok bool) {
		root, rfr, lo, hi, open := c08Window(z, v, nil)
		if rfr != nil {
			return lo, hi, open, false
		}
		if root == ssa.Value(data) {
			return lo, hi, open, true
		}
		if p, isP := root.(*ssa.Phi); isP && phi != nil && p == phi {
			if open {
				return P.Add(lo), hi, true, true
			}
			return P.Add(lo), P.Add(hi), false, true
		}
		return lo, hi, open, false
	}
	// AvId
	idCall, idWin, idW, idOrder, ok := c08Get(mu.Key)
	if !ok {
		c.notDecided("R4.avpair", name+": AvId", c.ipos(mu), "the key under which a value is stored, "+mu.Key.Name()+", is not directly an integer read with encoding/binary; its origin is not followed")
		return
	}
	{
		root, rfr, lo, _, _ := c08Window(z, idWin, nil)
		switch {
		case rfr != nil:
		case root == ssa.Value(data):
			// integer position: the window starts at a loop-carried offset
			if ts := lo.Terms(); len(ts) == 1 && lo.C.Sign() == 0 && lo.Coef[ts[0]].IsInt64() && lo.Coef[ts[0]].Int64() == 1 {
				v, isLen := z.TermValue(ts[0])
				if p, isP := v.(*ssa.Phi); isP && !isLen {
					phi, P = p, lin.V(ts[0])
				}
			}
		default:
			// slice position: the window is cut from the loop-carried tail
			if p, isP := root.(*ssa.Phi); isP {
				if _, isSl := p.Type().Underlying().(*types.Slice); isSl {
					phi, P = p, z.Fresh("pos")
				}
			}
		}
	}
	if phi == nil {
		c.notDecided("R4.avpair", name+": AvId", c.ipos(idCall), "AvId is not read at a loop-carried offset or from a loop-carried tail of the target info; the walk has another shape")
		return
	}
	_, tail := phi.Type().Underlying().(*types.Slice)
	hb := phi.Block()
	var backs, entries []int
	for i, p := range hb.Preds {
		if hb.Dominates(p) {
			backs = append(backs, i)
		} else {
			entries = append(entries, i)
		}
	}
	if len(backs) == 0 || len(entries) != 1 {
		c.notDecided("R4.avpair", name+": AvId", c.ipos(idCall), "the running offset is not a loop-carried variable of a loop with one entry")
		return
	}
	if tail {
		root, rfr, lo, _, open := c08Window(z, phi.Edges[entries[0]], nil)
		k, isK := c08FormConst(lo)
		if root != ssa.Value(data) || rfr != nil || !isK {
			c.notDecided("R4.avpair", name+": AvId", c.ipos(phi), "the tail the walk starts with is not resolved to a window of the target info")
			return
		}
		if k != 0 || !open {
			r.Fail("R4.avpair", name+": AvId", c.ipos(phi), "the walk does not start with the whole target info (offset 0 to its end)")
			return
		}
	} else if k, isK := c08ConstInt(phi.Edges[entries[0]]); !isK {
		c.notDecided("R4.avpair", name+": AvId", c.ipos(phi), "the offset the walk starts at is not a constant")
		return
	} else if k.Sign() != 0 {
		r.Fail("R4.avpair", name+": AvId", c.ipos(phi), "the walk does not start at offset 0 of the target info")
		return
	}
	idLo, _, _, okW := symWindow(idWin)
	if !okW {
		c.notDecided("R4.avpair", name+": AvId", c.ipos(idCall), "the window AvId is read from is not resolved to an offset of the target info")
	} else if idW != 2 || idOrder != "LE" || !idLo.Equal(P) {
		r.Fail("R4.avpair", name+": AvId", c.ipos(idCall), fmt.Sprintf("AvId is read as %d bytes %s from offset %s; MS-NLMP AV_PAIR: AvId 2 bytes little-endian at +0", idW, idOrder, z.String(idLo)))
	} else {
		r.OK("R4.avpair", name+": AvId", c.ipos(idCall), "2LE at offset+0")
	}
	// value and AvLen
	vLo, vHi, vOpen, ok := symWindow(mu.Value)
	if !ok || vOpen {
		c.notDecided("R4.avpair", name+": value", c.ipos(mu), "the value stored is not resolved to a bounded window of the target info")
		return
	}
	d := vHi.Sub(vLo)
	var lenCall *ssa.Call
	var lenTerm lin.Form
	if ts := d.Terms(); len(ts) == 1 && d.C.Sign() == 0 && d.Coef[ts[0]].IsInt64() && d.Coef[ts[0]].Int64() == 1 {
		v, isLen := z.TermValue(ts[0])
		if !isLen {
			if call, win, w, order, ok := c08Get(v); ok {
				lo, _, _, ok2 := symWindow(win)
				switch {
				case !ok2:
				case w != 2 || order != "LE" || !lo.Equal(P.AddK(2)):
					r.Fail("R4.avpair", name+": AvLen", c.ipos(call), fmt.Sprintf("AvLen is read as %d bytes %s from offset %s; MS-NLMP AV_PAIR: AvLen 2 bytes little-endian at +2", w, order, z.String(lo)))
					return
				default:
					lenCall, lenTerm = call, lin.V(ts[0])
				}
			}
		}
	}
	if lenCall == nil {
		if _, isK := d.ConstVal(); isK {
			r.Fail("R4.avpair", name+": AvLen", c.ipos(mu), "the width of the stored value, "+z.String(d)+", is not an AvLen read from the pair header")
		} else {
			c.notDecided("R4.avpair", name+": AvLen", c.ipos(mu), "the width of the stored value, "+z.String(d)+", is not resolved to an integer read from the pair header")
		}
		return
	}
	r.OK("R4.avpair", name+": AvLen", c.ipos(lenCall), "2LE at offset+2")
	if !vLo.Equal(P.AddK(4)) {
		r.Fail("R4.avpair", name+": value", c.ipos(mu), fmt.Sprintf("the value is taken from [%s:%s]; it occupies AvLen bytes from offset+4", z.String(vLo), z.String(vHi)))
	} else {
		r.OK("R4.avpair", name+": value", c.ipos(mu), "result[AvId] = targetInfo[offset+4 : offset+4+AvLen]")
	}
	// advance
	{
		bad, nd := "", ""
		for _, i := range backs {
			nf := z.Of(phi.Edges[i])
			if tail {
				lo, _, open, ok := symWindow(phi.Edges[i])
				if !ok {
					nd = "the tail kept for the next pair is not resolved to a window of the target info"
					continue
				}
				if !open {
					bad = "the tail kept for the next pair is not the rest of the target info up to its end"
					continue
				}
				nf = lo
			}
			if !nf.Equal(P.AddK(4).Add(lenTerm)) {
				// observed only if the new position is a form over the old one and AvLen
				extra := false
				for _, t := range nf.Terms() {
					if _, inP := P.Coef[t]; inP {
						continue
					}
					if _, inL := lenTerm.Coef[t]; inL {
						continue
					}
					extra = true
				}
				if extra {
					nd = fmt.Sprintf("the next pair is sought at %s, which is not resolved to offset and AvLen", z.String(nf))
				} else {
					bad = fmt.Sprintf("the next pair is sought at %s; it starts at offset + 4 + AvLen", z.String(nf))
				}
			}
		}
		if bad != "" {
			r.Fail("R4.avpair", name+": advance", c.ipos(phi), bad)
		} else if nd != "" {
			c.notDecided("R4.avpair", name+": advance", c.ipos(phi), nd)
		} else {
			r.OK("R4.avpair", name+": advance", c.ipos(phi), "offset' = offset + 4 + AvLen on every back edge")
		}
	}
	// stop at MsvAvEOL
	{
		construct := name + ": MsvAvEOL"
		eol, okc := c08PkgConst(c.P, c08NTLM, "MsvAvEOL")
		if !okc || eol.Sign() != 0 {
			r.Fail("R4.avpair", construct, c.pos(fn.Pos()), "constant MsvAvEOL is not 0x0000")
			return
		}
		// blocks entered only when AvId != EOL
		var cont []*ssa.BasicBlock
		edge := map[[2]*ssa.BasicBlock]bool{}
		for _, b := range fn.Blocks {
			iff, isIf := b.Instrs[len(b.Instrs)-1].(*ssa.If)
			if !isIf {
				continue
			}
			cmp, isB := iff.Cond.(*ssa.BinOp)
			if !isB || (cmp.Op != token.EQL && cmp.Op != token.NEQ) {
				continue
			}
			x, k := cmp.X, cmp.Y
			if _, isK := c08ConstInt(x); isK {
				x, k = k, x
			}
			kv, isK := c08ConstInt(k)
			if !isK || kv.Cmp(eol) != 0 || c08Strip(x) != ssa.Value(idCall) {
				continue
			}
			ne := b.Succs[0]
			if cmp.Op == token.EQL {
				ne = b.Succs[1]
			}
			edge[[2]*ssa.BasicBlock{b, ne}] = true
			if len(ne.Preds) == 1 {
				cont = append(cont, ne)
			}
		}
		ok := true
		for _, i := range backs {
			p := hb.Preds[i]
			good := edge[[2]*ssa.BasicBlock{p, hb}]
			for _, cb := range cont {
				if cb == p || cb.Dominates(p) {
					good = true
				}
			}
			if !good {
				ok = false
			}
		}
		if ok {
			r.OK("R4.avpair", construct, c.ipos(phi), "the loop continues only on AvId != MsvAvEOL")
		} else if esc := c.flowsOut(idCall, c08FlowOpts{validators: true, lengths: true}); esc != "" {
			c.notDecided("R4.avpair", construct, c.ipos(phi), "no comparison of AvId with MsvAvEOL ends the walk in the loop itself, but "+esc+", which may decide it")
		} else {
			r.Fail("R4.avpair", construct, c.ipos(phi), "the walk can continue past a pair whose AvId is MsvAvEOL (the list terminator)")
		}
	}
}
