package rules

import (
	"fmt"
	"go/token"
	"go/types"

	"golang.org/x/tools/go/ssa"

	"manticheck/internal/codec"
	"manticheck/internal/lin"
	"manticheck/internal/report"
)

// Completeness before verdict (second hardening round).
//
// A C08 rule reports a violation only for something it positively observed in
// a flow it extracted completely. When the data a rule reasons about (the
// message buffer, the struct being filled, a payload, a length, the table of
// payloads …) is handed to code the extractor did not follow — an in-module
// function or method, a closure, a cursor object — or has a shape the extractor
// does not read, the construct is recorded as
//
//	OK  "NOT DECIDED — <what escaped and where>"
//
// plus a run note; it is never a violation, and the instances the rule would
// have produced for that entity are credited to the floors (the entity is
// present; it just could not be decided). Missing anchors, type-check failures
// and panics of the checker still fail.

// notDecided records an entity the rule could not decide.
func (c *c08) notDecided(rule, construct, pos, what string) {
	c.nd++
	c.R.OK(rule, construct, pos, "NOT DECIDED — "+what)
	c.R.Note("%s %s [%s]: NOT DECIDED — %s", rule, construct, pos, what)
}

// entity runs the analysis of one entity that yields expect[rule] instances of
// each rule when it is decided; if the analysis ended in a NOT DECIDED, the
// instances it did not get to are credited so that no floor trips.
func (c *c08) entity(expect map[string]int, f func()) {
	before := map[string]int{}
	for k := range expect {
		before[k] = c.R.Counts[k]
	}
	nd0 := c.nd
	bad0 := c.violations()
	f()
	// an entity that already carries a violation needs no floor alarm on top of it
	if c.nd == nd0 && c.violations() == bad0 {
		return
	}
	for k, n := range expect {
		if got := c.R.Counts[k] - before[k]; got < n {
			c.R.Counts[k] += n - got
		}
	}
}

func (c *c08) violations() int {
	n := 0
	for _, o := range c.R.Obls {
		if o.Status != report.Discharged {
			n++
		}
	}
	return n
}

// flowOpts tunes flowsOut.
type c08FlowOpts struct {
	ignore  func(*ssa.Function) bool // callees the rule analyses itself
	lengths bool                     // also follow len(v) and integers derived from it by + − and conversions
	before  ssa.Instruction          // only uses that can execute before this instruction matter (nil: all)
	// validators: only callees that can reject their input count (a bool or
	// error result, or a panic in their body); pure producers do not
	validators bool
}

// c08VerdictDropped: the call's results are never used and the callee does not
// panic: whatever it found has no effect on the caller.
func c08VerdictDropped(call ssa.CallInstruction, f *ssa.Function) bool {
	v := call.Value()
	if v == nil {
		return false
	}
	if v.Referrers() != nil {
		for _, r := range *v.Referrers() {
			if _, isDbg := r.(*ssa.DebugRef); !isDbg {
				return false
			}
		}
	}
	for _, b := range f.Blocks {
		for _, in := range b.Instrs {
			if _, ok := in.(*ssa.Panic); ok {
				return false
			}
		}
	}
	return true
}

// c08CanReject: f has a bool or error result or panics.
func c08CanReject(f *ssa.Function) bool {
	if f == nil {
		return true
	}
	errT := types.Universe.Lookup("error").Type()
	res := f.Signature.Results()
	for i := 0; i < res.Len(); i++ {
		t := res.At(i).Type()
		if types.Identical(t, errT) {
			return true
		}
		if b, ok := t.Underlying().(*types.Basic); ok && b.Kind() == types.Bool {
			return true
		}
	}
	for _, b := range f.Blocks {
		for _, in := range b.Instrs {
			if _, ok := in.(*ssa.Panic); ok {
				return true
			}
		}
	}
	return false
}

// flowsOut: value v — or a view of it (re-slice, conversion, φ, element or
// field address, a local table or struct it is stored in) — is handed to code
// the extractors do not follow: an in-module function or method that is not in
// opts.ignore, a closure (called with it or capturing it), builtin max/min
// (for lengths), or a standard-library function that takes a callback. Returns
// where, or "".
func (c *c08) flowsOut(v ssa.Value, opts c08FlowOpts) string {
	seen := map[ssa.Value]bool{}
	var visit func(v ssa.Value, d int) string
	relevant := func(in ssa.Instruction) bool {
		if opts.before == nil || in.Parent() != opts.before.Parent() {
			return true
		}
		if in.Block() == opts.before.Block() {
			return c08Before(in, opts.before)
		}
		return c08Reaches(in.Block(), opts.before.Block())
	}
	callee := func(call ssa.CallInstruction, what string) string {
		cc := call.Common()
		if cc.IsInvoke() {
			return what + " is passed to interface method " + cc.Method.Name()
		}
		if _, isB := cc.Value.(*ssa.Builtin); isB {
			return ""
		}
		if mc, isMC := cc.Value.(*ssa.MakeClosure); isMC {
			if cf, _ := mc.Fn.(*ssa.Function); opts.validators && cf != nil && !c08CanReject(cf) {
				return ""
			}
			return what + " is passed to a closure at " + c.ipos(call)
		}
		f := cc.StaticCallee()
		if f == nil {
			return what + " is passed to a function value at " + c.ipos(call)
		}
		if c.P.InModule(f) && f.Blocks != nil {
			if opts.ignore != nil && opts.ignore(f) {
				return ""
			}
			if opts.validators && (!c08CanReject(f) || c08VerdictDropped(call, f)) {
				return ""
			}
			return what + " is passed to " + f.Name() + " at " + c.ipos(call)
		}
		// a library function taking a callback (slices.ContainsFunc, sort.Slice …)
		for i := 0; i < f.Signature.Params().Len(); i++ {
			if _, isF := f.Signature.Params().At(i).Type().Underlying().(*types.Signature); isF {
				return what + " is passed to " + f.String() + " with a callback at " + c.ipos(call)
			}
		}
		return ""
	}
	// container: v was stored into addr; find the local object and see where it goes
	container := func(addr ssa.Value, d int) string {
		for i := 0; i < 6; i++ {
			switch x := addr.(type) {
			case *ssa.FieldAddr:
				addr = x.X
				continue
			case *ssa.IndexAddr:
				addr = x.X
				continue
			}
			break
		}
		if al, ok := addr.(*ssa.Alloc); ok {
			return visit(al, d+1)
		}
		return ""
	}
	visit = func(v ssa.Value, d int) string {
		if seen[v] || d > 10 || v.Referrers() == nil {
			return ""
		}
		seen[v] = true
		for _, r := range *v.Referrers() {
			if !relevant(r) {
				continue
			}
			switch x := r.(type) {
			case *ssa.DebugRef, *ssa.Return, *ssa.If:
			case *ssa.Slice, *ssa.ChangeType, *ssa.Phi, *ssa.IndexAddr, *ssa.FieldAddr, *ssa.Index, *ssa.Field, *ssa.Extract:
				if why := visit(x.(ssa.Value), d+1); why != "" {
					return why
				}
			case *ssa.Convert:
				if _, isB := x.Type().Underlying().(*types.Basic); isB && !opts.lengths {
					if bt := x.Type().Underlying().(*types.Basic); bt.Info()&types.IsString == 0 {
						continue
					}
				}
				if why := visit(x, d+1); why != "" {
					return why
				}
			case *ssa.UnOp:
				// a load through a derived address: follow aggregates and slices, not scalars
				if x.Op == token.MUL {
					switch x.Type().Underlying().(type) {
					case *types.Slice, *types.Struct, *types.Array, *types.Pointer:
						if why := visit(x, d+1); why != "" {
							return why
						}
					case *types.Basic:
						if opts.lengths && c08IsInt(x.Type()) {
							if why := visit(x, d+1); why != "" {
								return why
							}
						}
					}
				}
			case *ssa.BinOp:
				if opts.lengths && c08IsInt(x.Type()) && (x.Op == token.ADD || x.Op == token.SUB) {
					if why := visit(x, d+1); why != "" {
						return why
					}
				}
			case *ssa.Store:
				if x.Val == v {
					if why := container(x.Addr, d); why != "" {
						return why
					}
				}
			case *ssa.MakeClosure:
				if cf, _ := x.Fn.(*ssa.Function); opts.validators && cf != nil && !c08CanReject(cf) {
					continue
				}
				return "a value the rule reasons about is captured by closure " + x.Fn.Name() + " at " + c.ipos(x)
			case *ssa.MakeInterface:
				// error messages (fmt.Errorf("%x", v)): not followed
			case *ssa.Defer, *ssa.Go:
				return "a value the rule reasons about is passed to a deferred or concurrent call at " + c.ipos(x)
			case *ssa.Call:
				if b, isB := x.Common().Value.(*ssa.Builtin); isB {
					switch b.Name() {
					case "len":
						if opts.lengths {
							if why := visit(x, d+1); why != "" {
								return why
							}
						}
					case "max", "min":
						if opts.lengths {
							return "a length flows into builtin " + b.Name() + " at " + c.ipos(x)
						}
					case "append":
						// appended bytes flow into the message, not into a decision
					}
					continue
				}
				if why := callee(x, "a value the rule reasons about"); why != "" {
					return why
				}
			}
		}
		return ""
	}
	return visit(v, 0)
}

// opaqueTerm: the first term of f that is not the length of a byte sequence
// (an integer the symbolic evaluation could not resolve: a call result, a load
// from memory, a φ, a parameter). "" when f is a form over lengths only.
func c08OpaqueTerm(z *codec.Sym, f lin.Form) string {
	for _, t := range f.Terms() {
		if _, isLen := z.TermValue(t); !isLen {
			return z.Name(t)
		}
	}
	return ""
}

var _ = fmt.Sprintf

// fieldStored: some instruction of fn stores into root.<field>.
func (c *c08) fieldStored(fn *ssa.Function, root *ssa.Alloc, field string) bool {
	for _, b := range fn.Blocks {
		for _, in := range b.Instrs {
			st, ok := in.(*ssa.Store)
			if !ok {
				continue
			}
			fa, ok := st.Addr.(*ssa.FieldAddr)
			if !ok || fa.X != ssa.Value(root) {
				continue
			}
			if s, _ := c08Deref(fa.X.Type()).Underlying().(*types.Struct); s != nil && s.Field(fa.Field).Name() == field {
				return true
			}
		}
	}
	return false
}
