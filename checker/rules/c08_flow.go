package rules

import (
	"go/constant"
	"go/token"
	"go/types"
	"math/big"

	"golang.org/x/tools/go/ssa"

	"manticheck/internal/codec"
	"manticheck/internal/load"
)

// ---------------------------------------------------------------------------
// Small SSA helpers shared by the C08 rules. Everything here is structural:
// values are followed along def-use edges, nothing is evaluated on inputs.

func c08Strip(v ssa.Value) ssa.Value {
	for {
		switch x := v.(type) {
		case *ssa.Convert:
			if c08IsInt(x.X.Type()) && c08IsInt(x.Type()) {
				v = x.X
				continue
			}
		case *ssa.ChangeType:
			v = x.X
			continue
		}
		return v
	}
}

func c08IsInt(t types.Type) bool {
	b, ok := t.Underlying().(*types.Basic)
	return ok && b.Info()&types.IsInteger != 0
}

func c08ConstInt(v ssa.Value) (*big.Int, bool) {
	k, ok := c08Strip(v).(*ssa.Const)
	if !ok || k.Value == nil || k.Value.Kind() != constant.Int {
		return nil, false
	}
	return new(big.Int).SetString(k.Value.ExactString(), 10)
}

// c08PkgConst returns the value of an integer constant declared in a module package.
func c08PkgConst(p *load.Program, rel, name string) (*big.Int, bool) {
	pk := p.Pkg(rel)
	if pk == nil {
		return nil, false
	}
	c, ok := pk.Types.Scope().Lookup(name).(*types.Const)
	if !ok || c.Val().Kind() != constant.Int {
		return nil, false
	}
	return new(big.Int).SetString(c.Val().ExactString(), 10)
}

func c08IsBuiltin(v ssa.Value, name string) (*ssa.Call, bool) {
	c, ok := v.(*ssa.Call)
	if !ok {
		return nil, false
	}
	b, ok := c.Common().Value.(*ssa.Builtin)
	if !ok || b.Name() != name {
		return nil, false
	}
	return c, true
}

func c08StaticCall(v ssa.Value) (*ssa.Call, *ssa.Function) {
	c, ok := v.(*ssa.Call)
	if !ok {
		return nil, nil
	}
	return c, c.Common().StaticCallee()
}

// ---------------------------------------------------------------------------
// c08BranchView: the CFG under an assumption about some branch conditions.

type c08BranchView struct {
	deadEdge map[[2]*ssa.BasicBlock]bool
	live     map[*ssa.BasicBlock]bool
	tests    int // number of If instructions the assumption decided
}

// c08NewBranchView assumes, for every If whose condition `test` recognises, the
// truth value test returns, and computes which blocks remain reachable.
func c08NewBranchView(fn *ssa.Function, test func(cond ssa.Value) (match, truth bool)) *c08BranchView {
	bv := &c08BranchView{deadEdge: map[[2]*ssa.BasicBlock]bool{}, live: map[*ssa.BasicBlock]bool{}}
	for _, b := range fn.Blocks {
		iff, ok := b.Instrs[len(b.Instrs)-1].(*ssa.If)
		if !ok || len(b.Succs) != 2 || b.Succs[0] == b.Succs[1] {
			continue
		}
		cond, neg := iff.Cond, false
		for {
			u, ok := cond.(*ssa.UnOp)
			if !ok || u.Op != token.NOT {
				break
			}
			cond, neg = u.X, !neg
		}
		m, truth := test(cond)
		if !m {
			continue
		}
		if neg {
			truth = !truth
		}
		bv.tests++
		if truth {
			bv.deadEdge[[2]*ssa.BasicBlock{b, b.Succs[1]}] = true
		} else {
			bv.deadEdge[[2]*ssa.BasicBlock{b, b.Succs[0]}] = true
		}
	}
	if len(fn.Blocks) > 0 {
		work := []*ssa.BasicBlock{fn.Blocks[0]}
		for len(work) > 0 {
			b := work[len(work)-1]
			work = work[:len(work)-1]
			if bv.live[b] {
				continue
			}
			bv.live[b] = true
			for _, s := range b.Succs {
				if !bv.deadEdge[[2]*ssa.BasicBlock{b, s}] {
					work = append(work, s)
				}
			}
		}
	}
	return bv
}

func (bv *c08BranchView) edgeLive(from, to *ssa.BasicBlock) bool {
	if bv == nil {
		return true
	}
	return bv.live[from] && !bv.deadEdge[[2]*ssa.BasicBlock{from, to}]
}

// leaves follows φ-nodes backwards along live edges and returns the non-φ
// values that can flow into v.
func (bv *c08BranchView) leaves(v ssa.Value) []ssa.Value {
	var out []ssa.Value
	seen := map[ssa.Value]bool{}
	var walk func(v ssa.Value)
	walk = func(v ssa.Value) {
		if seen[v] {
			return
		}
		seen[v] = true
		if p, ok := v.(*ssa.Phi); ok {
			for i, e := range p.Edges {
				if bv.edgeLive(p.Block().Preds[i], p.Block()) {
					walk(e)
				}
			}
			return
		}
		if ct, ok := v.(*ssa.ChangeType); ok {
			walk(ct.X)
			return
		}
		out = append(out, v)
	}
	walk(v)
	return out
}

// bits computes which bits of integer value v are known (0 or 1) under the view.
func (bv *c08BranchView) bits(v ssa.Value) (zeros, ones uint64) {
	return (&c08BitsEval{root: bv}).bits(v, nil, map[ssa.Value]bool{}, 0)
}

// c08BitsEval evaluates known bits across inlined helpers: a call of an
// in-module function is the join of its returns on the paths that the
// character-set test (evaluated in the callee's activation) leaves alive.
type c08BitsEval struct {
	root     *c08BranchView
	test     func(cond ssa.Value, fr *codec.Frame) (match, truth bool) // nil: helpers are opaque
	inModule func(*ssa.Function) bool
	views    map[*codec.Frame]*c08BranchView
}

func (be *c08BitsEval) view(fr *codec.Frame) *c08BranchView {
	if fr == nil {
		return be.root
	}
	if v, ok := be.views[fr]; ok {
		return v
	}
	if be.views == nil {
		be.views = map[*codec.Frame]*c08BranchView{}
	}
	v := c08NewBranchView(fr.Callee, func(cond ssa.Value) (bool, bool) { return be.test(cond, fr) })
	be.views[fr] = v
	return v
}

func (be *c08BitsEval) bits(v ssa.Value, fr *codec.Frame, busy map[ssa.Value]bool, depth int) (zeros, ones uint64) {
	if busy[v] {
		return 0, 0
	}
	busy[v] = true
	defer delete(busy, v)
	bv := be.view(fr)
	switch x := v.(type) {
	case *ssa.Const:
		if k, ok := c08ConstInt(x); ok && k.Sign() >= 0 && k.IsUint64() {
			return ^k.Uint64(), k.Uint64()
		}
	case *ssa.Parameter:
		if arg, pf, ok := fr.Bind(x); ok {
			return be.bits(arg, pf, map[ssa.Value]bool{}, depth)
		}
	case *ssa.Call:
		f := x.Common().StaticCallee()
		if be.test == nil || f == nil || f.Blocks == nil || be.inModule == nil || !be.inModule(f) || depth >= 2 || f.Signature.Results().Len() != 1 {
			break
		}
		fr2 := codec.ChildFrame(x, f, fr)
		hv := be.view(fr2)
		zeros, ones = ^uint64(0), ^uint64(0)
		n := 0
		for _, b := range f.Blocks {
			ret, ok := b.Instrs[len(b.Instrs)-1].(*ssa.Return)
			if !ok || !hv.live[b] {
				continue
			}
			z, o := be.bits(ret.Results[0], fr2, map[ssa.Value]bool{}, depth+1)
			zeros &= z
			ones &= o
			n++
		}
		if n == 0 {
			return 0, 0
		}
		return zeros, ones
	case *ssa.Convert:
		if c08IsInt(x.X.Type()) && c08IsInt(x.Type()) {
			sb, _ := x.X.Type().Underlying().(*types.Basic)
			db, _ := x.Type().Underlying().(*types.Basic)
			if sb.Info()&types.IsUnsigned != 0 && c08Bits(db) >= c08Bits(sb) {
				return be.bits(x.X, fr, busy, depth)
			}
		}
	case *ssa.ChangeType:
		return be.bits(x.X, fr, busy, depth)
	case *ssa.BinOp:
		az, ao := be.bits(x.X, fr, busy, depth)
		bz, bo := be.bits(x.Y, fr, busy, depth)
		switch x.Op {
		case token.OR:
			return az & bz, ao | bo
		case token.AND:
			return az | bz, ao & bo
		case token.AND_NOT:
			return az | bo, ao & bz
		}
	case *ssa.Phi:
		zeros, ones = ^uint64(0), ^uint64(0)
		n := 0
		for i, e := range x.Edges {
			if !bv.edgeLive(x.Block().Preds[i], x.Block()) {
				continue
			}
			z, o := be.bits(e, fr, busy, depth)
			zeros &= z
			ones &= o
			n++
		}
		if n == 0 {
			return 0, 0
		}
		return zeros, ones
	}
	return 0, 0
}

func c08Bits(b *types.Basic) int {
	switch b.Kind() {
	case types.Uint8, types.Int8:
		return 8
	case types.Uint16, types.Int16:
		return 16
	case types.Uint32, types.Int32:
		return 32
	}
	return 64
}

// c08MaskTest recognises `(X & mask) != 0`, `(X & mask) == mask`, `(X & mask) == 0`
// (and commuted forms) and returns X and whether the comparison being true
// means "the mask bits are set".
func c08MaskTest(cond ssa.Value, mask *big.Int) (x ssa.Value, setWhenTrue, ok bool) {
	cmp, isB := cond.(*ssa.BinOp)
	if !isB || (cmp.Op != token.NEQ && cmp.Op != token.EQL) {
		return nil, false, false
	}
	and, k := cmp.X, cmp.Y
	if _, isK := c08ConstInt(and); isK {
		and, k = k, and
	}
	kv, isK := c08ConstInt(k)
	if !isK {
		return nil, false, false
	}
	ab, isA := c08Strip(and).(*ssa.BinOp)
	if !isA || ab.Op != token.AND {
		return nil, false, false
	}
	src, m := ab.X, ab.Y
	if _, isM := c08ConstInt(src); isM {
		src, m = m, src
	}
	mv, isM := c08ConstInt(m)
	if !isM || mv.Cmp(mask) != 0 {
		return nil, false, false
	}
	switch {
	case kv.Sign() == 0:
		return src, cmp.Op == token.NEQ, true
	case kv.Cmp(mask) == 0 && mask.BitLen() > 0 && new(big.Int).And(mask, new(big.Int).Sub(mask, big.NewInt(1))).Sign() == 0:
		return src, cmp.Op == token.EQL, true
	}
	return nil, false, false
}

// c08FieldLoad recognises a load of base.<field> (base a parameter or any value)
// and returns base and the field's object.
func c08FieldLoad(v ssa.Value) (base ssa.Value, field *types.Var, ok bool) {
	u, isU := c08Strip(v).(*ssa.UnOp)
	if !isU || u.Op != token.MUL {
		return nil, nil, false
	}
	fa, isF := u.X.(*ssa.FieldAddr)
	if !isF {
		return nil, nil, false
	}
	t := fa.X.Type().Underlying()
	if p, isP := t.(*types.Pointer); isP {
		t = p.Elem().Underlying()
	}
	st, isS := t.(*types.Struct)
	if !isS {
		return nil, nil, false
	}
	return fa.X, st.Field(fa.Field), true
}
