package rules

import (
	"fmt"
	"go/token"
	"go/types"
	"sort"
	"strings"

	"golang.org/x/tools/go/ssa"
)

// R4: subnet / range predicates must depend on the operands that CIDR / range
// semantics depend on. Dependence = backward slice of the returned values over
// operands, branch conditions and in-module callee summaries.

type c20Dep struct {
	param int
	field *types.Var // nil: the whole parameter
}

type c20DepSet map[c20Dep]bool

type c20Deps struct {
	c    *Ctx
	memo map[*ssa.Function]c20DepSet
	busy map[*ssa.Function]bool
}

func c20ParamIndex(fn *ssa.Function, v ssa.Value) int {
	for i, q := range fn.Params {
		if ssa.Value(q) == v {
			return i
		}
	}
	return -1
}

// summary of fn: which (parameter, field) pairs the results depend on.
func (d *c20Deps) of(fn *ssa.Function) c20DepSet {
	if s, ok := d.memo[fn]; ok {
		return s
	}
	out := c20DepSet{}
	if d.busy[fn] || fn.Blocks == nil {
		for i := range fn.Params {
			out[c20Dep{i, nil}] = true
		}
		return out
	}
	d.busy[fn] = true
	defer func() { d.busy[fn] = false }()
	seen := map[ssa.Value]bool{}
	var visit func(v ssa.Value)
	visitAlloc := func(a *ssa.Alloc) {
		// flow-insensitive: everything ever stored into the cell (or into parts of it)
		var walk func(addr ssa.Value, depth int)
		walk = func(addr ssa.Value, depth int) {
			if depth > 4 || addr.Referrers() == nil {
				return
			}
			for _, r := range *addr.Referrers() {
				switch x := r.(type) {
				case *ssa.Store:
					if x.Addr == addr {
						visit(x.Val)
					}
				case *ssa.FieldAddr:
					walk(x, depth+1)
				case *ssa.IndexAddr:
					walk(x, depth+1)
				}
			}
		}
		walk(a, 0)
	}
	visit = func(v ssa.Value) {
		if v == nil || seen[v] {
			return
		}
		seen[v] = true
		switch x := v.(type) {
		case *ssa.Const, *ssa.Global, *ssa.Function, *ssa.Builtin:
			return
		case *ssa.Parameter:
			out[c20Dep{c20ParamIndex(fn, x), nil}] = true
			return
		case *ssa.Alloc:
			visitAlloc(x)
			return
		case *ssa.UnOp:
			if x.Op == token.MUL {
				if fa, ok := x.X.(*ssa.FieldAddr); ok {
					if pi := c20ParamIndex(fn, fa.X); pi >= 0 {
						if n := c20NamedStruct(fa.X.Type()); n != nil {
							out[c20Dep{pi, n.Underlying().(*types.Struct).Field(fa.Field)}] = true
							return
						}
					}
				}
				// load through some other address: where the address comes from, and what was stored there
				root := x.X
				for {
					switch y := root.(type) {
					case *ssa.FieldAddr:
						root = y.X
						continue
					case *ssa.IndexAddr:
						visit(y.Index)
						root = y.X
						continue
					}
					break
				}
				visit(root)
				return
			}
		case *ssa.Call:
			cc := x.Common()
			g := cc.StaticCallee()
			if g != nil && g.Blocks != nil && d.c.P.InModule(g) {
				sum := d.of(g)
				for dep := range sum {
					if dep.param < 0 || dep.param >= len(cc.Args) {
						continue
					}
					arg := cc.Args[dep.param]
					if pi := c20ParamIndex(fn, arg); pi >= 0 && dep.field != nil {
						out[c20Dep{pi, dep.field}] = true
						continue
					}
					visit(arg)
				}
				return
			}
			if cc.IsInvoke() || g == nil {
				visit(cc.Value) // interface receiver; or a function value: a closure's captured variables all count
			}
			for _, a := range cc.Args {
				visit(a)
			}
			return
		}
		if in, ok := v.(ssa.Instruction); ok {
			for _, op := range in.Operands(nil) {
				if op != nil && *op != nil {
					visit(*op)
				}
			}
		}
	}
	multiRet := 0
	for _, b := range fn.Blocks {
		if ret, ok := b.Instrs[len(b.Instrs)-1].(*ssa.Return); ok {
			multiRet++
			for _, rv := range ret.Results {
				visit(rv)
			}
		}
	}
	// control dependence, over-approximated: every branch condition of the function
	for _, b := range fn.Blocks {
		if iff, ok := b.Instrs[len(b.Instrs)-1].(*ssa.If); ok {
			visit(iff.Cond)
		}
	}
	d.memo[fn] = out
	return out
}

// addressFields: the fields read by T's integer-conversion methods (no
// parameters, result an unsigned integer or an array of them).
func (d *c20Deps) addressFields(T *types.Named) (map[*types.Var]bool, []string) {
	p := d.c.P
	out := map[*types.Var]bool{}
	var via []string
	ms := p.SSA.MethodSets.MethodSet(types.NewPointer(T))
	for i := 0; i < ms.Len(); i++ {
		obj, ok := ms.At(i).Obj().(*types.Func)
		if !ok {
			continue
		}
		fn := p.SSA.FuncValue(obj)
		if fn == nil || fn.Blocks == nil {
			continue
		}
		// the type's public integer view (ToUInt32, ToUInt128 …); unexported helpers such as
		// a netmask() built from the prefix length are not views of the address
		if !obj.Exported() {
			continue
		}
		sig := fn.Signature
		if sig.Params().Len() != 0 || sig.Results().Len() != 1 {
			continue
		}
		rt := sig.Results().At(0).Type().Underlying()
		if a, ok := rt.(*types.Array); ok {
			rt = a.Elem().Underlying()
		}
		b, ok := rt.(*types.Basic)
		if !ok || b.Info()&types.IsInteger == 0 || b.Info()&types.IsUnsigned == 0 {
			continue
		}
		via = append(via, fn.Name())
		for dep := range d.of(fn) {
			if dep.param == 0 && dep.field != nil {
				out[dep.field] = true
			}
		}
	}
	sort.Strings(via)
	return out, via
}

func c20RunR4(c *Ctx, tbls []*c20TypeTable) {
	r, p := c.R, c.P
	d := &c20Deps{c: c, memo: map[*ssa.Function]c20DepSet{}, busy: map[*ssa.Function]bool{}}
	pk := p.Pkg(c20IPPkg)
	if pk == nil {
		return
	}
	// the address types: struct types of the package with an integer conversion
	type addrType struct {
		T      *types.Named
		addr   map[*types.Var]bool
		prefix []*types.Var
		via    []string
	}
	addrTypes := map[*types.TypeName]*addrType{}
	var summary []string
	for _, t := range tbls {
		addr, via := d.addressFields(t.T)
		if len(addr) == 0 {
			continue
		}
		at := &addrType{T: t.T, addr: addr, via: via}
		st := t.T.Underlying().(*types.Struct)
		for i := 0; i < st.NumFields(); i++ {
			f := st.Field(i)
			if b, ok := f.Type().Underlying().(*types.Basic); ok && b.Info()&types.IsInteger != 0 && !addr[f] {
				at.prefix = append(at.prefix, f)
			}
		}
		addrTypes[t.T.Obj()] = at
		var an, pn []string
		for f := range addr {
			an = append(an, f.Name())
		}
		sort.Strings(an)
		for _, f := range at.prefix {
			pn = append(pn, f.Name())
		}
		summary = append(summary, fmt.Sprintf("%s: address fields {%s} (read by %s); prefix-length field(s) {%s}", t.T.Obj().Name(), strings.Join(an, ","), strings.Join(via, ","), strings.Join(pn, ",")))
	}
	r.Extra["R4_address_types"] = summary

	operandType := func(t types.Type) *addrType {
		n := c20NamedStruct(t)
		if n == nil {
			return nil
		}
		return addrTypes[n.Obj()]
	}
	fieldNames := func(fs []*types.Var) string {
		var s []string
		for _, f := range fs {
			s = append(s, f.Name())
		}
		sort.Strings(s)
		return strings.Join(s, ",")
	}
	// every method of a struct type of the package that returns one bool and takes
	// at least one address operand
	for _, t := range tbls {
		ms := p.SSA.MethodSets.MethodSet(types.NewPointer(t.T))
		for i := 0; i < ms.Len(); i++ {
			obj, ok := ms.At(i).Obj().(*types.Func)
			if !ok {
				continue
			}
			fn := p.SSA.FuncValue(obj)
			if fn == nil || fn.Blocks == nil || fn.Signature.Results().Len() != 1 {
				continue
			}
			if b, ok := fn.Signature.Results().At(0).Type().Underlying().(*types.Basic); !ok || b.Kind() != types.Bool {
				continue
			}
			nAddrParams := 0
			for _, q := range fn.Params[1:] {
				if operandType(q.Type()) != nil {
					nAddrParams++
				}
			}
			if nAddrParams == 0 {
				continue
			}
			name := p.FuncName(fn)
			isSubnet := fn.Name() == "IsInSubnet"
			c.guard(c20RDep, name, p.Rel(fn.Pos()), func() {
				deps := d.of(fn)
				var missing []string
				whole := map[int]bool{}
				for dep := range deps {
					if dep.field == nil {
						whole[dep.param] = true
					}
				}
				for pi, q := range fn.Params {
					at := operandType(q.Type())
					if at == nil {
						if pi == 0 {
							// receiver of another struct type (a range): every field must matter
							if n := c20NamedStruct(q.Type()); n != nil && !whole[0] {
								st := n.Underlying().(*types.Struct)
								var miss []*types.Var
								for k := 0; k < st.NumFields(); k++ {
									if !deps[c20Dep{0, st.Field(k)}] {
										miss = append(miss, st.Field(k))
									}
								}
								if len(miss) > 0 {
									missing = append(missing, fmt.Sprintf("receiver field(s) {%s}", fieldNames(miss)))
								}
							}
						}
						continue
					}
					if whole[pi] {
						continue
					}
					var miss []*types.Var
					for f := range at.addr {
						if !deps[c20Dep{pi, f}] {
							miss = append(miss, f)
						}
					}
					if len(miss) > 0 {
						missing = append(missing, fmt.Sprintf("address field(s) {%s} of operand %s", fieldNames(miss), q.Name()))
					}
				}
				if isSubnet {
					// the subnet operand is the (single) address parameter
					for pi, q := range fn.Params[1:] {
						at := operandType(q.Type())
						if at == nil {
							continue
						}
						if len(at.prefix) == 0 {
							missing = append(missing, fmt.Sprintf("a prefix length: type %s has no field besides the address bits read by %s, so the subnet operand cannot carry one", at.T.Obj().Name(), strings.Join(at.via, ",")))
							continue
						}
						if whole[pi+1] {
							continue
						}
						found := false
						for _, f := range at.prefix {
							if deps[c20Dep{pi + 1, f}] {
								found = true
							}
						}
						if !found {
							missing = append(missing, fmt.Sprintf("the prefix length %s.%s of the subnet operand", q.Name(), fieldNames(at.prefix)))
						}
					}
				}
				var forbidden []string
				if isSubnet {
					// CIDR membership of host h in a/n depends on h's address, a and n — never
					// on a prefix length carried by the host operand itself
					if at := operandType(fn.Params[0].Type()); at != nil {
						for _, f := range at.prefix {
							if deps[c20Dep{0, f}] {
								forbidden = append(forbidden, fn.Params[0].Name()+"."+f.Name())
							}
						}
					}
				}
				var have []string
				for dep := range deps {
					fnm := "*"
					if dep.field != nil {
						fnm = dep.field.Name()
					}
					pn := "?"
					if dep.param >= 0 && dep.param < len(fn.Params) {
						pn = fn.Params[dep.param].Name()
					}
					have = append(have, pn+"."+fnm)
				}
				sort.Strings(have)
				if len(missing) > 0 {
					sort.Strings(missing)
					why := "the result cannot agree with range semantics for all operands"
					if isSubnet {
						why = "membership in a/n differs between two prefix lengths n for the same pair of addresses, so a test that never reads it cannot agree with CIDR semantics"
					}
					r.Fail(c20RDep, name, p.Rel(fn.Pos()), fmt.Sprintf("the result does not depend on %s (it depends on {%s}): %s", strings.Join(missing, "; "), strings.Join(have, ","), why))
					return
				}
				if len(forbidden) > 0 {
					r.Fail(c20RDep, name, p.Rel(fn.Pos()), fmt.Sprintf("the result depends on the host operand's own prefix length %s (it depends on {%s}): whether h lies in a/n is a function of h's address, a and n only, so two hosts with the same address and different prefix lengths must get the same answer", strings.Join(forbidden, ","), strings.Join(have, ",")))
					return
				}
				r.OK(c20RDep, name, p.Rel(fn.Pos()), "the result depends on {"+strings.Join(have, ",")+"}")
			})
		}
	}
	// confirmed by reading: IPv4.IsInSubnet, IPv4.IsInRange, IPv6.IsInSubnet, IPv6.IsInRange, IPv4Range.Contains, IPv6Range.Contains
	r.Floor(c20RDep, 6)
}
