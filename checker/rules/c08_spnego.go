package rules

import (
	"fmt"
	"go/token"
	"go/types"
	"math/big"
	"strings"

	"golang.org/x/tools/go/ssa"

	"manticheck/internal/codec"
	"manticheck/internal/lin"
	"manticheck/internal/prove"
)

// R5: GSS-API / SPNEGO framing (X.690 definite-length octets).

// c08NotFollowed prefixes a reason that describes a shape the rule does not
// read (→ NOT DECIDED) as opposed to something it observed to be wrong.
const c08NotFollowed = "\x00"

func (c *c08) spnego() {
	c.encodeLength()
	for _, f := range []string{"CreateNegTokenInit", "CreateNegTokenResp"} {
		c.gssHeader(f)
	}
	for _, f := range []string{"ParseNegTokenResp", "ExtractNTLMToken"} {
		c.gssSkip(f)
	}
}

// loopPhi describes a loop-carried integer: value at iteration k.
type c08LoopPhi struct {
	phi    *ssa.Phi
	init   ssa.Value
	stride *big.Int // additive: value(k) = init + stride·k (nil if not additive)
	shift  int64    // shifting: value(k) = init >> (shift·k) (0 if not shifting)
}

func c08LoopPhis(z *codec.Sym, hb *ssa.BasicBlock) map[*ssa.Phi]*c08LoopPhi {
	out := map[*ssa.Phi]*c08LoopPhi{}
	for _, in := range hb.Instrs {
		p, ok := in.(*ssa.Phi)
		if !ok {
			break
		}
		lp := &c08LoopPhi{phi: p}
		okAll := true
		n := 0
		for i, pr := range hb.Preds {
			e := p.Edges[i]
			if !hb.Dominates(pr) {
				if lp.init != nil {
					okAll = false
				}
				lp.init = e
				continue
			}
			n++
			// additive?
			d := z.Of(e).Sub(z.Of(p))
			if k, isK := d.ConstVal(); isK {
				if lp.stride != nil && lp.stride.Cmp(k) != 0 || lp.shift != 0 {
					okAll = false
				}
				lp.stride = k
				continue
			}
			// shifting: φ >> K or φ / 2^K
			if b, isB := c08Strip(e).(*ssa.BinOp); isB && c08Strip(b.X) == ssa.Value(p) {
				if kv, isK := c08ConstInt(b.Y); isK && kv.IsInt64() {
					s := int64(0)
					if b.Op == token.SHR {
						s = kv.Int64()
					} else if b.Op == token.QUO && kv.Sign() > 0 && new(big.Int).And(kv, new(big.Int).Sub(kv, big.NewInt(1))).Sign() == 0 {
						s = int64(kv.BitLen() - 1)
					}
					if s > 0 && lp.stride == nil && (lp.shift == 0 || lp.shift == s) {
						lp.shift = s
						continue
					}
				}
			}
			okAll = false
		}
		if okAll && lp.init != nil && n > 0 {
			out[p] = lp
		}
	}
	return out
}

// contForm: the loop continues (enters `body`) iff F >= 0; returns F.
func c08ContForm(z *codec.Sym, hb, body *ssa.BasicBlock) (lin.Form, bool) {
	iff, ok := hb.Instrs[len(hb.Instrs)-1].(*ssa.If)
	if !ok || len(hb.Succs) != 2 {
		return lin.Form{}, false
	}
	cmp, ok := iff.Cond.(*ssa.BinOp)
	if !ok {
		return lin.Form{}, false
	}
	a, b := z.Of(cmp.X), z.Of(cmp.Y)
	var f lin.Form
	switch cmp.Op {
	case token.GEQ:
		f = a.Sub(b)
	case token.GTR:
		f = a.Sub(b).AddK(-1)
	case token.LEQ:
		f = b.Sub(a)
	case token.LSS:
		f = b.Sub(a).AddK(-1)
	default:
		return lin.Form{}, false
	}
	if hb.Succs[0] == body {
		return f, true
	}
	if hb.Succs[1] == body {
		return f.Neg().AddK(-1), true
	}
	return lin.Form{}, false
}

func c08HeaderOf(b *ssa.BasicBlock) *ssa.BasicBlock {
	for x := b; x != nil; x = x.Idom() {
		for _, p := range x.Preds {
			if x.Dominates(p) && (p == b || x.Dominates(b)) {
				// b must be inside the loop: it reaches the back-edge source
				if c08Reaches(b, p) {
					return x
				}
			}
		}
	}
	return nil
}

func c08Reaches(from, to *ssa.BasicBlock) bool {
	seen := map[*ssa.BasicBlock]bool{}
	work := []*ssa.BasicBlock{from}
	for len(work) > 0 {
		b := work[len(work)-1]
		work = work[:len(work)-1]
		if b == to {
			return true
		}
		if seen[b] {
			continue
		}
		seen[b] = true
		work = append(work, b.Succs...)
	}
	return false
}

func (c *c08) encodeLength() {
	const rule = "R5.encode-length"
	name := c08SPNEGO + ".encodeLength"
	fn := c.P.Func(c08SPNEGO, "", "encodeLength")
	if fn == nil || fn.Blocks == nil || len(fn.Params) != 1 {
		// an unexported helper, not an entry point of the property: without it the length
		// octets are produced some other way (a library encoder, inline code), which the
		// framing rule of the token builders reads or reports as not decided
		c.entity(map[string]int{rule: 3}, func() {
			c.notDecided(rule, name, "-", "the package has no helper encodeLength(int): the DER length octets of the GSS-API frame are produced elsewhere (see R5.spnego-frame of the token builders)")
		})
		return
	}
	c.entity(map[string]int{rule: 3}, func() {
		c.guard(rule, name, c.pos(fn.Pos()), func() { c.encodeLength1(fn, name) })
	})
}

func (c *c08) encodeLength1(fn *ssa.Function, name string) {
	const rule = "R5.encode-length"
	r := c.R
	param := fn.Params[0]
	fi := c.w.Info(fn)
	z := codec.NewSym()
	st := codec.NewStreamer(fn, c.P.InModule)
	var short, long *ssa.Return
	var mk *ssa.MakeSlice
	var beTail *ssa.Slice // long form returned as buf[8-N:] of a fixed 8-byte buffer
	var nLen ssa.Value    // the SSA value of the octet count N
	var nAt ssa.Instruction
	for _, b := range fn.Blocks {
		ret, ok := b.Instrs[len(b.Instrs)-1].(*ssa.Return)
		if !ok || len(ret.Results) != 1 {
			continue
		}
		if m, isMk := ret.Results[0].(*ssa.MakeSlice); isMk {
			if long != nil {
				c.notDecided(rule, name+": long form", c.ipos(ret), "more than one return of a made buffer")
				return
			}
			long, mk, nLen, nAt = ret, m, m.Len, m
			continue
		}
		if sl, isSl := ret.Results[0].(*ssa.Slice); isSl && sl.Low != nil && sl.High == nil && sl.Max == nil {
			if _, isK := c08ConstInt(sl.Low); !isK {
				if long != nil {
					c.notDecided(rule, name+": long form", c.ipos(ret), "more than one long-form return")
					return
				}
				long, beTail, nAt = ret, sl, sl
				continue
			}
		}
		if short != nil {
			c.notDecided(rule, name+": short form", c.ipos(ret), "more than two returns")
			return
		}
		short = ret
	}
	// (a) short form
	{
		construct := name + ": short form"
		switch {
		case short == nil:
			c.notDecided(rule, construct, c.pos(fn.Pos()), "no return that is neither a made buffer nor a computed tail was found: the short form has another shape")
		default:
			ps := st.Stream(short.Results[0])
			ctx := fi.CtxBefore(short)
			pf := ctx.Lin(param)
			switch {
			case len(ps) != 1 || (ps[0].Kind != "byte" && ps[0].Kind != "const" && ps[0].Kind != "zero" && ps[0].Kind != "int"):
				c.notDecided(rule, construct, c.ipos(short), "the short form is "+codec.RenderPieces(ps)+", which is not read off as one octet")
			case ps[0].Kind != "byte" || c08Strip(ps[0].Val) != ssa.Value(param):
				r.Fail(rule, construct, c.ipos(short), "the short form is "+codec.RenderPieces(ps)+", not the single octet byte(length)")
			case !ctx.Prove(lin.LE(pf, lin.K(127))):
				if esc := c.flowsOut(param, c08FlowOpts{validators: true, lengths: true, before: short}); esc != "" {
					c.notDecided(rule, construct, c.ipos(short), "the single-octet form is returned for lengths not proved < 128 from the tests read, but "+esc+", which may establish the bound")
				} else {
					r.Fail(rule, construct, c.ipos(short), "the single-octet form is returned for lengths that are not proved < 128 (bit 8 would read as the long-form marker)")
				}
			default:
				r.OK(rule, construct, c.ipos(short), "length < 128 ⇒ one octet byte(length)")
			}
		}
	}
	if long == nil {
		c.notDecided(rule, name+": octet count", c.pos(fn.Pos()), "no long-form return (a made buffer or a computed tail of one) found: the long form has another shape")
		return
	}
	{
		ctx := fi.CtxBefore(long)
		if !ctx.Prove(lin.GE(ctx.Lin(param), lin.K(128))) {
			if esc := c.flowsOut(param, c08FlowOpts{validators: true, lengths: true, before: long}); esc != "" {
				c.notDecided(rule, name+": octet count", c.ipos(long), "the long form is returned for lengths not proved >= 128 from the tests read, but "+esc+", which may establish the bound")
				return
			}
			r.Fail(rule, name+": octet count", c.ipos(long), "the long form is returned for lengths not proved >= 128")
			return
		}
	}
	if beTail != nil {
		// buf[W-N:] of a W-byte buffer: N is what is subtracted from the width
		w := z.LenOf(beTail.X)
		if sub, isB := c08Strip(beTail.Low).(*ssa.BinOp); isB && sub.Op == token.SUB && z.Of(sub.X).Equal(w) {
			nLen = sub.Y
		} else {
			c.notDecided(rule, name+": octet count", c.ipos(beTail), "the long form is a tail of a buffer whose start is not width - N: "+z.String(z.Of(beTail.Low)))
			return
		}
	}
	// (b) octet count: N = number of iterations of `for t := length; t > 0; t >>= 8 { N++ }`
	N := z.Of(nLen)
	{
		construct := name + ": octet count"
		np, isPhi := c08Strip(nLen).(*ssa.Phi)
		if how, bad := c.octetsClosedForm(nLen, param); how != "" || bad != "" {
			// N computed from the bit length: (bits.Len(uint(length)) + 7) / 8
			if strings.HasPrefix(bad, c08NotFollowed) {
				c.notDecided(rule, construct, c.ipos(nAt), strings.TrimPrefix(bad, c08NotFollowed))
				return
			}
			if bad != "" {
				r.Fail(rule, construct, c.ipos(nAt), bad+" (the long form must use ceil(bitlen(length)/8) octets)")
				return
			}
			r.OK(rule, construct, c.ipos(nAt), how)
			isPhi = false
		} else if isPhi && !c08IsLoopHeader(np.Block()) {
			// N chosen by a ladder of range tests: every constant k must be chosen
			// exactly for 256^(k-1) <= length < 256^k
			if bad := c.octetsLadder(fi, np, param); bad != "" {
				if strings.HasPrefix(bad, c08NotFollowed) {
					c.notDecided(rule, construct, c.ipos(np), strings.TrimPrefix(bad, c08NotFollowed))
					return
				}
				if esc := c.flowsOut(param, c08FlowOpts{validators: true, lengths: true}); esc != "" {
					c.notDecided(rule, construct, c.ipos(np), bad+" from the tests read, but "+esc+", which may establish the range")
					return
				}
				r.Fail(rule, construct, c.ipos(np), bad+" (the long form must use ceil(bitlen(length)/8) octets)")
				return
			}
			r.OK(rule, construct, c.ipos(np), "N = k is chosen only where 256^(k-1) <= length <= 256^k - 1 (E1, on every edge into the join)")
			isPhi = false
		} else if !isPhi {
			c.notDecided(rule, construct, c.ipos(nAt), "the buffer length is not a loop counter: "+z.String(N))
			return
		}
		if isPhi {
			hb := np.Block()
			lps := c08LoopPhis(z, hb)
			cnt := lps[np]
			var tmp *c08LoopPhi
			for _, lp := range lps {
				if lp.shift == 8 && c08Strip(lp.init) == ssa.Value(param) {
					tmp = lp
				}
			}
			var body *ssa.BasicBlock
			for _, s := range hb.Succs {
				if hb.Dominates(s) && c08Reaches(s, hb) {
					body = s
				}
			}
			okc := false
			why := ""
			nd := "" // the loop has a shape that is not read (as opposed to one seen to count wrongly)
			var wrongShift *c08LoopPhi
			for _, lp := range lps {
				if lp.shift != 0 && lp.shift != 8 && c08Strip(lp.init) == ssa.Value(param) {
					wrongShift = lp
				}
			}
			switch {
			case cnt == nil || cnt.stride == nil:
				nd = "the octet count is a loop-carried value that does not advance by a constant per iteration"
			case cnt.stride.Cmp(big.NewInt(1)) != 0:
				why = "the octet counter does not advance by 1 per iteration"
			case !func() bool { _, isK := c08ConstInt(cnt.init); return isK }():
				nd = "the octet counter starts at a value that is not a constant"
			case !func() bool { k, isK := c08ConstInt(cnt.init); return isK && k.Sign() == 0 }():
				why = "the octet counter does not start at 0"
			case tmp == nil && wrongShift != nil:
				why = fmt.Sprintf("the length is shifted right by %d (not 8) per counted octet", wrongShift.shift)
			case tmp == nil:
				nd = "no loop variable that starts at `length` and is shifted right per iteration was found"
			case body == nil:
				nd = "loop body not found"
			default:
				// continue iff tmp > 0  (tmp - 1 >= 0), or tmp != 0 for the non-negative value
				f, ok := c08ContForm(z, hb, body)
				if ok && f.Equal(z.Of(tmp.phi).AddK(-1)) {
					okc = true
				} else if iff, isIf := hb.Instrs[len(hb.Instrs)-1].(*ssa.If); isIf {
					if cmp, isB := iff.Cond.(*ssa.BinOp); isB && (cmp.Op == token.NEQ || cmp.Op == token.EQL) {
						x, k := cmp.X, cmp.Y
						if _, isK := c08ConstInt(x); isK {
							x, k = k, x
						}
						kv, isK := c08ConstInt(k)
						cont := hb.Succs[0]
						if cmp.Op == token.EQL {
							cont = hb.Succs[1]
						}
						if isK && kv.Sign() == 0 && c08Strip(x) == ssa.Value(tmp.phi) && cont == body {
							okc = true
						}
					}
				}
				if !okc {
					why = "the counting loop does not run exactly while the shifted length is > 0"
					// observed only if the continue condition is a test of the shifted length alone
					if !ok {
						nd, why = "the continue condition of the counting loop is not an integer comparison that is read off", ""
					} else {
						for _, t := range f.Terms() {
							if v, _ := z.TermValue(t); v != ssa.Value(tmp.phi) {
								nd, why = "the continue condition of the counting loop involves "+z.Name(t)+", not only the shifted length", ""
							}
						}
					}
				}
			}
			if !okc && nd != "" {
				c.notDecided(rule, construct, c.ipos(np), nd)
				return
			}
			if !okc {
				r.Fail(rule, construct, c.ipos(np), why+" (the long form must use ceil(bitlen(length)/8) octets)")
				return
			}
			r.OK(rule, construct, c.ipos(np), "N = number of 8-bit shifts until length becomes 0 = ceil(bitlen/8)")
		}
	}
	if beTail != nil {
		// (c') the tail of the big-endian image of the length in a fixed buffer: its
		// last N octets are bits 8(N-1)..0, most significant first
		construct := name + ": octet order"
		var whole ssa.Value
		if refs := beTail.X.Referrers(); refs != nil {
			for _, ref := range *refs {
				if sl, ok := ref.(*ssa.Slice); ok && sl != beTail && sl.Low == nil && sl.High == nil && sl.Max == nil {
					whole = sl
				}
			}
		}
		if _, isMk := beTail.X.(*ssa.MakeSlice); isMk {
			whole = beTail.X
		}
		if whole == nil {
			c.notDecided(rule, construct, c.ipos(beTail), "the buffer the long form is cut from is never written as a whole")
			return
		}
		ps := st.Stream(whole)
		switch {
		case len(ps) != 1 || ps[0].Kind != "int":
			c.notDecided(rule, construct, c.ipos(beTail), "the buffer the long form is cut from is "+codec.RenderPieces(ps)+", not one integer")
		case c08Strip(ps[0].Val) != ssa.Value(param) || !c08Wide(ps[0].Val):
			r.Fail(rule, construct, c.ipos(ps[0].At), "the integer written into the buffer is not the (untruncated) length")
		case ps[0].Order != "BE":
			r.Fail(rule, construct, c.ipos(ps[0].At), "the length is written little-endian; DER long form is big-endian (most significant octet first)")
		case ps[0].Width != 8:
			r.Fail(rule, construct, c.ipos(ps[0].At), fmt.Sprintf("the length is written as %d octets, which drops the high bits of an int length", ps[0].Width))
		default:
			r.OK(rule, construct, c.ipos(beTail), "the last N octets of the 8-octet big-endian length: most significant octet first")
		}
		return
	}
	// (c) fill: result[N-1-k] = byte(length >> 8k), k = 0..N-1
	{
		construct := name + ": octet order"
		var stores []*ssa.Store
		var ias []*ssa.IndexAddr
		if mk.Referrers() != nil {
			for _, ref := range *mk.Referrers() {
				switch x := ref.(type) {
				case *ssa.IndexAddr:
					for _, rr := range *x.Referrers() {
						if s, ok := rr.(*ssa.Store); ok && s.Addr == ssa.Value(x) {
							stores = append(stores, s)
							ias = append(ias, x)
						}
					}
				case *ssa.Return, *ssa.DebugRef:
				default:
					if call, ok := ref.(*ssa.Call); ok {
						if _, isLen := c08IsBuiltin(call, "len"); isLen {
							continue
						}
					}
					c.notDecided(rule, construct, c.ipos(ref), fmt.Sprintf("the length buffer is used by %T", ref))
					return
				}
			}
		}
		if len(stores) != 1 {
			c.notDecided(rule, construct, c.ipos(mk), fmt.Sprintf("%d element stores into the length buffer (expected one, in a loop)", len(stores)))
			return
		}
		stI, ia := stores[0], ias[0]
		hb := c08HeaderOf(stI.Block())
		if hb == nil {
			c.notDecided(rule, construct, c.ipos(stI), "the element store is not inside a loop")
			return
		}
		lps := c08LoopPhis(z, hb)
		k := z.Fresh("k")
		subst := func(f lin.Form) (lin.Form, bool) {
			for _, t := range f.Terms() {
				v, isLen := z.TermValue(t)
				p, isPhi := v.(*ssa.Phi)
				if !isPhi || isLen || p.Block() != hb {
					continue
				}
				lp := lps[p]
				if lp == nil || lp.stride == nil {
					return f, false
				}
				f = codec.Subst(f, t, z.Of(lp.init).Add(k.Scale(lp.stride)))
			}
			return f, true
		}
		idx, ok := subst(z.Of(ia.Index))
		if !ok {
			c.notDecided(rule, construct, c.ipos(ia), "the index is not an affine function of the iteration count")
			return
		}
		// value: byte(X [& 0xFF]) with X = φ (>> 8 per iteration from length) or length >> s(k)
		v := stI.Val
		if cv, isC := v.(*ssa.Convert); isC {
			v = cv.X
		}
		if b, isB := v.(*ssa.BinOp); isB && b.Op == token.AND {
			if m, isK := c08ConstInt(b.Y); isK && m.Int64() == 0xFF {
				v = b.X
			} else if m, isK := c08ConstInt(b.X); isK && m.Int64() == 0xFF {
				v = b.Y
			}
		}
		var shift lin.Form
		okShift := false
		if p, isPhi := v.(*ssa.Phi); isPhi && lps[p] != nil && lps[p].shift > 0 && c08Strip(lps[p].init) == ssa.Value(fn.Params[0]) {
			shift, okShift = k.ScaleI(lps[p].shift), true
		} else if b, isB := v.(*ssa.BinOp); isB && b.Op == token.SHR && c08Strip(b.X) == ssa.Value(fn.Params[0]) {
			shift, okShift = subst(z.Of(b.Y))
		} else if c08Strip(v) == ssa.Value(fn.Params[0]) {
			shift, okShift = lin.K(0), true
		}
		if !okShift {
			c.notDecided(rule, construct, c.ipos(stI), "the octet stored is not byte(length >> 8·k)")
			return
		}
		var body *ssa.BasicBlock
		for _, s := range hb.Succs {
			if hb.Dominates(s) && c08Reaches(s, hb) && (s == stI.Block() || s.Dominates(stI.Block())) {
				body = s
			}
		}
		cont, okCont := lin.Form{}, false
		if body != nil {
			if f, ok := c08ContForm(z, hb, body); ok {
				cont, okCont = subst(f)
			}
		}
		wantIdx := N.AddK(-1).Sub(k)
		if body == hb && okCont {
			// a bottom-tested (rotated) loop, as range-over-int compiles to: the test
			// after iteration k decides iteration k+1, and the entry edge decides
			// iteration 0 (it must be taken only with N >= 1)
			cont = cont.AddK(1)
			for i, pr := range hb.Preds {
				if hb.Dominates(pr) {
					continue
				}
				ectx := fi.CtxEdge(hb.Preds[i], hb)
				if !ectx.Prove(lin.GE(ectx.Lin(mk.Len), lin.K(1))) {
					okCont = false
				}
			}
		}
		// what must hold is about positions, not about the direction of the loop: the octet
		// at index j is byte(length >> 8·(N-1-j)), for j = k (forward fill) or j = N-1-k
		wantShift := N.AddK(-1).Sub(idx).ScaleI(8)
		switch {
		case !idx.Equal(k) && !idx.Equal(wantIdx):
			c.notDecided(rule, construct, c.ipos(stI), "iteration k writes index "+z.String(idx)+", neither k nor N-1-k")
		case !shift.Equal(wantShift) && idx.Equal(wantIdx) && !shift.Equal(k.ScaleI(8)):
			r.Fail(rule, construct, c.ipos(stI), "iteration k stores byte(length >> "+z.String(shift)+"); successive octets must be 8 bits apart (>> 8·k)")
		case !shift.Equal(wantShift):
			r.Fail(rule, construct, c.ipos(stI), fmt.Sprintf("the octet at index %s is byte(length >> %s); DER long form is big-endian: index j holds byte(length >> 8·(N-1-j)), i.e. >> %s here (most significant octet first)", z.String(idx), z.String(shift), z.String(wantShift)))
		case !okCont || !cont.Equal(wantIdx):
			r.Fail(rule, construct, c.ipos(stI), "the fill loop does not run for exactly k = 0 .. N-1 (continue condition: "+z.String(cont)+" >= 0)")
		default:
			r.OK(rule, construct, c.ipos(stI), "result[N-1-k] = byte(length >> 8k) for k = 0..N-1: most significant octet first")
		}
	}
}

// c08Wide: v is reached from its source through conversions between 64-bit
// integer types only (exact for the non-negative lengths of the long form).
func c08Wide(v ssa.Value) bool {
	for {
		switch x := v.(type) {
		case *ssa.Convert:
			db, ok := x.Type().Underlying().(*types.Basic)
			if !ok || db.Info()&types.IsInteger == 0 || c08Bits(db) != 64 {
				return false
			}
			v = x.X
			continue
		case *ssa.ChangeType:
			v = x.X
			continue
		}
		return true
	}
}

func c08IsLoopHeader(b *ssa.BasicBlock) bool {
	for _, p := range b.Preds {
		if b.Dominates(p) {
			return true
		}
	}
	return false
}

// octetsClosedForm recognises N = (bits.Len(uint(length)) + 7) / 8 (also >> 3,
// bits.Len64(uint64(length))): the number of octets of a positive length. how
// is set when the form is exactly that, bad when it is a bit-length formula
// that is not ceil(bitlen/8).
func (c *c08) octetsClosedForm(n ssa.Value, param *ssa.Parameter) (how, bad string) {
	bitLen := func(v ssa.Value) (string, bool) {
		call, f := c08StaticCall(c08Strip(v))
		if call == nil || f == nil {
			return "", false
		}
		switch f.String() {
		case "math/bits.Len", "math/bits.Len64", "math/bits.Len32", "math/bits.Len16", "math/bits.Len8":
		default:
			return "", false
		}
		return f.String(), true
	}
	var find func(v ssa.Value, d int) *ssa.Call
	find = func(v ssa.Value, d int) *ssa.Call {
		v = c08Strip(v)
		if _, ok := bitLen(v); ok {
			return v.(*ssa.Call)
		}
		if b, ok := v.(*ssa.BinOp); ok && d < 4 {
			if x := find(b.X, d+1); x != nil {
				return x
			}
			return find(b.Y, d+1)
		}
		return nil
	}
	call := find(n, 0)
	if call == nil {
		return "", ""
	}
	fname, _ := bitLen(call)
	arg := call.Common().Args[0]
	cv, isC := arg.(*ssa.Convert)
	at, _ := arg.Type().Underlying().(*types.Basic)
	if !isC || c08Strip(arg) != ssa.Value(param) || at == nil {
		return "", c08NotFollowed + "the bit length is taken of " + arg.Name() + ", which is not directly a conversion of the length parameter"
	}
	_ = cv
	switch {
	case fname == "math/bits.Len" && at.Kind() == types.Uint, fname == "math/bits.Len64" && at.Kind() == types.Uint64:
	default:
		return "", fmt.Sprintf("%s(%s(length)) drops the high bits of an int length", fname, at.Name())
	}
	// (call + 7) / 8  or  (call + 7) >> 3
	top, ok := c08Strip(n).(*ssa.BinOp)
	if !ok {
		return "", c08NotFollowed + "the octet count is derived from a bit length in a form other than (bitlen + 7) / 8 that is not followed"
	}
	kv, isK := c08ConstInt(top.Y)
	if !isK || !((top.Op == token.QUO && kv.Int64() == 8) || (top.Op == token.SHR && kv.Int64() == 3)) {
		return "", c08NotFollowed + "the octet count is derived from a bit length in a form other than (bitlen + 7) / 8 that is not followed"
	}
	sum, ok := c08Strip(top.X).(*ssa.BinOp)
	if !ok || sum.Op != token.ADD {
		return "", "the octet count is floor(bitlen / 8), not ceil: lengths whose bit length is not a multiple of 8 lose their leading octet"
	}
	x, k := sum.X, sum.Y
	if _, isK := c08ConstInt(x); isK {
		x, k = k, x
	}
	kk, isK := c08ConstInt(k)
	if !isK || c08Strip(x) != ssa.Value(call) {
		return "", c08NotFollowed + "the octet count is derived from a bit length in a form other than (bitlen + 7) / 8 that is not followed"
	}
	if kk.Int64() != 7 {
		return "", fmt.Sprintf("the octet count is (bitlen + %s) / 8, not (bitlen + 7) / 8", kk)
	}
	return "N = (" + fname + "(length) + 7) / 8 = ceil(bitlen/8) for the positive length of the long form", ""
}

// octetsLadder: N is a join of constants; constant k may enter the join only
// on edges where 256^(k-1) <= length <= 256^k - 1 is proved.
func (c *c08) octetsLadder(fi *prove.FuncInfo, np *ssa.Phi, param *ssa.Parameter) string {
	seen := map[*ssa.Phi]bool{}
	var walk func(p *ssa.Phi) string
	walk = func(p *ssa.Phi) string {
		if seen[p] || c08IsLoopHeader(p.Block()) {
			return c08NotFollowed + "the octet count is computed in a loop of a form that is not read"
		}
		seen[p] = true
		for i, e := range p.Edges {
			if q, isP := c08Strip(e).(*ssa.Phi); isP {
				if why := walk(q); why != "" {
					return why
				}
				continue
			}
			k, isK := c08ConstInt(e)
			if !isK || !k.IsInt64() || k.Int64() < 1 || k.Int64() > 8 {
				return c08NotFollowed + "the octet count is neither a counting loop, a bit-length formula nor a choice of constants 1..8; its form is not read"
			}
			ctx := fi.CtxEdge(p.Block().Preds[i], p.Block())
			pf := ctx.Lin(param)
			lo := new(big.Int).Lsh(big.NewInt(1), uint(8*(k.Int64()-1)))
			hi := new(big.Int).Sub(new(big.Int).Lsh(big.NewInt(1), uint(8*k.Int64())), big.NewInt(1))
			if k.Int64() > 1 && !ctx.Prove(lin.GE(pf, lin.KB(lo))) {
				return fmt.Sprintf("%d octets are chosen for lengths not proved >= %s: a superfluous leading zero octet", k.Int64(), lo)
			}
			if !ctx.Prove(lin.LE(pf, lin.KB(hi))) {
				return fmt.Sprintf("%d octets are chosen for lengths not proved <= %s: the leading octets are lost", k.Int64(), hi)
			}
		}
		return ""
	}
	return walk(np)
}

// gssHeader: 0x60, length octets for exactly what follows, then the two DER blobs.
func (c *c08) gssHeader(fname string) {
	const rule = "R5.gss-header"
	name := c08SPNEGO + "." + fname
	fn := c.P.Func(c08SPNEGO, "", fname)
	if fn == nil || fn.Blocks == nil {
		c.R.Undecided(rule, name, "-", "anchor function not found")
		return
	}
	c.guard(rule, name, c.pos(fn.Pos()), func() {
		r := c.R
		st := codec.NewStreamer(fn, c.P.InModule)
		rets := st.Returns()
		if len(rets) != 1 {
			c.notDecided(rule, name, c.pos(fn.Pos()), fmt.Sprintf("%d success returns; the token is read off exactly one", len(rets)))
			return
		}
		ps := st.Stream(rets[0])
		r.Extra["layout "+fname] = codec.RenderPieces(ps)
		for _, p := range ps {
			if p.Kind == "unknown" {
				c.notDecided(rule, name, c.ipos(p.At), "the token cannot be read off: "+p.Why)
				return
			}
		}
		tag, okc := c08PkgConst(c.P, c08SPNEGO, "GSS_API_SPNEGO")
		if !okc || tag.Int64() != 0x60 {
			r.Fail(rule, name, c.pos(fn.Pos()), "constant GSS_API_SPNEGO is not 0x60 ([APPLICATION 0] constructed)")
			return
		}
		n := len(ps)
		if n >= 1 && (ps[0].Kind == "const" || ps[0].Kind == "zero" || ps[0].Kind == "byte" || ps[0].Kind == "int") && !(ps[0].Kind == "const" && len(ps[0].Const) >= 1 && ps[0].Const[0] == 0x60) {
			// observed: the first octet is a constant other than 0x60
			if ps[0].Kind != "byte" {
				r.Fail(rule, name, c.pos(fn.Pos()), "the token does not start with the 0x60 application tag: "+codec.RenderPieces(ps))
				return
			}
		}
		if n < 4 || ps[0].Kind != "const" || len(ps[0].Const) != 1 || ps[0].Const[0] != 0x60 || ps[n-2].Kind != "bytes" || ps[n-1].Kind != "bytes" {
			c.notDecided(rule, name, c.pos(fn.Pos()), "the token is not read off as 0x60, length octets (short | long), SPNEGO OID, inner token: "+codec.RenderPieces(ps))
			return
		}
		z := codec.NewSym()
		T := z.LenOfIn(ps[n-2].Src, ps[n-2].Frame).Add(z.LenOfIn(ps[n-1].Src, ps[n-1].Frame))
		encLen := c.P.Func(c08SPNEGO, "", "encodeLength")

		// The length octets, as alternatives with the program points at which
		// each is chosen. Three shapes are read:
		//   (A) a join of {byte(T)} and {0x80|n, encodeLength(T)};
		//   (B) a join of {} and {0x80|n} followed on both paths by encodeLength(T)
		//       (whose own short form is the single octet byte(T), see R5.encode-length);
		//   (C) the result of an in-module helper whose returns are those alternatives.
		type lenCase struct {
			pieces []*codec.Piece
			ctxs   []func() *prove.Ctx // contexts in which the case is taken, most specific first
			at     ssa.Instruction
		}
		var cases []lenCase
		mid := ps[1 : n-2]
		edgeCtx := func(a codec.Alt) func() *prove.Ctx {
			return func() *prove.Ctx { return c.w.Info(a.Pred.Parent()).CtxEdge(a.Pred, a.Join) }
		}
		atCtx := func(in ssa.Instruction) func() *prove.Ctx {
			return func() *prove.Ctx { return c.w.Info(in.Parent()).CtxBefore(in) }
		}
		switch {
		case len(mid) == 1 && mid[0].Kind == "alt" && len(mid[0].Alts) == 2:
			for _, a := range mid[0].Alts {
				lc := lenCase{pieces: a.Pieces, at: mid[0].At}
				if len(a.Pieces) > 0 && a.Pieces[0].At != nil {
					lc.ctxs = append(lc.ctxs, atCtx(a.Pieces[0].At))
				}
				if a.Pred != nil {
					lc.ctxs = append(lc.ctxs, edgeCtx(a))
				}
				cases = append(cases, lc)
			}
		case len(mid) == 2 && mid[0].Kind == "alt" && len(mid[0].Alts) == 2 && mid[1].Kind == "bytes":
			for _, a := range mid[0].Alts {
				lc := lenCase{pieces: append(append([]*codec.Piece(nil), a.Pieces...), mid[1]), at: mid[0].At}
				if len(a.Pieces) > 0 && a.Pieces[0].At != nil {
					lc.ctxs = append(lc.ctxs, atCtx(a.Pieces[0].At))
				}
				if a.Pred != nil {
					lc.ctxs = append(lc.ctxs, edgeCtx(a))
				}
				cases = append(cases, lc)
			}
		case len(mid) == 1 && mid[0].Kind == "bytes" && mid[0].Callee != nil && mid[0].Callee != encLen:
			call, _ := mid[0].Src.(*ssa.Call)
			if ex, isEx := mid[0].Src.(*ssa.Extract); isEx {
				call, _ = ex.Tuple.(*ssa.Call)
			}
			if call != nil {
				if alts, rets, ok := st.CalleeReturns(call, mid[0].Frame); ok {
					for i, a := range alts {
						cases = append(cases, lenCase{pieces: a, ctxs: []func() *prove.Ctx{atCtx(rets[i])}, at: rets[i]})
					}
				}
			}
		}
		if len(cases) != 2 {
			c.notDecided(rule, name, c.pos(fn.Pos()), "the length octets between the tag and the OID are not read off as a short and a long alternative: "+codec.RenderPieces(ps))
			return
		}
		for _, lc := range cases {
			for _, p := range lc.pieces {
				if p.Kind == "unknown" {
					c.notDecided(rule, name, c.ipos(p.At), "the length octets cannot be read off: "+p.Why)
					return
				}
			}
		}
		// lengthOf: the integer whose DER encoding piece p carries, as an SSA value
		// of the function the piece was read in (so that E1 can bound it there).
		encArg := func(p *codec.Piece) (ssa.Value, *ssa.Call) {
			call, f := c08StaticCall(p.Src)
			if p.Kind != "bytes" || call == nil || f == nil || f != encLen {
				return nil, nil
			}
			return call.Common().Args[0], call
		}
		proveIn := func(lc lenCase, v ssa.Value, goal func(f lin.Form) lin.Con) bool {
			for _, mk := range lc.ctxs {
				ctx := mk()
				if ctx.Prove(goal(ctx.Lin(v))) {
					return true
				}
			}
			return false
		}
		var short, long *lenCase
		for i := range cases {
			switch len(cases[i].pieces) {
			case 1:
				short = &cases[i]
			case 2:
				long = &cases[i]
			}
		}
		if short == nil || long == nil {
			c.notDecided(rule, name, c.ipos(cases[0].at), "the length octets are not read off as a one-octet form and a marker+octets form: "+codec.RenderPieces(mid))
			return
		}
		// short form: the single octet byte(T), written directly or by encodeLength
		sv := short.pieces[0]
		var sval ssa.Value
		if arg, _ := encArg(sv); arg != nil {
			sval = arg
		} else if sv.Kind == "byte" {
			sval = c08Strip(sv.Val)
		}
		if sval == nil && sv.Kind != "const" && sv.Kind != "zero" {
			c.notDecided(rule, name, c.ipos(sv.At), "the short-form octet is "+sv.String()+", whose value is not read off")
			return
		}
		if sval != nil {
			if op := c08OpaqueTerm(z, z.OfIn(sval, sv.Frame)); op != "" && !z.OfIn(sval, sv.Frame).Equal(T) {
				c.notDecided(rule, name, c.ipos(sv.At), "the short-form octet is "+z.String(z.OfIn(sval, sv.Frame))+": "+op+" is not resolved to lengths of what follows")
				return
			}
		}
		if sval == nil || !z.OfIn(sval, sv.Frame).Equal(T) {
			got := sv.String()
			if sval != nil {
				got = z.String(z.OfIn(sval, sv.Frame))
			}
			r.Fail(rule, name, c.ipos(sv.At), fmt.Sprintf("the short-form octet is %s, not the combined length %s of what follows", got, z.String(T)))
			return
		}
		if !proveIn(*short, sval, func(f lin.Form) lin.Con { return lin.LE(f, lin.K(127)) }) {
			if esc := c.flowsOut(c08Strip(sval), c08FlowOpts{validators: true, lengths: true}); esc != "" {
				c.notDecided(rule, name, c.ipos(sv.At), "the short form is used for lengths not proved < 128 from the tests read, but "+esc+", which may establish the bound")
				return
			}
			r.Fail(rule, name, c.ipos(sv.At), "the short form is used for lengths not proved < 128")
			return
		}
		// long form
		mv, lb := long.pieces[0], long.pieces[1]
		larg, call := encArg(lb)
		if larg == nil {
			if lb.Kind == "bytes" || lb.Kind == "nested" || lb.Kind == "alt" {
				c.notDecided(rule, name, c.ipos(lb.At), "the long-form octets are "+lb.String()+", not directly the result of encodeLength; their producer is not followed")
			} else {
				r.Fail(rule, name, c.ipos(lb.At), "the long-form octets are not produced by encodeLength")
			}
			return
		}
		if op := c08OpaqueTerm(z, z.OfIn(larg, lb.Frame)); op != "" && !z.OfIn(larg, lb.Frame).Equal(T) {
			c.notDecided(rule, name, c.ipos(call), "encodeLength is applied to "+z.String(z.OfIn(larg, lb.Frame))+": "+op+" is not resolved to lengths of what follows")
			return
		}
		if !z.OfIn(larg, lb.Frame).Equal(T) {
			r.Fail(rule, name, c.ipos(call), fmt.Sprintf("encodeLength is applied to %s, not to the combined length %s of what follows", z.String(z.OfIn(larg, lb.Frame)), z.String(T)))
			return
		}
		okMarker := false
		if mv.Kind == "byte" {
			if b, isB := c08Strip(mv.Val).(*ssa.BinOp); isB && (b.Op == token.OR || b.Op == token.ADD) {
				x, k := b.X, b.Y
				if _, isK := c08ConstInt(x); isK {
					x, k = k, x
				}
				if kv, isK := c08ConstInt(k); isK && kv.Int64() == 0x80 && z.OfIn(x, mv.Frame).Equal(z.LenOfIn(lb.Src, lb.Frame)) {
					okMarker = true
				}
			}
		}
		if !okMarker && mv.Kind != "byte" && mv.Kind != "const" && mv.Kind != "zero" {
			c.notDecided(rule, name, c.ipos(mv.At), "the long-form marker is "+mv.String()+", whose value is not read off")
			return
		}
		if !okMarker {
			r.Fail(rule, name, c.ipos(mv.At), "the long-form marker is not 0x80 | len(length octets)")
			return
		}
		if !proveIn(*long, larg, func(f lin.Form) lin.Con { return lin.GE(f, lin.K(128)) }) {
			if esc := c.flowsOut(c08Strip(larg), c08FlowOpts{validators: true, lengths: true, ignore: func(f *ssa.Function) bool { return f == encLen }}); esc != "" {
				c.notDecided(rule, name, c.ipos(mv.At), "the long form is used for lengths not proved >= 128 from the tests read, but "+esc+", which may establish the bound")
				return
			}
			r.Fail(rule, name, c.ipos(mv.At), "the long form is used for lengths not proved >= 128")
			return
		}
		how := "0x60; T<128 ⇒ byte(T) else 0x80|n, encodeLength(T)"
		if _, viaEnc := encArg(sv); viaEnc != nil {
			how = "0x60; T>=128 ⇒ 0x80|n; encodeLength(T) (one octet byte(T) when T<128)"
		}
		r.OK(rule, name, c.pos(fn.Pos()), how+"; then the OID and the token, T = "+z.String(T))
	})
}

// c08Contents says where an entry parser hands the GSS-API contents to the DER
// parser: in function g (the parser itself or a helper it delegates the header
// to), whose parameter gdata is the token, the contents start at one of the
// offsets offs (each valid on the paths through its block); the tag check must
// dominate every anchor.
type c08Contents struct {
	g       *ssa.Function
	gdata   *ssa.Parameter
	offs    []ssa.Value
	blocks  []*ssa.BasicBlock
	anchors []ssa.Instruction
	at      ssa.Instruction
	via     string
}

// c08ErrChecked: the error result of call is tested and block use is reached
// only when it is nil.
func c08ErrChecked(call *ssa.Call, use *ssa.BasicBlock) bool {
	if call.Referrers() == nil {
		return false
	}
	for _, r := range *call.Referrers() {
		ex, ok := r.(*ssa.Extract)
		if !ok || !types.Identical(ex.Type(), types.Universe.Lookup("error").Type()) || ex.Referrers() == nil {
			continue
		}
		for _, rr := range *ex.Referrers() {
			cmp, ok := rr.(*ssa.BinOp)
			if !ok || (cmp.Op != token.NEQ && cmp.Op != token.EQL) || cmp.Referrers() == nil {
				continue
			}
			other := cmp.Y
			if other == ssa.Value(ex) {
				other = cmp.X
			}
			if k, isK := other.(*ssa.Const); !isK || k.Value != nil {
				continue
			}
			for _, u := range *cmp.Referrers() {
				iff, ok := u.(*ssa.If)
				if !ok {
					continue
				}
				pass := iff.Block().Succs[0]
				if cmp.Op == token.NEQ {
					pass = iff.Block().Succs[1]
				}
				if len(pass.Preds) == 1 && (pass == use || pass.Dominates(use)) {
					return true
				}
			}
		}
	}
	return false
}

// c08SuccessReturns: the returns of f whose last result is the nil error.
func c08SuccessReturns(f *ssa.Function) []*ssa.Return {
	var out []*ssa.Return
	for _, b := range f.Blocks {
		ret, ok := b.Instrs[len(b.Instrs)-1].(*ssa.Return)
		if !ok || len(ret.Results) < 2 {
			continue
		}
		if k, isK := ret.Results[len(ret.Results)-1].(*ssa.Const); isK && k.Value == nil {
			out = append(out, ret)
		}
	}
	return out
}

func (c *c08) argIndex(call *ssa.Call, v ssa.Value) (*ssa.Function, *ssa.Parameter) {
	f := call.Common().StaticCallee()
	if f == nil || f.Blocks == nil || !c.P.InModule(f) {
		return nil, nil
	}
	for i, a := range call.Common().Args {
		if (a == v || c08Is(a, v)) && i < len(f.Params) {
			return f, f.Params[i]
		}
	}
	return nil, nil
}

// locateContents finds the first asn1.Unmarshal applied to a tail of data, in fn
// or in a helper (up to two levels) that fn hands the token to.
func (c *c08) locateContents(fn *ssa.Function, data *ssa.Parameter, depth int) (*c08Contents, string) {
	var ucall *ssa.Call
	var delegate *ssa.Call // first in-module call receiving data before any Unmarshal
	for _, b := range fn.DomPreorder() {
		for _, in := range b.Instrs {
			call, f := c08StaticCall(c08ValueOf(in))
			if call == nil || ucall != nil {
				continue
			}
			if f != nil && f.String() == "encoding/asn1.Unmarshal" {
				ucall = call
				continue
			}
			if h, _ := c.argIndex(call, data); h != nil && delegate == nil {
				delegate = call
			}
		}
	}
	if ucall != nil {
		arg := ucall.Common().Args[0]
		// (1) asn1.Unmarshal(data[off:], …)
		if sl, ok := arg.(*ssa.Slice); ok && c08Is(sl.X, data) && sl.Low != nil && sl.High == nil && sl.Max == nil {
			// (1a) off computed by a helper: off, err := headerLen(data)
			low := c08Strip(sl.Low)
			if ex, isEx := low.(*ssa.Extract); isEx && ex.Index == 0 {
				if hc, isC := ex.Tuple.(*ssa.Call); isC {
					if h, hp := c.argIndex(hc, data); h != nil && depth < 2 {
						if !c08ErrChecked(hc, ucall.Block()) {
							return nil, "the offset returned by " + h.Name() + " is used without its error being checked"
						}
						ct := &c08Contents{g: h, gdata: hp, at: ucall, via: " (offset computed by helper " + h.Name() + ")"}
						for _, ret := range c08SuccessReturns(h) {
							ct.offs = append(ct.offs, ret.Results[0])
							ct.blocks = append(ct.blocks, ret.Block())
							ct.anchors = append(ct.anchors, ret)
						}
						if len(ct.offs) == 0 {
							return nil, "helper " + h.Name() + " has no success return"
						}
						return ct, ""
					}
				}
			}
			return &c08Contents{g: fn, gdata: data, offs: []ssa.Value{sl.Low}, blocks: []*ssa.BasicBlock{sl.Block()}, anchors: []ssa.Instruction{ucall}, at: ucall}, ""
		}
		// (2) asn1.Unmarshal(contents, …) with contents, err := helper(data)
		if ex, isEx := arg.(*ssa.Extract); isEx && ex.Index == 0 {
			if hc, isC := ex.Tuple.(*ssa.Call); isC {
				if h, hp := c.argIndex(hc, data); h != nil && depth < 2 {
					if !c08ErrChecked(hc, ucall.Block()) {
						return nil, "the contents returned by " + h.Name() + " are parsed without its error being checked"
					}
					ct := &c08Contents{g: h, gdata: hp, at: ucall, via: " (contents cut by helper " + h.Name() + ")"}
					for _, ret := range c08SuccessReturns(h) {
						sl, ok := ret.Results[0].(*ssa.Slice)
						if !ok || !c08Is(sl.X, hp) || sl.Low == nil || sl.High != nil || sl.Max != nil {
							return nil, "helper " + h.Name() + " does not return data[offset:]"
						}
						ct.offs = append(ct.offs, sl.Low)
						ct.blocks = append(ct.blocks, ret.Block())
						ct.anchors = append(ct.anchors, ret)
					}
					if len(ct.offs) == 0 {
						return nil, "helper " + h.Name() + " has no success return"
					}
					return ct, ""
				}
			}
		}
	}
	// (3) the whole header handling, DER call included, lives in a helper
	if delegate != nil && depth < 2 {
		h, hp := c.argIndex(delegate, data)
		if ct, why := c.locateContents(h, hp, depth+1); ct != nil {
			if ct.via == "" {
				ct.via = " (in helper " + h.Name() + ")"
			}
			return ct, why
		}
	}
	return nil, "no asn1.Unmarshal(data[offset:], …) found"
}

// gssSkip: the parsers check the tag and skip exactly the length octets.
func (c *c08) gssSkip(fname string) {
	name := c08SPNEGO + "." + fname
	fn := c.P.Func(c08SPNEGO, "", fname)
	if fn == nil || fn.Blocks == nil || len(fn.Params) == 0 {
		c.R.Undecided("R5.gss-skip", name, "-", "anchor function not found")
		return
	}
	c.guard("R5.gss-skip", name, c.pos(fn.Pos()), func() {
		r := c.R
		entry := fn.Params[0]
		if fn.Signature.Recv() != nil {
			entry = fn.Params[1]
		}
		ct, why := c.locateContents(fn, entry, 0)
		if ct == nil {
			c.notDecided("R5.gss-skip", name, c.pos(fn.Pos()), why)
			c.notDecided("R5.gss-tag", name, c.pos(fn.Pos()), "the place where the contents are handed to the DER parser was not located (see R5.gss-skip)")
			return
		}
		g, data := ct.g, ct.gdata
		byteAt := func(v ssa.Value, i int64) bool {
			u, ok := c08Strip(v).(*ssa.UnOp)
			if !ok || u.Op != token.MUL {
				return false
			}
			ia, ok := u.X.(*ssa.IndexAddr)
			if !ok || !c08Is(ia.X, data) {
				return false
			}
			k, isK := c08ConstInt(ia.Index)
			return isK && k.IsInt64() && k.Int64() == i
		}
		// tag check
		{
			tag, okc := c08PkgConst(c.P, c08SPNEGO, "GSS_API_SPNEGO")
			ok := false
			if okc && tag.Int64() == 0x60 {
				for _, b := range g.Blocks {
					iff, isIf := b.Instrs[len(b.Instrs)-1].(*ssa.If)
					if !isIf {
						continue
					}
					cmp, isB := iff.Cond.(*ssa.BinOp)
					if !isB || (cmp.Op != token.EQL && cmp.Op != token.NEQ) {
						continue
					}
					x, k := cmp.X, cmp.Y
					if _, isK := c08ConstInt(x); isK {
						x, k = k, x
					}
					kv, isK := c08ConstInt(k)
					if !isK || kv.Cmp(tag) != 0 || !byteAt(x, 0) {
						continue
					}
					pass := b.Succs[0]
					if cmp.Op == token.NEQ {
						pass = b.Succs[1]
					}
					all := len(pass.Preds) == 1
					for _, an := range ct.anchors {
						if !(pass == an.Block() || pass.Dominates(an.Block())) {
							all = false
						}
					}
					if all {
						ok = true
					}
				}
			}
			if ok {
				r.OK("R5.gss-tag", name, c.ipos(ct.at), "data[0] == GSS_API_SPNEGO (0x60) on every path to the DER parser"+ct.via)
			} else if esc := c.skipEscapes(fn, entry, ct); esc != "" {
				c.notDecided("R5.gss-tag", name, c.ipos(ct.at), "no comparison of data[0] with 0x60 guards the DER parser in the code read, but "+esc+", which may perform it")
			} else {
				r.Fail("R5.gss-tag", name, c.ipos(ct.at), "the 0x60 application tag at data[0] is not checked before the contents are parsed")
			}
		}
		// skip
		mask80 := big.NewInt(0x80)
		test := func(truth bool) func(ssa.Value) (bool, bool) {
			return func(cond ssa.Value) (bool, bool) {
				x, set, ok := c08MaskTest(cond, mask80)
				if ok && byteAt(x, 1) {
					return true, set == truth
				}
				// the same test as an order comparison of the octet: b >= 0x80, b > 0x7F
				// (long form), b < 0x80, b <= 0x7F (short form), also commuted
				cmp, isB := cond.(*ssa.BinOp)
				if !isB {
					return false, false
				}
				op, bx, k := cmp.Op, cmp.X, cmp.Y
				if _, isK := c08ConstInt(bx); isK {
					bx, k = k, bx
					switch op {
					case token.LSS:
						op = token.GTR
					case token.LEQ:
						op = token.GEQ
					case token.GTR:
						op = token.LSS
					case token.GEQ:
						op = token.LEQ
					}
				}
				kv, isK := c08ConstInt(k)
				if !isK || !kv.IsInt64() || !byteAt(bx, 1) {
					return false, false
				}
				switch {
				case op == token.GEQ && kv.Int64() == 0x80, op == token.GTR && kv.Int64() == 0x7F:
					return true, truth
				case op == token.LSS && kv.Int64() == 0x80, op == token.LEQ && kv.Int64() == 0x7F:
					return true, !truth
				}
				return false, false
			}
		}
		vLong := c08NewBranchView(g, test(true))
		vShort := c08NewBranchView(g, test(false))
		if vLong.tests == 0 {
			if esc := c.skipEscapes(fn, entry, ct); esc != "" {
				c.notDecided("R5.gss-skip", name, c.ipos(ct.at), "no branch of the code read tests data[1] & 0x80, but "+esc+", which may decide the length form")
				return
			}
			// the offset may be computed from data[1] in a form that is not a branch on the marker bit
			for _, off := range ct.offs {
				if _, isK := c08ConstInt(off); !isK {
					if _, isPhi := off.(*ssa.Phi); !isPhi {
						c.notDecided("R5.gss-skip", name, c.ipos(ct.at), "no branch tests data[1] & 0x80 and the contents offset "+off.Name()+" is computed in a form that is not followed")
						return
					}
				}
			}
			r.Fail("R5.gss-skip", name, c.ipos(ct.at), "no branch tests data[1] & 0x80 (long-form marker)")
			return
		}
		z := codec.NewSym()
		nShort, nLong := 0, 0
		for i, off := range ct.offs {
			if !vShort.live[ct.blocks[i]] {
				continue
			}
			for _, l := range vShort.leaves(off) {
				nShort++
				if _, isK := c08ConstInt(l); !isK {
					if op := c08OpaqueTerm(z, z.Of(l)); op != "" {
						c.notDecided("R5.gss-skip", name, c.ipos(ct.at), "with the short form the contents are taken from offset "+z.String(z.Of(l))+", which is not resolved to a constant")
						return
					}
				}
				if k, isK := c08ConstInt(l); !isK || k.Int64() != 2 {
					r.Fail("R5.gss-skip", name, c.ipos(ct.at), "with the short form (data[1] < 0x80) the contents are taken from offset "+z.String(z.Of(l))+", not 2")
					return
				}
			}
		}
		for i, off := range ct.offs {
			if !vLong.live[ct.blocks[i]] {
				continue
			}
			for _, l := range vLong.leaves(off) {
				nLong++
				f := z.Of(l)
				ts := f.Terms()
				ok := false
				if len(ts) == 1 && f.C.IsInt64() && f.C.Int64() == 2 && f.Coef[ts[0]].IsInt64() && f.Coef[ts[0]].Int64() == 1 {
					v, isLen := z.TermValue(ts[0])
					if b, isB := v.(*ssa.BinOp); isB && !isLen && b.Op == token.AND {
						x, k := b.X, b.Y
						if _, isK := c08ConstInt(x); isK {
							x, k = k, x
						}
						if kv, isK := c08ConstInt(k); isK && kv.Int64() == 0x7F && byteAt(x, 1) {
							ok = true
						}
					}
				}
				if !ok && !c.skipFormObserved(z, f, byteAt) {
					c.notDecided("R5.gss-skip", name, c.ipos(ct.at), "with the long form the contents are taken from offset "+z.String(f)+", which is not resolved to a constant plus bits of data[1]")
					return
				}
				if !ok {
					r.Fail("R5.gss-skip", name, c.ipos(ct.at), "with the long form the contents are taken from offset "+z.String(f)+", not 2 + (data[1] & 0x7F) — the structural mirror of 0x80|n followed by n length octets")
					return
				}
			}
		}
		if nShort == 0 || nLong == 0 {
			c.notDecided("R5.gss-skip", name, c.ipos(ct.at), "the contents offset is not read off for both the short and the long length form")
			return
		}
		r.OK("R5.gss-skip", name, c.ipos(ct.at), "contents start at 2 (short form) or 2 + (data[1] & 0x7F) (long form)"+ct.via)
	})
}

func c08ValueOf(in ssa.Instruction) ssa.Value {
	v, _ := in.(ssa.Value)
	return v
}

// skipEscapes: the token (in the entry parser or in the helper the header
// handling was located in) is handed to code that can reject it and that was
// not read.
func (c *c08) skipEscapes(fn *ssa.Function, entry *ssa.Parameter, ct *c08Contents) string {
	ign := func(f *ssa.Function) bool { return f == ct.g }
	if why := c.flowsOut(entry, c08FlowOpts{validators: true, ignore: ign}); why != "" {
		return why
	}
	if ct.g != fn {
		return c.flowsOut(ct.gdata, c08FlowOpts{validators: true, ignore: ign})
	}
	return ""
}

// skipFormObserved: every term of the offset form is data[1] or data[1] & mask
// (so a mismatch with 2 + (data[1] & 0x7F) is something seen, not something
// unresolved).
func (c *c08) skipFormObserved(z *codec.Sym, f lin.Form, byteAt func(ssa.Value, int64) bool) bool {
	for _, t := range f.Terms() {
		v, isLen := z.TermValue(t)
		if isLen {
			return false
		}
		if byteAt(v, 1) {
			continue
		}
		b, isB := v.(*ssa.BinOp)
		if !isB || b.Op != token.AND {
			return false
		}
		x, k := b.X, b.Y
		if _, isK := c08ConstInt(x); isK {
			x, k = k, x
		}
		if _, isK := c08ConstInt(k); !isK || !byteAt(x, 1) {
			return false
		}
	}
	return true
}

// c08Is: v is value `want` of the analysed function — directly, or as a load of
// the single-assignment cell a captured parameter is spilled to.
func c08Is(v, want ssa.Value) bool {
	if v == want {
		return true
	}
	r, fr := codec.Resolve(v, nil)
	return fr == nil && r == want
}
