package rules

import (
	"fmt"
	"go/token"
	"math/big"

	"golang.org/x/tools/go/ssa"

	"manticheck/internal/codec"
	"manticheck/internal/lin"
)

// R5: GSS-API / SPNEGO framing (X.690 definite-length octets).

func (c *c08) spnego() {
	c.encodeLength()
	for _, f := range []string{"CreateNegTokenInit", "CreateNegTokenResp"} {
		c.gssHeader(f)
	}
	for _, f := range []string{"ParseNegTokenResp", "ExtractNTLMToken"} {
		c.gssSkip(f)
	}
}

// loopPhi describes a loop-carried integer: value at iteration k.
type c08LoopPhi struct {
	phi    *ssa.Phi
	init   ssa.Value
	stride *big.Int // additive: value(k) = init + stride·k (nil if not additive)
	shift  int64    // shifting: value(k) = init >> (shift·k) (0 if not shifting)
}

func c08LoopPhis(z *codec.Sym, hb *ssa.BasicBlock) map[*ssa.Phi]*c08LoopPhi {
	out := map[*ssa.Phi]*c08LoopPhi{}
	for _, in := range hb.Instrs {
		p, ok := in.(*ssa.Phi)
		if !ok {
			break
		}
		lp := &c08LoopPhi{phi: p}
		okAll := true
		n := 0
		for i, pr := range hb.Preds {
			e := p.Edges[i]
			if !hb.Dominates(pr) {
				if lp.init != nil {
					okAll = false
				}
				lp.init = e
				continue
			}
			n++
			// additive?
			d := z.Of(e).Sub(z.Of(p))
			if k, isK := d.ConstVal(); isK {
				if lp.stride != nil && lp.stride.Cmp(k) != 0 || lp.shift != 0 {
					okAll = false
				}
				lp.stride = k
				continue
			}
			// shifting: φ >> K or φ / 2^K
			if b, isB := c08Strip(e).(*ssa.BinOp); isB && c08Strip(b.X) == ssa.Value(p) {
				if kv, isK := c08ConstInt(b.Y); isK && kv.IsInt64() {
					s := int64(0)
					if b.Op == token.SHR {
						s = kv.Int64()
					} else if b.Op == token.QUO && kv.Sign() > 0 && new(big.Int).And(kv, new(big.Int).Sub(kv, big.NewInt(1))).Sign() == 0 {
						s = int64(kv.BitLen() - 1)
					}
					if s > 0 && lp.stride == nil && (lp.shift == 0 || lp.shift == s) {
						lp.shift = s
						continue
					}
				}
			}
			okAll = false
		}
		if okAll && lp.init != nil && n > 0 {
			out[p] = lp
		}
	}
	return out
}

// contForm: the loop continues (enters `body`) iff F >= 0; returns F.
func c08ContForm(z *codec.Sym, hb, body *ssa.BasicBlock) (lin.Form, bool) {
	iff, ok := hb.Instrs[len(hb.Instrs)-1].(*ssa.If)
	if !ok || len(hb.Succs) != 2 {
		return lin.Form{}, false
	}
	cmp, ok := iff.Cond.(*ssa.BinOp)
	if !ok {
		return lin.Form{}, false
	}
	a, b := z.Of(cmp.X), z.Of(cmp.Y)
	var f lin.Form
	switch cmp.Op {
	case token.GEQ:
		f = a.Sub(b)
	case token.GTR:
		f = a.Sub(b).AddK(-1)
	case token.LEQ:
		f = b.Sub(a)
	case token.LSS:
		f = b.Sub(a).AddK(-1)
	default:
		return lin.Form{}, false
	}
	if hb.Succs[0] == body {
		return f, true
	}
	if hb.Succs[1] == body {
		return f.Neg().AddK(-1), true
	}
	return lin.Form{}, false
}

func c08HeaderOf(b *ssa.BasicBlock) *ssa.BasicBlock {
	for x := b; x != nil; x = x.Idom() {
		for _, p := range x.Preds {
			if x.Dominates(p) && (p == b || x.Dominates(b)) {
				// b must be inside the loop: it reaches the back-edge source
				if c08Reaches(b, p) {
					return x
				}
			}
		}
	}
	return nil
}

func c08Reaches(from, to *ssa.BasicBlock) bool {
	seen := map[*ssa.BasicBlock]bool{}
	work := []*ssa.BasicBlock{from}
	for len(work) > 0 {
		b := work[len(work)-1]
		work = work[:len(work)-1]
		if b == to {
			return true
		}
		if seen[b] {
			continue
		}
		seen[b] = true
		work = append(work, b.Succs...)
	}
	return false
}

func (c *c08) encodeLength() {
	const rule = "R5.encode-length"
	name := c08SPNEGO + ".encodeLength"
	fn := c.P.Func(c08SPNEGO, "", "encodeLength")
	if fn == nil || fn.Blocks == nil || len(fn.Params) != 1 {
		c.R.Undecided(rule, name, "-", "anchor function not found")
		return
	}
	c.guard(rule, name, c.pos(fn.Pos()), func() { c.encodeLength1(fn, name) })
}

func (c *c08) encodeLength1(fn *ssa.Function, name string) {
	const rule = "R5.encode-length"
	r := c.R
	param := fn.Params[0]
	fi := c.w.Info(fn)
	z := codec.NewSym()
	st := codec.NewStreamer(fn, c.P.InModule)
	var short, long *ssa.Return
	var mk *ssa.MakeSlice
	for _, b := range fn.Blocks {
		ret, ok := b.Instrs[len(b.Instrs)-1].(*ssa.Return)
		if !ok || len(ret.Results) != 1 {
			continue
		}
		if m, isMk := ret.Results[0].(*ssa.MakeSlice); isMk {
			if long != nil {
				r.Undecided(rule, name+": long form", c.ipos(ret), "more than one return of a made buffer")
				return
			}
			long, mk = ret, m
			continue
		}
		if short != nil {
			r.Undecided(rule, name+": short form", c.ipos(ret), "more than two returns")
			return
		}
		short = ret
	}
	// (a) short form
	{
		construct := name + ": short form"
		switch {
		case short == nil:
			r.Fail(rule, construct, c.pos(fn.Pos()), "no return of a single length octet")
		default:
			ps := st.Stream(short.Results[0])
			ctx := fi.CtxBefore(short)
			pf := ctx.Lin(param)
			switch {
			case len(ps) != 1 || ps[0].Kind != "byte" || c08Strip(ps[0].Val) != ssa.Value(param):
				r.Fail(rule, construct, c.ipos(short), "the short form is "+codec.RenderPieces(ps)+", not the single octet byte(length)")
			case !ctx.Prove(lin.LE(pf, lin.K(127))):
				r.Fail(rule, construct, c.ipos(short), "the single-octet form is returned for lengths that are not proved < 128 (bit 8 would read as the long-form marker)")
			default:
				r.OK(rule, construct, c.ipos(short), "length < 128 ⇒ one octet byte(length)")
			}
		}
	}
	if long == nil {
		r.Fail(rule, name+": octet count", c.pos(fn.Pos()), "no long-form return (a made buffer) found")
		return
	}
	{
		ctx := fi.CtxBefore(long)
		if !ctx.Prove(lin.GE(ctx.Lin(param), lin.K(128))) {
			r.Fail(rule, name+": octet count", c.ipos(long), "the long form is returned for lengths not proved >= 128")
			return
		}
	}
	// (b) octet count: N = number of iterations of `for t := length; t > 0; t >>= 8 { N++ }`
	N := z.Of(mk.Len)
	{
		construct := name + ": octet count"
		np, isPhi := c08Strip(mk.Len).(*ssa.Phi)
		if !isPhi {
			r.Undecided(rule, construct, c.ipos(mk), "the buffer length is not a loop counter: "+z.String(N))
			return
		}
		hb := np.Block()
		lps := c08LoopPhis(z, hb)
		cnt := lps[np]
		var tmp *c08LoopPhi
		for _, lp := range lps {
			if lp.shift == 8 && c08Strip(lp.init) == ssa.Value(param) {
				tmp = lp
			}
		}
		var body *ssa.BasicBlock
		for _, s := range hb.Succs {
			if hb.Dominates(s) && c08Reaches(s, hb) {
				body = s
			}
		}
		okc := false
		why := ""
		switch {
		case cnt == nil || cnt.stride == nil || cnt.stride.Cmp(big.NewInt(1)) != 0:
			why = "the octet counter does not advance by 1 per iteration"
		case !func() bool { k, isK := c08ConstInt(cnt.init); return isK && k.Sign() == 0 }():
			why = "the octet counter does not start at 0"
		case tmp == nil:
			why = "no loop variable starts at `length` and is shifted right by 8 per iteration"
		case body == nil:
			why = "loop body not found"
		default:
			// continue iff tmp > 0  (tmp - 1 >= 0), or tmp != 0 for the non-negative value
			f, ok := c08ContForm(z, hb, body)
			if ok && f.Equal(z.Of(tmp.phi).AddK(-1)) {
				okc = true
			} else if iff, isIf := hb.Instrs[len(hb.Instrs)-1].(*ssa.If); isIf {
				if cmp, isB := iff.Cond.(*ssa.BinOp); isB && (cmp.Op == token.NEQ || cmp.Op == token.EQL) {
					x, k := cmp.X, cmp.Y
					if _, isK := c08ConstInt(x); isK {
						x, k = k, x
					}
					kv, isK := c08ConstInt(k)
					cont := hb.Succs[0]
					if cmp.Op == token.EQL {
						cont = hb.Succs[1]
					}
					if isK && kv.Sign() == 0 && c08Strip(x) == ssa.Value(tmp.phi) && cont == body {
						okc = true
					}
				}
			}
			if !okc {
				why = "the counting loop does not run exactly while the shifted length is > 0"
			}
		}
		if !okc {
			r.Fail(rule, construct, c.ipos(np), why+" (the long form must use ceil(bitlen(length)/8) octets)")
			return
		}
		r.OK(rule, construct, c.ipos(np), "N = number of 8-bit shifts until length becomes 0 = ceil(bitlen/8)")
	}
	// (c) fill: result[N-1-k] = byte(length >> 8k), k = 0..N-1
	{
		construct := name + ": octet order"
		var stores []*ssa.Store
		var ias []*ssa.IndexAddr
		if mk.Referrers() != nil {
			for _, ref := range *mk.Referrers() {
				switch x := ref.(type) {
				case *ssa.IndexAddr:
					for _, rr := range *x.Referrers() {
						if s, ok := rr.(*ssa.Store); ok && s.Addr == ssa.Value(x) {
							stores = append(stores, s)
							ias = append(ias, x)
						}
					}
				case *ssa.Return, *ssa.DebugRef:
				default:
					if call, ok := ref.(*ssa.Call); ok {
						if _, isLen := c08IsBuiltin(call, "len"); isLen {
							continue
						}
					}
					r.Undecided(rule, construct, c.ipos(ref), fmt.Sprintf("the length buffer is used by %T", ref))
					return
				}
			}
		}
		if len(stores) != 1 {
			r.Undecided(rule, construct, c.ipos(mk), fmt.Sprintf("%d element stores into the length buffer (expected one, in a loop)", len(stores)))
			return
		}
		stI, ia := stores[0], ias[0]
		hb := c08HeaderOf(stI.Block())
		if hb == nil {
			r.Undecided(rule, construct, c.ipos(stI), "the element store is not inside a loop")
			return
		}
		lps := c08LoopPhis(z, hb)
		k := z.Fresh("k")
		subst := func(f lin.Form) (lin.Form, bool) {
			for _, t := range f.Terms() {
				v, isLen := z.TermValue(t)
				p, isPhi := v.(*ssa.Phi)
				if !isPhi || isLen || p.Block() != hb {
					continue
				}
				lp := lps[p]
				if lp == nil || lp.stride == nil {
					return f, false
				}
				f = codec.Subst(f, t, z.Of(lp.init).Add(k.Scale(lp.stride)))
			}
			return f, true
		}
		idx, ok := subst(z.Of(ia.Index))
		if !ok {
			r.Undecided(rule, construct, c.ipos(ia), "the index is not an affine function of the iteration count")
			return
		}
		// value: byte(X [& 0xFF]) with X = φ (>> 8 per iteration from length) or length >> s(k)
		v := stI.Val
		if cv, isC := v.(*ssa.Convert); isC {
			v = cv.X
		}
		if b, isB := v.(*ssa.BinOp); isB && b.Op == token.AND {
			if m, isK := c08ConstInt(b.Y); isK && m.Int64() == 0xFF {
				v = b.X
			} else if m, isK := c08ConstInt(b.X); isK && m.Int64() == 0xFF {
				v = b.Y
			}
		}
		var shift lin.Form
		okShift := false
		if p, isPhi := v.(*ssa.Phi); isPhi && lps[p] != nil && lps[p].shift > 0 && c08Strip(lps[p].init) == ssa.Value(fn.Params[0]) {
			shift, okShift = k.ScaleI(lps[p].shift), true
		} else if b, isB := v.(*ssa.BinOp); isB && b.Op == token.SHR && c08Strip(b.X) == ssa.Value(fn.Params[0]) {
			shift, okShift = subst(z.Of(b.Y))
		} else if c08Strip(v) == ssa.Value(fn.Params[0]) {
			shift, okShift = lin.K(0), true
		}
		if !okShift {
			r.Undecided(rule, construct, c.ipos(stI), "the octet stored is not byte(length >> 8·k)")
			return
		}
		var body *ssa.BasicBlock
		for _, s := range hb.Succs {
			if hb.Dominates(s) && c08Reaches(s, hb) && (s == stI.Block() || s.Dominates(stI.Block())) {
				body = s
			}
		}
		cont, okCont := lin.Form{}, false
		if body != nil {
			if f, ok := c08ContForm(z, hb, body); ok {
				cont, okCont = subst(f)
			}
		}
		wantIdx := N.AddK(-1).Sub(k)
		switch {
		case !shift.Equal(k.ScaleI(8)):
			r.Fail(rule, construct, c.ipos(stI), "iteration k stores byte(length >> "+z.String(shift)+"); successive octets must be 8 bits apart (>> 8·k)")
		case !idx.Equal(wantIdx):
			r.Fail(rule, construct, c.ipos(stI), fmt.Sprintf("iteration k stores bits 8k..8k+7 of the length at index %s; DER long form is big-endian: they belong at index %s (most significant octet first)", z.String(idx), z.String(wantIdx)))
		case !okCont || !cont.Equal(wantIdx):
			r.Fail(rule, construct, c.ipos(stI), "the fill loop does not run for exactly k = 0 .. N-1 (continue condition: "+z.String(cont)+" >= 0)")
		default:
			r.OK(rule, construct, c.ipos(stI), "result[N-1-k] = byte(length >> 8k) for k = 0..N-1: most significant octet first")
		}
	}
}

// gssHeader: 0x60, length octets for exactly what follows, then the two DER blobs.
func (c *c08) gssHeader(fname string) {
	const rule = "R5.gss-header"
	name := c08SPNEGO + "." + fname
	fn := c.P.Func(c08SPNEGO, "", fname)
	if fn == nil || fn.Blocks == nil {
		c.R.Undecided(rule, name, "-", "anchor function not found")
		return
	}
	c.guard(rule, name, c.pos(fn.Pos()), func() {
		r := c.R
		st := codec.NewStreamer(fn, c.P.InModule)
		rets := st.Returns()
		if len(rets) != 1 {
			r.Undecided(rule, name, c.pos(fn.Pos()), fmt.Sprintf("%d success returns", len(rets)))
			return
		}
		ps := st.Stream(rets[0])
		r.Extra["layout "+fname] = codec.RenderPieces(ps)
		for _, p := range ps {
			if p.Kind == "unknown" {
				r.Undecided(rule, name, c.ipos(p.At), "the token cannot be read off: "+p.Why)
				return
			}
		}
		tag, okc := c08PkgConst(c.P, c08SPNEGO, "GSS_API_SPNEGO")
		if !okc || tag.Int64() != 0x60 {
			r.Fail(rule, name, c.pos(fn.Pos()), "constant GSS_API_SPNEGO is not 0x60 ([APPLICATION 0] constructed)")
			return
		}
		if len(ps) != 4 || ps[0].Kind != "const" || len(ps[0].Const) != 1 || ps[0].Const[0] != 0x60 || ps[1].Kind != "alt" || len(ps[1].Alts) != 2 || ps[2].Kind != "bytes" || ps[3].Kind != "bytes" {
			r.Fail(rule, name, c.pos(fn.Pos()), "the token is not 0x60, length octets (short | long), SPNEGO OID, inner token: "+codec.RenderPieces(ps))
			return
		}
		z := codec.NewSym()
		T := z.LenOf(ps[2].Src).Add(z.LenOf(ps[3].Src))
		fi := c.w.Info(fn)
		encLen := c.P.Func(c08SPNEGO, "", "encodeLength")
		var short, long []*codec.Piece
		for _, a := range ps[1].Alts {
			switch len(a.Pieces) {
			case 1:
				short = a.Pieces
			case 2:
				long = a.Pieces
			}
		}
		if short == nil || long == nil {
			r.Fail(rule, name, c.ipos(ps[1].At), "the length octets are not a one-octet form and a marker+octets form: "+ps[1].String())
			return
		}
		// short form
		sv := short[0]
		if sv.Kind != "byte" || !z.Of(sv.Val).Equal(T) {
			r.Fail(rule, name, c.ipos(sv.At), fmt.Sprintf("the short-form octet is %s, not the combined length %s of what follows", z.String(z.Of(sv.Val)), z.String(T)))
			return
		}
		if ctx := fi.CtxBefore(sv.At); !ctx.Prove(lin.LE(ctx.Lin(c08Strip(sv.Val)), lin.K(127))) {
			r.Fail(rule, name, c.ipos(sv.At), "the short form is used for lengths not proved < 128")
			return
		}
		// long form
		mv, lb := long[0], long[1]
		call, f := c08StaticCall(lb.Src)
		if lb.Kind != "bytes" || call == nil || f == nil || f != encLen {
			r.Fail(rule, name, c.ipos(lb.At), "the long-form octets are not produced by encodeLength")
			return
		}
		if !z.Of(call.Common().Args[0]).Equal(T) {
			r.Fail(rule, name, c.ipos(call), fmt.Sprintf("encodeLength is applied to %s, not to the combined length %s of what follows", z.String(z.Of(call.Common().Args[0])), z.String(T)))
			return
		}
		okMarker := false
		if mv.Kind == "byte" {
			if b, isB := c08Strip(mv.Val).(*ssa.BinOp); isB && (b.Op == token.OR || b.Op == token.ADD) {
				x, k := b.X, b.Y
				if _, isK := c08ConstInt(x); isK {
					x, k = k, x
				}
				if kv, isK := c08ConstInt(k); isK && kv.Int64() == 0x80 && z.Of(x).Equal(z.LenOf(lb.Src)) {
					okMarker = true
				}
			}
		}
		if !okMarker {
			r.Fail(rule, name, c.ipos(mv.At), "the long-form marker is not 0x80 | len(length octets)")
			return
		}
		if ctx := fi.CtxBefore(mv.At); !ctx.Prove(lin.GE(ctx.Lin(call.Common().Args[0]), lin.K(128))) {
			r.Fail(rule, name, c.ipos(mv.At), "the long form is used for lengths not proved >= 128")
			return
		}
		r.OK(rule, name, c.pos(fn.Pos()), "0x60; T<128 ⇒ byte(T) else 0x80|n, encodeLength(T); then the OID and the token, T = "+z.String(T))
	})
}

// gssSkip: the parsers check the tag and skip exactly the length octets.
func (c *c08) gssSkip(fname string) {
	name := c08SPNEGO + "." + fname
	fn := c.P.Func(c08SPNEGO, "", fname)
	if fn == nil || fn.Blocks == nil || len(fn.Params) == 0 {
		c.R.Undecided("R5.gss-skip", name, "-", "anchor function not found")
		return
	}
	c.guard("R5.gss-skip", name, c.pos(fn.Pos()), func() {
		r := c.R
		data := fn.Params[len(fn.Params)-1]
		if fn.Signature.Recv() != nil {
			data = fn.Params[1]
		} else {
			data = fn.Params[0]
		}
		// the first asn1.Unmarshal applied to a tail of the parameter
		var sl *ssa.Slice
		var ucall *ssa.Call
		for _, b := range fn.DomPreorder() {
			for _, in := range b.Instrs {
				call, f := c08StaticCall(c08ValueOf(in))
				if call == nil || f == nil || f.String() != "encoding/asn1.Unmarshal" || sl != nil {
					continue
				}
				if s, ok := call.Common().Args[0].(*ssa.Slice); ok && s.X == ssa.Value(data) {
					sl, ucall = s, call
				}
			}
		}
		if sl == nil || sl.Low == nil || sl.High != nil {
			r.Undecided("R5.gss-skip", name, c.pos(fn.Pos()), "no asn1.Unmarshal(data[offset:], …) found")
			return
		}
		byteAt := func(v ssa.Value, i int64) bool {
			u, ok := c08Strip(v).(*ssa.UnOp)
			if !ok || u.Op != token.MUL {
				return false
			}
			ia, ok := u.X.(*ssa.IndexAddr)
			if !ok || ia.X != ssa.Value(data) {
				return false
			}
			k, isK := c08ConstInt(ia.Index)
			return isK && k.IsInt64() && k.Int64() == i
		}
		// tag check
		{
			tag, okc := c08PkgConst(c.P, c08SPNEGO, "GSS_API_SPNEGO")
			ok := false
			if okc && tag.Int64() == 0x60 {
				for _, b := range fn.Blocks {
					iff, isIf := b.Instrs[len(b.Instrs)-1].(*ssa.If)
					if !isIf {
						continue
					}
					cmp, isB := iff.Cond.(*ssa.BinOp)
					if !isB || (cmp.Op != token.EQL && cmp.Op != token.NEQ) {
						continue
					}
					x, k := cmp.X, cmp.Y
					if _, isK := c08ConstInt(x); isK {
						x, k = k, x
					}
					kv, isK := c08ConstInt(k)
					if !isK || kv.Cmp(tag) != 0 || !byteAt(x, 0) {
						continue
					}
					pass := b.Succs[0]
					if cmp.Op == token.NEQ {
						pass = b.Succs[1]
					}
					if len(pass.Preds) == 1 && (pass == ucall.Block() || pass.Dominates(ucall.Block())) {
						ok = true
					}
				}
			}
			if ok {
				r.OK("R5.gss-tag", name, c.ipos(ucall), "data[0] == GSS_API_SPNEGO (0x60) on every path to the DER parser")
			} else {
				r.Fail("R5.gss-tag", name, c.ipos(ucall), "the 0x60 application tag at data[0] is not checked before the contents are parsed")
			}
		}
		// skip
		mask80 := big.NewInt(0x80)
		test := func(truth bool) func(ssa.Value) (bool, bool) {
			return func(cond ssa.Value) (bool, bool) {
				x, set, ok := c08MaskTest(cond, mask80)
				if !ok || !byteAt(x, 1) {
					return false, false
				}
				return true, set == truth
			}
		}
		vLong := c08NewBranchView(fn, test(true))
		vShort := c08NewBranchView(fn, test(false))
		if vLong.tests == 0 {
			r.Fail("R5.gss-skip", name, c.ipos(sl), "no branch tests data[1] & 0x80 (long-form marker)")
			return
		}
		z := codec.NewSym()
		for _, l := range vShort.leaves(sl.Low) {
			if k, isK := c08ConstInt(l); !isK || k.Int64() != 2 {
				r.Fail("R5.gss-skip", name, c.ipos(sl), "with the short form (data[1] < 0x80) the contents are taken from offset "+z.String(z.Of(l))+", not 2")
				return
			}
		}
		for _, l := range vLong.leaves(sl.Low) {
			f := z.Of(l)
			ts := f.Terms()
			ok := false
			if len(ts) == 1 && f.C.IsInt64() && f.C.Int64() == 2 && f.Coef[ts[0]].IsInt64() && f.Coef[ts[0]].Int64() == 1 {
				v, isLen := z.TermValue(ts[0])
				if b, isB := v.(*ssa.BinOp); isB && !isLen && b.Op == token.AND {
					x, k := b.X, b.Y
					if _, isK := c08ConstInt(x); isK {
						x, k = k, x
					}
					if kv, isK := c08ConstInt(k); isK && kv.Int64() == 0x7F && byteAt(x, 1) {
						ok = true
					}
				}
			}
			if !ok {
				r.Fail("R5.gss-skip", name, c.ipos(sl), "with the long form the contents are taken from offset "+z.String(f)+", not 2 + (data[1] & 0x7F) — the structural mirror of 0x80|n followed by n length octets")
				return
			}
		}
		r.OK("R5.gss-skip", name, c.ipos(sl), "contents start at 2 (short form) or 2 + (data[1] & 0x7F) (long form)")
	})
}

func c08ValueOf(in ssa.Instruction) ssa.Value {
	v, _ := in.(ssa.Value)
	return v
}
