package rules

import (
	"fmt"
	"os"
)

// Debugging aid for the C17/C18 bindings: MANTICHECK_LIST=1 prints every obligation
// (rule | construct | status | reason) after the run. It changes no verdict.
func init() {
	for _, id := range []string{"C17", "C18"} {
		ck := registry[id]
		if ck == nil {
			continue
		}
		orig := ck.Run
		ck.Run = func(c *Ctx) {
			orig(c)
			if os.Getenv("MANTICHECK_LIST") == "" {
				return
			}
			for _, o := range c.R.Obls {
				fmt.Printf("OBL %s | %s | %s | %s\n", o.Rule, o.Construct, o.Status.String(), o.Reason)
			}
			for _, n := range c.R.Notes {
				fmt.Printf("NOTE %s\n", n)
			}
		}
	}
}
