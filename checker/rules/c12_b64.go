package rules

import (
	"fmt"
	"go/constant"
	"go/token"
	"go/types"
	"sort"
	"strings"

	"golang.org/x/tools/go/ssa"
)

// C12 extension `R2b-base64-padding` (added after an independently seeded
// change — the re-padding of GPPPDecryptBase64 "tidied" into appending a single
// '=' for both remainders 2 and 3 — was missed). Group Policy files store
// cpassword WITHOUT base64 padding; base64.StdEncoding.DecodeString accepts
// only input whose length is a multiple of 4. Necessary condition decided
// here: on every path of GPPPDecryptBase64, whatever len(encStr) mod 4 is, the
// string handed to StdEncoding.DecodeString has a length ≡ 0 (mod 4).
//
// Method: abstract interpretation of the function's SSA over the finite domain
// Z/4 for string lengths (a string is known by its length residue, and by its
// exact length when it is a constant; an integer is exact, or "some length with
// residue r"). An unknown residue is case-split four ways the first time it is
// inspected, so the analysis enumerates the at most 4^k residue assignments of
// the k strings involved; branch conditions over exact integers are evaluated,
// others fork. Nothing is executed and no input is generated.
//
// If the function decodes with another encoding (RawStdEncoding …) or hands
// DecodeString a value this domain cannot describe, the rule reports that it
// does not decide it (no alarm).

func init() {
	ck := registry["C12"]
	if ck == nil {
		return
	}
	orig := ck.Run
	ck.Run = func(c *Ctx) {
		orig(c)
		c12Base64Padding(c)
		c.R.Explanation += " Extension R2b BASE64-PADDING: for every residue of len(encStr) mod 4, the string GPPPDecryptBase64 hands to base64.StdEncoding.DecodeString has length ≡ 0 (mod 4) (abstract interpretation of the SSA over Z/4 string-length residues with lazy case split)."
	}
}

type b64Cell struct{ res int } // -1: not yet assigned

type b64Val struct {
	kind  byte // 'k' exact int, 'r' int ≡ res (mod 4), 's' string, 'b' bool, 'u' unknown
	n     int64
	res   int
	cell  *b64Cell // strings with a not-yet-split residue
	exact int64    // strings: exact length or -1
	b     bool
	what  string
}

type b64State struct {
	env   map[ssa.Value]b64Val
	cells map[*b64Cell]int
	names map[*b64Cell]string
}

func (s *b64State) clone() *b64State {
	n := &b64State{env: map[ssa.Value]b64Val{}, cells: map[*b64Cell]int{}, names: s.names}
	for k, v := range s.env {
		n.env[k] = v
	}
	for k, v := range s.cells {
		n.cells[k] = v
	}
	return n
}

type b64Outcome struct {
	assume string
	res    int // residue of the decoded string, -1 unknown
	at     ssa.Instruction
	why    string
}

func c12Base64Padding(c *Ctx) {
	const rule = "R2b-base64-padding"
	p, r := c.P, c.R
	fn := p.Func("crypto/gppp", "", "GPPPDecryptBase64")
	if fn == nil || fn.Blocks == nil {
		r.Undecided(rule, "GPPPDecryptBase64", "", "not found")
		return
	}
	name := "crypto/gppp.GPPPDecryptBase64"
	pos := p.Rel(fn.Pos())
	var outcomes []b64Outcome
	notDecided := ""
	paths := 0

	mod4 := func(x int64) int { return int(((x % 4) + 4) % 4) }

	var run func(st *b64State, b *ssa.BasicBlock, pred *ssa.BasicBlock, idx int, steps int)
	// residue of a string value, forking when its cell is unassigned
	strRes := func(st *b64State, v b64Val) (int, *b64Cell) {
		if v.cell != nil {
			if rr, ok := st.cells[v.cell]; ok && rr >= 0 {
				return rr, nil
			}
			return -1, v.cell
		}
		return v.res, nil
	}
	describe := func(st *b64State) string {
		var parts []string
		for cell, rr := range st.cells {
			if rr >= 0 {
				parts = append(parts, fmt.Sprintf("len(%s)%%4 == %d", st.names[cell], rr))
			}
		}
		sort.Strings(parts)
		return strings.Join(parts, ", ")
	}
	run = func(st *b64State, b *ssa.BasicBlock, pred *ssa.BasicBlock, idx int, steps int) {
		if notDecided != "" {
			return
		}
		if steps > 4000 || paths > 1024 {
			notDecided = "path/step budget exhausted"
			return
		}
		get := func(v ssa.Value) b64Val {
			if k, ok := v.(*ssa.Const); ok {
				if k.Value == nil {
					return b64Val{kind: 'u'}
				}
				switch k.Value.Kind() {
				case constant.Int:
					if n, ok := constant.Int64Val(k.Value); ok {
						return b64Val{kind: 'k', n: n}
					}
				case constant.String:
					s := constant.StringVal(k.Value)
					return b64Val{kind: 's', res: len(s) % 4, exact: int64(len(s))}
				case constant.Bool:
					return b64Val{kind: 'b', b: constant.BoolVal(k.Value)}
				}
				return b64Val{kind: 'u'}
			}
			if x, ok := st.env[v]; ok {
				return x
			}
			return b64Val{kind: 'u'}
		}
		for i := idx; i < len(b.Instrs); i++ {
			in := b.Instrs[i]
			steps++
			switch x := in.(type) {
			case *ssa.Phi:
				for k, pr := range b.Preds {
					if pr == pred {
						st.env[x] = get(x.Edges[k])
					}
				}
			case *ssa.DebugRef:
			case *ssa.BinOp:
				a, bb := get(x.X), get(x.Y)
				out := b64Val{kind: 'u'}
				switch {
				case a.kind == 's' && bb.kind == 's' && x.Op == token.ADD:
					ra, ca := strRes(st, a)
					if ca != nil {
						for rr := 0; rr < 4; rr++ {
							ns := st.clone()
							ns.cells[ca] = rr
							run(ns, b, pred, i, steps)
						}
						return
					}
					rb, cb := strRes(st, bb)
					if cb != nil {
						for rr := 0; rr < 4; rr++ {
							ns := st.clone()
							ns.cells[cb] = rr
							run(ns, b, pred, i, steps)
						}
						return
					}
					out = b64Val{kind: 's', res: (ra + rb) % 4, exact: -1}
					if a.exact >= 0 && bb.exact >= 0 {
						out.exact = a.exact + bb.exact
					}
				case a.kind == 'k' && bb.kind == 'k':
					switch x.Op {
					case token.ADD:
						out = b64Val{kind: 'k', n: a.n + bb.n}
					case token.SUB:
						out = b64Val{kind: 'k', n: a.n - bb.n}
					case token.MUL:
						out = b64Val{kind: 'k', n: a.n * bb.n}
					case token.REM:
						if bb.n != 0 {
							out = b64Val{kind: 'k', n: a.n % bb.n}
						}
					case token.QUO:
						if bb.n != 0 {
							out = b64Val{kind: 'k', n: a.n / bb.n}
						}
					case token.EQL:
						out = b64Val{kind: 'b', b: a.n == bb.n}
					case token.NEQ:
						out = b64Val{kind: 'b', b: a.n != bb.n}
					case token.LSS:
						out = b64Val{kind: 'b', b: a.n < bb.n}
					case token.LEQ:
						out = b64Val{kind: 'b', b: a.n <= bb.n}
					case token.GTR:
						out = b64Val{kind: 'b', b: a.n > bb.n}
					case token.GEQ:
						out = b64Val{kind: 'b', b: a.n >= bb.n}
					}
				case a.kind == 'r' && bb.kind == 'k':
					switch x.Op {
					case token.ADD:
						out = b64Val{kind: 'r', res: mod4(int64(a.res) + bb.n)}
					case token.SUB:
						out = b64Val{kind: 'r', res: mod4(int64(a.res) - bb.n)}
					case token.REM:
						if bb.n == 4 {
							out = b64Val{kind: 'k', n: int64(a.res)}
						} else if bb.n == 2 {
							out = b64Val{kind: 'k', n: int64(a.res % 2)}
						}
					case token.AND:
						if bb.n == 3 {
							out = b64Val{kind: 'k', n: int64(a.res)}
						}
					}
				case a.kind == 'k' && bb.kind == 'r':
					switch x.Op {
					case token.ADD:
						out = b64Val{kind: 'r', res: mod4(a.n + int64(bb.res))}
					case token.SUB:
						out = b64Val{kind: 'r', res: mod4(a.n - int64(bb.res))}
					}
				case a.kind == 'r' && bb.kind == 'r':
					switch x.Op {
					case token.ADD:
						out = b64Val{kind: 'r', res: (a.res + bb.res) % 4}
					case token.SUB:
						out = b64Val{kind: 'r', res: mod4(int64(a.res - bb.res))}
					}
				}
				st.env[x] = out
			case *ssa.Convert:
				st.env[x] = get(x.X)
			case *ssa.ChangeType:
				st.env[x] = get(x.X)
			case *ssa.Slice:
				s := get(x.X)
				out := b64Val{kind: 'u'}
				if s.kind == 's' {
					lo := b64Val{kind: 'k', n: 0}
					if x.Low != nil {
						lo = get(x.Low)
					}
					var hi b64Val
					if x.High != nil {
						hi = get(x.High)
					} else {
						rs, cs := strRes(st, s)
						if cs != nil {
							for rr := 0; rr < 4; rr++ {
								ns := st.clone()
								ns.cells[cs] = rr
								run(ns, b, pred, i, steps)
							}
							return
						}
						hi = b64Val{kind: 'r', res: rs}
					}
					toRes := func(v b64Val) (int, bool) {
						switch v.kind {
						case 'k':
							return mod4(v.n), true
						case 'r':
							return v.res, true
						}
						return 0, false
					}
					rl, okl := toRes(lo)
					rh, okh := toRes(hi)
					if okl && okh {
						out = b64Val{kind: 's', res: mod4(int64(rh - rl)), exact: -1}
						if lo.kind == 'k' && hi.kind == 'k' {
							out.exact = hi.n - lo.n
						}
					}
				}
				st.env[x] = out
			case *ssa.Call:
				cc := x.Common()
				if bi, ok := cc.Value.(*ssa.Builtin); ok {
					if bi.Name() == "len" {
						s := get(cc.Args[0])
						if s.kind == 's' {
							if s.exact >= 0 {
								st.env[x] = b64Val{kind: 'k', n: s.exact}
								continue
							}
							rs, cs := strRes(st, s)
							if cs != nil {
								for rr := 0; rr < 4; rr++ {
									ns := st.clone()
									ns.cells[cs] = rr
									run(ns, b, pred, i, steps)
								}
								return
							}
							st.env[x] = b64Val{kind: 'r', res: rs}
							continue
						}
					}
					st.env[x] = b64Val{kind: 'u'}
					continue
				}
				f := cc.StaticCallee()
				fname := ""
				if f != nil {
					fname = f.String()
				}
				switch fname {
				case "strings.Repeat":
					s, k := get(cc.Args[0]), get(cc.Args[1])
					if s.kind == 's' && s.exact >= 0 && k.kind == 'k' && k.n >= 0 {
						st.env[x] = b64Val{kind: 's', res: mod4(s.exact * k.n), exact: s.exact * k.n}
					} else {
						st.env[x] = b64Val{kind: 'u'}
					}
				case "(*encoding/base64.Encoding).DecodeString":
					paths++
					std := false
					if u, ok := cc.Args[0].(*ssa.UnOp); ok {
						if g, ok := u.X.(*ssa.Global); ok && g.Pkg != nil && g.Pkg.Pkg.Path() == "encoding/base64" && g.Name() == "StdEncoding" {
							std = true
						}
					}
					if !std {
						notDecided = "the decoder is not base64.StdEncoding"
						return
					}
					s := get(cc.Args[1])
					if s.kind != 's' {
						notDecided = "the string handed to DecodeString is computed in a way the length-residue domain does not describe"
						return
					}
					rs, cs := strRes(st, s)
					if cs != nil {
						for rr := 0; rr < 4; rr++ {
							ns := st.clone()
							ns.cells[cs] = rr
							run(ns, b, pred, i, steps)
						}
						return
					}
					outcomes = append(outcomes, b64Outcome{assume: describe(st), res: rs, at: x})
					return // the rest of the path is not about padding
				default:
					// any other call: strings returned are new unknown-residue strings
					if bt, ok := x.Type().Underlying().(*types.Basic); ok && bt.Info()&types.IsString != 0 {
						cell := &b64Cell{}
						st.names[cell] = "result of " + fname
						st.cells[cell] = -1
						st.env[x] = b64Val{kind: 's', cell: cell, exact: -1}
					} else {
						st.env[x] = b64Val{kind: 'u'}
					}
				}
			case *ssa.If:
				cv := get(x.Cond)
				if cv.kind == 'b' {
					k := 1
					if cv.b {
						k = 0
					}
					run(st, b.Succs[k], b, 0, steps)
				} else {
					run(st.clone(), b.Succs[0], b, 0, steps)
					run(st.clone(), b.Succs[1], b, 0, steps)
				}
				return
			case *ssa.Jump:
				run(st, b.Succs[0], b, 0, steps)
				return
			case *ssa.Return, *ssa.Panic:
				return
			default:
				if v, ok := in.(ssa.Value); ok {
					st.env[v] = b64Val{kind: 'u'}
				}
			}
		}
	}
	st := &b64State{env: map[ssa.Value]b64Val{}, cells: map[*b64Cell]int{}, names: map[*b64Cell]string{}}
	for _, q := range fn.Params {
		if bt, ok := q.Type().Underlying().(*types.Basic); ok && bt.Info()&types.IsString != 0 {
			cell := &b64Cell{}
			st.names[cell] = q.Name()
			st.cells[cell] = -1
			st.env[q] = b64Val{kind: 's', cell: cell, exact: -1}
		}
	}
	run(st, fn.Blocks[0], nil, 0, 0)

	construct := name + ": string handed to StdEncoding.DecodeString has length ≡ 0 (mod 4)"
	if notDecided != "" || len(outcomes) == 0 {
		if notDecided == "" {
			notDecided = "no call of base64 DecodeString reached"
		}
		r.OK(rule, construct, pos, "NOT DECIDED — "+notDecided+"; no claim is made about the re-padding")
		r.Note("R2b-base64-padding: not decided (%s)", notDecided)
		r.Extra["R2b_decided"] = false
		return
	}
	r.Extra["R2b_decided"] = true
	r.Extra["R2b_paths"] = len(outcomes)
	byAssume := map[string][]b64Outcome{}
	var keys []string
	for _, o := range outcomes {
		if _, ok := byAssume[o.assume]; !ok {
			keys = append(keys, o.assume)
		}
		byAssume[o.assume] = append(byAssume[o.assume], o)
	}
	sort.Strings(keys)
	for _, k := range keys {
		cons := construct + " when " + k
		bad := ""
		for _, o := range byAssume[k] {
			if o.res != 0 {
				bad = fmt.Sprintf("the decoded string has length ≡ %d (mod 4)", o.res)
			}
		}
		at := p.Rel(byAssume[k][0].at.Pos())
		if bad == "" {
			r.OK(rule, cons, at, "length ≡ 0 (mod 4) on every path")
		} else {
			r.Fail(rule, cons, at, bad+": base64.StdEncoding rejects it (\"illegal base64 data\"), so an unpadded cpassword of that length cannot be decrypted")
		}
	}
	r.Floor(rule, 4)
}
