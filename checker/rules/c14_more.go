package rules

import (
	"fmt"
	"go/constant"
	"go/token"
	"go/types"
	"sort"
	"strings"

	"golang.org/x/tools/go/ssa"

	"manticheck/internal/absint"
	"manticheck/internal/codec"
	"manticheck/internal/lanes"
	"manticheck/internal/lin"
	"manticheck/internal/prove"
	"manticheck/internal/report"
)

// ---------------------------------------------------------------------------
// R3: CustomKeyInformation size thresholds

type c14Use struct {
	field string
	off   int64
	w     int64 // -1: open-ended (rest of the blob)
	block *ssa.BasicBlock
	pos   token.Pos
	posS  string // rendered position (rows built by the lane interpretation)
	T     int    // weakest proven lower bound on the size at the use
}

// sizeBound: the largest T in [0,64] such that the facts at block b entail
// size >= T, where size is any of the given forms.
func c14SizeBound(cx *prove.Ctx, forms []lin.Form) int {
	best := 0
	for _, f := range forms {
		for t := 64; t > best; t-- {
			if cx.Prove(lin.GE(f, lin.K(int64(t)))) {
				best = t
				break
			}
		}
	}
	return best
}

func (x *c14) ckiThresholds() {
	p, r := x.P, x.R
	from, to := x.fn(c14PkgKey, "CustomKeyInformation", "FromBytes"), x.fn(c14PkgKey, "CustomKeyInformation", "ToBytes")
	if from == nil || to == nil {
		r.Undecided("anchor", c14PkgKey+".(*CustomKeyInformation).FromBytes/ToBytes", "", "anchor function does not resolve")
		return
	}
	st, _ := c14Deref(from.Params[0].Type()).Underlying().(*types.Struct)
	sizeIdx := -1
	if st != nil {
		for i := 0; i < st.NumFields(); i++ {
			if st.Field(i).Name() == "RawBytesSize" {
				sizeIdx = i
			}
		}
	}
	if st == nil || sizeIdx < 0 {
		r.Undecided("anchor", c14PkgKey+".CustomKeyInformation.RawBytesSize", "", "field does not resolve")
		return
	}
	fname := func(i int) string { return st.Field(i).Name() }
	sizeLoads := func(fn *ssa.Function) []ssa.Value {
		var out []ssa.Value
		for _, b := range fn.Blocks {
			for _, instr := range b.Instrs {
				if ld, ok := instr.(*ssa.UnOp); ok && ld.Op == token.MUL {
					if fa, ok := ld.X.(*ssa.FieldAddr); ok && fa.X == ssa.Value(fn.Params[0]) && fa.Field == sizeIdx {
						out = append(out, ld)
					}
				}
			}
		}
		return out
	}

	// ---- decoder ----
	var blob *ssa.Parameter
	for _, q := range from.Params[1:] {
		if prove.IsByteSeq(q.Type()) {
			blob = q
		}
	}
	if blob == nil {
		r.Undecided(c14R3, c14PkgKey+".(*CustomKeyInformation).FromBytes: input parameter", p.Rel(from.Pos()), "no []byte parameter")
		return
	}
	// COMPLETENESS: the recogniser's tables list the reads, guards and appends it
	// FOUND in FromBytes/ToBytes themselves. When the interpretation does not
	// complete and the blob or the receiver flows into an in-module helper, a
	// closure or a function value (a predicate method, a cursor type …), those
	// tables are partial and what they "lack" is not an observation: the
	// recogniser's R3 verdicts are then recorded as NOT DECIDED.
	markR3 := len(r.Obls)
	var semR3 *c14CkiSem
	defer func() {
		if semR3 == nil || semR3.done {
			return
		}
		esc := c14ValueEscapes(blob, p.InModule)
		for _, q := range []*ssa.Parameter{from.Params[0], to.Params[0]} {
			if esc == "" {
				esc = c14ValueEscapes(q, p.InModule)
			}
		}
		if esc == "" {
			return // the recogniser saw every use of the blob and of the receiver
		}
		na := c14Na("%s", semR3.why)
		if na.hard() {
			return
		}
		for _, o := range r.Obls[markR3:] {
			if o.Rule != c14R3 || o.Status == report.Discharged {
				continue
			}
			o.Reason = c14NotDecided(r, o.Rule, o.Construct, "the tables are read off FromBytes/ToBytes themselves, but the blob or the receiver flows into "+esc+"; its verdict was: "+o.Reason, na)
			o.Status = report.Discharged
			o.StatusStr = o.Status.String()
		}
	}()
	fiD := x.w.Info(from)
	recvD := from.Params[0]
	var dec []c14Use
	destOf := func(v ssa.Value) (int, bool) {
		// follow a loaded byte / slice forward to the receiver field it ends up in
		seen := map[ssa.Value]bool{}
		var res []int
		var walk func(v ssa.Value, d int)
		walk = func(v ssa.Value, d int) {
			if seen[v] || d > 5 || v.Referrers() == nil {
				return
			}
			seen[v] = true
			for _, rr := range *v.Referrers() {
				switch y := rr.(type) {
				case *ssa.Store:
					if y.Val == v {
						if f, ok := c14TopField(y.Addr, recvD); ok {
							res = append(res, f)
						}
					}
				case *ssa.Convert, *ssa.ChangeType, *ssa.BinOp:
					walk(y.(ssa.Value), d+1)
				case *ssa.Call:
					cc := y.Common()
					if b, isB := cc.Value.(*ssa.Builtin); isB && b.Name() == "copy" && len(cc.Args) == 2 && cc.Args[1] == v {
						if ld, ok := cc.Args[0].(*ssa.UnOp); ok && ld.Op == token.MUL {
							if f, ok := c14TopField(ld.X, recvD); ok {
								res = append(res, f)
							}
						}
						continue
					}
					for _, a := range cc.Args {
						if a == v {
							continue
						}
						if _, isPtr := a.Type().Underlying().(*types.Pointer); isPtr {
							if f, ok := c14TopField(a, recvD); ok {
								res = append(res, f)
							}
						}
					}
				}
			}
		}
		walk(v, 0)
		if len(res) == 1 {
			return res[0], true
		}
		return 0, false
	}
	var unknownUses []string
	for _, rr := range *blob.Referrers() {
		switch y := rr.(type) {
		case *ssa.IndexAddr:
			k, isK := c14ConstInt(y.Index)
			for _, r2 := range *y.Referrers() {
				ld, ok := r2.(*ssa.UnOp)
				if !ok || ld.Op != token.MUL {
					continue
				}
				f, okF := destOf(ld)
				if !isK || !okF {
					unknownUses = append(unknownUses, "blob["+y.Index.Name()+"] at "+p.Rel(y.Pos()))
					continue
				}
				dec = append(dec, c14Use{field: fname(f), off: k, w: 1, block: ld.Block(), pos: ld.Pos()})
			}
		case *ssa.Slice:
			lo, loK, hi, hiK := c14SliceBounds(y)
			f, okF := destOf(y)
			if !loK || !okF || (y.High != nil && !hiK) {
				unknownUses = append(unknownUses, "a slice of blob at "+p.Rel(y.Pos()))
				continue
			}
			w := int64(-1)
			if y.High != nil {
				w = hi - lo
			}
			dec = append(dec, c14Use{field: fname(f), off: lo, w: w, block: y.Block(), pos: y.Pos()})
		}
	}
	for i := range dec {
		cx := fiD.CtxAt(dec[i].block)
		forms := []lin.Form{cx.LenOf(blob)}
		for _, l := range sizeLoads(from) {
			forms = append(forms, cx.Lin(l))
		}
		dec[i].T = c14SizeBound(cx, forms)
	}
	sort.Slice(dec, func(i, j int) bool { return dec[i].off < dec[j].off })

	// ---- encoder ----
	fiE := x.w.Info(to)
	recvE := to.Params[0]
	type encUse = c14EncUse
	var enc []encUse
	var pending []func() // Undecided reports of the shape recogniser, dropped when the lane interpretation decides
	// wire position of an append = length of the longest chain of appends its
	// base operand was built by (followed through φ nodes); block layout and
	// the way the guards are spelled do not matter
	depthMemo := map[ssa.Value]int{}
	var depth func(v ssa.Value, seen map[ssa.Value]bool) int
	depth = func(v ssa.Value, seen map[ssa.Value]bool) int {
		if d, ok := depthMemo[v]; ok {
			return d
		}
		if seen[v] {
			return 0
		}
		seen[v] = true
		d := 0
		switch y := v.(type) {
		case *ssa.Phi:
			for _, e := range y.Edges {
				if k := depth(e, seen); k > d {
					d = k
				}
			}
		case *ssa.Call:
			if bi, isB := y.Common().Value.(*ssa.Builtin); isB && bi.Name() == "append" {
				d = 1 + depth(y.Common().Args[0], seen)
			}
		}
		delete(seen, v)
		depthMemo[v] = d
		return d
	}
	for _, b := range to.Blocks {
		for k, instr := range b.Instrs {
			call, ok := instr.(*ssa.Call)
			if !ok {
				continue
			}
			bi, isB := call.Common().Value.(*ssa.Builtin)
			if !isB || bi.Name() != "append" || len(call.Common().Args) != 2 || !prove.IsByteSeq(call.Type()) {
				continue
			}
			arg := call.Common().Args[1]
			fs := c14RootFields(arg, recvE)
			delete(fs, sizeIdx)
			var f int
			switch len(fs) {
			case 1:
				for k := range fs {
					f = k
				}
			case 0:
				// constants chosen by a test of a receiver field (bool → 1/0)
				found := false
				for d := b; d != nil && !found; d = d.Idom() {
					id := d.Idom()
					if id == nil || len(d.Preds) != 1 {
						continue
					}
					if iff, ok := id.Instrs[len(id.Instrs)-1].(*ssa.If); ok {
						cf := c14RootFields(iff.Cond, recvE)
						delete(cf, sizeIdx)
						if len(cf) == 1 {
							for k := range cf {
								f = k
							}
							found = true
						}
					}
				}
				if !found {
					at := p.Rel(call.Pos())
					pending = append(pending, func() {
						r.Undecided(c14R3, c14PkgKey+".(*CustomKeyInformation).ToBytes: every appended chunk comes from one field", at, "an append whose operand does not derive from a receiver field")
					})
					continue
				}
			default:
				at := p.Rel(call.Pos())
				pending = append(pending, func() {
					r.Undecided(c14R3, c14PkgKey+".(*CustomKeyInformation).ToBytes: every appended chunk comes from one field", at, "an append whose operand mixes several receiver fields")
				})
				continue
			}
			w := int64(-1)
			if s, ok := arg.(*ssa.Slice); ok {
				if al, ok := s.X.(*ssa.Alloc); ok {
					if arr, ok := c14Deref(al.Type()).Underlying().(*types.Array); ok {
						w = arr.Len()
						if hi, isK := c14ConstInt(s.High); s.High != nil && isK {
							w = hi
						}
					}
				}
			}
			cx := fiE.CtxAt(b)
			var forms []lin.Form
			for _, l := range sizeLoads(to) {
				forms = append(forms, cx.Lin(l))
			}
			_ = k
			enc = append(enc, encUse{field: fname(f), w: w, pos: p.Rel(call.Pos()), T: c14SizeBound(cx, forms), ord: depth(call, map[ssa.Value]bool{})})
		}
	}
	sort.SliceStable(enc, func(i, j int) bool { return enc[i].ord < enc[j].ord })
	// merge the then/else alternatives of one field (SupportsNotification: 1 / 0)
	var encM []encUse
	for _, e := range enc {
		if n := len(encM); n > 0 && encM[n-1].field == e.field && encM[n-1].w == e.w && encM[n-1].T == e.T {
			continue
		}
		encM = append(encM, e)
	}
	enc = encM
	for i := range dec {
		dec[i].posS = p.Rel(dec[i].pos)
	}

	// The tables above come from the shape recogniser (reads of blob[const],
	// guards proven by E1 from the dominating branches, append chains). The
	// lane interpretation tabulates the same facts from the functions'
	// behaviour on every size 0..40 and, when it completes, is what is judged:
	// it does not depend on how the guards and copies are spelled.
	sem := x.semCki(from, to)
	semR3 = sem
	r.Extra["cki_tables_from"] = "shape recogniser (reads at constant offsets, E1 guards, append chains)"
	if sem.done {
		var sdt, set []string
		for _, d := range dec {
			sdt = append(sdt, fmt.Sprintf("%s@%d+%d>=%d", d.field, d.off, d.w, d.T))
		}
		for _, e := range enc {
			set = append(set, fmt.Sprintf("%s:%d>=%d", e.field, e.w, e.T))
		}
		r.Extra["cki_recogniser_tables"] = map[string]any{"decoder": sdt, "encoder": set, "unrecognised_reads": unknownUses}
		r.Extra["cki_tables_from"] = fmt.Sprintf("lane interpretation of FromBytes on symbolic blobs of 0..%d bytes and of ToBytes with RawBytesSize = 0..%d", c14CkiMax, c14CkiMax)
		dec, enc, unknownUses, pending = sem.dec, sem.enc, nil, nil
		cS := c14PkgKey + ".(*CustomKeyInformation): each field has one position, width and size threshold for every size 0.." + fmt.Sprint(c14CkiMax)
		if len(sem.bad) > 0 {
			r.Fail(c14R3, cS, p.Rel(from.Pos()), strings.Join(sem.bad, "; "))
		}
	} else {
		r.Note("C14 R3: lane interpretation of CustomKeyInformation not available (%s); the shape recogniser's tables are judged", sem.why)
	}
	for _, f := range pending {
		f()
	}

	// evidence
	var dt, et []string
	for _, d := range dec {
		w := fmt.Sprint(d.w)
		if d.w < 0 {
			w = "rest"
		}
		dt = append(dt, fmt.Sprintf("%s@%d+%s when size>=%d", d.field, d.off, w, d.T))
	}
	for _, e := range enc {
		w := fmt.Sprint(e.w)
		if e.w < 0 {
			w = "var"
		}
		et = append(et, fmt.Sprintf("%s:%s when size>=%d", e.field, w, e.T))
	}
	r.Extra["cki_decoder_table"] = dt
	r.Extra["cki_encoder_table"] = et
	if len(unknownUses) > 0 {
		r.Undecided(c14R3, c14PkgKey+".(*CustomKeyInformation).FromBytes: every read of the blob feeds one field at a constant offset", p.Rel(from.Pos()), strings.Join(unknownUses, "; "))
	}
	if len(dec) == 0 || len(enc) == 0 {
		r.Undecided(c14R3, c14PkgKey+".(*CustomKeyInformation): field tables", p.Rel(from.Pos()), "no decoded or encoded fields recognised")
		return
	}
	minDec := dec[0].T
	for _, d := range dec {
		if d.T < minDec {
			minDec = d.T
		}
	}
	if sem.done {
		minDec = sem.minDec
	}
	r.Extra["cki_minimum_accepted_size"] = minDec
	encBy := map[string]*encUse{}
	for i := range enc {
		if _, dup := encBy[enc[i].field]; !dup {
			encBy[enc[i].field] = &enc[i]
		}
	}
	seenF := map[string]bool{}
	for _, d := range dec {
		if seenF[d.field] {
			continue
		}
		seenF[d.field] = true
		end := d.off + d.w
		if d.w < 0 {
			end = d.off + 1
		}
		mandatory := end <= int64(minDec)
		cD := fmt.Sprintf("%s.CustomKeyInformation.%s: FromBytes decodes it exactly when size >= offset+width", c14PkgKey, d.field)
		switch {
		case mandatory && int64(d.T) >= end:
			r.OK(c14R3, cD, d.posS, fmt.Sprintf("mandatory field at blob[%d:%d]; blobs shorter than %d are refused", d.off, end, minDec))
		case int64(d.T) == end:
			r.OK(c14R3, cD, d.posS, fmt.Sprintf("blob[%d:%s] read under size >= %d", d.off, map[bool]string{true: "", false: fmt.Sprint(end)}[d.w < 0], d.T))
		case int64(d.T) < end:
			r.Fail(c14R3, cD, d.posS, fmt.Sprintf("blob[%d:%d] is read where only size >= %d is established (needs %d)", d.off, end, d.T, end))
		default:
			r.Fail(c14R3, cD, d.posS, fmt.Sprintf("the field ends at offset %d but is decoded only when size >= %d: a blob that holds it completely loses it", end, d.T))
		}
		cE := fmt.Sprintf("%s.CustomKeyInformation.%s: ToBytes emits it under the size condition under which FromBytes decodes it", c14PkgKey, d.field)
		e := encBy[d.field]
		switch {
		case e == nil:
			r.Fail(c14R3, cE, p.Rel(to.Pos()), "FromBytes decodes the field, ToBytes never emits it")
		case mandatory && e.T == 0:
			r.OK(c14R3, cE, e.pos, "mandatory field, emitted unconditionally")
		case mandatory:
			r.Fail(c14R3, cE, e.pos, fmt.Sprintf("FromBytes requires the field in every blob (it refuses blobs shorter than %d bytes) but ToBytes emits it only when RawBytesSize >= %d: a CustomKeyInformation that was not parsed from a blob at least that long serialises to something FromBytes rejects", minDec, e.T))
		case e.T == d.T:
			r.OK(c14R3, cE, e.pos, fmt.Sprintf("both sides: size >= %d", d.T))
		default:
			r.Fail(c14R3, cE, e.pos, fmt.Sprintf("FromBytes decodes the field when size >= %d, ToBytes emits it when RawBytesSize >= %d: parse→serialise of a %d-byte blob %s the field", d.T, e.T, d.T, map[bool]string{true: "drops", false: "adds"}[e.T > d.T]))
		}
	}
	for _, e := range enc {
		if !seenF[e.field] {
			r.Fail(c14R3, fmt.Sprintf("%s.CustomKeyInformation.%s: ToBytes emits it under the size condition under which FromBytes decodes it", c14PkgKey, e.field), e.pos, "ToBytes emits a field FromBytes never decodes")
		}
	}
	// order and widths
	cO := c14PkgKey + ".CustomKeyInformation: ToBytes emits the fields in FromBytes's offset order with the same widths"
	var dOrder, eOrder []string
	seenF = map[string]bool{}
	dW := map[string]int64{}
	for _, d := range dec {
		if !seenF[d.field] {
			seenF[d.field] = true
			dOrder = append(dOrder, d.field)
			dW[d.field] = d.w
		}
	}
	var wbad []string
	for _, e := range enc {
		eOrder = append(eOrder, e.field)
		if w, ok := dW[e.field]; ok && e.w >= 0 && w >= 0 && e.w != w {
			wbad = append(wbad, fmt.Sprintf("%s: %d bytes emitted, %d decoded", e.field, e.w, w))
		}
	}
	switch {
	case strings.Join(dOrder, ",") != strings.Join(eOrder, ","):
		r.Fail(c14R3, cO, p.Rel(to.Pos()), fmt.Sprintf("wire order decoded %v, emitted %v", dOrder, eOrder))
	case len(wbad) > 0:
		r.Fail(c14R3, cO, p.Rel(to.Pos()), strings.Join(wbad, "; "))
	default:
		r.OK(c14R3, cO, p.Rel(to.Pos()), strings.Join(eOrder, " "))
	}
	cM := c14PkgKey + ".CustomKeyInformation: size thresholds are non-decreasing in wire order (ToBytes emits a prefix)"
	mono := true
	for i := 1; i < len(enc); i++ {
		if enc[i].T < enc[i-1].T {
			mono = false
		}
	}
	if mono {
		r.OK(c14R3, cM, p.Rel(to.Pos()), strings.Join(et, "; "))
	} else {
		r.Fail(c14R3, cM, p.Rel(to.Pos()), "a later field can be emitted while an earlier one is omitted, which shifts its offset: "+strings.Join(et, "; "))
	}
}

// ---------------------------------------------------------------------------
// R4: BCRYPT_RSAKEY_BLOB

func (x *c14) rsaBlob() {
	p, r := x.P, x.R
	to, from := x.fn(c14PkgCrypto, "RSAKeyMaterial", "ToBytes"), x.fn(c14PkgCrypto, "RSAKeyMaterial", "FromBytes")
	if to == nil || from == nil {
		r.Undecided("anchor", c14PkgCrypto+".(*RSAKeyMaterial).ToBytes/FromBytes", "", "anchor function does not resolve")
		return
	}
	nameT, nameF := c14PkgCrypto+".(*RSAKeyMaterial).ToBytes", c14PkgCrypto+".(*RSAKeyMaterial).FromBytes"
	posT, posF := p.Rel(to.Pos()), p.Rel(from.Pos())

	// ---- encoder (codec) ----
	enc := encStreams(x.w, to)["out"]
	r.Extra["rsa_encoder_layout"] = codec.Render(enc)
	// group: slot = maximal run of conditional atoms, or one unconditional atom
	type slot struct{ atoms []codec.Atom }
	var slots []slot
	for _, a := range enc {
		if a.Cond && a.Kind == "fixed" && len(slots) > 0 {
			cur := slots[len(slots)-1].atoms
			if cur[0].Cond && cur[0].Kind == "fixed" {
				// alternatives of one header word: at most one constant and one len(F)
				clash := false
				for _, c := range cur {
					if (c.Expr == "const 0") == (a.Expr == "const 0") {
						clash = true
					}
				}
				if !clash {
					slots[len(slots)-1].atoms = append(cur, a)
					continue
				}
			}
		}
		slots = append(slots, slot{[]codec.Atom{a}})
	}
	lenSlot := func(s slot, field string) (ok bool, why string) {
		sawLen := false
		for _, a := range s.atoms {
			if a.Kind != "fixed" || a.Width != 4 || a.Order != "LE" {
				return false, "atom " + a.String() + " is not a 4-byte little-endian integer"
			}
			switch a.Expr {
			case "len(" + field + ")":
				sawLen = true
			case "const 0":
				if !a.Cond {
					return false, "the slot is the constant 0"
				}
			default:
				return false, "atom " + a.String() + " is not len(" + field + ")"
			}
		}
		if !sawLen {
			return false, "no alternative writes len(" + field + ")"
		}
		return true, ""
	}
	want := c14RsaSlots
	// the lane interpretation decides every slot from ToBytes's behaviour,
	// whatever layout the extractor returns for this spelling of the encoder
	semSlots := x.semRsaEncoder(to)
	if len(slots) != len(want) {
		for _, wn := range want {
			x.settle(c14R4, fmt.Sprintf("%s: slot %s", nameT, wn), posT, report.Undecided, fmt.Sprintf("the encoder layout has %d slots, expected %d: %s", len(slots), len(want), codec.Render(enc)), semSlots[wn])
		}
	} else {
		judge := func(i int, ok bool, why string) {
			cons := fmt.Sprintf("%s: slot %s", nameT, want[i])
			var parts []string
			for _, a := range slots[i].atoms {
				parts = append(parts, a.String())
			}
			got := strings.Join(parts, " | ")
			unknown := false
			for _, a := range slots[i].atoms {
				if a.Kind == "unknown" {
					unknown = true
				}
			}
			switch {
			case ok:
				x.settle(c14R4, cons, posT, report.Discharged, got, semSlots[want[i]])
			case unknown:
				x.settle(c14R4, cons, posT, report.Undecided, "layout not recognised: "+got, semSlots[want[i]])
			default:
				x.settle(c14R4, cons, posT, report.Finding, fmt.Sprintf("slot %d of the blob is %s: %s (BCRYPT_RSAKEY_BLOB: Magic, BitLength, cbPublicExp, cbModulus, cbPrime1, cbPrime2 as 4-byte LE, then PublicExponent BE, Modulus, Prime1, Prime2)", i, got, why), semSlots[want[i]])
			}
		}
		a0 := slots[0].atoms[0]
		judge(0, len(slots[0].atoms) == 1 && a0.Kind == "const" && a0.Width == 4 && a0.Expr == `"RSA1"` && !a0.Cond, `required the 4 bytes "RSA1"`)
		a1 := slots[1].atoms[0]
		judge(1, len(slots[1].atoms) == 1 && a1.Kind == "fixed" && a1.Width == 4 && a1.Order == "LE" && a1.Field == "KeySize" && !a1.Cond, "required KeySize as 4 bytes LE")
		// cbPublicExp: the byte count of the exponent as emitted — len() of the
		// buffer that carries it, or a constant equal to the width of the
		// exponent atom
		a2 := slots[2].atoms[0]
		okExp, whyExp := x.expLenSlot(to)
		if !okExp && len(slots[6].atoms) == 1 && slots[6].atoms[0].Kind == "fixed" && a2.Expr == fmt.Sprintf("const %d", slots[6].atoms[0].Width) {
			okExp = true
		}
		judge(2, len(slots[2].atoms) == 1 && a2.Kind == "fixed" && a2.Width == 4 && a2.Order == "LE" && okExp, "required the byte length of the emitted exponent as 4 bytes LE; "+whyExp)
		for i, f := range []string{"Modulus", "Prime1", "Prime2"} {
			ok, why := lenSlot(slots[3+i], f)
			judge(3+i, ok, why)
		}
		a6 := slots[6].atoms[0]
		judge(6, len(slots[6].atoms) == 1 && a6.Kind == "fixed" && a6.Field == "Exponent" && a6.Order == "BE" && !a6.Cond, "required Exponent big-endian")
		for i, f := range []string{"Modulus", "Prime1", "Prime2"} {
			s := slots[7+i]
			ok := len(s.atoms) == 1 && s.atoms[0].Kind == "bytes" && s.atoms[0].Field == f
			judge(7+i, ok, "required the bytes of "+f)
		}
	}

	// ---- decoder (codec + SSA) ----
	var value *ssa.Parameter
	for _, q := range from.Params[1:] {
		if prove.IsByteSeq(q.Type()) {
			value = q
		}
	}
	if value == nil {
		r.Undecided(c14R4, nameF+": input parameter", posF, "no []byte parameter")
		return
	}
	// the decoder clauses below are emitted by the shape recogniser and then
	// arbitrated against the lane interpretation of FromBytes (c14_rsadec.go)
	markDec := len(r.Obls)
	semDec := x.semRsaDecoder(from)
	decCons := map[string]string{}
	defer func() {
		for clause, cons := range decCons {
			cons := cons
			x.arbitrate(markDec, func(o *report.Obligation) bool { return o.Rule == c14R4 && o.Construct == cons }, semDec[clause])
		}
	}()
	fi := x.w.Info(from)
	// headerSlot: v is (a conversion of) binary.LittleEndian.Uint32(value[k:k+4]) → k
	var headerSlot func(v ssa.Value) (int64, string, bool)
	headerSlot = func(v ssa.Value) (int64, string, bool) {
		for d := 0; d < 6; d++ {
			switch y := v.(type) {
			case *ssa.Convert:
				v = y.X
				continue
			case *ssa.ChangeType:
				v = y.X
				continue
			case *ssa.UnOp:
				if y.Op == token.MUL {
					if rep := fi.LoadRep(y); rep != ssa.Value(y) {
						v = rep
						continue
					}
				}
			}
			break
		}
		call, ok := v.(*ssa.Call)
		if !ok {
			return 0, "", false
		}
		f := call.Common().StaticCallee()
		if f == nil || f.Pkg == nil || f.Pkg.Pkg.Path() != "encoding/binary" || f.Name() != "Uint32" || len(call.Common().Args) != 2 {
			return 0, "", false
		}
		s, ok := call.Common().Args[1].(*ssa.Slice)
		if !ok || s.X != ssa.Value(value) {
			return 0, "", false
		}
		lo, loK, hi, hiK := c14SliceBounds(s)
		if !loK || !hiK || hi-lo != 4 {
			return 0, "", false
		}
		ord := "LE"
		if strings.Contains(f.Signature.Recv().Type().String(), "bigEndian") {
			ord = "BE"
		}
		return lo, ord, true
	}
	// form → constant + set of header slots with coefficient 1
	formSlots := func(f *lin.Form) (k int64, slots []int64, ok bool) {
		if f == nil {
			return 0, nil, false
		}
		if !f.C.IsInt64() {
			return 0, nil, false
		}
		k = f.C.Int64()
		for _, t := range f.Terms() {
			if f.Coef[t].Cmp(bigOne) != 0 {
				return 0, nil, false
			}
			v, isLen := fi.TermValue(t)
			if isLen {
				return 0, nil, false
			}
			o, ord, okS := headerSlot(v)
			if !okS || ord != "LE" {
				return 0, nil, false
			}
			slots = append(slots, o)
		}
		sort.Slice(slots, func(i, j int) bool { return slots[i] < slots[j] })
		return k, slots, true
	}
	_, all := decStreams(x.w, from)
	r.Extra["rsa_decoder_layout"] = codec.Render(all)
	byField := map[string]codec.Atom{}
	for _, a := range all {
		if _, dup := byField[a.Field]; !dup {
			byField[a.Field] = a
		}
	}
	// magic
	cMag := nameF + `: bytes 0..3 are compared with "RSA1"`
	decCons["magic"] = cMag
	okMag := false
	for _, b := range from.Blocks {
		for _, instr := range b.Instrs {
			bo, ok := instr.(*ssa.BinOp)
			if !ok || (bo.Op != token.EQL && bo.Op != token.NEQ) {
				continue
			}
			for _, pair := range [][2]ssa.Value{{bo.X, bo.Y}, {bo.Y, bo.X}} {
				k, isK := pair[1].(*ssa.Const)
				if !isK || k.Value == nil || k.Value.Kind() != constant.String || constant.StringVal(k.Value) != "RSA1" {
					continue
				}
				v := pair[0]
				if cv, ok := v.(*ssa.Convert); ok {
					v = cv.X
				}
				if s, ok := v.(*ssa.Slice); ok && s.X == ssa.Value(value) {
					lo, loK, hi, hiK := c14SliceBounds(s)
					if loK && hiK && lo == 0 && hi == 4 {
						for _, rr := range *bo.Referrers() {
							if iff, ok := rr.(*ssa.If); ok {
								bad := iff.Block().Succs[0]
								if bo.Op == token.EQL {
									bad = iff.Block().Succs[1]
								}
								if c14ReturnsError(bad) {
									okMag = true
								}
							}
						}
					}
				}
			}
		}
	}
	if okMag {
		r.OK(c14R4, cMag, posF, "mismatch leads to an error return")
	} else {
		// pattern not found: says nothing about the code (the lane interpretation decides)
		r.Undecided(c14R4, cMag, posF, `no test of value[0:4] against "RSA1" that rejects other blob types was found`)
	}
	// KeySize
	cKS := nameF + ": KeySize == 4 bytes LE at offset 4"
	decCons["KeySize"] = cKS
	if a, ok := byField["KeySize"]; ok && a.Kind == "fixed" && a.Width == 4 && a.Order == "LE" && a.Off == "4" {
		r.OK(c14R4, cKS, posF, a.String())
	} else if ok {
		r.Fail(c14R4, cKS, posF, "decoded as "+a.String()+", ToBytes emits it as 4 bytes LE at offset 4")
	} else {
		r.Undecided(c14R4, cKS, posF, "internal/codec finds no read of the blob that feeds KeySize")
	}
	// payloads
	prev := []int64{8}
	for i, f := range []string{"Modulus", "Prime1", "Prime2"} {
		cons := fmt.Sprintf("%s: %s == value[24+Σpreceding sizes : +%s] with the size read LE from offset %d", nameF, f, []string{"cbModulus", "cbPrime1", "cbPrime2"}[i], 12+4*i)
		decCons[f] = cons
		a, ok := byField[f]
		if !ok || a.Kind != "bytes" {
			r.Undecided(c14R4, cons, posF, "internal/codec does not see "+f+" being assigned a slice of the input")
			prev = append(prev, int64(12+4*i))
			continue
		}
		k, offSlots, ok1 := formSlots(a.OffForm)
		_, wSlots, ok2 := formSlots(a.WidthForm)
		wantOff := fmt.Sprint(prev)
		switch {
		case !ok1 || !ok2:
			r.Undecided(c14R4, cons, posF, "offset/width are not sums of little-endian header slots: "+a.String())
		case k != 24 || fmt.Sprint(offSlots) != wantOff || len(wSlots) != 1 || wSlots[0] != int64(12+4*i):
			r.Fail(c14R4, cons, posF, fmt.Sprintf("decoded from offset %d + sizes at header offsets %v with the width at header offset %v; the encoder puts it at 24 + sizes at %s with its length at header offset %d", k, offSlots, wSlots, wantOff, 12+4*i))
		default:
			r.OK(c14R4, cons, posF, a.String())
		}
		prev = append(prev, int64(12+4*i))
	}
	// exponent: structural part
	decCons["Exponent"] = c14RsaExpCons()
	x.rsaExponent(from, value, fi, headerSlot)
	// semantic cross-check on concrete shapes through the lane interpreter
	x.rsaRoundTrip(to, from)
}

var bigOne = lin.K(1).C

func c14ReturnsError(b *ssa.BasicBlock) bool {
	if len(b.Instrs) == 0 {
		return false
	}
	ret, ok := b.Instrs[len(b.Instrs)-1].(*ssa.Return)
	if !ok || len(ret.Results) == 0 {
		return false
	}
	last := ret.Results[len(ret.Results)-1]
	if k, isK := last.(*ssa.Const); isK && k.Value == nil {
		return false
	}
	return true
}

// expLenSlot: the third header word is len(buf) of the very buffer that holds
// PutUint32(BigEndian, Exponent) and is appended as the exponent.
func (x *c14) expLenSlot(to *ssa.Function) (bool, string) {
	// find PutUint32(big, buf, Exponent)
	var expBuf ssa.Value
	for _, b := range to.Blocks {
		for _, instr := range b.Instrs {
			call, ok := instr.(*ssa.Call)
			if !ok {
				continue
			}
			f := call.Common().StaticCallee()
			if f == nil || f.Pkg == nil || f.Pkg.Pkg.Path() != "encoding/binary" || !strings.HasPrefix(f.Name(), "PutUint") {
				continue
			}
			st := c14Deref(to.Params[0].Type()).Underlying().(*types.Struct)
			v := call.Common().Args[2]
			for {
				if c, ok := v.(*ssa.Convert); ok {
					v = c.X
					continue
				}
				break
			}
			if ld, ok := v.(*ssa.UnOp); ok && ld.Op == token.MUL {
				if f, ok := c14TopField(ld.X, to.Params[0]); ok && st.Field(f).Name() == "Exponent" {
					expBuf = call.Common().Args[1]
				}
			}
		}
	}
	if expBuf == nil {
		return false, "no PutUintN of Exponent found"
	}
	for _, b := range to.Blocks {
		for _, instr := range b.Instrs {
			call, ok := instr.(*ssa.Call)
			if !ok {
				continue
			}
			f := call.Common().StaticCallee()
			if f == nil || f.Pkg == nil || f.Pkg.Pkg.Path() != "encoding/binary" || !strings.HasPrefix(f.Name(), "PutUint") {
				continue
			}
			v := call.Common().Args[2]
			for {
				if c, ok := v.(*ssa.Convert); ok {
					v = c.X
					continue
				}
				break
			}
			if lc, ok := v.(*ssa.Call); ok {
				if bi, isB := lc.Common().Value.(*ssa.Builtin); isB && bi.Name() == "len" && lc.Common().Args[0] == expBuf {
					return true, ""
				}
			}
		}
	}
	return false, "no header word holds len() of the exponent buffer"
}

// rsaExponent: the Exponent store accumulates value[24+i] big-endian over
// i < cbPublicExp.
func (x *c14) rsaExponent(from *ssa.Function, value *ssa.Parameter, fi *prove.FuncInfo, headerSlot func(ssa.Value) (int64, string, bool)) {
	p, r := x.P, x.R
	name := c14PkgCrypto + ".(*RSAKeyMaterial).FromBytes"
	cons := c14RsaExpCons()
	_ = name
	st := c14Deref(from.Params[0].Type()).Underlying().(*types.Struct)
	for _, b := range from.Blocks {
		for _, instr := range b.Instrs {
			s, ok := instr.(*ssa.Store)
			if !ok {
				continue
			}
			f, okF := c14TopField(s.Addr, from.Params[0])
			if !okF || st.Field(f).Name() != "Exponent" {
				continue
			}
			or, ok := s.Val.(*ssa.BinOp)
			if !ok || (or.Op != token.OR && or.Op != token.ADD) {
				continue // the initial "= 0"
			}
			// one side: (load Exponent) << 8 ; other: uint32(value[idx])
			var shl *ssa.BinOp
			var byteV ssa.Value
			for _, pair := range [][2]ssa.Value{{or.X, or.Y}, {or.Y, or.X}} {
				if sh, ok := pair[0].(*ssa.BinOp); ok && sh.Op == token.SHL {
					shl, byteV = sh, pair[1]
				}
			}
			if shl == nil {
				r.Undecided(c14R4, cons, p.Rel(s.Pos()), "the store into Exponent is not of the form (Exponent << 8) | byte")
				return
			}
			k, isK := c14ConstInt(shl.Y)
			accF := c14RootFields(shl.X, from.Params[0])
			okAcc := false
			for i := range accF {
				okAcc = okAcc || st.Field(i).Name() == "Exponent"
			}
			for {
				if c, ok := byteV.(*ssa.Convert); ok {
					byteV = c.X
					continue
				}
				break
			}
			ld, _ := byteV.(*ssa.UnOp)
			var ia *ssa.IndexAddr
			if ld != nil && ld.Op == token.MUL {
				ia, _ = ld.X.(*ssa.IndexAddr)
			}
			if !isK || k != 8 || !okAcc || ia == nil || ia.X != ssa.Value(value) {
				r.Undecided(c14R4, cons, p.Rel(s.Pos()), "the store into Exponent is not of the form (Exponent << 8) | value[…]")
				return
			}
			// index = 24 + i, loop bound = header word at 8
			cx := fi.CtxAt(b)
			idx := cx.Lin(ia.Index)
			var loopPhi *ssa.Phi
			for _, t := range idx.Terms() {
				v, _ := fi.TermValue(t)
				if ph, ok := v.(*ssa.Phi); ok {
					loopPhi = ph
				}
			}
			if loopPhi == nil {
				r.Undecided(c14R4, cons, p.Rel(s.Pos()), "the byte index is not 24 + loop counter: "+cx.Describe(lin.GE0(idx)))
				return
			}
			base := idx.Sub(cx.Lin(loopPhi))
			kb, isConst := base.ConstVal()
			// loop condition in the header of loopPhi
			hb := loopPhi.Block()
			iff, _ := hb.Instrs[len(hb.Instrs)-1].(*ssa.If)
			okBound, whyBound := false, "the loop has no `i < cbPublicExp` condition"
			if iff != nil {
				if cmp, ok := iff.Cond.(*ssa.BinOp); ok && cmp.Op == token.LSS && cmp.X == ssa.Value(loopPhi) {
					if o, ord, ok := headerSlot(cmp.Y); ok {
						if o == 8 && ord == "LE" {
							okBound = true
						} else {
							whyBound = fmt.Sprintf("the loop bound is the %s header word at offset %d, the encoder stores the exponent length LE at offset 8", ord, o)
						}
					}
				}
			}
			// counter starts at 0, step 1
			okStep := false
			for i, pr := range hb.Preds {
				if hb.Dominates(pr) {
					if add, ok := loopPhi.Edges[i].(*ssa.BinOp); ok && add.Op == token.ADD && add.X == ssa.Value(loopPhi) {
						if st, ok := c14ConstInt(add.Y); ok && st == 1 {
							okStep = true
						}
					}
				} else if c0, ok := c14ConstInt(loopPhi.Edges[i]); !ok || c0 != 0 {
					okStep = false
					whyBound = "the loop counter does not start at 0"
					break
				}
			}
			switch {
			case !isConst || !kb.IsInt64() || kb.Int64() != 24:
				r.Fail(c14R4, cons, p.Rel(s.Pos()), "the exponent bytes are read from offset "+base.String(fi.TermName)+" + i, the encoder puts them at 24 (right after the six header words)")
			case !okBound || !okStep:
				r.Fail(c14R4, cons, p.Rel(s.Pos()), whyBound)
			default:
				r.OK(c14R4, cons, p.Rel(s.Pos()), "Exponent = Exponent<<8 | value[24+i], i = 0 … cbPublicExp-1")
			}
			return
		}
	}
	r.Undecided(c14R4, cons, p.Rel(from.Pos()), "no accumulation of the exponent from the input found")
}

// rsaRoundTrip interprets FromBytes(ToBytes(k)) over the lane domain for key
// materials of fixed shapes (symbolic content, concrete lengths that differ
// pairwise so that swapped header slots are visible).
func (x *c14) rsaRoundTrip(to, from *ssa.Function) {
	p, r := x.P, x.R
	nt, _ := c14Deref(to.Params[0].Type()).(*types.Named)
	if nt == nil {
		return
	}
	st := nt.Underlying().(*types.Struct)
	fidx := func(n string) int {
		for i := 0; i < st.NumFields(); i++ {
			if st.Field(i).Name() == n {
				return i
			}
		}
		return -1
	}
	for _, shape := range [][3]int{{5, 3, 2}, {7, 0, 0}} {
		cons := fmt.Sprintf("%s.(*RSAKeyMaterial): FromBytes(ToBytes(k)) == k for len(Modulus,Prime1,Prime2) = %v (lane interpretation, symbolic content)", c14PkgCrypto, shape)
		in := absint.New(p.InModule)
		srcs := map[string]int{}
		recv := in.SymNode(nt, "", srcs)
		ids := map[string]int{}
		okShape := true
		for i, f := range []string{"Modulus", "Prime1", "Prime2"} {
			fi := fidx(f)
			if fi < 0 {
				okShape = false
				continue
			}
			if shape[i] == 0 {
				recv.Kids[fi].Leaf = absint.Slice{Nil: true}
				continue
			}
			arr, id := in.SymBytes(f, shape[i])
			ids[f] = id
			recv.Kids[fi].Leaf = absint.Slice{Arr: arr, Lo: 0, Hi: shape[i], Cap: shape[i]}
		}
		if !okShape || fidx("Exponent") < 0 || fidx("KeySize") < 0 {
			r.Undecided(c14R4, cons, p.Rel(to.Pos()), "fields do not resolve")
			continue
		}
		blob, err := in.Call(to, absint.Ptr{N: recv})
		if err != nil {
			x.settle(c14R4, cons, p.Rel(to.Pos()), report.Undecided, "the round trip could not be interpreted", c14Na("ToBytes: %s", err.Error()))
			continue
		}
		bs, ok := blob.(absint.Slice)
		if !ok || bs.Nil {
			x.settle(c14R4, cons, p.Rel(to.Pos()), report.Undecided, "the round trip could not be interpreted", c14Na("ToBytes does not return a byte slice of known content"))
			continue
		}
		// a private copy of the bytes so that the decoder cannot alias encoder state
		out := &absint.Node{T: bs.Arr.T}
		for i := bs.Lo; i < bs.Hi; i++ {
			out.Kids = append(out.Kids, &absint.Node{T: types.Typ[types.Uint8], Leaf: bs.Arr.Kids[i].Leaf})
		}
		back := in.SymNode(nt, "stale", map[string]int{})
		res, err := in.Call(from, absint.Ptr{N: back}, absint.Slice{Arr: out, Lo: 0, Hi: len(out.Kids), Cap: len(out.Kids)})
		if err != nil {
			// every length in the blob ToBytes produced is a constant: an abort
			// because the code would panic, or because an index is computed from
			// symbolic bytes, is an observation; any other abort decides nothing
			why := err.Error()
			if len(in.Unknown) == 0 && (strings.Contains(why, "would panic") || strings.Contains(why, "is not determined by the lanes")) {
				r.Fail(c14R4, cons, p.Rel(from.Pos()), "FromBytes on the blob ToBytes produced: "+why)
			} else {
				x.settle(c14R4, cons, p.Rel(from.Pos()), report.Undecided, "the round trip could not be interpreted", c14Na("FromBytes: %s", why))
			}
			continue
		}
		if isNil, known := c13IfaceNil(res); !known || !isNil {
			r.Fail(c14R4, cons, p.Rel(from.Pos()), fmt.Sprintf("FromBytes returns an error for the %d-byte blob ToBytes produced", len(out.Kids)))
			continue
		}
		var bad []string
		cmpInt := func(f string) {
			want := lanes.Vec(nil)
			if iv, ok := recv.Kids[fidx(f)].Leaf.(absint.Int); ok {
				want = iv.V
			}
			got := lanes.Vec(nil)
			if iv, ok := back.Kids[fidx(f)].Leaf.(absint.Int); ok {
				got = iv.V
			}
			if want == nil || !got.Equal(want) {
				bad = append(bad, fmt.Sprintf("%s comes back as %s", f, got.String(in.Name)))
			}
		}
		cmpInt("KeySize")
		cmpInt("Exponent")
		for i, f := range []string{"Modulus", "Prime1", "Prime2"} {
			sl, _ := back.Kids[fidx(f)].Leaf.(absint.Slice)
			n := 0
			if !sl.Nil && sl.Arr != nil {
				n = sl.Len()
			}
			if n != shape[i] {
				bad = append(bad, fmt.Sprintf("%s comes back with %d bytes instead of %d", f, n, shape[i]))
				continue
			}
			for k := 0; k < n; k++ {
				iv, _ := sl.Arr.Kids[sl.Lo+k].Leaf.(absint.Int)
				if !iv.V.Equal(lanes.SrcByte(ids[f], k)) {
					bad = append(bad, fmt.Sprintf("%s[%d] comes back as %s", f, k, iv.V.String(in.Name)))
					break
				}
			}
		}
		if len(bad) == 0 {
			r.OK(c14R4, cons, p.Rel(from.Pos()), fmt.Sprintf("%d-byte blob; KeySize, Exponent, Modulus, Prime1, Prime2 return bit for bit", len(out.Kids)))
		} else {
			r.Fail(c14R4, cons, p.Rel(from.Pos()), strings.Join(bad, "; "))
		}
	}
}

// ---------------------------------------------------------------------------
// R5: CheckIntegrity

func (x *c14) integrity() {
	p, r := x.P, x.R
	fn, cKH := x.fn(c14Pkg, "KeyCredential", "CheckIntegrity"), x.fn(c14Pkg, "KeyCredential", "ComputeKeyHash")
	name := c14Pkg + ".(*KeyCredential).CheckIntegrity"
	if fn == nil || cKH == nil {
		r.Undecided("anchor", name, "", "anchor function does not resolve")
		return
	}
	pos := p.Rel(fn.Pos())
	recv := fn.Params[0]
	// whatever the recogniser below makes of the shape (inline loop, helper,
	// library comparison), the lane interpretation decides the same clauses
	// from CheckIntegrity's results on a fixed digest and its 256 single-bit
	// alterations, a shorter and a longer KeyHash
	mark := len(r.Obls)
	defer func() {
		sem := c14Na("internal error in the lane interpretation")
		func() {
			defer func() {
				if e := recover(); e != nil {
					sem = c14Na("internal error in the lane interpretation: %v", e)
				}
			}()
			sem = x.semIntegrity(fn, cKH)
		}()
		x.arbitrate(mark, func(o *report.Obligation) bool { return o.Rule == c14R5 }, sem)
	}()
	cHash := name + ": compares ComputeKeyHash() of the same credential with its KeyHash"
	cLen := name + ": `true` requires len(hash) == len(KeyHash)"
	cAll := name + ": `true` requires hash[i] == KeyHash[i] for every i in 0..len(hash)-1"
	cRet := name + ": every result is false, or true under both conditions"
	var hash ssa.Value
	for _, b := range fn.Blocks {
		for _, instr := range b.Instrs {
			if call, ok := instr.(*ssa.Call); ok && call.Common().StaticCallee() == cKH && len(call.Common().Args) == 1 && call.Common().Args[0] == ssa.Value(recv) {
				if hash != nil {
					hash = nil
					goto hashDone
				}
				hash = call
			}
		}
	}
hashDone:
	isKH := func(v ssa.Value) bool {
		ld, ok := v.(*ssa.UnOp)
		if !ok || ld.Op != token.MUL {
			return false
		}
		f, ok := c14TopField(ld.X, recv)
		_, direct := ld.X.(*ssa.FieldAddr)
		return ok && direct && x.kcSt.Field(f).Name() == "KeyHash"
	}
	isHash := func(v ssa.Value) bool { return hash != nil && v == hash }
	if hash == nil {
		r.Undecided(c14R5, cHash, pos, "no single direct call kc.ComputeKeyHash() on the receiver found in CheckIntegrity itself")
		r.Undecided(c14R5, cLen, pos, "no hash value")
		r.Undecided(c14R5, cAll, pos, "no hash value")
		r.Undecided(c14R5, cRet, pos, "no hash value")
		return
	}
	r.OK(c14R5, cHash, p.Rel(hash.Pos()), "hash := kc.ComputeKeyHash()")
	lenOf := func(v ssa.Value) (ssa.Value, bool) {
		c, ok := v.(*ssa.Call)
		if !ok {
			return nil, false
		}
		if b, isB := c.Common().Value.(*ssa.Builtin); isB && b.Name() == "len" {
			return c.Common().Args[0], true
		}
		return nil, false
	}
	// whole-slice comparison by contract
	isEqualCall := func(v ssa.Value) bool {
		var call *ssa.Call
		if bo, ok := v.(*ssa.BinOp); ok && bo.Op == token.EQL {
			if k, ok := c14ConstInt(bo.Y); ok && k == 1 {
				call, _ = bo.X.(*ssa.Call)
				if call != nil && prove.StaticName(call.Common()) != "crypto/subtle.ConstantTimeCompare" {
					call = nil
				}
			}
		} else if c, ok := v.(*ssa.Call); ok {
			switch prove.StaticName(c.Common()) {
			case "bytes.Equal", "crypto/hmac.Equal":
				call = c
			}
			if f := c.Common().StaticCallee(); f != nil && f.Origin() != nil && f.Pkg != nil && f.Pkg.Pkg.Path() == "slices" && f.Origin().Name() == "Equal" {
				call = c
			}
		}
		if call == nil || len(call.Common().Args) != 2 {
			return false
		}
		a, b := call.Common().Args[0], call.Common().Args[1]
		return (isHash(a) && isKH(b)) || (isHash(b) && isKH(a))
	}
	// equal-length edges
	var lenEdges []*ssa.BasicBlock
	// full-compare loop exits
	var loopExits []*ssa.BasicBlock
	loopWhy := "no loop over the hash bytes found"
	for _, b := range fn.Blocks {
		iff, ok := b.Instrs[len(b.Instrs)-1].(*ssa.If)
		if !ok {
			continue
		}
		bo, ok := iff.Cond.(*ssa.BinOp)
		if !ok {
			continue
		}
		// length comparison
		if bo.Op == token.NEQ || bo.Op == token.EQL {
			lx, okx := lenOf(bo.X)
			ly, oky := lenOf(bo.Y)
			if okx && oky && ((isHash(lx) && isKH(ly)) || (isHash(ly) && isKH(lx))) {
				eq := b.Succs[1]
				if bo.Op == token.EQL {
					eq = b.Succs[0]
				}
				if len(eq.Preds) == 1 {
					lenEdges = append(lenEdges, eq)
				}
			}
		}
		// loop header: idx < len(hash)
		if bo.Op == token.LSS {
			bound, okb := lenOf(bo.Y)
			if !okb || !isHash(bound) {
				continue
			}
			idx := bo.X
			var phi *ssa.Phi
			switch y := idx.(type) {
			case *ssa.Phi:
				phi = y
			case *ssa.BinOp:
				if ph, ok := y.X.(*ssa.Phi); ok && y.Op == token.ADD {
					if k, ok := c14ConstInt(y.Y); ok && k == 1 {
						phi = ph
					}
				}
			}
			if phi == nil || phi.Block() != b {
				continue
			}
			// first index 0, step 1
			first, step := int64(-99), false
			for i, pr := range b.Preds {
				if b.Dominates(pr) {
					e := phi.Edges[i]
					if add, ok := e.(*ssa.BinOp); ok && add.Op == token.ADD && add.X == ssa.Value(phi) {
						if k, ok := c14ConstInt(add.Y); ok && k == 1 {
							step = true
						}
					}
				} else if k, ok := c14ConstInt(phi.Edges[i]); ok {
					first = k
				}
			}
			if idx != ssa.Value(phi) {
				first++ // idx = φ+1
			}
			if first != 0 || !step {
				loopWhy = "the loop index does not run 0,1,2,…"
				continue
			}
			body, exit := b.Succs[0], b.Succs[1]
			// body: if hash[idx] != KeyHash[idx] → return false ; else back to header
			biff, ok := body.Instrs[len(body.Instrs)-1].(*ssa.If)
			if !ok {
				loopWhy = "the loop body does not end in the byte comparison"
				continue
			}
			cmp, ok := biff.Cond.(*ssa.BinOp)
			if !ok || (cmp.Op != token.NEQ && cmp.Op != token.EQL) {
				loopWhy = "the loop body does not compare two bytes"
				continue
			}
			elem := func(v ssa.Value) (ssa.Value, ssa.Value, bool) {
				ld, ok := v.(*ssa.UnOp)
				if !ok || ld.Op != token.MUL {
					return nil, nil, false
				}
				ia, ok := ld.X.(*ssa.IndexAddr)
				if !ok {
					return nil, nil, false
				}
				return ia.X, ia.Index, true
			}
			ax, ai, ok1 := elem(cmp.X)
			bx, bi2, ok2 := elem(cmp.Y)
			if !ok1 || !ok2 || ai != idx || bi2 != idx || !((isHash(ax) && isKH(bx)) || (isHash(bx) && isKH(ax))) {
				loopWhy = "the loop body does not compare hash[i] with KeyHash[i] at the loop index"
				continue
			}
			neqS, eqS := body.Succs[0], body.Succs[1]
			if cmp.Op == token.EQL {
				neqS, eqS = eqS, neqS
			}
			if !c14ReturnsBool(neqS, false) {
				loopWhy = "a differing byte does not lead to `return false`"
				continue
			}
			if eqS != b && !(len(eqS.Instrs) > 0 && len(eqS.Succs) == 1 && eqS.Succs[0] == b) {
				loopWhy = "after equal bytes the loop does not simply continue"
				continue
			}
			if len(exit.Preds) == 1 {
				loopExits = append(loopExits, exit)
			}
		}
	}
	// returns
	okLen, okAll, nTrue, bad := true, true, 0, []string{}
	for _, b := range fn.Blocks {
		ret, ok := b.Instrs[len(b.Instrs)-1].(*ssa.Return)
		if !ok || len(ret.Results) != 1 {
			continue
		}
		res := ret.Results[0]
		if k, isK := res.(*ssa.Const); isK && k.Value != nil && k.Value.Kind() == constant.Bool {
			if !constant.BoolVal(k.Value) {
				continue
			}
			nTrue++
			if !c11Under(lenEdges, b) {
				okLen = false
			}
			if !c11Under(loopExits, b) {
				okAll = false
			}
			continue
		}
		if isEqualCall(res) {
			nTrue++
			continue
		}
		bad = append(bad, "a result that is neither a constant nor bytes.Equal(hash, KeyHash) at "+p.Rel(ret.Pos()))
	}
	switch {
	case len(bad) > 0:
		r.Undecided(c14R5, cRet, pos, strings.Join(bad, "; "))
	case nTrue == 0:
		r.Undecided(c14R5, cRet, pos, "no `return true` and no whole-slice comparison result found")
	default:
		r.OK(c14R5, cRet, pos, fmt.Sprintf("%d positive result(s)", nTrue))
	}
	// COMPLETENESS: when the hash (or KeyHash) is handed to an in-module helper,
	// a closure or a function value, the comparison may happen there; a missing
	// dominating edge in THIS function is then not an observation
	escaped := c14ValueEscapes(hash, p.InModule)
	for _, b := range fn.Blocks {
		for _, instr := range b.Instrs {
			if ld, ok := instr.(*ssa.UnOp); ok && isKH(ld) && c14ValueEscapes(ld, p.InModule) != "" && escaped == "" {
				escaped = c14ValueEscapes(ld, p.InModule)
			}
		}
	}
	if okLen {
		r.OK(c14R5, cLen, pos, "every `return true` is dominated by the equal-length edge (or is a whole-slice comparison)")
	} else if escaped != "" {
		r.Undecided(c14R5, cLen, pos, "no dominating len(hash) == len(kc.KeyHash) edge in CheckIntegrity itself, but the compared bytes flow into "+escaped+", which the recogniser does not enter")
	} else {
		r.Fail(c14R5, cLen, pos, "a `return true` is reachable without len(hash) == len(kc.KeyHash): a truncated or empty KeyHash passes (or the byte loop indexes out of range)")
	}
	if okAll {
		r.OK(c14R5, cAll, pos, "every `return true` is dominated by the exit of the loop that leaves with false on the first differing byte")
	} else if escaped != "" {
		r.Undecided(c14R5, cAll, pos, "no full comparison loop in CheckIntegrity itself ("+loopWhy+"), but the compared bytes flow into "+escaped+", which the recogniser does not enter")
	} else {
		r.Fail(c14R5, cAll, pos, "a `return true` is reachable without every byte of the hash having been compared ("+loopWhy+"): tampered entries can pass the integrity check")
	}
}

// c14ValueEscapes: v is handed to an in-module callee, bound by a closure,
// stored, or passed to a dynamic callee — code the shape recognisers do not
// follow. It returns a description of the first such use ("" = none).
func c14ValueEscapes(v ssa.Value, inModule func(*ssa.Function) bool) string {
	if v == nil || v.Referrers() == nil {
		return ""
	}
	for _, rr := range *v.Referrers() {
		switch y := rr.(type) {
		case *ssa.Call:
			if _, isB := y.Common().Value.(*ssa.Builtin); isB {
				continue
			}
			f := y.Common().StaticCallee()
			if f == nil {
				return "a dynamic call"
			}
			if inModule(f) {
				return f.Name()
			}
		case *ssa.MakeClosure:
			return "a closure"
		case *ssa.Store:
			if y.Val == v {
				return "a variable captured or stored"
			}
		case *ssa.MakeInterface:
			return "an interface value"
		}
	}
	return ""
}

func c14ReturnsBool(b *ssa.BasicBlock, want bool) bool {
	if len(b.Instrs) == 0 {
		return false
	}
	ret, ok := b.Instrs[len(b.Instrs)-1].(*ssa.Return)
	if !ok || len(ret.Results) != 1 {
		return false
	}
	k, isK := ret.Results[0].(*ssa.Const)
	return isK && k.Value != nil && k.Value.Kind() == constant.Bool && constant.BoolVal(k.Value) == want
}

// ---------------------------------------------------------------------------
// R6: DNWithBinary

func (x *c14) dnWithBinary() {
	p, r := x.P, x.R
	parse, toS := x.fn(c14Pkg, "DNWithBinary", "Parse"), x.fn(c14Pkg, "DNWithBinary", "ToString")
	name := c14Pkg + ".(*DNWithBinary)"
	if parse == nil || toS == nil {
		r.Undecided("anchor", name+".Parse/ToString", "", "anchor function does not resolve")
		return
	}
	st := c14Deref(parse.Params[0].Type()).Underlying().(*types.Struct)
	posP, posS := p.Rel(parse.Pos()), p.Rel(toS.Pos())
	// the recogniser below reads the Sprintf format and a Split/SplitN call;
	// the lane interpretation decides the same clauses from
	// Parse(ToString(d)) on names that contain the separator, white space …,
	// however the two functions are written (Cut, Index, a builder, …)
	mark := len(r.Obls)
	defer func() {
		x.arbitrate(mark, func(o *report.Obligation) bool { return o.Rule == c14R6 }, x.dnSem(parse, toS))
	}()
	cSep := name + ": Parse splits on the separator ToString prints between the fields"
	cCnt := name + ": Parse demands as many parts as the format has separator-delimited fields"
	cOrd := name + ": parts[i] feeds the field that the i-th format field prints"
	cFac := name + ": both sides count two hex digits per byte of BinaryData"
	cLast := name + ": the only free-form field (DistinguishedName) is the last field of the format"
	cSplitN := name + ": Parse keeps separators inside the last field (SplitN with n = number of fields)"
	allU := func(why string) {
		for _, c := range []string{cSep, cCnt, cOrd, cFac, cLast, cSplitN} {
			r.Undecided(c14R6, c, posP, why)
		}
	}
	// ---- ToString ----
	var sp *ssa.Call
	for _, b := range toS.Blocks {
		for _, instr := range b.Instrs {
			if call, ok := instr.(*ssa.Call); ok && prove.StaticName(call.Common()) == "fmt.Sprintf" {
				for _, rr := range *call.Referrers() {
					if _, isRet := rr.(*ssa.Return); isRet {
						sp = call
					}
				}
			}
		}
	}
	if sp == nil {
		allU("ToString does not return a fmt.Sprintf")
		return
	}
	fk, ok := sp.Common().Args[0].(*ssa.Const)
	if !ok || fk.Value == nil || fk.Value.Kind() != constant.String {
		allU("the format is not a constant")
		return
	}
	format := constant.StringVal(fk.Value)
	// literals and verbs
	var lits []string
	var verbs []byte
	cur := ""
	for i := 0; i < len(format); i++ {
		if format[i] == '%' && i+1 < len(format) {
			if format[i+1] == '%' {
				cur += "%"
				i++
				continue
			}
			j := i + 1
			for j < len(format) && strings.IndexByte("+-# 0123456789.", format[j]) >= 0 {
				j++
			}
			if j >= len(format) {
				allU("malformed format")
				return
			}
			lits = append(lits, cur)
			cur = ""
			verbs = append(verbs, format[j])
			i = j
			continue
		}
		cur += string(format[i])
	}
	lits = append(lits, cur)
	// arguments
	var args []ssa.Value
	if sl, ok := sp.Common().Args[1].(*ssa.Slice); ok {
		if al, ok := sl.X.(*ssa.Alloc); ok {
			n := int(c14Deref(al.Type()).Underlying().(*types.Array).Len())
			args = make([]ssa.Value, n)
			for _, rr := range *al.Referrers() {
				if ia, ok := rr.(*ssa.IndexAddr); ok {
					if k, ok := c14ConstInt(ia.Index); ok && int(k) < n {
						for _, r2 := range *ia.Referrers() {
							if s, ok := r2.(*ssa.Store); ok {
								if mi, ok := s.Val.(*ssa.MakeInterface); ok {
									args[k] = mi.X
								}
							}
						}
					}
				}
			}
		}
	}
	if len(args) != len(verbs) {
		allU("the Sprintf arguments cannot be listed")
		return
	}
	type fld struct {
		kind  string // size | hex | raw | other
		field string
		fac   int64
	}
	recvS := toS.Params[0]
	fieldOf := func(v ssa.Value) string {
		fs := c14RootFields(v, recvS)
		if len(fs) != 1 {
			return ""
		}
		for i := range fs {
			return st.Field(i).Name()
		}
		return ""
	}
	var fields []fld
	for i, a := range args {
		f := fld{kind: "other", field: fieldOf(a)}
		switch y := a.(type) {
		case *ssa.BinOp:
			if y.Op == token.MUL {
				if k, ok := c14ConstInt(y.Y); ok {
					if lc, ok := y.X.(*ssa.Call); ok {
						if b, isB := lc.Common().Value.(*ssa.Builtin); isB && b.Name() == "len" {
							f.kind, f.fac = "size", k
						}
					}
				}
			}
		case *ssa.Call:
			if prove.StaticName(y.Common()) == "encoding/hex.EncodeToString" {
				f.kind = "hex"
			}
		case *ssa.UnOp:
			if y.Op == token.MUL && verbs[i] == 's' {
				f.kind = "raw"
			}
		}
		fields = append(fields, f)
	}
	// separator = the literal between consecutive verbs
	sepFmt := ""
	sepOK := len(lits) >= 3
	for i := 1; i+1 < len(lits); i++ {
		if i == 1 {
			sepFmt = lits[i]
		} else if lits[i] != sepFmt {
			sepOK = false
		}
	}
	r.Extra["dnwithbinary_format"] = map[string]any{"format": format, "literals": lits, "verbs": string(verbs)}

	// ---- Parse ----
	var split *ssa.Call
	var sepParse string
	splitN := int64(-1)
	isSplitN := false
	for _, b := range parse.Blocks {
		for _, instr := range b.Instrs {
			call, ok := instr.(*ssa.Call)
			if !ok {
				continue
			}
			switch prove.StaticName(call.Common()) {
			case "bytes.Split", "strings.Split", "bytes.SplitN", "strings.SplitN":
				split = call
				sv := call.Common().Args[1]
				if cv, ok := sv.(*ssa.Convert); ok {
					sv = cv.X
				}
				if k, ok := sv.(*ssa.Const); ok && k.Value != nil && k.Value.Kind() == constant.String {
					sepParse = constant.StringVal(k.Value)
				}
				if strings.HasSuffix(prove.StaticName(call.Common()), "SplitN") {
					isSplitN = true
					if n, ok := c14ConstInt(call.Common().Args[2]); ok {
						splitN = n
					}
				}
			}
		}
	}
	if split == nil || sepParse == "" {
		allU("Parse does not split its input on a constant separator")
		return
	}
	// K: len(parts) != K
	K := int64(-1)
	partDest := map[int64]string{} // index → size | hex→Field | raw→Field
	var decodedHex ssa.Value
	for _, rr := range *split.Referrers() {
		switch y := rr.(type) {
		case *ssa.Call:
			if b, isB := y.Common().Value.(*ssa.Builtin); isB && b.Name() == "len" {
				for _, r2 := range *y.Referrers() {
					if bo, ok := r2.(*ssa.BinOp); ok && (bo.Op == token.NEQ || bo.Op == token.EQL) {
						if k, ok := c14ConstInt(bo.Y); ok {
							K = k
						}
					}
				}
			}
		case *ssa.IndexAddr:
			k, isK := c14ConstInt(y.Index)
			if !isK {
				continue
			}
			for _, r2 := range *y.Referrers() {
				ld, ok := r2.(*ssa.UnOp)
				if !ok || ld.Op != token.MUL {
					continue
				}
				// follow: conversions → Atoi / hex.DecodeString / store to a field
				var walk func(v ssa.Value, d int)
				walk = func(v ssa.Value, d int) {
					if d > 4 || v.Referrers() == nil {
						return
					}
					for _, r3 := range *v.Referrers() {
						switch z := r3.(type) {
						case *ssa.Convert:
							walk(z, d+1)
						case *ssa.Store:
							if f, ok := c14TopField(z.Addr, parse.Params[0]); ok && z.Val == v {
								partDest[k] = "raw→" + st.Field(f).Name()
							}
						case *ssa.Call:
							switch prove.StaticName(z.Common()) {
							case "strconv.Atoi", "strconv.ParseInt", "strconv.ParseUint":
								partDest[k] = "size"
							case "encoding/hex.DecodeString":
								for _, r4 := range *z.Referrers() {
									if ex, ok := r4.(*ssa.Extract); ok && ex.Index == 0 {
										decodedHex = ex
										for _, r5 := range *ex.Referrers() {
											if s, ok := r5.(*ssa.Store); ok {
												if f, ok := c14TopField(s.Addr, parse.Params[0]); ok {
													partDest[k] = "hex→" + st.Field(f).Name()
												}
											}
										}
									}
								}
							}
						}
					}
				}
				walk(ld, 0)
			}
		}
	}
	r.Extra["dnwithbinary_parse"] = map[string]any{"separator": sepParse, "parts_demanded": K, "SplitN": isSplitN, "n": splitN, "parts": fmt.Sprint(partDest)}

	// 1. separator
	if sepOK && sepFmt == sepParse && strings.HasSuffix(lits[0], sepFmt) {
		r.OK(c14R6, cSep, posP, fmt.Sprintf("separator %q on both sides (prefix %q)", sepParse, lits[0]))
	} else {
		r.Fail(c14R6, cSep, posP, fmt.Sprintf("ToString prints %q (literals %q), Parse splits on %q: what ToString emits does not split into its fields", format, lits, sepParse))
	}
	// 2. count
	nFields := int64(strings.Count(strings.Join(lits, ""), sepParse) + 1)
	if K == nFields {
		r.OK(c14R6, cCnt, posP, fmt.Sprintf("%d fields", K))
	} else {
		r.Fail(c14R6, cCnt, posP, fmt.Sprintf("the format has %d separator-delimited fields, Parse demands len(parts) == %d", nFields, K))
	}
	// 3. order: field j of the format (after the prefix tag) is parts[j+prefixFields]
	prefixFields := int64(strings.Count(lits[0], sepParse))
	var obad []string
	for j, f := range fields {
		got := partDest[int64(j)+prefixFields]
		want := ""
		switch f.kind {
		case "size":
			want = "size"
		case "hex":
			want = "hex→" + f.field
		case "raw":
			want = "raw→" + f.field
		default:
			obad = append(obad, fmt.Sprintf("format field %d is printed from an expression that is not recognised", j))
			continue
		}
		if got != want {
			obad = append(obad, fmt.Sprintf("format field %d prints %s, parts[%d] is used as %q", j, want, int64(j)+prefixFields, got))
		}
	}
	if len(obad) == 0 {
		r.OK(c14R6, cOrd, posP, fmt.Sprint(partDest))
	} else {
		r.Fail(c14R6, cOrd, posP, strings.Join(obad, "; "))
	}
	// 4. factor
	facS := int64(0)
	for _, f := range fields {
		if f.kind == "size" {
			facS = f.fac
		}
	}
	facP := int64(0)
	for _, b := range parse.Blocks {
		for _, instr := range b.Instrs {
			if bo, ok := instr.(*ssa.BinOp); ok && bo.Op == token.MUL {
				if k, ok := c14ConstInt(bo.Y); ok {
					if lc, ok := bo.X.(*ssa.Call); ok {
						if bi, isB := lc.Common().Value.(*ssa.Builtin); isB && bi.Name() == "len" && decodedHex != nil && lc.Common().Args[0] == decodedHex {
							facP = k
						}
					}
				}
			}
		}
	}
	if facS == 2 && facP == 2 {
		r.OK(c14R6, cFac, posP, "size = 2·len(BinaryData) printed; 2·len(decoded) compared with the size")
	} else {
		r.Fail(c14R6, cFac, posP, fmt.Sprintf("ToString prints len(BinaryData)·%d, Parse compares len(decoded)·%d with it (hex text has 2 digits per byte)", facS, facP))
	}
	// 5. free-form field last
	lastRaw, rawElsewhere := false, false
	for j, f := range fields {
		if f.kind == "raw" {
			if j == len(fields)-1 && lits[len(lits)-1] == "" {
				lastRaw = true
			} else {
				rawElsewhere = true
			}
		}
	}
	switch {
	case rawElsewhere:
		r.Fail(c14R6, cLast, posS, "a free-form string is printed before the last field: separators inside it cannot be told from field separators")
	case lastRaw:
		r.OK(c14R6, cLast, posS, "the size and the hex text cannot contain the separator; DistinguishedName is printed last")
	default:
		r.OK(c14R6, cLast, posS, "no free-form field")
	}
	// 6. SplitN
	switch {
	case !lastRaw:
		r.OK(c14R6, cSplitN, posP, "no free-form field")
	case isSplitN && splitN == nFields:
		r.OK(c14R6, cSplitN, p.Rel(split.Pos()), fmt.Sprintf("SplitN(…, %d)", splitN))
	case isSplitN:
		r.Fail(c14R6, cSplitN, p.Rel(split.Pos()), fmt.Sprintf("SplitN with n = %d, the format has %d fields", splitN, nFields))
	default:
		r.Fail(c14R6, cSplitN, p.Rel(split.Pos()), fmt.Sprintf("Parse uses Split and demands exactly %d parts: a DistinguishedName that contains %q (e.g. \"CN=host:8080,…\") makes String() output that Parse rejects; SplitN(…, %d) keeps the name intact", K, sepParse, nFields))
	}
}
