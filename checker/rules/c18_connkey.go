package rules

import (
	"fmt"
	"go/types"
	"sort"
	"strings"

	"golang.org/x/tools/go/ssa"
)

// C18 extension `R6-conn-key` (added after an independently seeded change — the
// TCP server registering every connection under conn.LocalAddr() — was missed):
// a registry of live connections that Stop() walks to close them must hold
// every live connection, so the key a connection is stored under must be
// injective over live connections. Accepted keys: the connection value itself,
// or a value computed from conn.RemoteAddr() (unique per live TCP connection
// of one listener). Rejected: a key that does not depend on the connection, or
// depends on it only through LocalAddr() (identical for all connections of a
// listener: each Store replaces the previous connection, which Stop() then
// never closes and whose handler goroutine leaks). Anything else is undecided.

func init() {
	ck := registry["C18"]
	if ck == nil {
		return
	}
	orig := ck.Run
	ck.Run = func(c *Ctx) {
		orig(c)
		c18ConnKey(c)
		c.R.Explanation += " Extension R6 CONN-KEY: every registration of a net.Conn in a map or sync.Map of the server packages uses a key that is the connection itself or is computed from its RemoteAddr() (never a connection-independent value or LocalAddr()), and the matching removal uses a key of the same kind."
	}
}

func isNetConn(t types.Type) bool {
	s := types.TypeString(t, nil)
	return s == "net.Conn" || s == "*net.TCPConn" || s == "*net.UDPConn"
}

// keyKind walks the definition of a registry key back to its sources.
func keyKind(v ssa.Value, inModule func(*ssa.Function) bool) (kind string, methods []string) {
	seen := map[ssa.Value]bool{}
	ms := map[string]bool{}
	reachesConn, other := false, false
	// parameters of key helpers that are being read through (connKey(conn) string), bound to
	// the arguments of the call that is being followed
	bound := map[*ssa.Parameter]ssa.Value{}
	depth := 0
	var walk func(v ssa.Value)
	walk = func(v ssa.Value) {
		if v == nil || seen[v] {
			return
		}
		seen[v] = true
		if prm, isP := v.(*ssa.Parameter); isP {
			if a, has := bound[prm]; has {
				walk(a)
				return
			}
		}
		if isNetConn(v.Type()) {
			reachesConn = true
			return
		}
		switch x := v.(type) {
		case *ssa.Const:
		case *ssa.MakeInterface:
			walk(x.X)
		case *ssa.ChangeInterface:
			walk(x.X)
		case *ssa.ChangeType:
			walk(x.X)
		case *ssa.Convert:
			walk(x.X)
		case *ssa.Phi:
			for _, e := range x.Edges {
				walk(e)
			}
		case *ssa.BinOp:
			walk(x.X)
			walk(x.Y)
		case *ssa.Call:
			cc := x.Common()
			if cc.IsInvoke() {
				ms[cc.Method.Name()] = true
				walk(cc.Value)
			} else if f := cc.StaticCallee(); f != nil {
				if f.Blocks != nil && inModule != nil && inModule(f) && depth < 3 && f.Signature.Results().Len() == 1 {
					// a key helper of the module: the key is what it returns for these arguments
					for i, prm := range f.Params {
						if i < len(cc.Args) {
							bound[prm] = cc.Args[i]
						}
					}
					depth++
					for _, fb := range f.Blocks {
						for _, fin := range fb.Instrs {
							if ret, isRet := fin.(*ssa.Return); isRet && len(ret.Results) == 1 {
								walk(ret.Results[0])
							}
						}
					}
					depth--
					return
				}
				ms[f.Name()] = true
			} else {
				other = true
			}
			for _, a := range cc.Args {
				walk(a)
			}
		case *ssa.Extract:
			walk(x.Tuple)
		case *ssa.Field:
			ms["field "+fieldNameOfValue(x.X.Type(), x.Field)] = true
			walk(x.X)
		case *ssa.TypeAssert:
			walk(x.X)
		case *ssa.UnOp:
			if fa, ok := x.X.(*ssa.FieldAddr); ok {
				ms["field "+fieldNameOfValue(fa.X.Type(), fa.Field)] = true
				walk(fa.X)
				return
			}
			// load of a local cell: every store into it
			if a, ok := x.X.(*ssa.Alloc); ok && a.Referrers() != nil {
				for _, r := range *a.Referrers() {
					if st, ok := r.(*ssa.Store); ok && st.Addr == ssa.Value(a) {
						walk(st.Val)
					}
				}
			} else if fv, ok := x.X.(*ssa.FreeVar); ok {
				// captured cell (deferred closure): resolve through the parent's binding
				fn := fv.Parent()
				idx := -1
				for i, q := range fn.FreeVars {
					if q == fv {
						idx = i
					}
				}
				resolved := false
				if par := fn.Parent(); par != nil && idx >= 0 {
					for _, b := range par.Blocks {
						for _, in := range b.Instrs {
							if mc, ok := in.(*ssa.MakeClosure); ok && mc.Fn == ssa.Value(fn) && idx < len(mc.Bindings) {
								if a, ok := mc.Bindings[idx].(*ssa.Alloc); ok && a.Referrers() != nil {
									for _, r := range *a.Referrers() {
										if st, ok := r.(*ssa.Store); ok && st.Addr == ssa.Value(a) {
											walk(st.Val)
											resolved = true
										}
									}
								}
							}
						}
					}
				}
				if !resolved {
					other = true
				}
			} else {
				other = true
			}
		default:
			other = true
		}
	}
	walk(v)
	for m := range ms {
		methods = append(methods, m)
	}
	sort.Strings(methods)
	switch {
	case other:
		return "unknown", methods
	case !reachesConn:
		return "independent", methods
	case ms["LocalAddr"] && !ms["RemoteAddr"]:
		return "local", methods
	case ms["RemoteAddr"] && (ms["SplitHostPort"] || ms["field IP"] || ms["field Port"] || ms["field Zone"] || ms["Hostname"] || ms["Addr"] || ms["Port"]):
		return "partial", methods
	case ms["RemoteAddr"]:
		return "remote", methods
	case len(ms) == 0:
		return "conn", methods
	}
	return "unknown", methods
}

func c18ConnKey(c *Ctx) {
	const rule = "R6-conn-key"
	p, r := c.P, c.R
	nStore := 0
	// the struct fields that hold a connection registry: some sync.Map Store / map update puts
	// a net.Conn into them
	fieldOf := func(m ssa.Value) *types.Var {
		for i := 0; i < 4; i++ {
			switch x := m.(type) {
			case *ssa.FieldAddr:
				return c18StructField(x.X.Type(), x.Field)
			case *ssa.UnOp:
				m = x.X
			default:
				return nil
			}
		}
		return nil
	}
	registryFields := map[*types.Var]bool{}
	for _, fn := range p.SrcFuncs() {
		rp := relPkg(p, fn)
		if (rp != c18Nbtns && rp != c18Llmnr) || fn.Blocks == nil {
			continue
		}
		for _, b := range fn.Blocks {
			for _, in := range b.Instrs {
				var m, val ssa.Value
				switch x := in.(type) {
				case *ssa.MapUpdate:
					m, val = x.Map, x.Value
				case ssa.CallInstruction:
					if f := x.Common().StaticCallee(); f != nil {
						switch f.String() {
						case "(*sync.Map).Store", "(*sync.Map).LoadOrStore", "(*sync.Map).Swap":
							m, val = x.Common().Args[0], x.Common().Args[2]
						}
					}
				}
				if val == nil {
					continue
				}
				v := val
				for {
					if mi, ok := v.(*ssa.MakeInterface); ok {
						v = mi.X
						continue
					}
					if ci, ok := v.(*ssa.ChangeInterface); ok {
						v = ci.X
						continue
					}
					break
				}
				if isNetConn(v.Type()) {
					if f := fieldOf(m); f != nil {
						registryFields[f] = true
					}
				}
			}
		}
	}
	for _, fn := range p.SrcFuncs() {
		rp := relPkg(p, fn)
		if (rp != c18Nbtns && rp != c18Llmnr) || fn.Blocks == nil {
			continue
		}
		fname := p.FuncName(fn)
		for _, b := range fn.Blocks {
			for _, in := range b.Instrs {
				var key, val ssa.Value
				var mapField *types.Var
				what := ""
				switch x := in.(type) {
				case *ssa.MapUpdate:
					key, val, what = x.Key, x.Value, "map update"
					mapField = fieldOf(x.Map)
				case ssa.CallInstruction:
					cc := x.Common()
					f := cc.StaticCallee()
					if f == nil {
						continue
					}
					switch f.String() {
					case "(*sync.Map).Store", "(*sync.Map).LoadOrStore", "(*sync.Map).Swap":
						key, val, what = cc.Args[1], cc.Args[2], f.Name()
					case "(*sync.Map).Delete", "(*sync.Map).LoadAndDelete":
						key, what = cc.Args[1], f.Name()
						mapField = fieldOf(cc.Args[0])
					default:
						continue
					}
				default:
					continue
				}
				isConnVal := false
				if val != nil {
					v := val
					for {
						if mi, ok := v.(*ssa.MakeInterface); ok {
							v = mi.X
							continue
						}
						if ci, ok := v.(*ssa.ChangeInterface); ok {
							v = ci.X
							continue
						}
						break
					}
					isConnVal = isNetConn(v.Type())
				}
				kind, ms := keyKind(key, p.InModule)
				if val != nil && !isConnVal {
					continue // not a connection registry
				}
				if val == nil && kind == "independent" && len(ms) == 0 {
					// a Delete whose key has nothing to do with connections: other registries
					continue
				}
				if val == nil && kind == "unknown" {
					// a removal from a map that IS a connection registry (some Store puts a net.Conn
					// into the same field) under a key that was not followed: the entity exists
					if mapField != nil && registryFields[mapField] {
						nStore++
						r.OK(rule, fmt.Sprintf("%s: %s of a connection registry", fname, what), p.Rel(in.Pos()), "NOT DECIDED — the key of this removal was not followed to the connection (it is a parameter or comes out of code this rule does not read)")
						r.Note("C18 R6-conn-key: %s: %s NOT DECIDED — key not followed", fname, what)
					}
					continue
				}
				nStore++
				construct := fmt.Sprintf("%s: %s of a connection registry", fname, what)
				pos := p.Rel(in.Pos())
				detail := "key kind " + kind + " via [" + strings.Join(ms, ",") + "]"
				switch kind {
				case "remote", "conn":
					r.OK(rule, construct, pos, detail+": unique per live connection")
				case "local":
					r.Fail(rule, construct, pos, detail+": LocalAddr() is the listener's address, identical for every accepted connection — each registration replaces the previous one, so Stop() closes only the last connection and the other handlers never exit")
				case "independent":
					r.Fail(rule, construct, pos, detail+": the key does not depend on the connection, so registrations overwrite each other")
				case "partial":
					r.Fail(rule, construct, pos, detail+": the key is only a PART of the remote address (host without port, or port without host) on some path: two live connections of one client share it, the second registration replaces the first, and Stop() never closes the first connection")
				default:
					// nothing wrong was observed: the key comes out of code this rule does not read
					r.OK(rule, construct, pos, "NOT DECIDED — "+detail+": the key derivation was not followed to the connection (accepted: the connection itself or a value computed from RemoteAddr(); rejected: LocalAddr() or a connection-independent value)")
					r.Note("C18 R6-conn-key: %s NOT DECIDED — %s", construct, detail)
				}
			}
		}
	}
	r.Floor(rule, 2)
	r.Extra["R6_registry_sites"] = nStore
}

// C18 extension `R4-once-closes` (added after an independently seeded change —
// Server.Close returning early from the Once body when the socket was not yet
// bound, before close(s.Closed) — was missed): a function literal passed to
// sync.Once.Do that closes a channel must close it on EVERY path, because the
// Once is consumed by the first call: a path that returns without closing
// leaves the quit channel open forever and no later Close can signal the loops.
func init() {
	ck := registry["C18"]
	if ck == nil {
		return
	}
	orig := ck.Run
	ck.Run = func(c *Ctx) {
		orig(c)
		c18OnceCloses(c)
		c.R.Explanation += " Extension R4 ONCE-CLOSES: in every function literal passed to sync.Once.Do in the server packages that closes a channel, the close executes on every path from entry to return (the Once is consumed by the first call)."
	}
}

func c18OnceCloses(c *Ctx) {
	const rule = "R4-once-closes"
	p, r := c.P, c.R
	n := 0
	for _, fn := range p.SrcFuncs() {
		rp := relPkg(p, fn)
		if (rp != c18Nbtns && rp != c18Llmnr) || fn.Blocks == nil {
			continue
		}
		for _, b := range fn.Blocks {
			for _, in := range b.Instrs {
				ci, ok := in.(ssa.CallInstruction)
				if !ok {
					continue
				}
				f := ci.Common().StaticCallee()
				if f == nil || f.String() != "(*sync.Once).Do" {
					continue
				}
				mc, ok := ci.Common().Args[1].(*ssa.MakeClosure)
				var body *ssa.Function
				if ok {
					body, _ = mc.Fn.(*ssa.Function)
				} else if g, ok := ci.Common().Args[1].(*ssa.Function); ok {
					body = g
				}
				if body == nil || body.Blocks == nil {
					continue
				}
				// once.Do(s.shutdown): the argument is a bound-method wrapper; the body is the method
				if body.Synthetic != "" {
					if obj, isF := body.Object().(*types.Func); isF {
						if d := p.SSA.FuncValue(obj); d != nil && d.Blocks != nil && p.InModule(d) {
							body = d
						}
					}
				}
				hasClose := func(g *ssa.Function) bool {
					for _, gb := range g.Blocks {
						for _, x := range gb.Instrs {
							if call, ok := x.(*ssa.Call); ok {
								if bi, ok := call.Call.Value.(*ssa.Builtin); ok && bi.Name() == "close" {
									return true
								}
							}
						}
					}
					return false
				}
				if !hasClose(body) {
					// once.Do(func() { s.shutdown() }): a literal that only forwards to one module
					// function which closes: that function is the body (its call must be the
					// literal's only path: a single block)
					var fwd *ssa.Function
					nCalls, dyn := 0, false
					for _, gb := range body.Blocks {
						for _, x := range gb.Instrs {
							ci2, ok := x.(ssa.CallInstruction)
							if !ok {
								continue
							}
							if _, isB := ci2.Common().Value.(*ssa.Builtin); isB {
								continue
							}
							nCalls++
							g := ci2.Common().StaticCallee()
							if g == nil {
								dyn = true
							} else if g.Blocks != nil && p.InModule(g) && hasClose(g) {
								fwd = g
							}
						}
					}
					switch {
					case fwd != nil && len(body.Blocks) == 1 && nCalls == 1:
						body = fwd
					case fwd != nil || dyn:
						// the close sits behind calls this rule does not follow: the entity exists, no claim
						n++
						r.OK(rule, fmt.Sprintf("%s: Once body closes through calls that are not followed", p.FuncName(fn)), p.Rel(in.Pos()), "NOT DECIDED — the function passed to Once.Do does not close a channel itself; it calls other functions (or function values) under conditions this rule does not read")
						r.Note("C18 R4-once-closes: %s NOT DECIDED — the Once body forwards to other functions", p.FuncName(fn))
						continue
					default:
						continue
					}
				}
				ord := 0
				for _, bb := range body.Blocks {
					for _, x := range bb.Instrs {
						call, ok := x.(*ssa.Call)
						if !ok {
							continue
						}
						bi, ok := call.Call.Value.(*ssa.Builtin)
						if !ok || bi.Name() != "close" {
							continue
						}
						n++
						ord++
						construct := fmt.Sprintf("%s: close #%d in the Once body runs on every path", p.FuncName(fn), ord)
						// a path entry → return that avoids bb?
						seen := map[*ssa.BasicBlock]bool{}
						var escape *ssa.BasicBlock
						var walk func(y *ssa.BasicBlock)
						walk = func(y *ssa.BasicBlock) {
							if y == bb || seen[y] || escape != nil {
								return
							}
							seen[y] = true
							if _, isRet := y.Instrs[len(y.Instrs)-1].(*ssa.Return); isRet {
								escape = y
								return
							}
							for _, s := range y.Succs {
								walk(s)
							}
						}
						walk(body.Blocks[0])
						if escape == nil {
							r.OK(rule, construct, p.Rel(call.Pos()), "every path from the entry of the Once body to a return passes through the close")
						} else {
							pos := p.Rel(call.Pos())
							r.Fail(rule, construct, pos, "the Once body can return at "+p.Rel(escape.Instrs[len(escape.Instrs)-1].Pos())+" without closing the channel; the Once is then spent, so no later call can close it and the loops waiting on it never exit")
						}
					}
				}
			}
		}
	}
	r.Floor(rule, 2)
	r.Extra["R4_once_bodies_closing"] = n
}

func fieldNameOfValue(t types.Type, i int) string {
	if p, ok := t.Underlying().(*types.Pointer); ok {
		t = p.Elem()
	}
	if st, ok := t.Underlying().(*types.Struct); ok && i < st.NumFields() {
		return st.Field(i).Name()
	}
	return "?"
}
