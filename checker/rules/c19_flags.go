package rules

import (
	"fmt"
	"go/ast"
	"go/constant"
	"go/token"
	"go/types"
	"sort"
	"strings"

	"golang.org/x/tools/go/ast/astutil"
	"golang.org/x/tools/go/packages"

	"manticheck/internal/tables"
)

func c19Word(info *types.Info, recv types.Object, field string) func(ast.Expr) bool {
	return func(e ast.Expr) bool {
		e = ast.Unparen(e)
		if field == "" {
			id, ok := e.(*ast.Ident)
			return ok && info.Uses[id] == recv
		}
		sel, ok := e.(*ast.SelectorExpr)
		if !ok {
			return false
		}
		id, ok := ast.Unparen(sel.X).(*ast.Ident)
		if !ok || info.Uses[id] != recv {
			return false
		}
		v, ok := info.Uses[sel.Sel].(*types.Var)
		return ok && v.IsField() && v.Name() == field
	}
}

// c19WordIn is c19Word for the body of fd; when the flag word is a field of the
// receiver that the function itself fills from a parameter (`kf.Value = value`),
// the parameter — never written otherwise — denotes the same word.
func c19WordIn(info *types.Info, fd *ast.FuncDecl, field string) func(ast.Expr) bool {
	recv := c19Recv(info, fd)
	base := c19Word(info, recv, field)
	if field == "" || fd.Body == nil {
		return base
	}
	params := map[types.Object]bool{}
	if fd.Type.Params != nil {
		for _, f := range fd.Type.Params.List {
			for _, n := range f.Names {
				if o := info.Defs[n]; o != nil {
					params[o] = true
				}
			}
		}
	}
	written := map[types.Object]bool{}
	stored := map[types.Object]int{}
	ast.Inspect(fd.Body, func(n ast.Node) bool {
		switch n := n.(type) {
		case *ast.AssignStmt:
			for i, l := range n.Lhs {
				if id, ok := ast.Unparen(l).(*ast.Ident); ok {
					if o := info.Uses[id]; o != nil {
						written[o] = true
					}
				}
				if base(l) && n.Tok == token.ASSIGN && len(n.Lhs) == len(n.Rhs) {
					if id, ok := ast.Unparen(n.Rhs[i]).(*ast.Ident); ok && params[info.Uses[id]] {
						stored[info.Uses[id]]++
					} else {
						stored[nil]++ // the field is also filled from something else
					}
				}
			}
		case *ast.IncDecStmt:
			if id, ok := ast.Unparen(n.X).(*ast.Ident); ok {
				written[info.Uses[id]] = true
			}
			if base(n.X) {
				stored[nil]++
			}
		case *ast.UnaryExpr:
			if id, ok := ast.Unparen(n.X).(*ast.Ident); ok && n.Op == token.AND {
				written[info.Uses[id]] = true
			}
		}
		return true
	})
	var alias types.Object
	if len(stored) == 1 {
		for o, n := range stored {
			if o != nil && n == 1 && !written[o] {
				alias = o
			}
		}
	}
	if alias == nil {
		return base
	}
	return func(e ast.Expr) bool {
		if id, ok := ast.Unparen(e).(*ast.Ident); ok && info.Uses[id] == alias {
			return true
		}
		return base(e)
	}
}

func c19Recv(info *types.Info, fd *ast.FuncDecl) types.Object {
	if fd.Recv != nil && len(fd.Recv.List) == 1 && len(fd.Recv.List[0].Names) == 1 {
		return info.Defs[fd.Recv.List[0].Names[0]]
	}
	return nil
}

func c19FuncName(rel string, fd *ast.FuncDecl) string {
	if fd.Recv != nil && len(fd.Recv.List) == 1 {
		t := fd.Recv.List[0].Type
		if s, ok := t.(*ast.StarExpr); ok {
			t = s.X
		}
		return fmt.Sprintf("(%s.%s).%s", rel, types.ExprString(t), fd.Name.Name)
	}
	return rel + "." + fd.Name.Name
}

// ---------------------------------------------------------------- name switches

func (c *c19) nameSwitch(s c19Switch) {
	r := c.R
	fkey := fmt.Sprintf("(%s.%s).%s", s.Pkg, s.Type, s.Method)
	ix := c.index(s.Pkg)
	if ix == nil {
		r.Undecided("enum-cover", fkey, "", "package does not resolve")
		return
	}
	_, fd := ix.Method(s.Type, s.Method)
	if fd == nil || fd.Body == nil {
		r.Undecided("enum-cover", fkey, "", "anchor method does not resolve")
		return
	}
	fam, err := ix.Family(s.FamType, s.Prefix)
	if err != nil {
		r.Undecided("enum-cover", fkey, c.P.Rel(fd.Pos()), err.Error())
		return
	}
	info := ix.Info()
	recv := c19Recv(info, fd)
	isWord := c19Word(info, recv, s.Field)
	var sw *ast.SwitchStmt
	for _, st := range fd.Body.List {
		if x, ok := st.(*ast.SwitchStmt); ok && x.Tag != nil && c19StoresWord(x.Init, isWord) && isWord(x.Tag) {
			if sw != nil {
				r.Undecided("enum-cover", fkey, c.P.Rel(x.Pos()), "two switches on the value")
				return
			}
			sw = x
		}
	}
	if sw == nil {
		// the naming moved into a function the value is handed to
		// (`ks.Name = keyStrengthName(ks.Value)`): decide that function
		if hfd, hinfo, param := c.nameHelper(info, fd, isWord); hfd != nil {
			isParam := func(e ast.Expr) bool {
				id, ok := ast.Unparen(e).(*ast.Ident)
				return ok && hinfo.Uses[id] == param
			}
			c.nameFunction(hinfo, hfd, isParam, fam, fkey)
			return
		}
		// not a switch any more (if-chain, table lookup, mixed): evaluate the
		// function for every declared constant instead
		c.nameFunction(info, fd, c19Word(info, c19Recv(info, fd), s.Field), fam, fkey)
		return
	}
	ph := &c19Placeholder{}
	addPlaceholder := func(e ast.Expr) {
		if sv, ok := tables.StringConst(info, e); ok {
			ph.Literals = append(ph.Literals, sv)
			return
		}
		if call, ok := ast.Unparen(e).(*ast.CallExpr); ok && tables.IsPkgFunc(tables.StaticCallee(info, call), "fmt", "Sprintf") && len(call.Args) > 0 {
			if f, ok := tables.StringConst(info, call.Args[0]); ok {
				if re := formatToRegexp(f); re != nil {
					ph.Patterns = append(ph.Patterns, re)
					ph.PatText = append(ph.PatText, f)
				}
			}
		}
	}
	nameOf := func(body []ast.Stmt) (string, ast.Expr, bool) {
		if len(body) != 1 {
			return "", nil, false
		}
		var e ast.Expr
		switch st := body[0].(type) {
		case *ast.ReturnStmt:
			if len(st.Results) == 1 {
				e = st.Results[0]
			}
		case *ast.AssignStmt:
			if len(st.Lhs) == 1 && len(st.Rhs) == 1 && st.Tok == token.ASSIGN {
				e = st.Rhs[0]
			}
		}
		if e == nil {
			return "", nil, false
		}
		sv, ok := tables.StringConst(info, e)
		return sv, e, ok
	}
	type caseRow struct {
		text, name string
		key        string
		pos        string
		ok         bool
	}
	var cases []caseRow
	covered := map[string]bool{}
	for _, cl := range sw.Body.List {
		cc := cl.(*ast.CaseClause)
		if cc.List == nil {
			for _, st := range cc.Body {
				if rs, ok := st.(*ast.ReturnStmt); ok {
					for _, e := range rs.Results {
						addPlaceholder(e)
					}
				}
				if as, ok := st.(*ast.AssignStmt); ok {
					for _, e := range as.Rhs {
						addPlaceholder(e)
					}
				}
			}
			continue
		}
		name, _, ok := nameOf(cc.Body)
		for _, ce := range cc.List {
			row := caseRow{text: types.ExprString(ce), name: name, ok: ok, pos: c.P.Rel(ce.Pos())}
			if tv, has := info.Types[ce]; has && tv.Value != nil {
				row.key, _ = tables.IntKey(tv.Value)
			}
			if row.key == "" {
				r.Undecided("enum-cover", fmt.Sprintf("%s case %s", fkey, row.text), row.pos, "case expression is not an integer constant")
				continue
			}
			covered[row.key] = true
			cases = append(cases, row)
		}
	}
	// what follows the switch is what a miss yields
	after := false
	for _, st := range fd.Body.List {
		if st == sw {
			after = true
			continue
		}
		if after {
			if rs, ok := st.(*ast.ReturnStmt); ok {
				for _, e := range rs.Results {
					addPlaceholder(e)
				}
			}
		}
	}
	for _, k := range fam {
		con := fmt.Sprintf("%s case %s", fkey, k.Name)
		if covered[k.Key] {
			r.OK("enum-cover", con, c.P.Rel(k.Pos), "value "+tables.Hex(k.Val)+" has a case")
		} else {
			r.Fail("enum-cover", con, c.P.Rel(k.Pos), fmt.Sprintf("declared constant %s (= %s) has no case in %s: it gets what a miss yields (%q %q), so it is indistinguishable from an undeclared value", k.Name, tables.Hex(k.Val), fkey, ph.Literals, ph.PatText))
		}
	}
	seen := map[string]string{}
	for _, row := range cases {
		con := fmt.Sprintf("%s case %s name", fkey, row.text)
		switch {
		case !row.ok:
			// COMPLETENESS BEFORE VERDICT: the case does more than set a constant name
			r.OK("enum-name", con, row.pos, "NOT DECIDED — the case body is not a single `return \"name\"` / `x = \"name\"`: what it names the value is not read")
			r.Note("C19 enum-name: %s NOT DECIDED — the case body is not a single constant name", con)
		case strings.TrimSpace(row.name) == "":
			r.Fail("enum-name", con, row.pos, "the name of "+row.text+" is empty")
		case ph.matches(row.name) != "":
			r.Fail("enum-name", con, row.pos, fmt.Sprintf("the name %q of %s is %s", row.name, row.text, strings.Replace(ph.matches(row.name), "String()", "the function", 1)))
		case seen[row.name] != "" && seen[row.name] != row.key:
			r.Fail("enum-name", con, row.pos, fmt.Sprintf("duplicate name %q: two different values are indistinguishable", row.name))
		default:
			seen[row.name] = row.key
			r.OK("enum-name", con, row.pos, "non-empty, not the placeholder, unique")
		}
	}
	c.sizes[fkey] = map[string]any{"cases": len(cases), "declared_identifiers": len(fam), "miss_yields": append(append([]string{}, ph.Literals...), ph.PatText...)}
}

// c19StoresWord: init is absent, or only stores into the value being named
// (`switch ks.Value = decode(b); ks.Value { … }`).
func c19StoresWord(init ast.Stmt, isWord func(ast.Expr) bool) bool {
	if init == nil {
		return true
	}
	as, ok := init.(*ast.AssignStmt)
	return ok && as.Tok == token.ASSIGN && len(as.Lhs) == 1 && isWord(as.Lhs[0])
}

// nameHelper finds the single statement of fd that hands the value being named
// to a module function of one parameter and uses its string result
// (`x.Name = nameOf(x.Value)` / `return nameOf(x.Value)`).
func (c *c19) nameHelper(info *types.Info, fd *ast.FuncDecl, isWord func(ast.Expr) bool) (*ast.FuncDecl, *types.Info, types.Object) {
	var found *ast.CallExpr
	n := 0
	for _, st := range fd.Body.List {
		var rhs []ast.Expr
		switch st := st.(type) {
		case *ast.AssignStmt:
			rhs = st.Rhs
		case *ast.ReturnStmt:
			rhs = st.Results
		}
		for _, e := range rhs {
			call, ok := ast.Unparen(e).(*ast.CallExpr)
			if !ok || len(call.Args) != 1 || !isWord(call.Args[0]) {
				continue
			}
			if tv, ok := info.Types[call.Fun]; ok && (tv.IsType() || tv.IsBuiltin()) {
				continue
			}
			found = call
			n++
		}
	}
	if n != 1 {
		return nil, nil, nil
	}
	fn := tables.StaticCallee(info, found)
	if fn == nil {
		return nil, nil, nil
	}
	sig := fn.Type().(*types.Signature)
	if sig.Recv() != nil || sig.Variadic() || sig.Params().Len() != 1 || sig.Results().Len() != 1 {
		return nil, nil, nil
	}
	if b, ok := sig.Results().At(0).Type().Underlying().(*types.Basic); !ok || b.Info()&types.IsString == 0 {
		return nil, nil, nil
	}
	hfd, hinfo := c.source(fn)
	if hfd == nil || hfd.Body == nil || hinfo == nil || len(hfd.Type.Params.List) != 1 || len(hfd.Type.Params.List[0].Names) != 1 {
		return nil, nil, nil
	}
	return hfd, hinfo, hinfo.Defs[hfd.Type.Params.List[0].Names[0]]
}

// nameFunction decides a name function of any shape (if-chain, lookup in a
// constant package-level map, switch with early returns, a mix) by evaluating
// it for every declared constant: under "value == K" (and "K is / is not a key"
// for each table consulted, read from the table's literal rows) exactly one
// return is reachable, and what it returns is K's name.
func (c *c19) nameFunction(info *types.Info, fd *ast.FuncDecl, isKey func(ast.Expr) bool, fam []*tables.Const, fkey string) {
	r := c.R
	pos := c.P.Rel(fd.Pos())
	lk := tables.AnalyseLookupFunc(info, fd, c.source, isKey)
	if len(lk.Problems) > 0 {
		// COMPLETENESS BEFORE VERDICT: a shape the path enumeration does not interpret
		what := "neither a top-level `switch` on the value nor a lookup function the rule can read: " + strings.Join(lk.Problems, "; ")
		for _, k := range fam {
			r.OK("enum-cover", fmt.Sprintf("%s case %s", fkey, k.Name), c.P.Rel(k.Pos), "NOT DECIDED — "+what)
		}
		r.Note("C19 enum-cover: %s NOT DECIDED — %s", fkey, what)
		return
	}
	// tables consulted and constants compared with
	type tab struct {
		v    *types.Var
		rows map[string]*tables.Row
		tix  *tables.Index
	}
	tabs := map[*types.Var]*tab{}
	var eqs []tables.Atom
	seenEq := map[string]bool{}
	for _, p := range lk.Paths {
		for _, a := range tables.Atoms(p.Cond) {
			switch a.Kind {
			case "unknown":
				what := "a return is guarded by a condition the rule cannot interpret: " + a.Text
				for _, k := range fam {
					r.OK("enum-cover", fmt.Sprintf("%s case %s", fkey, k.Name), c.P.Rel(k.Pos), "NOT DECIDED — "+what)
				}
				r.Note("C19 enum-cover: %s NOT DECIDED — %s", fkey, what)
				return
			case "eq":
				if k, _ := tables.IntKey(a.K); !seenEq[k] {
					seenEq[k] = true
					eqs = append(eqs, a)
				}
			case "found":
				if a.Map == nil || tabs[a.Map] != nil {
					continue
				}
				rel := strings.TrimPrefix(strings.TrimPrefix(a.Map.Pkg().Path(), c.P.ModPath), "/")
				tix := c.index(rel)
				if tix == nil {
					r.Undecided("enum-cover", fkey, pos, "table "+a.Map.Name()+" is outside the module")
					return
				}
				mt, err := tix.MapTable(a.Map.Name())
				if err != nil {
					r.Undecided("enum-cover", fkey, pos, err.Error())
					return
				}
				t := &tab{v: a.Map, rows: map[string]*tables.Row{}, tix: tix}
				for _, row := range mt.Rows {
					if row.Key == "" {
						r.Undecided("enum-cover", fmt.Sprintf("%s: %s[%s]", fkey, a.Map.Name(), row.KeyText), c.P.Rel(row.KeyExpr.Pos()), "map key is not an integer constant")
						return
					}
					t.rows[row.Key] = row
				}
				tabs[a.Map] = t
				c.registerTable(a.Map, fkey)
			}
		}
	}
	// eval returns what the function yields for the value with key k ("" = a value no constant / row mentions)
	type outcome struct {
		name    string
		isName  bool // a constant string
		pattern string
		pos     string
		why     string // non-empty: cannot decide
	}
	eval := func(key string) outcome {
		var as []tables.Assume
		for _, a := range eqs {
			k, _ := tables.IntKey(a.K)
			as = append(as, tables.Assume{Atom: a, Val: key != "" && k == key})
		}
		for _, t := range tabs {
			as = append(as, tables.Assume{Atom: tables.FoundIn(t.v), Val: key != "" && t.rows[key] != nil})
		}
		var hit *tables.RetPath
		for _, p := range lk.Paths {
			if tables.Sat(p.Cond, as...) == tables.Yes {
				if hit != nil && hit.Ret != p.Ret {
					return outcome{why: "two returns are reachable for the same value"}
				}
				hit = p
			}
		}
		if hit == nil {
			return outcome{why: "no return is reachable"}
		}
		o := outcome{pos: c.P.Rel(hit.Ret.Pos())}
		if hit.Zero {
			o.isName = true
			return o
		}
		if hit.Result == nil {
			return outcome{why: "bare return"}
		}
		res := hit.Owner.ClassifyString(hit.Result)
		switch {
		case res.Literal != nil:
			o.name, o.isName = *res.Literal, true
		case res.Pattern != nil:
			o.pattern = *res.Pattern
		case res.FromMap != nil:
			t := tabs[res.FromMap]
			if t == nil || t.rows[key] == nil {
				o.isName = true // indexing a table that has no row for the value: ""
				return o
			}
			sv, ok := tables.StringConst(t.tix.Info(), t.rows[key].ValExpr)
			if !ok {
				return outcome{why: "the table row's name is not a constant string"}
			}
			// a Sprintf wrapper around the looked-up name keeps names distinct and non-empty
			o.name, o.isName = sv, true
		default:
			return outcome{why: "cannot classify the result `" + res.Other + "`"}
		}
		return o
	}
	ph := &c19Placeholder{}
	miss := eval("")
	switch {
	case miss.why != "":
		r.Undecided("enum-cover", fkey+" miss", pos, "what an undeclared value yields: "+miss.why)
		return
	case miss.isName:
		ph.Literals = append(ph.Literals, miss.name)
	default:
		if re := formatToRegexp(miss.pattern); re != nil {
			ph.Patterns = append(ph.Patterns, re)
			ph.PatText = append(ph.PatText, miss.pattern)
		}
	}
	seen := map[string]string{}
	done := map[string]bool{}
	n := 0
	for _, k := range fam {
		con := fmt.Sprintf("%s case %s", fkey, k.Name)
		o := eval(k.Key)
		kpos := c.P.Rel(k.Pos)
		if o.why != "" {
			r.Undecided("enum-cover", con, kpos, o.why)
			continue
		}
		if !o.isName {
			r.Fail("enum-cover", con, kpos, fmt.Sprintf("declared constant %s (= %s) gets the formatted placeholder %q from %s: it is indistinguishable from an undeclared value", k.Name, tables.Hex(k.Val), o.pattern, fkey))
			continue
		}
		if why := ph.matches(o.name); why != "" && miss.pos == o.pos {
			r.Fail("enum-cover", con, kpos, fmt.Sprintf("declared constant %s (= %s) is not named by %s: it gets what a miss yields (%q %q), so it is indistinguishable from an undeclared value", k.Name, tables.Hex(k.Val), fkey, ph.Literals, ph.PatText))
			continue
		}
		r.OK("enum-cover", con, kpos, "value "+tables.Hex(k.Val)+" is named")
		if done[k.Key] {
			continue // an alias of a value already decided
		}
		done[k.Key] = true
		n++
		ncon := con + " name"
		switch {
		case strings.TrimSpace(o.name) == "":
			r.Fail("enum-name", ncon, o.pos, "the name of "+k.Name+" is empty")
		case ph.matches(o.name) != "":
			r.Fail("enum-name", ncon, o.pos, fmt.Sprintf("the name %q of %s is %s", o.name, k.Name, strings.Replace(ph.matches(o.name), "String()", "the function", 1)))
		case seen[o.name] != "":
			r.Fail("enum-name", ncon, o.pos, fmt.Sprintf("duplicate name %q: %s and %s are indistinguishable", o.name, seen[o.name], k.Name))
		default:
			seen[o.name] = k.Name
			r.OK("enum-name", ncon, o.pos, "non-empty, not the placeholder, unique")
		}
	}
	c.sizes[fkey] = map[string]any{"cases": n, "declared_identifiers": len(fam), "shape": "evaluated per constant (no top-level switch)",
		"miss_yields": append(append([]string{}, ph.Literals...), ph.PatText...)}
}

// ---------------------------------------------------------------- NT_STATUS.Error

func (c *c19) ntError() {
	r := c.R
	const rel = "windows/nt_status"
	fkey := "(" + rel + ".NT_STATUS).Error"
	ix := c.index(rel)
	if ix == nil {
		r.Undecided("nt-error", fkey, "", "package does not resolve")
		return
	}
	_, fd := ix.Method("NT_STATUS", "Error")
	m, _ := ix.Lookup("NTStatusToGoErrorMap").(*types.Var)
	sc, _ := ix.Lookup("NT_STATUS_SUCCESS").(*types.Const)
	if fd == nil || fd.Body == nil || m == nil || sc == nil {
		r.Undecided("nt-error", fkey, "", "anchor does not resolve (Error method, NTStatusToGoErrorMap or NT_STATUS_SUCCESS)")
		return
	}
	info := ix.Info()
	lk := tables.AnalyseLookupWith(info, fd, c.source)
	// COMPLETENESS BEFORE VERDICT: what the path enumeration does not interpret is
	// NOT DECIDED; a violation needs a fully interpreted path that returns nil (or
	// an error without the code) for a declared non-success status.
	undecidedPaths := 0
	notDecided := func(con, at, what string) {
		undecidedPaths++
		r.OK("nt-error", con, at, "NOT DECIDED — "+what)
		r.Note("C19 nt-error: %s NOT DECIDED — %s", con, what)
	}
	if len(lk.Problems) > 0 {
		notDecided(fkey, c.P.Rel(fd.Pos()), "shape not recognised: "+strings.Join(lk.Problems, "; "))
		return
	}
	// Every control path of Error() is enumerated with its exact guard. A
	// declared non-success status that has a row satisfies
	//     recv ∈ NTStatusToGoErrorMap  ∧  recv ≠ NT_STATUS_SUCCESS.
	// The rule decides, by evaluating the guards under that assumption (both
	// polarities, ||, &&, De Morgan, switch arms, accumulators), that no `nil`
	// return is reachable and that every other return is a fmt.Errorf that prints
	// the receiver numerically. The paths partition the state space, so this is
	// "non-nil, mentions the code" for every such status whatever the spelling.
	declared := []tables.Assume{{Atom: tables.FoundIn(m), Val: true}, {Atom: tables.RecvIs(sc.Val()), Val: false}}
	foundNonNil := 0
	seenCon := map[string]int{}
	for _, p := range lk.Paths {
		pos := c.P.Rel(p.Ret.Pos())
		if p.Result == nil && !p.Zero {
			notDecided(fkey+": return", pos, "bare return")
			continue
		}
		what := "the zero value of the result"
		if p.Result != nil {
			what = types.ExprString(p.Result)
		}
		con := fkey + ": return " + what
		seenCon[con]++
		if n := seenCon[con]; n > 1 {
			con = fmt.Sprintf("%s (path %d)", con, n)
		}
		reach := tables.Sat(p.Cond)
		if reach == tables.No {
			r.OK("nt-error", con, pos, "unreachable: its guard "+p.Cond.String()+" is contradictory")
			continue
		}
		under := tables.Sat(p.Cond, declared...)
		witness := ""
		if _, opaque := p.UnknownAtom(); under == tables.Maybe && !opaque {
			// the guard orders the receiver against constants (`s >= 0xC0000000`):
			// decided for every declared non-success status that has a row
			under, witness = c.ntConcrete(ix, p.Cond, m, sc.Val())
		}
		info, lk := p.Owner.Info, p.Owner // the function the return belongs to (Error itself or a helper it tail-calls)
		isNil := p.Zero
		if !isNil {
			if tv, ok := info.Types[p.Result]; ok && tv.IsNil() {
				isNil = true
			}
		}
		if isNil {
			switch under {
			case tables.No:
				r.OK("nt-error", con, pos, "nil only for the success value / a status absent from the table (guard "+p.Cond.String()+")")
			case tables.Yes:
				if witness != "" {
					witness = ", e.g. " + witness
				}
				r.Fail("nt-error", con, pos, "Error() can return nil for a non-success status that is present in NTStatusToGoErrorMap"+witness+" (guard "+p.Cond.String()+")")
			default:
				t, _ := p.UnknownAtom()
				notDecided(con, pos, "a nil return is guarded by a condition the rule cannot interpret: "+t)
			}
			continue
		}
		if under == tables.No {
			// only reached for the success value or a status without row: whatever it returns is outside the property
			r.OK("nt-error", con, pos, "not reachable for a declared non-success status (guard "+p.Cond.String()+")")
			continue
		}
		call, ok := ast.Unparen(p.Result).(*ast.CallExpr)
		ctor := ""
		if ok {
			switch fn := tables.StaticCallee(info, call); {
			case tables.IsPkgFunc(fn, "fmt", "Errorf"):
				ctor = "fmt.Errorf"
			case tables.IsPkgFunc(fn, "errors", "New"):
				ctor = "errors.New"
			}
		}
		if ctor == "" {
			if lk.ValVars[c19UseOf(info, p.Result)] != nil || lk.MapIndexOfRecv(p.Result) != nil {
				r.Fail("nt-error", con, pos, "Error() returns the table's error unchanged: the message does not mention the numeric status code")
			} else {
				notDecided(con, pos, "the non-nil result is not a fmt.Errorf / errors.New call the rule can read: that it is non-nil and mentions the numeric code is not established")
			}
			continue
		}
		mention, why := c19MentionsCode(info, lk.Recv, p.Result, 0)
		if mention == "" {
			if why != "" {
				notDecided(con, pos, why)
			} else {
				r.Fail("nt-error", con, pos, fmt.Sprintf("the message built by `%s` applies no numeric verb or conversion (%%d, %%x, strconv.FormatUint, … not diverted to String()) to the receiver: the error does not mention the status code", types.ExprString(p.Result)))
			}
			continue
		}
		foundNonNil++
		r.OK("nt-error", con, pos, ctor+" (never nil) with "+mention)
	}
	if foundNonNil == 0 && undecidedPaths == 0 {
		r.Fail("nt-error", fkey+": found branch", c.P.Rel(fd.Pos()), "no return under a successful lookup in NTStatusToGoErrorMap yields a non-nil error")
	}
}

// ntConcrete decides a guard that compares the receiver with constants by
// evaluating it for every non-success key of the error table: Yes (with a
// witness) when some such status satisfies it, No when none does.
func (c *c19) ntConcrete(ix *tables.Index, cond tables.Formula, m *types.Var, success constant.Value) (tables.Verdict, string) {
	mt, err := ix.MapTable(m.Name())
	if err != nil {
		return tables.Maybe, ""
	}
	res := tables.No
	for _, row := range mt.Rows {
		tv, ok := ix.Info().Types[row.KeyExpr]
		if !ok || tv.Value == nil {
			return tables.Maybe, ""
		}
		k := constant.ToInt(tv.Value)
		if k.Kind() != constant.Int || constant.Compare(k, token.EQL, constant.ToInt(success)) {
			continue
		}
		as := tables.ForValue(cond, k, func(t *types.Var) (bool, bool) { return true, t == m })
		switch tables.Sat(cond, as...) {
		case tables.Yes:
			return tables.Yes, fmt.Sprintf("%s (%s)", row.KeyText, tables.Hex(k))
		case tables.Maybe:
			res = tables.Maybe
		}
	}
	return res, ""
}

// c19UseOf returns the object an identifier expression uses (nil otherwise).
func c19UseOf(info *types.Info, e ast.Expr) types.Object {
	if id, ok := ast.Unparen(e).(*ast.Ident); ok {
		return info.Uses[id]
	}
	return nil
}

// c19MentionsCode decides that the text built by e contains the receiver
// printed as a number: a numeric fmt verb (or %x/%v when the operand's type has
// no String/Error/Format method to divert it) applied to the receiver or an
// integer conversion of it, strconv.Itoa/FormatInt/FormatUint of it, through
// fmt.Errorf / fmt.Sprintf / errors.New / fmt.Sprint and string concatenation.
// why is non-empty when the text cannot be interpreted (as opposed to "no").
func c19MentionsCode(info *types.Info, recv types.Object, e ast.Expr, depth int) (mention, why string) {
	e = ast.Unparen(e)
	if depth > 6 {
		return "", ""
	}
	switch e := e.(type) {
	case *ast.BinaryExpr:
		if e.Op == token.ADD {
			for _, x := range []ast.Expr{e.X, e.Y} {
				if m, w := c19MentionsCode(info, recv, x, depth+1); m != "" {
					return m, ""
				} else if w != "" {
					why = w
				}
			}
		}
		return "", why
	case *ast.CallExpr:
		fn := tables.StaticCallee(info, e)
		switch {
		case tables.IsPkgFunc(fn, "fmt", "Errorf", "Sprintf"):
			if len(e.Args) == 0 {
				return "", ""
			}
			format, ok := tables.StringConst(info, e.Args[0])
			if !ok {
				return "", "format is not a constant"
			}
			for _, v := range tables.ParseFormat(format) {
				if v.Arg+1 >= len(e.Args) || v.Arg < 0 {
					continue
				}
				arg := e.Args[v.Arg+1]
				if c19IsRecvNumeric(info, recv, arg) {
					diverted := tables.HasStringMethod(info.Types[arg].Type)
					switch v.Verb {
					case 'd', 'o', 'b', 'O':
						return fmt.Sprintf("%%%s%c of %s", v.Flags, v.Verb, types.ExprString(arg)), ""
					case 'x', 'X', 'v':
						if !diverted {
							return fmt.Sprintf("%%%s%c of %s", v.Flags, v.Verb, types.ExprString(arg)), ""
						}
					}
					continue
				}
				if v.Verb == 's' || v.Verb == 'v' || v.Verb == 'q' {
					if m, _ := c19MentionsCode(info, recv, arg, depth+1); m != "" {
						return m, ""
					}
				}
			}
			return "", ""
		case tables.IsPkgFunc(fn, "errors", "New"):
			if len(e.Args) == 1 {
				return c19MentionsCode(info, recv, e.Args[0], depth+1)
			}
		case tables.IsPkgFunc(fn, "strconv", "Itoa", "FormatInt", "FormatUint"):
			if len(e.Args) >= 1 && c19IsRecvNumeric(info, recv, e.Args[0]) {
				return "strconv." + fn.Name() + " of " + types.ExprString(e.Args[0]), ""
			}
		case tables.IsPkgFunc(fn, "fmt", "Sprint", "Sprintln"):
			for _, arg := range e.Args {
				if c19IsRecvNumeric(info, recv, arg) && !tables.HasStringMethod(info.Types[arg].Type) {
					return "fmt." + fn.Name() + " of " + types.ExprString(arg), ""
				}
			}
		}
	}
	return "", ""
}

// c19IsRecvNumeric: e is the receiver, or an integer conversion of it.
func c19IsRecvNumeric(info *types.Info, recv types.Object, e ast.Expr) bool {
	e = ast.Unparen(e)
	for {
		call, ok := e.(*ast.CallExpr)
		if !ok || len(call.Args) != 1 {
			break
		}
		tv, ok := info.Types[call.Fun]
		if !ok || !tv.IsType() {
			return false
		}
		if b, ok := tv.Type.Underlying().(*types.Basic); !ok || b.Info()&types.IsInteger == 0 {
			return false
		}
		e = ast.Unparen(call.Args[0])
	}
	id, ok := e.(*ast.Ident)
	return ok && info.Uses[id] == recv
}

// ---------------------------------------------------------------- flag families

func (c *c19) family(f c19Flags) {
	r := c.R
	fkey := f.Pkg + "." + f.Name
	ix := c.index(f.Pkg)
	if ix == nil {
		r.Undecided("flag-family", fkey, "", "package does not resolve")
		return
	}
	fam, err := ix.Family(f.FamType, f.Prefix)
	if err != nil {
		r.Undecided("flag-family", fkey, "", err.Error())
		return
	}
	info := ix.Info()
	byKey := map[string]*tables.Const{}
	var bits []*tables.Const
	for _, k := range fam {
		con := f.Pkg + "." + k.Name
		pos := c.P.Rel(k.Pos)
		if parts, union := ix.UnionOf(k.Obj); union && !tables.SingleBit(k.Val) {
			r.OK("flag-family", con, pos, "a named union of other constants ("+strings.Join(parts, " | ")+"): a mask, not a flag of its own")
			continue
		}
		switch {
		case constant.Sign(k.Val) == 0:
			r.OK("flag-family", con, pos, "zero: the empty-word sentinel, not a flag (its use as a mask is rejected by flag-decomp / predicate)")
			continue
		case !tables.SingleBit(k.Val):
			r.Fail("flag-family", con, pos, fmt.Sprintf("%s = %s is not a single bit: decomposing a word cannot attribute its bits to one name", k.Name, tables.Hex(k.Val)))
		case byKey[k.Key] != nil:
			r.Fail("flag-family", con, pos, fmt.Sprintf("%s and %s are the same bit %s", byKey[k.Key].Name, k.Name, tables.Hex(k.Val)))
		default:
			r.OK("flag-family", con, pos, "single bit "+tables.Hex(k.Val)+", distinct")
		}
		if byKey[k.Key] == nil {
			byKey[k.Key] = k
			bits = append(bits, k)
		}
	}
	prefix := tables.CommonPrefix(bits)
	for n := range f.Exempt {
		if _, ok := ix.Lookup(n).(*types.Const); !ok {
			r.Undecided("flag-family", fkey+" exempt "+n, "", "exemption table names a constant that no longer resolves")
		}
	}
	finfo := map[string]any{"constants": len(fam), "bits": len(bits), "prefix": prefix}

	var evals []*tables.Evaluator
	defer func() {
		// every constant table consulted while deciding this family must be proven constant
		for _, ev := range evals {
			for tv := range ev.Tables {
				c.registerTable(tv, fkey)
			}
		}
	}()
	newEval := func(fd *ast.FuncDecl) (ev *tables.Evaluator) {
		defer func() { evals = append(evals, ev) }()
		return &tables.Evaluator{Info: info, IsWord: c19WordIn(info, fd, f.Field), Env: map[types.Object]tables.Sym{},
			Defs: tables.SingleDefs(info, fd.Body), OkDefs: tables.CommaOkDefs(info, fd.Body), Source: c.source, Vars: c.varSource, Tables: map[*types.Var]bool{}}
	}

	// ---- straight-line decomposers (if-chains, loops over constant tables)
	straight := func(name string) {
		dkey := fmt.Sprintf("(%s.%s).%s", f.Pkg, f.Type, name)
		_, fd := ix.Method(f.Type, name)
		if fd == nil || fd.Body == nil {
			r.Undecided("flag-decomp", dkey, "", "anchor decomposer does not resolve")
			return
		}
		c.decomps[fd] = true
		c.bound[fd] = true
		ev := newEval(fd)
		d := ev.CollectBitTests(fd.Body)
		tested := map[string]int{}
		names := map[string]string{}
		acc := map[string]bool{}
		for _, bt := range d.Tests {
			pos := c.P.Rel(bt.If.Pos())
			con := fmt.Sprintf("%s: if %s", dkey, types.ExprString(bt.If.Cond))
			if bt.Row != "" {
				con += " [" + bt.Row + "]"
			}
			if bt.Err != nil {
				if bt.Err.Undecided {
					// which bit is tested is not known: neither this test nor "never tested" can be judged
					r.OK("flag-decomp", con, pos, "NOT DECIDED — cannot interpret the bit test: "+bt.Err.Error())
					d.Escapes = append(d.Escapes, tables.Problem{Pos: bt.If.Pos(), Msg: "a test of the word is not interpreted (" + bt.Err.Error() + ")"})
				} else {
					r.Fail("flag-decomp", con, pos, "the condition does not test one constant against itself: "+bt.Err.Error())
				}
				continue
			}
			t := bt.Test
			if t.Mask == nil {
				r.OK("flag-decomp", con, pos, "NOT DECIDED — the mask is a variable the rule does not resolve")
				d.Escapes = append(d.Escapes, tables.Problem{Pos: bt.If.Pos(), Msg: "a test of the word uses a mask the rule does not resolve"})
				continue
			}
			mk, _ := tables.IntKey(t.Mask)
			k := byKey[mk]
			switch {
			case constant.Sign(t.Mask) == 0:
				r.Fail("flag-decomp", con, pos, "the mask is zero: the test is constant")
				continue
			case k == nil:
				r.Fail("flag-decomp", con, pos, fmt.Sprintf("the mask %s is not a constant of family %s", tables.Hex(t.Mask), f.Name))
				continue
			}
			tested[mk]++
			if len(bt.Under) > 0 {
				r.Undecided("flag-decomp", con, pos, "the test only runs under a condition the rule does not interpret: "+strings.Join(bt.Under, "; "))
				continue
			}
			// a decomposer into flag VALUES appends the tested constant itself
			selfValue := len(bt.Names) == 0 && len(bt.Values) == 1 && constant.Compare(bt.Values[0], token.EQL, t.Mask)
			switch {
			case bt.Cut != "":
				r.Fail("flag-decomp", con, pos, fmt.Sprintf("when %s is set the walk over the set bits ends there (`%s`): every higher bit goes unreported, so what is reported for them depends on this bit", k.Name, bt.Cut))
			case !t.Set:
				r.Fail("flag-decomp", con, pos, "a name is reported when the bit "+k.Name+" is CLEAR")
			case bt.HasElse:
				r.Undecided("flag-decomp", con, pos, "the test has an else branch")
			case selfValue && bt.Other == 0 && len(bt.Appended) == 0:
				for _, a := range bt.Acc {
					acc[a] = true
				}
				r.OK("flag-decomp", con, pos, fmt.Sprintf("%s ⇒ the constant itself", k.Name))
			case len(bt.Names) == 0 && len(bt.Values) == 1 && bt.Other == 0 && len(bt.Appended) == 0:
				r.Fail("flag-decomp", con, pos, fmt.Sprintf("bit %s is reported as the value %s, which is not the tested bit", k.Name, tables.Hex(bt.Values[0])))
			case len(bt.Opaque) > 0 && bt.Other == len(bt.Opaque) && len(bt.Appended) == 0 && len(bt.Values)+len(bt.Names) <= 1:
				// what is reported for the bit is produced by code the analysis does not follow
				r.OK("flag-decomp", con, pos, fmt.Sprintf("NOT DECIDED — %s is tested, but what is reported for it goes through %s, which the analysis does not follow", k.Name, strings.Join(bt.Opaque, ", ")))
				r.Note("C19 flag-decomp: %s: the name reported for %s NOT DECIDED — %s in the body of its test", dkey, k.Name, strings.Join(bt.Opaque, ", "))
			case bt.Other != 0 || len(bt.Appended) != 0 || len(bt.Values) != 0 || len(bt.Names) != 1:
				r.Undecided("flag-decomp", con, pos, fmt.Sprintf("the body does not append exactly one constant name (names %q, %d other statements)", bt.Names, bt.Other+len(bt.Values)+len(bt.Appended)))
			case strings.TrimSpace(bt.Names[0]) == "":
				r.Fail("flag-decomp", con, pos, "the name reported for "+k.Name+" is empty")
			case c19In(d.Placeholders, bt.Names[0]):
				r.Fail("flag-decomp", con, pos, fmt.Sprintf("the name %q reported for %s is the placeholder of the empty word", bt.Names[0], k.Name))
			case names[bt.Names[0]] != "":
				r.Fail("flag-decomp", con, pos, fmt.Sprintf("the name %q is reported for both %s and %s", bt.Names[0], names[bt.Names[0]], k.Name))
			case len(tables.OwnerOfName(bits, prefix, bt.Names[0], mk)) > 0:
				r.Fail("flag-decomp", con, pos, fmt.Sprintf("bit %s is reported under the name %q, which is the name of %s", k.Name, bt.Names[0], tables.OwnerOfName(bits, prefix, bt.Names[0], mk)[0].Name))
			default:
				names[bt.Names[0]] = k.Name
				for _, a := range bt.Acc {
					acc[a] = true
				}
				r.OK("flag-decomp", con, pos, fmt.Sprintf("%s ⇒ %q", k.Name, bt.Names[0]))
			}
		}
		// COMPLETENESS BEFORE VERDICT: "bit never tested" may only be concluded when
		// every place the flag word flows to was followed. Where it escaped (a loop
		// of a shape the analysis does not model, a call it did not enter, a
		// function literal), the tests above are only part of the decomposition.
		var escaped []string
		seenEsc := map[string]bool{}
		for _, e := range d.Escapes {
			if !seenEsc[e.Msg] {
				seenEsc[e.Msg] = true
				escaped = append(escaped, fmt.Sprintf("%s (%s)", e.Msg, c.P.Rel(e.Pos)))
				r.OK("flag-decomp", fmt.Sprintf("%s: extraction: %s", dkey, e.Msg), c.P.Rel(e.Pos), "NOT DECIDED — the flag word flows into code the analysis does not follow, so the tests found are not known to be all of the decomposition")
			}
		}
		if len(escaped) > 0 {
			r.Note("C19 flag-decomp: %s NOT DECIDED beyond the %d tests that were found — %s", dkey, len(d.Tests), strings.Join(escaped, "; "))
		}
		for _, k := range bits {
			con := fmt.Sprintf("%s: covers %s", dkey, k.Name)
			n := tested[k.Key]
			switch {
			case n == 1:
				r.OK("flag-decomp", con, c.P.Rel(k.Pos), "tested exactly once")
			case n == 0 && f.Exempt[k.Name] != "":
				r.OK("flag-decomp", con, c.P.Rel(k.Pos), "exempt: "+f.Exempt[k.Name])
			case n == 0 && len(escaped) > 0:
				r.OK("flag-decomp", con, c.P.Rel(k.Pos), "NOT DECIDED — no test of this bit was found, but the extraction is incomplete: "+escaped[0])
			case n == 0:
				r.Fail("flag-decomp", con, c.P.Rel(fd.Pos()), fmt.Sprintf("%s (%s) is never tested by %s: a set bit is dropped from the decomposition", k.Name, tables.Hex(k.Val), dkey))
			default:
				r.Fail("flag-decomp", con, c.P.Rel(fd.Pos()), fmt.Sprintf("%s is tested %d times by %s: the bit is reported more than once", k.Name, n, dkey))
			}
		}
		if len(acc) > 1 {
			r.Undecided("flag-decomp", dkey+": accumulator", c.P.Rel(fd.Pos()), fmt.Sprintf("names are appended to several accumulators %v", c19Keys(acc)))
		}
		for _, p := range d.Problems {
			r.Undecided("flag-decomp", dkey+": control flow", c.P.Rel(p.Pos), p.Msg)
		}
		// loops: a loop the rule could not resolve to rows leaves its tests
		// undecided above; a resolved one visits its rows in index order
		// (array / slice / counter) or in map order (decided by `order`).
		var how []string
		for _, u := range d.Loops {
			lpos := c.P.Rel(u.Stmt.Pos())
			lcon := fmt.Sprintf("%s: loop at %s", dkey, c19LoopHead(u.Stmt))
			switch {
			case u.Why != "":
				// a loop whose own variable is tampered with is reported; a loop of a
				// shape the analysis does not model is NOT DECIDED (see Escapes above)
				if u.Blame && (u.WordInside || c19MentionsWord(ev, u.Stmt)) {
					r.Undecided("flag-decomp", lcon, lpos, "a loop that tests the flag word cannot be resolved to the rows of a constant table: "+u.Why)
				}
			case u.Kind == "setbits":
				first := "lowest"
				if u.Descending {
					first = "highest"
				}
				how = append(how, fmt.Sprintf("a walk over the set bits of the word, %s first (%d bit positions)", first, u.N))
			case u.Kind == "producer":
				how = append(how, fmt.Sprintf("%d values reported by %s, in its order", u.N, u.ProducerName))
			case u.Kind == "map":
				how = append(how, fmt.Sprintf("%d rows of map %s (iteration order decided separately)", u.N, u.Table.Name))
			case u.Table != nil:
				how = append(how, fmt.Sprintf("%d rows of %s in index order", u.N, u.Table.Name))
			default:
				how = append(how, fmt.Sprintf("%d iterations of a counting loop", u.N))
			}
		}
		for tv := range ev.Tables {
			c.registerTable(tv, dkey)
		}
		mapRanges := len(tables.MapOrderSites(info, fd.Body))
		ownRanges := mapRanges
		for _, h := range d.Helpers {
			c.decomps[h] = true // map iterations inside a helper are decided by `order` like the decomposer's own
			if _, hinfo := c.sourceOfDecl(h); hinfo != nil {
				mapRanges += len(tables.MapOrderSites(hinfo, h.Body))
			}
			how = append(how, "tests in helper "+h.Name.Name)
		}
		// one order obligation per decomposer, however many functions it is spread over
		switch {
		case mapRanges == 0:
			msg := "no map iteration: names are reported in source order of the tests"
			if len(how) > 0 {
				msg = "no map iteration: names are reported in row order of a constant table (" + strings.Join(how, "; ") + ")"
			}
			r.OK("order", dkey, c.P.Rel(fd.Pos()), msg)
		case ownRanges == 0:
			r.OK("order", dkey, c.P.Rel(fd.Pos()), fmt.Sprintf("no map iteration of its own; the %d map iteration(s) of the functions it builds on are decided where they occur", mapRanges))
		}
		finfo["decomposer "+name] = map[string]any{"tests": len(d.Tests), "placeholder": d.Placeholders, "loops": how}
	}
	for _, name := range f.Decomposers {
		straight(name)
	}

	// ---- decomposers that iterate the name table
	if len(f.RangeDecomp) > 0 {
		tv, _ := ix.Lookup(f.RangeTable).(*types.Var)
		mt, err := ix.MapTable(f.RangeTable)
		if tv == nil || err != nil {
			r.Undecided("flag-decomp", f.Pkg+"."+f.RangeTable, "", "anchor table does not resolve")
		} else {
			var bad []string
			for _, row := range mt.Rows {
				k := byKey[row.Key]
				if row.Key == "" || k == nil || !tables.SingleBit(k.Val) {
					bad = append(bad, row.KeyText)
				}
			}
			con := fmt.Sprintf("%s.%s: keys are single-bit constants of %s", f.Pkg, f.RangeTable, f.Name)
			if len(bad) > 0 {
				r.Fail("flag-decomp", con, c.P.Rel(mt.Pos), fmt.Sprintf("keys %v are not single-bit family constants: `word & key != 0` misreports them", bad))
			} else {
				r.OK("flag-decomp", con, c.P.Rel(mt.Pos), fmt.Sprintf("%d keys", len(mt.Rows)))
			}
		}
		for _, name := range f.RangeDecomp {
			dkey := fmt.Sprintf("(%s.%s).%s", f.Pkg, f.Type, name)
			_, fd := ix.Method(f.Type, name)
			if fd == nil || fd.Body == nil || tv == nil {
				r.Undecided("flag-decomp", dkey, "", "anchor decomposer does not resolve")
				continue
			}
			c.decomps[fd] = true
			c.bound[fd] = true
			var loops []*ast.RangeStmt
			for _, rs := range tables.MapRanges(info, fd.Body) {
				if c.tableOf(info, rs.X) == tv {
					loops = append(loops, rs)
				}
			}
			con := fmt.Sprintf("%s: range %s", dkey, f.RangeTable)
			// The symbolic argument below ("for every row: word&key != 0 ⇒ append")
			// covers the plain shape. Any other shape (no range over the map any
			// more, a negated guard with `continue`, a sorted key list, a bit walk,
			// extra statements) is decided like every other decomposer: the rows of
			// the constant table are resolved statically and each is decided on its own.
			if len(loops) != 1 {
				straight(name)
				continue
			}
			rs := loops[0]
			pos := c.P.Rel(rs.Pos())
			var keyObj, valObj types.Object
			if id, ok := rs.Key.(*ast.Ident); ok && id.Name != "_" {
				keyObj = info.Defs[id]
			}
			if id, ok := rs.Value.(*ast.Ident); ok && id.Name != "_" {
				valObj = info.Defs[id]
			}
			if keyObj == nil {
				straight(name)
				continue
			}
			ev := newEval(fd)
			ev.Env[keyObj] = tables.SKey{Obj: keyObj}
			d := ev.CollectBitTests(rs.Body)
			switch {
			case len(d.Tests) != 1 || len(rs.Body.List) != 1 || d.Tests[0].Guard || len(d.Problems) > 0 || len(d.Tests[0].Under) > 0:
				straight(name)
			case d.Tests[0].Err != nil && d.Tests[0].Err.Undecided:
				straight(name)
			case d.Tests[0].Err != nil:
				r.Fail("flag-decomp", con, pos, "the condition does not test the key against itself: "+d.Tests[0].Err.Error())
			case d.Tests[0].Test.KeyObj != keyObj:
				r.Fail("flag-decomp", con, pos, "the word is masked with "+tables.Hex(d.Tests[0].Test.Mask)+" rather than with the table key")
			case !d.Tests[0].Test.Set:
				r.Fail("flag-decomp", con, pos, "a flag is reported when its bit is CLEAR")
			case d.Tests[0].HasElse || d.Tests[0].Other != 0 || len(d.Tests[0].Names) != 0 || len(d.Tests[0].Appended) != 1:
				straight(name)
			case d.Tests[0].Appended[0] != keyObj && d.Tests[0].Appended[0] != valObj:
				r.Fail("flag-decomp", con, pos, "the test appends "+d.Tests[0].Appended[0].Name()+", which is neither the key nor the value of the tested row")
			default:
				r.OK("flag-decomp", con, pos, "for every row: word&key != 0 ⇒ append "+d.Tests[0].Appended[0].Name())
				// one `covers` obligation per family bit, as for every other shape
				rowKeys := map[string]bool{}
				for _, row := range mt.Rows {
					rowKeys[row.Key] = true
				}
				for _, k := range bits {
					ccon := fmt.Sprintf("%s: covers %s", dkey, k.Name)
					switch {
					case rowKeys[k.Key]:
						r.OK("flag-decomp", ccon, c.P.Rel(k.Pos), "reported through its row of "+f.RangeTable)
					case f.Exempt[k.Name] != "":
						r.OK("flag-decomp", ccon, c.P.Rel(k.Pos), "exempt: "+f.Exempt[k.Name])
					default:
						r.Fail("flag-decomp", ccon, c.P.Rel(fd.Pos()), fmt.Sprintf("%s (%s) has no row in %s: %s never reports it", k.Name, tables.Hex(k.Val), f.RangeTable, dkey))
					}
				}
			}
		}
	}

	// ---- predicates
	type predUse struct {
		name string
		set  bool
	}
	uses := map[string][]predUse{}
	seenPred := map[string]bool{}
	for _, m := range ix.Methods(f.Type) {
		sig := m.Type().(*types.Signature)
		if sig.Params().Len() != 0 || sig.Results().Len() != 1 {
			continue
		}
		if b, ok := sig.Results().At(0).Type().Underlying().(*types.Basic); !ok || b.Kind() != types.Bool {
			continue
		}
		fd := ix.FuncDecl(m)
		pkey := fmt.Sprintf("(%s.%s).%s", f.Pkg, f.Type, m.Name())
		if fd == nil || fd.Body == nil {
			r.Undecided("predicate", pkey, "", "no body")
			continue
		}
		seenPred[m.Name()] = true
		pos := c.P.Rel(fd.Pos())
		ev := newEval(fd)
		ev.WithResults(info, fd.Type)
		// COMPLETENESS BEFORE VERDICT: a predicate the evaluator cannot interpret
		// (a body shape, an operator, a call it does not follow) is NOT DECIDED; a
		// violation needs a fully interpreted expression that is not a test of the
		// predicate's own bit.
		notDecided := func(what string) {
			r.OK("predicate", pkey, pos, "NOT DECIDED — "+what)
			r.Note("C19 predicate: %s NOT DECIDED — %s", pkey, what)
		}
		s, why := ev.BoolResult(fd.Body)
		if s == nil {
			notDecided("the body is not interpreted: " + why)
			continue
		}
		if !tables.HasWord(s) {
			if tables.HasUnknown(s) {
				notDecided("the result contains something the evaluator does not interpret: " + s.String())
			} else {
				r.Fail("predicate", pkey, pos, "the result does not depend on the flag word: it is "+s.String()+" for every word")
			}
			continue
		}
		t, err := tables.AsMaskTest(s)
		if err != nil && err.Undecided {
			notDecided("cannot interpret the predicate: " + err.Error())
			continue
		}
		if err != nil {
			r.Fail("predicate", pkey, pos, "the predicate is not `recv & C ⋈ 0|C` for one constant: "+err.Error())
			continue
		}
		if t.Mask == nil {
			notDecided("the mask is a variable")
			continue
		}
		mk, _ := tables.IntKey(t.Mask)
		k := byKey[mk]
		if k == nil || constant.Sign(t.Mask) == 0 {
			r.Fail("predicate", pkey, pos, fmt.Sprintf("the mask %s is not a (non-zero) constant of family %s: the predicate does not depend on exactly one named bit", tables.Hex(t.Mask), f.Name))
			continue
		}
		if want, ok := f.Preds[m.Name()]; ok {
			wc, _ := ix.Lookup(want.Const).(*types.Const)
			if wc == nil {
				r.Undecided("predicate", pkey, pos, "frozen table names "+want.Const+", which no longer resolves")
				continue
			}
			wk, _ := tables.IntKey(wc.Val())
			if wk != mk {
				r.Fail("predicate", pkey, pos, fmt.Sprintf("%s tests %s (%s) but its own bit is %s (%s)", m.Name(), k.Name, tables.Hex(k.Val), want.Const, tables.Hex(wc.Val())))
				continue
			}
			if want.Set != t.Set {
				r.Fail("predicate", pkey, pos, fmt.Sprintf("%s has inverted polarity: it holds when %s is %s", m.Name(), k.Name, map[bool]string{true: "set", false: "clear"}[t.Set]))
				continue
			}
		}
		uses[mk] = append(uses[mk], predUse{m.Name(), t.Set})
		dup := false
		for _, u := range uses[mk][:len(uses[mk])-1] {
			if u.set == t.Set {
				r.Fail("predicate", pkey, pos, fmt.Sprintf("%s and %s both test %s with the same polarity: one of them does not depend on its own bit", u.name, m.Name(), k.Name))
				dup = true
			}
		}
		if dup {
			continue
		}
		r.OK("predicate", pkey, pos, fmt.Sprintf("recv & %s %s", k.Name, map[bool]string{true: "set", false: "clear"}[t.Set]))
	}
	for n := range f.Preds {
		if !seenPred[n] {
			r.Undecided("predicate", fmt.Sprintf("(%s.%s).%s", f.Pkg, f.Type, n), "", "predicate of the frozen table no longer resolves")
		}
	}
	c.sizes["family "+fkey] = finfo
}

// c19LoopHead renders the header of a loop statement (construct text: no line numbers).
func c19LoopHead(s ast.Stmt) string {
	switch s := s.(type) {
	case *ast.RangeStmt:
		out := "for "
		if s.Key != nil {
			out += types.ExprString(s.Key)
			if s.Value != nil {
				out += ", " + types.ExprString(s.Value)
			}
			out += " " + s.Tok.String() + " "
		}
		return out + "range " + types.ExprString(s.X)
	case *ast.ForStmt:
		if s.Cond != nil {
			return "for …; " + types.ExprString(s.Cond) + "; …"
		}
		return "for"
	}
	return fmt.Sprintf("%T", s)
}

// c19MentionsWord reports whether the flag word occurs inside n.
func c19MentionsWord(ev *tables.Evaluator, n ast.Node) bool {
	found := false
	ast.Inspect(n, func(x ast.Node) bool {
		if e, ok := x.(ast.Expr); ok && ev.IsWord != nil && ev.IsWord(e) {
			found = true
		}
		return !found
	})
	return found
}

// sourceOfDecl finds the type information a function declaration was checked with.
func (c *c19) sourceOfDecl(fd *ast.FuncDecl) (*ast.FuncDecl, *types.Info) {
	for _, pk := range c.P.Pkgs {
		if o := pk.TypesInfo.Defs[fd.Name]; o != nil {
			return fd, pk.TypesInfo
		}
	}
	return nil, nil
}

// varSource gives the initialiser of a package-level variable of the module.
func (c *c19) varSource(v *types.Var) (ast.Expr, *types.Info) {
	if v.Pkg() == nil || !strings.HasPrefix(v.Pkg().Path(), c.P.ModPath) {
		return nil, nil
	}
	ix := c.index(strings.TrimPrefix(strings.TrimPrefix(v.Pkg().Path(), c.P.ModPath), "/"))
	if ix == nil {
		return nil, nil
	}
	return ix.VarInit(v), ix.Info()
}

// registerTable adds a table a decomposer was resolved through to the set of
// name tables, so that table-const proves its literal rows are its run-time rows.
func (c *c19) registerTable(v *types.Var, user string) {
	if _, ok := c.tabs[v]; ok {
		return
	}
	name := v.Name()
	if v.Pkg() != nil {
		rel := strings.TrimPrefix(strings.TrimPrefix(v.Pkg().Path(), c.P.ModPath), "/")
		if v.Parent() == v.Pkg().Scope() {
			name = rel + "." + v.Name()
		} else {
			name = user + ": local table " + v.Name()
		}
	}
	c.tabs[v] = name
	c.tabPos[v] = c.P.Rel(v.Pos())
}

func c19In(l []string, s string) bool {
	for _, x := range l {
		if x == s {
			return true
		}
	}
	return false
}

func c19Keys(m map[string]bool) []string {
	var out []string
	for k := range m {
		out = append(out, k)
	}
	sort.Strings(out)
	return out
}

// tableOf resolves e to a registered name-table variable.
func (c *c19) tableOf(info *types.Info, e ast.Expr) *types.Var {
	var id *ast.Ident
	switch x := ast.Unparen(e).(type) {
	case *ast.Ident:
		id = x
	case *ast.SelectorExpr:
		id = x.Sel
	}
	if id == nil {
		return nil
	}
	v, _ := info.Uses[id].(*types.Var)
	if v == nil {
		return nil
	}
	if _, ok := c.tabs[v]; ok {
		return v
	}
	return nil
}

// ---------------------------------------------------------------- order

// orderEverywhere decides every map iteration inside a bound decomposer and
// every iteration over a registered name table anywhere in the module: a
// `range` over the map, a `range` over maps.Keys / Values / All of it, or
// slices.Collect of those. A function that is not exported and returns the
// slice it filled in map order (a two-phase split: collect, then sort) is
// decided at its call sites: each must sort the result before any other use.
func (c *c19) orderEverywhere() {
	r := c.R
	type fnInfo struct {
		rel  string
		pk   *packages.Package
		fd   *ast.FuncDecl
		name string
	}
	var all []fnInfo
	for _, pk := range c.P.Pkgs {
		rel := strings.TrimPrefix(strings.TrimPrefix(pk.PkgPath, c.P.ModPath), "/")
		for _, file := range pk.Syntax {
			for _, d := range file.Decls {
				if fd, ok := d.(*ast.FuncDecl); ok && fd.Body != nil {
					all = append(all, fnInfo{rel, pk, fd, c19FuncName(rel, fd)})
				}
			}
		}
	}
	// functions that hand a map-ordered slice to their callers → why
	unordered := map[types.Object]string{}
	report := func(f fnInfo, con, pos string, site *tables.MapOrderSite) {
		st, why, _ := tables.OrderAfter(f.pk.TypesInfo, f.fd.Body, site)
		fnObj := f.pk.TypesInfo.Defs[f.fd.Name]
		switch st {
		case "ok":
			r.OK("order", con, pos, "every variable filled by the iteration is sorted before any other use")
		case "returned":
			if fnObj != nil && !fnObj.Exported() && !c.bound[f.fd] {
				unordered[fnObj] = f.name
				r.OK("order", con, pos, "the slice filled in map order is returned unsorted by an unexported function: decided at its call sites")
				return
			}
			r.Fail("order", con, pos, "map iteration order reaches the result: "+why)
		case "fail":
			r.Fail("order", con, pos, "map iteration order reaches the result: "+why)
		default:
			r.Undecided("order", con, pos, why)
		}
	}
	for _, f := range all {
		for _, site := range tables.MapOrderSites(f.pk.TypesInfo, f.fd.Body) {
			tv := c.tableOf(f.pk.TypesInfo, site.X)
			if tv == nil && !c.decomps[f.fd] {
				continue
			}
			con := fmt.Sprintf("%s: range %s", f.name, types.ExprString(site.X))
			report(f, con, c.P.Rel(site.Stmt.Pos()), site)
		}
	}
	// call sites of the functions found above (their callers may in turn return
	// the slice unsorted: a few rounds)
	done := map[*ast.CallExpr]bool{}
	for round := 0; round < 3 && len(unordered) > 0; round++ {
		before := len(unordered)
		for _, f := range all {
			info := f.pk.TypesInfo
			// assignment forms are decided like any other map-ordered definition
			assigned := map[*ast.CallExpr]*tables.MapOrderSite{}
			ast.Inspect(f.fd.Body, func(n ast.Node) bool {
				as, ok := n.(*ast.AssignStmt)
				if !ok || len(as.Lhs) != 1 || len(as.Rhs) != 1 {
					return true
				}
				call, ok := ast.Unparen(as.Rhs[0]).(*ast.CallExpr)
				if !ok || unordered[tables.StaticCallee(info, call)] == "" {
					return true
				}
				if id, ok := ast.Unparen(as.Lhs[0]).(*ast.Ident); ok && id.Name != "_" {
					o := info.Defs[id]
					if o == nil {
						o = info.Uses[id]
					}
					if o != nil {
						assigned[call] = &tables.MapOrderSite{Stmt: as, Call: call, Vars: []types.Object{o}}
					}
				}
				return true
			})
			ast.Inspect(f.fd.Body, func(n ast.Node) bool {
				call, ok := n.(*ast.CallExpr)
				if !ok || done[call] {
					return true
				}
				callee := tables.StaticCallee(info, call)
				if callee == nil || unordered[callee] == "" {
					return true
				}
				done[call] = true
				con := fmt.Sprintf("%s: result of %s", f.name, unordered[callee])
				pos := c.P.Rel(call.Pos())
				if site := assigned[call]; site != nil {
					report(f, con, pos, site)
				} else {
					r.Fail("order", con, pos, "map iteration order reaches the result: "+unordered[callee]+" returns a slice it filled in map-iteration order, and the result is used here without being sorted first")
				}
				return true
			})
		}
		if len(unordered) == before {
			break
		}
	}
}

// ---------------------------------------------------------------- table-const

func (c *c19) tableConst() {
	r := c.R
	type use struct {
		kind, where, pos string
	}
	found := map[*types.Var][]use{}
	for _, pk := range c.P.Pkgs {
		rel := strings.TrimPrefix(strings.TrimPrefix(pk.PkgPath, c.P.ModPath), "/")
		for _, file := range pk.Syntax {
			var ids []*ast.Ident
			ast.Inspect(file, func(n ast.Node) bool {
				if id, ok := n.(*ast.Ident); ok {
					if v, ok := pk.TypesInfo.Uses[id].(*types.Var); ok {
						if _, reg := c.tabs[v]; reg {
							ids = append(ids, id)
						}
					}
				}
				return true
			})
			for _, id := range ids {
				v := pk.TypesInfo.Uses[id].(*types.Var)
				path, _ := astutil.PathEnclosingInterval(file, id.Pos(), id.End())
				kind := c.classifyUse(pk.TypesInfo, id, path, 0)
				where := rel
				for _, n := range path {
					if fd, ok := n.(*ast.FuncDecl); ok {
						where = c19FuncName(rel, fd)
					}
				}
				found[v] = append(found[v], use{kind, where, c.P.Rel(id.Pos())})
			}
		}
	}
	var vars []*types.Var
	for v := range c.tabs {
		vars = append(vars, v)
	}
	sort.Slice(vars, func(i, j int) bool { return c.tabs[vars[i]] < c.tabs[vars[j]] })
	for _, v := range vars {
		con := c.tabs[v]
		var bad []string
		pos := c.tabPos[v]
		for _, u := range found[v] {
			if u.kind != "read" {
				bad = append(bad, fmt.Sprintf("%s in %s", u.kind, u.where))
				pos = u.pos
			}
		}
		positive := false
		for _, b := range bad {
			for _, w := range []string{"written", "removed", "re-assigned", "assigned by a range clause", "pointer method"} {
				if strings.Contains(b, w) {
					positive = true
				}
			}
		}
		if len(bad) > 0 && positive {
			sort.Strings(bad)
			r.Undecided("table-const", con, pos, "the table is not a compile-time constant table, so its literal rows do not decide the property: "+strings.Join(bad, "; "))
		} else if len(bad) > 0 {
			// COMPLETENESS BEFORE VERDICT: the table is handed to something the rule does
			// not follow (an alias, a call it cannot read); no write was observed
			sort.Strings(bad)
			r.OK("table-const", con, pos, "NOT DECIDED — no write of the table was found, but it flows to code the rule does not follow: "+strings.Join(bad, "; "))
			r.Note("C19 table-const: %s NOT DECIDED — %s", con, strings.Join(bad, "; "))
		} else {
			r.OK("table-const", con, pos, fmt.Sprintf("%d uses in the module, all reads (index, range, len)", len(found[v])))
		}
	}
}

// c19PathTo returns the chain of nodes from target up to root (innermost first).
func c19PathTo(root, target ast.Node) []ast.Node {
	var stack, out []ast.Node
	ast.Inspect(root, func(n ast.Node) bool {
		if out != nil {
			return false
		}
		if n == nil {
			stack = stack[:len(stack)-1]
			return true
		}
		stack = append(stack, n)
		if n == target {
			for i := len(stack) - 1; i >= 0; i-- {
				out = append(out, stack[i])
			}
			return false
		}
		return true
	})
	return out
}

// paramOnlyRead decides that the module function called by call only reads
// the table it receives as argument number argIdx (-1: as receiver).
func (c *c19) paramOnlyRead(info *types.Info, call *ast.CallExpr, argIdx int, depth int) (string, bool) {
	if depth >= 2 {
		return "", false
	}
	fun := call.Fun
	if ix, ok := ast.Unparen(fun).(*ast.IndexExpr); ok {
		fun = ix.X
	}
	if ix, ok := ast.Unparen(fun).(*ast.IndexListExpr); ok {
		fun = ix.X
	}
	fn := tables.StaticCallee(info, &ast.CallExpr{Fun: fun})
	if fn == nil {
		return "", false
	}
	sig, ok := fn.Type().(*types.Signature)
	if !ok || sig.Variadic() {
		return "", false
	}
	fd, finfo := c.source(fn)
	if fd == nil || fd.Body == nil || finfo == nil {
		return "", false
	}
	var param types.Object
	i := 0
	for _, f := range fd.Type.Params.List {
		for _, n := range f.Names {
			if i == argIdx {
				param = finfo.Defs[n]
			}
			i++
		}
	}
	if param == nil {
		return "", false
	}
	bad := ""
	ast.Inspect(fd.Body, func(n ast.Node) bool {
		id, ok := n.(*ast.Ident)
		if !ok || finfo.Uses[id] != param || bad != "" {
			return bad == ""
		}
		if k := c.classifyUse(finfo, id, c19PathTo(fd, id), depth+1); k != "read" {
			bad = k + " in " + fd.Name.Name
		}
		return true
	})
	if bad != "" {
		return bad, false
	}
	return "", true
}

// c19StripInst removes an explicit instantiation from a call's function operand.
func c19StripInst(fun ast.Expr) ast.Expr {
	if ix, ok := ast.Unparen(fun).(*ast.IndexExpr); ok {
		return ix.X
	}
	if ix, ok := ast.Unparen(fun).(*ast.IndexListExpr); ok {
		return ix.X
	}
	return fun
}

// pathFunc returns the function declaration a path (innermost first) lies in.
func pathFunc(path []ast.Node) (*ast.FuncDecl, bool) {
	for _, n := range path {
		if fd, ok := n.(*ast.FuncDecl); ok {
			return fd, true
		}
	}
	return nil, false
}

// aliasUses classifies every use of the local alias o (inside the function the
// path lies in): "read" when all of them only read.
func (c *c19) aliasUses(info *types.Info, o types.Object, path []ast.Node, what string, depth int) string {
	fd, ok := pathFunc(path)
	if !ok || fd.Body == nil {
		return "aliased by " + what
	}
	bad := ""
	ast.Inspect(fd.Body, func(n ast.Node) bool {
		id, ok := n.(*ast.Ident)
		if !ok || info.Uses[id] != o || bad != "" {
			return bad == ""
		}
		if k := c.classifyUse(info, id, c19PathTo(fd, id), depth+1); k != "read" {
			bad = k + " through " + what
		}
		return true
	})
	if bad != "" {
		return bad
	}
	return "read"
}

// fieldUses classifies every use of the struct field fv (which holds a table)
// anywhere in the module.
func (c *c19) fieldUses(fv *types.Var, depth int) string {
	origin := fv.Origin()
	bad := ""
	for _, pk := range c.P.Pkgs {
		if bad != "" {
			break
		}
		for _, file := range pk.Syntax {
			var sels []*ast.SelectorExpr
			ast.Inspect(file, func(n ast.Node) bool {
				if sel, ok := n.(*ast.SelectorExpr); ok {
					if v, ok := pk.TypesInfo.Uses[sel.Sel].(*types.Var); ok && v.IsField() && v.Origin() == origin {
						sels = append(sels, sel)
					}
				}
				return true
			})
			for _, sel := range sels {
				if k := c.classifyUse(pk.TypesInfo, sel.Sel, c19PathTo(file, sel.Sel), depth+1); k != "read" {
					bad = k + " through the field " + fv.Name()
					break
				}
			}
		}
	}
	if bad != "" {
		return bad
	}
	return "read"
}

func (c *c19) classifyUse(info *types.Info, id *ast.Ident, path []ast.Node, depth int) string {
	pk := &packages.Package{TypesInfo: info}
	// path[0] is the identifier; climb over a qualifying selector and parentheses
	i := 1
	var cur ast.Node = id
	if i < len(path) {
		if sel, ok := path[i].(*ast.SelectorExpr); ok && sel.Sel == id {
			cur = sel
			i++
		}
	}
	for i < len(path) {
		if p, ok := path[i].(*ast.ParenExpr); ok {
			cur = p
			i++
			continue
		}
		break
	}
	if i >= len(path) {
		return "unclassified use"
	}
	// a field of a struct-valued table / row copy: T.f is an element like T[i]
	if sel, ok := path[i].(*ast.SelectorExpr); ok && sel.X == cur {
		if fv, ok := info.Uses[sel.Sel].(*types.Var); !ok || !fv.IsField() {
			return "method value or call on the table"
		}
	}
	switch p := path[i].(type) {
	case *ast.IndexExpr, *ast.SelectorExpr:
		if ix, ok := p.(*ast.IndexExpr); ok && ix.X != cur {
			return "read" // used as an index of something else
		}
		// climb to the outermost l-value built on the element: T[i], T[i].f, T[i].f[j] …
		var ie ast.Node = p
		j := i + 1
		for j < len(path) {
			switch pe := path[j].(type) {
			case *ast.ParenExpr:
				ie = pe
				j++
				continue
			case *ast.SelectorExpr:
				if pe.X == ie {
					ie = pe
					j++
					continue
				}
			case *ast.IndexExpr:
				if pe.X == ie {
					ie = pe
					j++
					continue
				}
			}
			break
		}
		if j < len(path) {
			switch g := path[j].(type) {
			case *ast.AssignStmt:
				for _, l := range g.Lhs {
					if l == ie {
						return "element written"
					}
				}
			case *ast.IncDecStmt:
				return "element written"
			case *ast.UnaryExpr:
				if g.Op == token.AND {
					return "element address taken"
				}
			case *ast.RangeStmt:
				if g.Key == ie || g.Value == ie {
					return "element written"
				}
			case *ast.SliceExpr:
				if g.X == ie {
					return "element sliced (aliased)"
				}
			case *ast.CallExpr:
				// a method with pointer receiver called on an addressable element
				if sel, ok := ie.(*ast.SelectorExpr); ok && g.Fun == ast.Expr(sel) {
					if fn, ok := pk.TypesInfo.Uses[sel.Sel].(*types.Func); ok {
						if sig, ok := fn.Type().(*types.Signature); ok && sig.Recv() != nil {
							if _, ptr := sig.Recv().Type().(*types.Pointer); ptr {
								return "pointer method called on an element"
							}
						}
					}
				}
			}
		}
		return "read"
	case *ast.SliceExpr:
		if p.X == cur && i+1 < len(path) {
			switch g := path[i+1].(type) {
			case *ast.RangeStmt:
				if g.X == ast.Expr(p) {
					return "read"
				}
			case *ast.CallExpr:
				if fid, ok := ast.Unparen(g.Fun).(*ast.Ident); ok {
					if b, ok := pk.TypesInfo.Uses[fid].(*types.Builtin); ok && (b.Name() == "len" || b.Name() == "cap") {
						return "read"
					}
				}
				for ai, a := range g.Args {
					if a == ast.Expr(p) {
						if why, ok := c.paramOnlyRead(info, g, ai, depth); ok {
							return "read"
						} else if why != "" {
							return "sliced and passed to a call: " + why
						}
					}
				}
			}
			return "sliced (aliased)"
		}
		if p.X != cur {
			return "read" // used as a bound of a slice expression
		}
	case *ast.RangeStmt:
		if p.X == cur {
			return "read"
		}
		return "assigned by a range clause"
	case *ast.CallExpr:
		if fid, ok := ast.Unparen(p.Fun).(*ast.Ident); ok {
			if b, ok := pk.TypesInfo.Uses[fid].(*types.Builtin); ok {
				switch b.Name() {
				case "len", "cap":
					return "read"
				case "delete", "clear":
					return "rows removed by " + b.Name()
				}
			}
		}
		// standard-library functions that write or re-order their first operand
		if fn := tables.StaticCallee(info, &ast.CallExpr{Fun: c19StripInst(p.Fun)}); len(p.Args) > 0 && ast.Node(p.Args[0]) == cur &&
			(tables.IsPkgFunc(fn, "maps", "Copy", "DeleteFunc", "Insert") ||
				tables.IsPkgFunc(fn, "slices", "Sort", "SortFunc", "SortStableFunc", "Reverse", "Delete", "DeleteFunc", "Insert", "Replace", "Compact", "CompactFunc") ||
				tables.IsPkgFunc(fn, "sort", "Slice", "SliceStable", "Sort", "Stable", "Strings", "Ints", "Float64s")) {
			return "rows written or re-ordered by " + fn.FullName()
		}
		// standard-library functions that only read their operand (and do not retain it)
		if fn := tables.StaticCallee(info, p); tables.IsPkgFunc(fn, "maps", "Clone") ||
			tables.IsPkgFunc(fn, "slices", "Contains", "ContainsFunc", "Index", "IndexFunc", "Clone", "Equal", "BinarySearch", "BinarySearchFunc") {
			return "read"
		} else if tables.IsPkgFunc(fn, "maps", "Keys", "Values", "All") {
			// an iterator over the table: only as the operand of slices.Sorted (deterministic order)
			j := i + 1
			for j < len(path) {
				if _, ok := path[j].(*ast.ParenExpr); !ok {
					break
				}
				j++
			}
			if j < len(path) {
				// the iterator is consumed on the spot: sorted, collected into a slice, or
				// ranged over. All of these only read the table; whether the map order can
				// reach a result is decided by `order`.
				if outer, ok := path[j].(*ast.CallExpr); ok {
					ofun := outer.Fun
					if ix, isIx := ast.Unparen(ofun).(*ast.IndexExpr); isIx {
						ofun = ix.X
					}
					if tables.IsPkgFunc(tables.StaticCallee(info, &ast.CallExpr{Fun: ofun}), "slices", "Sorted", "Collect", "AppendSeq") {
						return "read"
					}
				}
				if rs, ok := path[j].(*ast.RangeStmt); ok && ast.Unparen(rs.X) == ast.Expr(p) {
					return "read"
				}
			}
			return "iterated through " + fn.FullName() + " in map order"
		}
		// handed to a module function that only reads it (a shared lookup / decompose helper)
		for ai, a := range p.Args {
			if ast.Node(a) == cur {
				if why, ok := c.paramOnlyRead(info, p, ai, depth); ok {
					return "read"
				} else if why != "" {
					return "passed to a call: " + why
				}
			}
		}
		return "passed to a call"
	case *ast.AssignStmt:
		for _, l := range p.Lhs {
			if l == cur {
				return "table re-assigned"
			}
		}
		// `t := T`: every use of the local alias is classified in turn
		if p.Tok == token.DEFINE && len(p.Lhs) == len(p.Rhs) && depth < 2 {
			for k, rhs := range p.Rhs {
				if ast.Node(rhs) != cur {
					continue
				}
				if lid, ok := p.Lhs[k].(*ast.Ident); ok {
					if o := info.Defs[lid]; o != nil {
						return c.aliasUses(info, o, path, "the local alias "+lid.Name, depth)
					}
				}
			}
		}
		return "aliased by assignment"
	case *ast.ValueSpec:
		if depth < 2 {
			for k, v := range p.Values {
				if ast.Node(v) == cur && k < len(p.Names) {
					if o := info.Defs[p.Names[k]]; o != nil {
						if _, isLocal := pathFunc(path); isLocal {
							return c.aliasUses(info, o, path, "the local alias "+p.Names[k].Name, depth)
						}
					}
				}
			}
		}
		return "aliased by declaration"
	case *ast.KeyValueExpr:
		// `S{names: T}`: the table is held by a struct field; every use of that field
		// anywhere in the module is classified in turn
		if ast.Node(p.Value) == cur && depth < 2 {
			if kid, ok := p.Key.(*ast.Ident); ok {
				if fv, ok := info.Uses[kid].(*types.Var); ok && fv.IsField() {
					return c.fieldUses(fv, depth)
				}
			}
		}
	case *ast.UnaryExpr:
		if p.Op == token.AND {
			return "address taken"
		}
	}
	return fmt.Sprintf("escapes (%T)", path[i])
}
