package rules

import (
	"fmt"
	"go/ast"
	"go/constant"
	"go/token"
	"go/types"
	"sort"
	"strings"

	"golang.org/x/tools/go/ast/astutil"
	"golang.org/x/tools/go/packages"

	"manticheck/internal/tables"
)

func c19Word(info *types.Info, recv types.Object, field string) func(ast.Expr) bool {
	return func(e ast.Expr) bool {
		e = ast.Unparen(e)
		if field == "" {
			id, ok := e.(*ast.Ident)
			return ok && info.Uses[id] == recv
		}
		sel, ok := e.(*ast.SelectorExpr)
		if !ok {
			return false
		}
		id, ok := ast.Unparen(sel.X).(*ast.Ident)
		if !ok || info.Uses[id] != recv {
			return false
		}
		v, ok := info.Uses[sel.Sel].(*types.Var)
		return ok && v.IsField() && v.Name() == field
	}
}

func c19Recv(info *types.Info, fd *ast.FuncDecl) types.Object {
	if fd.Recv != nil && len(fd.Recv.List) == 1 && len(fd.Recv.List[0].Names) == 1 {
		return info.Defs[fd.Recv.List[0].Names[0]]
	}
	return nil
}

func c19FuncName(rel string, fd *ast.FuncDecl) string {
	if fd.Recv != nil && len(fd.Recv.List) == 1 {
		t := fd.Recv.List[0].Type
		if s, ok := t.(*ast.StarExpr); ok {
			t = s.X
		}
		return fmt.Sprintf("(%s.%s).%s", rel, types.ExprString(t), fd.Name.Name)
	}
	return rel + "." + fd.Name.Name
}

// ---------------------------------------------------------------- name switches

func (c *c19) nameSwitch(s c19Switch) {
	r := c.R
	fkey := fmt.Sprintf("(%s.%s).%s", s.Pkg, s.Type, s.Method)
	ix := c.index(s.Pkg)
	if ix == nil {
		r.Undecided("enum-cover", fkey, "", "package does not resolve")
		return
	}
	_, fd := ix.Method(s.Type, s.Method)
	if fd == nil || fd.Body == nil {
		r.Undecided("enum-cover", fkey, "", "anchor method does not resolve")
		return
	}
	fam, err := ix.Family(s.FamType, s.Prefix)
	if err != nil {
		r.Undecided("enum-cover", fkey, c.P.Rel(fd.Pos()), err.Error())
		return
	}
	info := ix.Info()
	recv := c19Recv(info, fd)
	isWord := c19Word(info, recv, s.Field)
	var sw *ast.SwitchStmt
	for _, st := range fd.Body.List {
		if x, ok := st.(*ast.SwitchStmt); ok && x.Tag != nil && x.Init == nil && isWord(x.Tag) {
			if sw != nil {
				r.Undecided("enum-cover", fkey, c.P.Rel(x.Pos()), "two switches on the value")
				return
			}
			sw = x
		}
	}
	if sw == nil {
		r.Undecided("enum-cover", fkey, c.P.Rel(fd.Pos()), "no top-level `switch` on the value found: shape not recognised")
		return
	}
	ph := &c19Placeholder{}
	addPlaceholder := func(e ast.Expr) {
		if sv, ok := tables.StringConst(info, e); ok {
			ph.Literals = append(ph.Literals, sv)
			return
		}
		if call, ok := ast.Unparen(e).(*ast.CallExpr); ok && tables.IsPkgFunc(tables.StaticCallee(info, call), "fmt", "Sprintf") && len(call.Args) > 0 {
			if f, ok := tables.StringConst(info, call.Args[0]); ok {
				if re := formatToRegexp(f); re != nil {
					ph.Patterns = append(ph.Patterns, re)
					ph.PatText = append(ph.PatText, f)
				}
			}
		}
	}
	nameOf := func(body []ast.Stmt) (string, ast.Expr, bool) {
		if len(body) != 1 {
			return "", nil, false
		}
		var e ast.Expr
		switch st := body[0].(type) {
		case *ast.ReturnStmt:
			if len(st.Results) == 1 {
				e = st.Results[0]
			}
		case *ast.AssignStmt:
			if len(st.Lhs) == 1 && len(st.Rhs) == 1 && st.Tok == token.ASSIGN {
				e = st.Rhs[0]
			}
		}
		if e == nil {
			return "", nil, false
		}
		sv, ok := tables.StringConst(info, e)
		return sv, e, ok
	}
	type caseRow struct {
		text, name string
		key        string
		pos        string
		ok         bool
	}
	var cases []caseRow
	covered := map[string]bool{}
	for _, cl := range sw.Body.List {
		cc := cl.(*ast.CaseClause)
		if cc.List == nil {
			for _, st := range cc.Body {
				if rs, ok := st.(*ast.ReturnStmt); ok {
					for _, e := range rs.Results {
						addPlaceholder(e)
					}
				}
				if as, ok := st.(*ast.AssignStmt); ok {
					for _, e := range as.Rhs {
						addPlaceholder(e)
					}
				}
			}
			continue
		}
		name, _, ok := nameOf(cc.Body)
		for _, ce := range cc.List {
			row := caseRow{text: types.ExprString(ce), name: name, ok: ok, pos: c.P.Rel(ce.Pos())}
			if tv, has := info.Types[ce]; has && tv.Value != nil {
				row.key, _ = tables.IntKey(tv.Value)
			}
			if row.key == "" {
				r.Undecided("enum-cover", fmt.Sprintf("%s case %s", fkey, row.text), row.pos, "case expression is not an integer constant")
				continue
			}
			covered[row.key] = true
			cases = append(cases, row)
		}
	}
	// what follows the switch is what a miss yields
	after := false
	for _, st := range fd.Body.List {
		if st == sw {
			after = true
			continue
		}
		if after {
			if rs, ok := st.(*ast.ReturnStmt); ok {
				for _, e := range rs.Results {
					addPlaceholder(e)
				}
			}
		}
	}
	for _, k := range fam {
		con := fmt.Sprintf("%s case %s", fkey, k.Name)
		if covered[k.Key] {
			r.OK("enum-cover", con, c.P.Rel(k.Pos), "value "+tables.Hex(k.Val)+" has a case")
		} else {
			r.Fail("enum-cover", con, c.P.Rel(k.Pos), fmt.Sprintf("declared constant %s (= %s) has no case in %s: it gets what a miss yields (%q %q), so it is indistinguishable from an undeclared value", k.Name, tables.Hex(k.Val), fkey, ph.Literals, ph.PatText))
		}
	}
	seen := map[string]string{}
	for _, row := range cases {
		con := fmt.Sprintf("%s case %s name", fkey, row.text)
		switch {
		case !row.ok:
			r.Undecided("enum-name", con, row.pos, "the case body is not a single `return \"name\"` / `x = \"name\"`")
		case strings.TrimSpace(row.name) == "":
			r.Fail("enum-name", con, row.pos, "the name of "+row.text+" is empty")
		case ph.matches(row.name) != "":
			r.Fail("enum-name", con, row.pos, fmt.Sprintf("the name %q of %s is %s", row.name, row.text, strings.Replace(ph.matches(row.name), "String()", "the function", 1)))
		case seen[row.name] != "" && seen[row.name] != row.key:
			r.Fail("enum-name", con, row.pos, fmt.Sprintf("duplicate name %q: two different values are indistinguishable", row.name))
		default:
			seen[row.name] = row.key
			r.OK("enum-name", con, row.pos, "non-empty, not the placeholder, unique")
		}
	}
	c.sizes[fkey] = map[string]any{"cases": len(cases), "declared_identifiers": len(fam), "miss_yields": append(append([]string{}, ph.Literals...), ph.PatText...)}
}

// ---------------------------------------------------------------- NT_STATUS.Error

func (c *c19) ntError() {
	r := c.R
	const rel = "windows/nt_status"
	fkey := "(" + rel + ".NT_STATUS).Error"
	ix := c.index(rel)
	if ix == nil {
		r.Undecided("nt-error", fkey, "", "package does not resolve")
		return
	}
	_, fd := ix.Method("NT_STATUS", "Error")
	m, _ := ix.Lookup("NTStatusToGoErrorMap").(*types.Var)
	sc, _ := ix.Lookup("NT_STATUS_SUCCESS").(*types.Const)
	if fd == nil || fd.Body == nil || m == nil || sc == nil {
		r.Undecided("nt-error", fkey, "", "anchor does not resolve (Error method, NTStatusToGoErrorMap or NT_STATUS_SUCCESS)")
		return
	}
	info := ix.Info()
	lk := tables.AnalyseLookup(info, fd)
	if len(lk.Problems) > 0 {
		r.Undecided("nt-error", fkey, c.P.Rel(fd.Pos()), "shape not recognised: "+strings.Join(lk.Problems, "; "))
		return
	}
	success := constant.ToInt(sc.Val())
	foundNonNil := 0
	for _, p := range lk.Paths {
		pos := c.P.Rel(p.Ret.Pos())
		if p.Result == nil {
			r.Undecided("nt-error", fkey+": return", pos, "bare return")
			continue
		}
		con := fkey + ": return " + types.ExprString(p.Result)
		if t, ok := p.HasUnknown(); ok {
			r.Undecided("nt-error", con, pos, "guarded by a condition the rule cannot interpret: "+t)
			continue
		}
		if tv, ok := info.Types[p.Result]; ok && tv.IsNil() {
			okSuccess := p.Has("eq", false, func(a tables.Atom) bool { return constant.Compare(a.K, token.EQL, success) })
			okMissing := p.Has("found", true, func(a tables.Atom) bool { return a.Map == m })
			if okSuccess || okMissing {
				r.OK("nt-error", con, pos, "nil only for the success value / a status absent from the table")
			} else {
				r.Fail("nt-error", con, pos, "Error() can return nil for a non-success status that is present in NTStatusToGoErrorMap")
			}
			continue
		}
		call, ok := ast.Unparen(p.Result).(*ast.CallExpr)
		if !ok || !tables.IsPkgFunc(tables.StaticCallee(info, call), "fmt", "Errorf") {
			if id, isId := ast.Unparen(p.Result).(*ast.Ident); isId && lk.ValVars[info.Uses[id]] != nil {
				r.Fail("nt-error", con, pos, "Error() returns the table's error unchanged: the message does not mention the numeric status code")
			} else {
				r.Undecided("nt-error", con, pos, "non-nil result is not a fmt.Errorf call: cannot decide that the numeric code is mentioned")
			}
			continue
		}
		format, ok := tables.StringConst(info, call.Args[0])
		if !ok {
			r.Undecided("nt-error", con, pos, "format is not a constant")
			continue
		}
		mention := ""
		for _, v := range tables.ParseFormat(format) {
			if v.Arg+1 >= len(call.Args) {
				continue
			}
			arg := call.Args[v.Arg+1]
			if !c19IsRecvNumeric(info, lk.Recv, arg) {
				continue
			}
			t := info.Types[arg].Type
			diverted := tables.HasStringMethod(t)
			switch v.Verb {
			case 'd', 'o', 'b', 'O':
				mention = fmt.Sprintf("%%%s%c of %s", v.Flags, v.Verb, types.ExprString(arg))
			case 'x', 'X', 'v':
				if !diverted {
					mention = fmt.Sprintf("%%%s%c of %s", v.Flags, v.Verb, types.ExprString(arg))
				}
			}
		}
		if mention == "" {
			r.Fail("nt-error", con, pos, fmt.Sprintf("the message %q has no numeric verb (%%d, %%x, … not diverted to String()) applied to the receiver: the error does not mention the status code", format))
			continue
		}
		if p.Has("found", false, func(a tables.Atom) bool { return a.Map == m }) {
			foundNonNil++
		}
		r.OK("nt-error", con, pos, "fmt.Errorf (never nil) with "+mention)
	}
	if foundNonNil == 0 {
		r.Fail("nt-error", fkey+": found branch", c.P.Rel(fd.Pos()), "no return under a successful lookup in NTStatusToGoErrorMap yields a non-nil error")
	}
}

// c19IsRecvNumeric: e is the receiver, or an integer conversion of it.
func c19IsRecvNumeric(info *types.Info, recv types.Object, e ast.Expr) bool {
	e = ast.Unparen(e)
	for {
		call, ok := e.(*ast.CallExpr)
		if !ok || len(call.Args) != 1 {
			break
		}
		tv, ok := info.Types[call.Fun]
		if !ok || !tv.IsType() {
			return false
		}
		if b, ok := tv.Type.Underlying().(*types.Basic); !ok || b.Info()&types.IsInteger == 0 {
			return false
		}
		e = ast.Unparen(call.Args[0])
	}
	id, ok := e.(*ast.Ident)
	return ok && info.Uses[id] == recv
}

// ---------------------------------------------------------------- flag families

func (c *c19) family(f c19Flags) {
	r := c.R
	fkey := f.Pkg + "." + f.Name
	ix := c.index(f.Pkg)
	if ix == nil {
		r.Undecided("flag-family", fkey, "", "package does not resolve")
		return
	}
	fam, err := ix.Family(f.FamType, f.Prefix)
	if err != nil {
		r.Undecided("flag-family", fkey, "", err.Error())
		return
	}
	info := ix.Info()
	byKey := map[string]*tables.Const{}
	var bits []*tables.Const
	for _, k := range fam {
		con := f.Pkg + "." + k.Name
		pos := c.P.Rel(k.Pos)
		switch {
		case constant.Sign(k.Val) == 0:
			r.OK("flag-family", con, pos, "zero: the empty-word sentinel, not a flag (its use as a mask is rejected by flag-decomp / predicate)")
			continue
		case !tables.SingleBit(k.Val):
			r.Fail("flag-family", con, pos, fmt.Sprintf("%s = %s is not a single bit: decomposing a word cannot attribute its bits to one name", k.Name, tables.Hex(k.Val)))
		case byKey[k.Key] != nil:
			r.Fail("flag-family", con, pos, fmt.Sprintf("%s and %s are the same bit %s", byKey[k.Key].Name, k.Name, tables.Hex(k.Val)))
		default:
			r.OK("flag-family", con, pos, "single bit "+tables.Hex(k.Val)+", distinct")
		}
		if byKey[k.Key] == nil {
			byKey[k.Key] = k
			bits = append(bits, k)
		}
	}
	prefix := tables.CommonPrefix(bits)
	for n := range f.Exempt {
		if _, ok := ix.Lookup(n).(*types.Const); !ok {
			r.Undecided("flag-family", fkey+" exempt "+n, "", "exemption table names a constant that no longer resolves")
		}
	}
	finfo := map[string]any{"constants": len(fam), "bits": len(bits), "prefix": prefix}

	newEval := func(fd *ast.FuncDecl) *tables.Evaluator {
		return &tables.Evaluator{Info: info, IsWord: c19Word(info, c19Recv(info, fd), f.Field), Env: map[types.Object]tables.Sym{},
			Defs: tables.SingleDefs(info, fd.Body), Source: c.source}
	}

	// ---- straight-line decomposers
	for _, name := range f.Decomposers {
		dkey := fmt.Sprintf("(%s.%s).%s", f.Pkg, f.Type, name)
		_, fd := ix.Method(f.Type, name)
		if fd == nil || fd.Body == nil {
			r.Undecided("flag-decomp", dkey, "", "anchor decomposer does not resolve")
			continue
		}
		c.decomps[fd] = true
		ev := newEval(fd)
		d := ev.CollectBitTests(fd.Body)
		tested := map[string]int{}
		names := map[string]string{}
		acc := map[string]bool{}
		for _, bt := range d.Tests {
			pos := c.P.Rel(bt.If.Pos())
			con := fmt.Sprintf("%s: if %s", dkey, types.ExprString(bt.If.Cond))
			if bt.Err != nil {
				if bt.Err.Undecided {
					r.Undecided("flag-decomp", con, pos, "cannot interpret the bit test: "+bt.Err.Error())
				} else {
					r.Fail("flag-decomp", con, pos, "the condition does not test one constant against itself: "+bt.Err.Error())
				}
				continue
			}
			t := bt.Test
			if t.Mask == nil {
				r.Undecided("flag-decomp", con, pos, "mask is a variable")
				continue
			}
			mk, _ := tables.IntKey(t.Mask)
			k := byKey[mk]
			switch {
			case constant.Sign(t.Mask) == 0:
				r.Fail("flag-decomp", con, pos, "the mask is zero: the test is constant")
				continue
			case k == nil:
				r.Fail("flag-decomp", con, pos, fmt.Sprintf("the mask %s is not a constant of family %s", tables.Hex(t.Mask), f.Name))
				continue
			}
			tested[mk]++
			switch {
			case !t.Set:
				r.Fail("flag-decomp", con, pos, "a name is reported when the bit "+k.Name+" is CLEAR")
			case bt.HasElse:
				r.Undecided("flag-decomp", con, pos, "the test has an else branch")
			case bt.Other != 0 || len(bt.Appended) != 0 || len(bt.Names) != 1:
				r.Undecided("flag-decomp", con, pos, fmt.Sprintf("the body does not append exactly one constant name (names %q, %d other statements)", bt.Names, bt.Other))
			case strings.TrimSpace(bt.Names[0]) == "":
				r.Fail("flag-decomp", con, pos, "the name reported for "+k.Name+" is empty")
			case c19In(d.Placeholders, bt.Names[0]):
				r.Fail("flag-decomp", con, pos, fmt.Sprintf("the name %q reported for %s is the placeholder of the empty word", bt.Names[0], k.Name))
			case names[bt.Names[0]] != "":
				r.Fail("flag-decomp", con, pos, fmt.Sprintf("the name %q is reported for both %s and %s", bt.Names[0], names[bt.Names[0]], k.Name))
			case len(tables.OwnerOfName(bits, prefix, bt.Names[0], mk)) > 0:
				r.Fail("flag-decomp", con, pos, fmt.Sprintf("bit %s is reported under the name %q, which is the name of %s", k.Name, bt.Names[0], tables.OwnerOfName(bits, prefix, bt.Names[0], mk)[0].Name))
			default:
				names[bt.Names[0]] = k.Name
				for _, a := range bt.Acc {
					acc[a] = true
				}
				r.OK("flag-decomp", con, pos, fmt.Sprintf("%s ⇒ %q", k.Name, bt.Names[0]))
			}
		}
		for _, k := range bits {
			con := fmt.Sprintf("%s: covers %s", dkey, k.Name)
			n := tested[k.Key]
			switch {
			case n == 1:
				r.OK("flag-decomp", con, c.P.Rel(k.Pos), "tested exactly once")
			case n == 0 && f.Exempt[k.Name] != "":
				r.OK("flag-decomp", con, c.P.Rel(k.Pos), "exempt: "+f.Exempt[k.Name])
			case n == 0:
				r.Fail("flag-decomp", con, c.P.Rel(fd.Pos()), fmt.Sprintf("%s (%s) is never tested by %s: a set bit is dropped from the decomposition", k.Name, tables.Hex(k.Val), dkey))
			default:
				r.Fail("flag-decomp", con, c.P.Rel(fd.Pos()), fmt.Sprintf("%s is tested %d times by %s: the bit is reported more than once", k.Name, n, dkey))
			}
		}
		if len(acc) > 1 {
			r.Undecided("flag-decomp", dkey+": accumulator", c.P.Rel(fd.Pos()), fmt.Sprintf("names are appended to several accumulators %v", c19Keys(acc)))
		}
		if len(tables.MapRanges(info, fd.Body)) == 0 {
			r.OK("order", dkey, c.P.Rel(fd.Pos()), "no map iteration: names are reported in source order of the tests")
		}
		finfo["decomposer "+name] = map[string]any{"tests": len(d.Tests), "placeholder": d.Placeholders}
	}

	// ---- decomposers that iterate the name table
	if len(f.RangeDecomp) > 0 {
		tv, _ := ix.Lookup(f.RangeTable).(*types.Var)
		mt, err := ix.MapTable(f.RangeTable)
		if tv == nil || err != nil {
			r.Undecided("flag-decomp", f.Pkg+"."+f.RangeTable, "", "anchor table does not resolve")
		} else {
			var bad []string
			for _, row := range mt.Rows {
				k := byKey[row.Key]
				if row.Key == "" || k == nil || !tables.SingleBit(k.Val) {
					bad = append(bad, row.KeyText)
				}
			}
			con := fmt.Sprintf("%s.%s: keys are single-bit constants of %s", f.Pkg, f.RangeTable, f.Name)
			if len(bad) > 0 {
				r.Fail("flag-decomp", con, c.P.Rel(mt.Pos), fmt.Sprintf("keys %v are not single-bit family constants: `word & key != 0` misreports them", bad))
			} else {
				r.OK("flag-decomp", con, c.P.Rel(mt.Pos), fmt.Sprintf("%d keys", len(mt.Rows)))
			}
		}
		for _, name := range f.RangeDecomp {
			dkey := fmt.Sprintf("(%s.%s).%s", f.Pkg, f.Type, name)
			_, fd := ix.Method(f.Type, name)
			if fd == nil || fd.Body == nil || tv == nil {
				r.Undecided("flag-decomp", dkey, "", "anchor decomposer does not resolve")
				continue
			}
			c.decomps[fd] = true
			var loops []*ast.RangeStmt
			for _, rs := range tables.MapRanges(info, fd.Body) {
				if c.tableOf(info, rs.X) == tv {
					loops = append(loops, rs)
				}
			}
			con := fmt.Sprintf("%s: range %s", dkey, f.RangeTable)
			if len(loops) != 1 {
				r.Undecided("flag-decomp", con, c.P.Rel(fd.Pos()), fmt.Sprintf("%d iterations over %s found, expected one", len(loops), f.RangeTable))
				continue
			}
			rs := loops[0]
			pos := c.P.Rel(rs.Pos())
			var keyObj, valObj types.Object
			if id, ok := rs.Key.(*ast.Ident); ok && id.Name != "_" {
				keyObj = info.Defs[id]
			}
			if id, ok := rs.Value.(*ast.Ident); ok && id.Name != "_" {
				valObj = info.Defs[id]
			}
			if keyObj == nil {
				r.Undecided("flag-decomp", con, pos, "the range statement does not define a key variable")
				continue
			}
			ev := newEval(fd)
			ev.Env[keyObj] = tables.SKey{Obj: keyObj}
			d := ev.CollectBitTests(rs.Body)
			switch {
			case len(d.Tests) != 1 || len(rs.Body.List) != 1:
				r.Undecided("flag-decomp", con, pos, fmt.Sprintf("the loop body is not a single bit test (%d tests, %d statements)", len(d.Tests), len(rs.Body.List)))
			case d.Tests[0].Err != nil && d.Tests[0].Err.Undecided:
				r.Undecided("flag-decomp", con, pos, "cannot interpret the bit test: "+d.Tests[0].Err.Error())
			case d.Tests[0].Err != nil:
				r.Fail("flag-decomp", con, pos, "the condition does not test the key against itself: "+d.Tests[0].Err.Error())
			case d.Tests[0].Test.KeyObj != keyObj:
				r.Fail("flag-decomp", con, pos, "the word is masked with "+tables.Hex(d.Tests[0].Test.Mask)+" rather than with the table key")
			case !d.Tests[0].Test.Set:
				r.Fail("flag-decomp", con, pos, "a flag is reported when its bit is CLEAR")
			case d.Tests[0].HasElse || d.Tests[0].Other != 0 || len(d.Tests[0].Names) != 0 || len(d.Tests[0].Appended) != 1:
				r.Undecided("flag-decomp", con, pos, "the test body does not append exactly the key or the value")
			case d.Tests[0].Appended[0] != keyObj && d.Tests[0].Appended[0] != valObj:
				r.Fail("flag-decomp", con, pos, "the test appends "+d.Tests[0].Appended[0].Name()+", which is neither the key nor the value of the tested row")
			default:
				r.OK("flag-decomp", con, pos, "for every row: word&key != 0 ⇒ append "+d.Tests[0].Appended[0].Name())
			}
		}
	}

	// ---- predicates
	type predUse struct {
		name string
		set  bool
	}
	uses := map[string][]predUse{}
	seenPred := map[string]bool{}
	for _, m := range ix.Methods(f.Type) {
		sig := m.Type().(*types.Signature)
		if sig.Params().Len() != 0 || sig.Results().Len() != 1 {
			continue
		}
		if b, ok := sig.Results().At(0).Type().Underlying().(*types.Basic); !ok || b.Kind() != types.Bool {
			continue
		}
		fd := ix.FuncDecl(m)
		pkey := fmt.Sprintf("(%s.%s).%s", f.Pkg, f.Type, m.Name())
		if fd == nil || fd.Body == nil {
			r.Undecided("predicate", pkey, "", "no body")
			continue
		}
		seenPred[m.Name()] = true
		pos := c.P.Rel(fd.Pos())
		ev := newEval(fd)
		s, why := ev.BoolResult(fd.Body)
		if s == nil {
			r.Undecided("predicate", pkey, pos, why)
			continue
		}
		if !tables.HasWord(s) {
			r.Undecided("predicate", pkey, pos, "the result does not depend on the flag word in a recognised way: "+s.String())
			continue
		}
		t, err := tables.AsMaskTest(s)
		if err != nil && err.Undecided {
			r.Undecided("predicate", pkey, pos, "cannot interpret the predicate: "+err.Error())
			continue
		}
		if err != nil {
			r.Fail("predicate", pkey, pos, "the predicate is not `recv & C ⋈ 0|C` for one constant: "+err.Error())
			continue
		}
		if t.Mask == nil {
			r.Undecided("predicate", pkey, pos, "mask is a variable")
			continue
		}
		mk, _ := tables.IntKey(t.Mask)
		k := byKey[mk]
		if k == nil || constant.Sign(t.Mask) == 0 {
			r.Fail("predicate", pkey, pos, fmt.Sprintf("the mask %s is not a (non-zero) constant of family %s: the predicate does not depend on exactly one named bit", tables.Hex(t.Mask), f.Name))
			continue
		}
		if want, ok := f.Preds[m.Name()]; ok {
			wc, _ := ix.Lookup(want.Const).(*types.Const)
			if wc == nil {
				r.Undecided("predicate", pkey, pos, "frozen table names "+want.Const+", which no longer resolves")
				continue
			}
			wk, _ := tables.IntKey(wc.Val())
			if wk != mk {
				r.Fail("predicate", pkey, pos, fmt.Sprintf("%s tests %s (%s) but its own bit is %s (%s)", m.Name(), k.Name, tables.Hex(k.Val), want.Const, tables.Hex(wc.Val())))
				continue
			}
			if want.Set != t.Set {
				r.Fail("predicate", pkey, pos, fmt.Sprintf("%s has inverted polarity: it holds when %s is %s", m.Name(), k.Name, map[bool]string{true: "set", false: "clear"}[t.Set]))
				continue
			}
		}
		uses[mk] = append(uses[mk], predUse{m.Name(), t.Set})
		dup := false
		for _, u := range uses[mk][:len(uses[mk])-1] {
			if u.set == t.Set {
				r.Fail("predicate", pkey, pos, fmt.Sprintf("%s and %s both test %s with the same polarity: one of them does not depend on its own bit", u.name, m.Name(), k.Name))
				dup = true
			}
		}
		if dup {
			continue
		}
		r.OK("predicate", pkey, pos, fmt.Sprintf("recv & %s %s", k.Name, map[bool]string{true: "set", false: "clear"}[t.Set]))
	}
	for n := range f.Preds {
		if !seenPred[n] {
			r.Undecided("predicate", fmt.Sprintf("(%s.%s).%s", f.Pkg, f.Type, n), "", "predicate of the frozen table no longer resolves")
		}
	}
	c.sizes["family "+fkey] = finfo
}

func c19In(l []string, s string) bool {
	for _, x := range l {
		if x == s {
			return true
		}
	}
	return false
}

func c19Keys(m map[string]bool) []string {
	var out []string
	for k := range m {
		out = append(out, k)
	}
	sort.Strings(out)
	return out
}

// tableOf resolves e to a registered name-table variable.
func (c *c19) tableOf(info *types.Info, e ast.Expr) *types.Var {
	var id *ast.Ident
	switch x := ast.Unparen(e).(type) {
	case *ast.Ident:
		id = x
	case *ast.SelectorExpr:
		id = x.Sel
	}
	if id == nil {
		return nil
	}
	v, _ := info.Uses[id].(*types.Var)
	if v == nil {
		return nil
	}
	if _, ok := c.tabs[v]; ok {
		return v
	}
	return nil
}

// ---------------------------------------------------------------- order

// orderEverywhere decides every map iteration inside a bound decomposer and
// every iteration over a registered name table anywhere in the module.
func (c *c19) orderEverywhere() {
	r := c.R
	for _, pk := range c.P.Pkgs {
		rel := strings.TrimPrefix(strings.TrimPrefix(pk.PkgPath, c.P.ModPath), "/")
		for _, file := range pk.Syntax {
			for _, d := range file.Decls {
				fd, ok := d.(*ast.FuncDecl)
				if !ok || fd.Body == nil {
					continue
				}
				for _, rs := range tables.MapRanges(pk.TypesInfo, fd.Body) {
					tv := c.tableOf(pk.TypesInfo, rs.X)
					if tv == nil && !c.decomps[fd] {
						continue
					}
					con := fmt.Sprintf("%s: range %s", c19FuncName(rel, fd), types.ExprString(rs.X))
					pos := c.P.Rel(rs.Pos())
					st, why := tables.OrderAfterRange(pk.TypesInfo, fd.Body, rs)
					switch st {
					case "ok":
						r.OK("order", con, pos, "every variable filled by the iteration is sorted before any other use")
					case "fail":
						r.Fail("order", con, pos, "map iteration order reaches the result: "+why)
					default:
						r.Undecided("order", con, pos, why)
					}
				}
			}
		}
	}
}

// ---------------------------------------------------------------- table-const

func (c *c19) tableConst() {
	r := c.R
	type use struct {
		kind, where, pos string
	}
	found := map[*types.Var][]use{}
	for _, pk := range c.P.Pkgs {
		rel := strings.TrimPrefix(strings.TrimPrefix(pk.PkgPath, c.P.ModPath), "/")
		for _, file := range pk.Syntax {
			var ids []*ast.Ident
			ast.Inspect(file, func(n ast.Node) bool {
				if id, ok := n.(*ast.Ident); ok {
					if v, ok := pk.TypesInfo.Uses[id].(*types.Var); ok {
						if _, reg := c.tabs[v]; reg {
							ids = append(ids, id)
						}
					}
				}
				return true
			})
			for _, id := range ids {
				v := pk.TypesInfo.Uses[id].(*types.Var)
				path, _ := astutil.PathEnclosingInterval(file, id.Pos(), id.End())
				kind := c19ClassifyUse(pk, id, path)
				where := rel
				for _, n := range path {
					if fd, ok := n.(*ast.FuncDecl); ok {
						where = c19FuncName(rel, fd)
					}
				}
				found[v] = append(found[v], use{kind, where, c.P.Rel(id.Pos())})
			}
		}
	}
	var vars []*types.Var
	for v := range c.tabs {
		vars = append(vars, v)
	}
	sort.Slice(vars, func(i, j int) bool { return c.tabs[vars[i]] < c.tabs[vars[j]] })
	for _, v := range vars {
		con := c.tabs[v]
		var bad []string
		pos := c.tabPos[v]
		for _, u := range found[v] {
			if u.kind != "read" {
				bad = append(bad, fmt.Sprintf("%s in %s", u.kind, u.where))
				pos = u.pos
			}
		}
		if len(bad) > 0 {
			sort.Strings(bad)
			r.Undecided("table-const", con, pos, "the table is not a compile-time constant table, so its literal rows do not decide the property: "+strings.Join(bad, "; "))
		} else {
			r.OK("table-const", con, pos, fmt.Sprintf("%d uses in the module, all reads (index, range, len)", len(found[v])))
		}
	}
}

func c19ClassifyUse(pk *packages.Package, id *ast.Ident, path []ast.Node) string {
	// path[0] is the identifier; climb over a qualifying selector and parentheses
	i := 1
	var cur ast.Node = id
	if i < len(path) {
		if sel, ok := path[i].(*ast.SelectorExpr); ok && sel.Sel == id {
			cur = sel
			i++
		}
	}
	for i < len(path) {
		if p, ok := path[i].(*ast.ParenExpr); ok {
			cur = p
			i++
			continue
		}
		break
	}
	if i >= len(path) {
		return "unclassified use"
	}
	switch p := path[i].(type) {
	case *ast.IndexExpr:
		if p.X != cur {
			return "read" // used as an index of something else
		}
		var ie ast.Node = p
		j := i + 1
		for j < len(path) {
			if pe, ok := path[j].(*ast.ParenExpr); ok {
				ie = pe
				j++
				continue
			}
			break
		}
		if j < len(path) {
			switch g := path[j].(type) {
			case *ast.AssignStmt:
				for _, l := range g.Lhs {
					if l == ie {
						return "element written"
					}
				}
			case *ast.IncDecStmt:
				return "element written"
			case *ast.UnaryExpr:
				if g.Op == token.AND {
					return "element address taken"
				}
			}
		}
		return "read"
	case *ast.RangeStmt:
		if p.X == cur {
			return "read"
		}
		return "assigned by a range clause"
	case *ast.CallExpr:
		if fid, ok := ast.Unparen(p.Fun).(*ast.Ident); ok {
			if b, ok := pk.TypesInfo.Uses[fid].(*types.Builtin); ok {
				switch b.Name() {
				case "len":
					return "read"
				case "delete", "clear":
					return "rows removed by " + b.Name()
				}
			}
		}
		return "passed to a call"
	case *ast.AssignStmt:
		for _, l := range p.Lhs {
			if l == cur {
				return "table re-assigned"
			}
		}
		return "aliased by assignment"
	case *ast.ValueSpec:
		return "aliased by declaration"
	case *ast.UnaryExpr:
		if p.Op == token.AND {
			return "address taken"
		}
	}
	return fmt.Sprintf("escapes (%T)", path[i])
}
