package rules

import (
	"fmt"
	"go/types"
	"math/big"
	"strings"

	"golang.org/x/tools/go/ssa"

	"manticheck/internal/absint"
	"manticheck/internal/lanes"
)

// c16_exec.go — ParseSIDFromBytes is decided by ABSTRACT INTERPRETATION
// (internal/absint over the bit-lane domain), once per sub-authority count
// 0..15 — the property's own quantifier — on the one input shape MS-DTYP
// calls well-formed: byte 0 is the constant 1, byte 1 the constant count, the
// length is exactly 8+4·count and every other byte is SYMBOLIC (its eight
// lanes are named in[i].0..7). No library code runs and no data byte is ever
// chosen; what the interpreter follows are branches the two header bytes and
// the length decide, which is exactly what "the guards accept a well-formed
// SID" means. The text the function returns is obtained as a sequence of
// literal bytes and PRINTED VALUES (verb + the 64 lanes of the integer that is
// printed), however it was assembled: += with fmt.Sprintf, strings.Join,
// strconv.Append* / fmt.Appendf into a byte buffer, strings.Builder /
// bytes.Buffer, one or several levels of in-module helpers, any loop shape.
//
// A printed value is carried through the interpreter's string domain as a
// three-byte marker 0xFF, 0x80+index, 0xFE (bytes a SID text never contains);
// the marker indexes c16Run.vals.

type c16Printed struct {
	verb string // "d" for a plain decimal print, otherwise the offending spec (x, 08x, base 16 …)
	vec  lanes.Vec
}

type c16Run struct {
	vals     []c16Printed
	builders map[*absint.Node][]absint.Char
	soft     []string // things the hook could not model (the run goes on with an opaque value)
}

// c16Tok is one token of the text ParseSIDFromBytes returned.
type c16Tok struct {
	lit string
	val *c16Printed
}

const (
	c16MarkOpen  = 0xFF
	c16MarkClose = 0xFE
	c16MarkBase  = 0x80
	c16MarkMax   = 0x7D
)

func (x *c16Run) mark(verb string, v lanes.Vec) []absint.Char {
	if len(x.vals) >= c16MarkMax {
		x.soft = append(x.soft, "more than 125 printed values")
		return nil
	}
	x.vals = append(x.vals, c16Printed{verb: verb, vec: v})
	i := len(x.vals) - 1
	return []absint.Char{{Lit: c16MarkOpen}, {Lit: byte(c16MarkBase + i)}, {Lit: c16MarkClose}}
}

func c16LitChars(s string) []absint.Char { return absint.LitStr(s).Chars }

func c16Opaque(why string) *absint.Str { return &absint.Str{Opaque: true, Why: why} }

// intVec: the 64 lanes fmt / strconv print for an integer of static type t.
func c16IntVec(v absint.Value, t types.Type) (lanes.Vec, bool) {
	iv, ok := v.(absint.Int)
	if !ok {
		return nil, false
	}
	_, signed, isInt := lanes.IntWidth(t)
	if !isInt {
		return nil, false
	}
	return iv.V.Resize(64, signed), true
}

// byteChars: the characters a byte slice holds (every byte must be a constant).
func c16SliceChars(s absint.Slice) ([]absint.Char, bool) {
	if s.Nil {
		return nil, true
	}
	out := make([]absint.Char, 0, s.Len())
	for i := s.Lo; i < s.Hi; i++ {
		iv, ok := s.Arr.Kids[i].Leaf.(absint.Int)
		if !ok {
			return nil, false
		}
		k, isK := iv.V.ConstVal()
		if !isK || len(iv.V) != 8 {
			return nil, false
		}
		out = append(out, absint.Char{Lit: byte(k.Int64())})
	}
	return out, true
}

// appendChars: a fresh byte slice holding s followed by chars.
func c16AppendChars(s absint.Slice, chars []absint.Char) (absint.Slice, bool) {
	old, ok := c16SliceChars(s)
	if !ok {
		return absint.Slice{}, false
	}
	all := append(append([]absint.Char(nil), old...), chars...)
	u8 := types.Typ[types.Uint8]
	arr := &absint.Node{T: types.NewArray(u8, int64(len(all))), Kids: make([]*absint.Node, len(all))}
	for i, c := range all {
		arr.Kids[i] = &absint.Node{T: u8, Leaf: absint.Int{V: lanes.ConstVec(big.NewInt(int64(c.Lit)), 8)}}
	}
	return absint.Slice{Arr: arr, Lo: 0, Hi: len(all), Cap: len(all)}, true
}

// sliceValues: the elements of a slice value (varargs, []string).
func c16SliceValues(v absint.Value) ([]absint.Value, bool) {
	s, ok := v.(absint.Slice)
	if !ok {
		return nil, false
	}
	if s.Nil {
		return nil, true
	}
	var out []absint.Value
	for i := s.Lo; i < s.Hi; i++ {
		n := s.Arr.Kids[i]
		if n.Kids != nil {
			return nil, false
		}
		out = append(out, n.Leaf)
	}
	return out, true
}

// format renders fmt.Sprintf(format, args...) as characters; "" reason = modelled.
func (x *c16Run) format(format string, args []absint.Value) ([]absint.Char, string) {
	var out []absint.Char
	ai := 0
	for i := 0; i < len(format); i++ {
		if format[i] != '%' {
			out = append(out, absint.Char{Lit: format[i]})
			continue
		}
		i++
		if i >= len(format) {
			return nil, "format ends in %"
		}
		if format[i] == '%' {
			out = append(out, absint.Char{Lit: '%'})
			continue
		}
		start := i
		for i < len(format) && strings.IndexByte("+-# 0123456789.", format[i]) >= 0 {
			i++
		}
		if i >= len(format) || format[i] == '*' || format[i] == '[' {
			return nil, "format with * or argument indexes"
		}
		flags, verb := format[start:i], format[i]
		if ai >= len(args) {
			return nil, "format has more verbs than arguments"
		}
		arg := args[ai]
		ai++
		var at types.Type
		if ifc, ok := arg.(absint.Iface); ok {
			arg, at = ifc.V, ifc.T
		}
		switch a := arg.(type) {
		case absint.Int:
			if at == nil {
				return nil, "integer argument of unknown type"
			}
			vec, ok := c16IntVec(a, at)
			if !ok {
				return nil, "argument is not an integer"
			}
			spec := flags + string(verb)
			if flags == "" && verb == 'v' {
				spec = "d"
			}
			m := x.mark(spec, vec)
			if m == nil {
				return nil, "too many printed values"
			}
			out = append(out, m...)
		case *absint.Str:
			if a.Opaque {
				return nil, "argument is a text that is not modelled (" + a.Why + ")"
			}
			if flags != "" || (verb != 's' && verb != 'v') {
				return nil, fmt.Sprintf("%%%s%c of a string", flags, verb)
			}
			out = append(out, a.Chars...)
		case absint.Slice:
			ch, ok := c16SliceChars(a)
			if !ok || flags != "" || verb != 's' {
				return nil, fmt.Sprintf("%%%s%c of a slice", flags, verb)
			}
			out = append(out, ch...)
		default:
			return nil, fmt.Sprintf("%%%s%c of a %T", flags, verb, arg)
		}
	}
	if ai != len(args) {
		return nil, "format has fewer verbs than arguments"
	}
	return out, ""
}

func (x *c16Run) number(v absint.Value, t types.Type, base absint.Value) ([]absint.Char, string) {
	vec, ok := c16IntVec(v, t)
	if !ok {
		return nil, "argument is not an integer"
	}
	spec := "d"
	if base != nil {
		bi, ok := base.(absint.Int)
		if !ok {
			return nil, "base is not a constant"
		}
		k, isK := bi.V.ConstVal()
		if !isK {
			return nil, "base is not a constant"
		}
		if k.Int64() != 10 {
			spec = fmt.Sprintf("(base %d)", k.Int64())
		}
	}
	m := x.mark(spec, vec)
	if m == nil {
		return nil, "too many printed values"
	}
	return m, ""
}

func c16IsTextBuffer(t types.Type) bool {
	if p, ok := t.Underlying().(*types.Pointer); ok {
		t = p.Elem()
	}
	n, ok := types.Unalias(t).(*types.Named)
	if !ok || n.Obj().Pkg() == nil {
		return false
	}
	q := n.Obj().Pkg().Path() + "." + n.Obj().Name()
	return q == "strings.Builder" || q == "bytes.Buffer"
}

var c16NoErr = absint.Iface{}

func c16Int(n int) absint.Int { return absint.Int{V: lanes.ConstVec(big.NewInt(int64(n)), 64)} }

// hook models the text-building part of the standard library on top of absint.
func (x *c16Run) hook(in *absint.Interp, cc *ssa.CallCommon, callee *ssa.Function, args []absint.Value) (absint.Value, bool) {
	pkg, recv, name := c20CalleeName(cc)
	argT := func(i int) types.Type { return cc.Args[i].Type() }
	soft := func(why string) (absint.Value, bool) {
		x.soft = append(x.soft, pkg+"."+name+": "+why)
		return nil, false
	}
	str := func(i int) (*absint.Str, bool) {
		s, ok := args[i].(*absint.Str)
		return s, ok && !s.Opaque
	}
	if recv != "" {
		if (pkg == "strings" && recv == "Builder") || (pkg == "bytes" && recv == "Buffer") {
			p, ok := args[0].(absint.Ptr)
			if !ok || p.N == nil {
				return soft("receiver is not a local buffer")
			}
			cur := x.builders[p.N]
			put := func(ch []absint.Char, n int, withErr bool) (absint.Value, bool) {
				x.builders[p.N] = append(append([]absint.Char(nil), cur...), ch...)
				if withErr {
					return absint.Tuple{c16Int(n), c16NoErr}, true
				}
				return nil, true
			}
			switch name {
			case "WriteString":
				s, ok := str(1)
				if !ok {
					return soft("text written is not modelled")
				}
				return put(s.Chars, len(s.Chars), true)
			case "Write":
				s, ok := args[1].(absint.Slice)
				ch, ok2 := c16SliceChars(s)
				if !ok || !ok2 {
					return soft("bytes written are not constants")
				}
				return put(ch, len(ch), true)
			case "WriteByte":
				iv, ok := args[1].(absint.Int)
				if !ok {
					return soft("byte written is not modelled")
				}
				k, isK := iv.V.ConstVal()
				if !isK {
					return soft("byte written is not a constant")
				}
				x.builders[p.N] = append(append([]absint.Char(nil), cur...), absint.Char{Lit: byte(k.Int64())})
				return c16NoErr, true
			case "WriteRune":
				iv, ok := args[1].(absint.Int)
				if !ok {
					return soft("rune written is not modelled")
				}
				k, isK := iv.V.ConstVal()
				if !isK || k.Int64() >= 0x80 {
					return soft("rune written is not an ASCII constant")
				}
				return put([]absint.Char{{Lit: byte(k.Int64())}}, 1, true)
			case "String":
				return &absint.Str{Chars: append([]absint.Char(nil), cur...)}, true
			case "Bytes":
				sl, _ := c16AppendChars(absint.Slice{Nil: true}, cur)
				return sl, true
			case "Len":
				return c16Int(len(cur)), true
			case "Cap":
				return absint.Int{V: lanes.TopVec(64)}, true
			case "Grow":
				return nil, true
			case "Reset":
				x.builders[p.N] = nil
				return nil, true
			}
			return soft("method is not modelled")
		}
		return nil, false
	}
	switch pkg + "." + name {
	case "fmt.Sprintf", "fmt.Appendf", "fmt.Fprintf":
		off := 0
		if name != "Sprintf" {
			off = 1
		}
		f, ok := str(off)
		lit, isLit := "", false
		if ok {
			lit, isLit = f.Literal()
		}
		vals, ok2 := c16SliceValues(args[off+1])
		if !isLit || !ok2 {
			return soft("format or arguments are not a constant list")
		}
		ch, why := x.format(lit, vals)
		switch name {
		case "Sprintf":
			if why != "" {
				x.soft = append(x.soft, fmt.Sprintf("fmt.Sprintf(%q): %s", lit, why))
				return c16Opaque("fmt.Sprintf(" + lit + "): " + why), true
			}
			return &absint.Str{Chars: ch}, true
		case "Appendf":
			b, ok := args[0].(absint.Slice)
			if why != "" || !ok {
				return soft(why)
			}
			out, ok := c16AppendChars(b, ch)
			if !ok {
				return soft("buffer does not hold constant bytes")
			}
			return out, true
		default:
			ifc, ok := args[0].(absint.Iface)
			if !ok || ifc.V == nil || !c16IsTextBuffer(ifc.T) {
				// a diagnostic print to a stream: no effect on the text
				return absint.Tuple{absint.Int{V: lanes.TopVec(64)}, absint.Iface{}}, true
			}
			p, ok := ifc.V.(absint.Ptr)
			if !ok || p.N == nil || why != "" {
				return soft("Fprintf into a buffer: " + why)
			}
			x.builders[p.N] = append(append([]absint.Char(nil), x.builders[p.N]...), ch...)
			return absint.Tuple{c16Int(len(ch)), c16NoErr}, true
		}
	case "fmt.Printf", "fmt.Println", "fmt.Print":
		// diagnostics: they neither change the buffer nor the text
		return absint.Tuple{absint.Int{V: lanes.TopVec(64)}, absint.Iface{}}, true
	case "fmt.Sprint":
		vals, ok := c16SliceValues(args[0])
		if !ok || len(vals) != 1 {
			return soft("Sprint of several operands")
		}
		ch, why := x.format("%v", vals)
		if why != "" {
			return soft(why)
		}
		return &absint.Str{Chars: ch}, true
	case "strconv.Itoa":
		ch, why := x.number(args[0], argT(0), nil)
		if why != "" {
			return soft(why)
		}
		return &absint.Str{Chars: ch}, true
	case "strconv.FormatInt", "strconv.FormatUint":
		ch, why := x.number(args[0], argT(0), args[1])
		if why != "" {
			return soft(why)
		}
		return &absint.Str{Chars: ch}, true
	case "strconv.AppendInt", "strconv.AppendUint":
		b, ok := args[0].(absint.Slice)
		ch, why := x.number(args[1], argT(1), args[2])
		if !ok || why != "" {
			return soft(why)
		}
		out, ok := c16AppendChars(b, ch)
		if !ok {
			return soft("buffer does not hold constant bytes")
		}
		return out, true
	case "strings.Join":
		vals, ok := c16SliceValues(args[0])
		sep, ok2 := str(1)
		if !ok || !ok2 {
			return soft("list or separator is not modelled")
		}
		var out []absint.Char
		for i, v := range vals {
			s, ok := v.(*absint.Str)
			if !ok || s.Opaque {
				return soft("an element is not a modelled text")
			}
			if i > 0 {
				out = append(out, sep.Chars...)
			}
			out = append(out, s.Chars...)
		}
		return &absint.Str{Chars: out}, true
	case "strings.Repeat":
		s, ok := str(0)
		n, ok2 := args[1].(absint.Int)
		if !ok || !ok2 {
			return soft("operands are not modelled")
		}
		k, isK := n.V.SignedVal(true)
		if !isK || k.Sign() < 0 || k.Int64() > 64 {
			return soft("count is not a small constant")
		}
		var out []absint.Char
		for i := int64(0); i < k.Int64(); i++ {
			out = append(out, s.Chars...)
		}
		return &absint.Str{Chars: out}, true
	case "strings.TrimSuffix", "strings.TrimPrefix":
		s, ok := str(0)
		t, ok2 := str(1)
		if !ok || !ok2 {
			return soft("operands are not modelled")
		}
		a, isA := s.Literal()
		b, isB := t.Literal()
		if !isA || !isB {
			return soft("operands are not literal")
		}
		if name == "TrimSuffix" {
			return absint.LitStr(strings.TrimSuffix(a, b)), true
		}
		return absint.LitStr(strings.TrimPrefix(a, b)), true
	case "strings.ToUpper", "strings.ToLower", "strings.Clone", "strings.TrimSpace":
		st, ok := str(0)
		if !ok {
			return soft("operand is not modelled")
		}
		out := append([]absint.Char(nil), st.Chars...)
		for _, p := range x.vals {
			if p.verb != "d" && name != "Clone" {
				return soft("case mapping / trimming of a text with a non-decimal value")
			}
		}
		switch name {
		case "ToUpper", "ToLower":
			for i, ch := range out {
				if ch.Lit >= 'a' && ch.Lit <= 'z' && name == "ToUpper" {
					out[i].Lit = ch.Lit - 'a' + 'A'
				} else if ch.Lit >= 'A' && ch.Lit <= 'Z' && name == "ToLower" {
					out[i].Lit = ch.Lit - 'A' + 'a'
				}
			}
		case "TrimSpace":
			sp := func(c absint.Char) bool { return strings.IndexByte(" \t\n\v\f\r", c.Lit) >= 0 }
			for len(out) > 0 && sp(out[0]) {
				out = out[1:]
			}
			for len(out) > 0 && sp(out[len(out)-1]) {
				out = out[:len(out)-1]
			}
		}
		return &absint.Str{Chars: out}, true
	case "bytes.Clone", "slices.Clone":
		if s, ok := args[0].(absint.Slice); ok {
			if ch, ok := c16SliceChars(s); ok {
				out, _ := c16AppendChars(absint.Slice{Nil: true}, ch)
				return out, true
			}
		}
		return nil, false
	}
	return nil, false
}

// c16Decode splits the returned text into literal runs and printed values.
func (x *c16Run) decode(s *absint.Str) ([]c16Tok, string) {
	lit, ok := s.Literal()
	if !ok {
		return nil, "the returned text is not made of constants and printed values"
	}
	var out []c16Tok
	cur := ""
	for i := 0; i < len(lit); i++ {
		c := lit[i]
		if c != c16MarkOpen {
			if c >= 0x80 {
				return nil, "a printed value is cut into pieces (slicing / trimming of the text after a value was printed)"
			}
			cur += string(c)
			continue
		}
		if i+2 >= len(lit) || lit[i+2] != c16MarkClose || int(lit[i+1])-c16MarkBase < 0 || int(lit[i+1])-c16MarkBase >= len(x.vals) {
			return nil, "a printed value is cut into pieces (slicing / trimming of the text after a value was printed)"
		}
		if cur != "" {
			out = append(out, c16Tok{lit: cur})
			cur = ""
		}
		out = append(out, c16Tok{val: &x.vals[int(lit[i+1])-c16MarkBase]})
		i += 2
	}
	if cur != "" {
		out = append(out, c16Tok{lit: cur})
	}
	return out, ""
}

func c16Render(toks []c16Tok) string {
	var sb strings.Builder
	for _, t := range toks {
		if t.val == nil {
			sb.WriteString(t.lit)
		} else {
			sb.WriteString("%" + t.val.verb)
		}
	}
	return sb.String()
}

type c16Outcome struct {
	toks    []c16Tok
	abort   string // the run was aborted: nothing may be concluded
	unmodel bool   // … and the reason is an unmodelled construct (no evidence of a violation)
	soft    []string
	unknown []string
	funcs   []string
}

// c16Exec interprets fn on the well-formed SID with n sub-authorities.
func c16Exec(c *Ctx, fn *ssa.Function, n int) (out c16Outcome) {
	in := absint.New(c.P.InModule)
	run := &c16Run{builders: map[*absint.Node][]absint.Char{}}
	in.Hook = run.hook
	src := in.NewSrc("in")
	size := 8 + 4*n
	u8 := types.Typ[types.Uint8]
	arr := &absint.Node{T: types.NewArray(u8, int64(size)), Kids: make([]*absint.Node, size), Name: "in"}
	for i := range arr.Kids {
		var leaf absint.Value = absint.SrcInt(src, i, 8)
		switch i {
		case 0:
			leaf = absint.Int{V: lanes.ConstVec(big.NewInt(1), 8)}
		case 1:
			leaf = absint.Int{V: lanes.ConstVec(big.NewInt(int64(n)), 8)}
		}
		arr.Kids[i] = &absint.Node{T: u8, Leaf: leaf}
	}
	res, err := in.Call(fn, absint.Slice{Arr: arr, Lo: 0, Hi: size, Cap: size})
	out.soft, out.unknown = run.soft, in.Unknown
	for f := range in.Funcs {
		out.funcs = append(out.funcs, f)
	}
	if err != nil {
		// An aborted run is evidence of a violation only when the interpreter SAW the
		// well-formed input make the code fail: an index / slice bound / buffer that
		// is too short ("would panic"), a nil dereference, an explicit panic. Every
		// other abort is a limit of the interpreter (a construct, a library call, a
		// branch or an index that depends on data bytes, a budget): the extraction is
		// incomplete and the count is NOT DECIDED.
		out.abort = err.Error()
		observed := strings.Contains(out.abort, "would panic") || strings.Contains(out.abort, "an explicit panic is reached") ||
			strings.Contains(out.abort, "through a nil pointer") || strings.Contains(out.abort, "of a nil pointer")
		out.unmodel = !observed
		return out
	}
	s, ok := res.(*absint.Str)
	if !ok {
		out.abort = fmt.Sprintf("the result is a %T, not a text", res)
		out.unmodel = true
		return out
	}
	if s.Opaque {
		out.abort = "the returned text is not modelled: " + s.Why
		out.unmodel = true
		return out
	}
	toks, why := run.decode(s)
	if why != "" {
		out.abort = why
		out.unmodel = true
		return out
	}
	out.toks = toks
	return out
}
