package rules

import (
	"fmt"
	"go/constant"
	"go/token"
	"go/types"
	"strings"

	"golang.org/x/tools/go/ssa"

	"manticheck/internal/lin"
	"manticheck/internal/prove"
	"manticheck/internal/wire"
)

// Shared by C09 (LLMNR) and C10 (NBNS): binding internal/wire layouts to rules.

// wcodec is one anchored codec function with its extracted layout.
type wcodec struct {
	rel, recv, name string
	fn              *ssa.Function
	x               *wire.X
	enc             []wire.Atom // encoders: the layout of the (single) non-trivial success return
	encAlts         []wire.EncAlt
	dec             *wire.Dec
	pos             string
	// incomplete (COMPLETENESS BEFORE VERDICT): non-empty when the extraction is
	// known to be partial — the output buffer / the input buffer / the bytes of a
	// field pass through code internal/wire did not read (an in-module helper,
	// closure, method of a cursor type, an SSA shape it does not parse). No
	// mismatch may be reported from a partial layout; the clauses that depend on
	// it are reported NOT DECIDED.
	incomplete string
}

// wND reports one clause as NOT DECIDED and counts it as the n instances it
// stands for (so that a floor keyed to instances is not tripped by code that
// was merely not read).
func wND(c *Ctx, rule, construct, pos, why string, n int) {
	c.R.OK(rule, construct, pos, "NOT DECIDED — "+why)
	if n > 1 {
		c.R.Counts[rule] += n - 1
	}
}

// wPairIncomplete: why an encoder/decoder pair cannot be compared atom by atom.
func wPairIncomplete(e, d *wcodec) string {
	switch {
	case e.incomplete != "" && d.incomplete != "":
		return e.label() + ": " + e.incomplete + "; " + d.label() + ": " + d.incomplete
	case e.incomplete != "":
		return e.label() + ": " + e.incomplete
	case d.incomplete != "":
		return d.label() + ": " + d.incomplete
	}
	return ""
}

// wEncIncomplete: why the encoder layout is partial ("" = complete).
func wEncIncomplete(alts []wire.EncAlt) string {
	for _, alt := range alts {
		for _, a := range wire.Flatten(alt.Atoms) {
			if a.Kind == "unknown" && !a.Definite {
				return "encoder layout not read completely: " + a.Expr
			}
		}
		for _, a := range wire.Flatten(alt.Atoms) {
			if a.Kind == "nested" && a.Unread != "" {
				return "bytes come from a helper that could not be read: " + a.Unread
			}
		}
	}
	return ""
}

// wDecIncomplete: why the decoder layout is partial ("" = complete).
func wDecIncomplete(k *wcodec, d *wire.Dec) string {
	if es := d.AllEscapes(); len(es) > 0 {
		return "the input buffer reaches code that was not analysed: " + strings.Join(es, "; ")
	}
	if a, bad := wire.HasUnknown(d.Atoms); bad {
		return "decoder layout not read completely: " + a.Expr
	}
	for _, a := range wire.Flatten(d.Atoms) {
		switch a.Kind {
		case "fixed", "bytes", "nested":
			if a.Off == nil || a.End == nil {
				n := a.Field
				if n == "" {
					n = a.Expr
				}
				if a.Kind == "nested" && a.Callee != nil {
					n += " (" + a.Callee.Name() + ")"
				}
				return "the extent of the read of " + n + " could not be determined"
			}
		}
	}
	return ""
}

func (k *wcodec) label() string {
	if k.recv != "" {
		return k.recv + "." + k.name
	}
	return k.name
}

// wUnits: the codec functions of the property being checked. They are compared
// with their counterpart as a whole; any other in-module helper a codec calls
// is analysed at its call site (internal/wire inlines it).
var wUnits map[*ssa.Function]bool

func wSetUnits(c *Ctx, rel string, names ...[2]string) {
	wUnits = map[*ssa.Function]bool{}
	for _, n := range names {
		if f := c.P.Func(rel, n[0], n[1]); f != nil {
			wUnits[f] = true
		}
	}
}

// wAnchor resolves a function; an unresolved anchor is Undecided.
func wAnchor(c *Ctx, w *prove.World, rel, recv, name string) *wcodec {
	k := &wcodec{rel: rel, recv: recv, name: name}
	k.fn = c.P.Func(rel, recv, name)
	if k.fn == nil || k.fn.Blocks == nil {
		c.R.Undecided("anchor", k.label(), "", "anchored function "+rel+"."+k.label()+" does not resolve")
		return nil
	}
	k.pos = c.P.Rel(k.fn.Pos())
	c.R.OK("anchor", k.label(), k.pos, "resolved")
	return k
}

// wEncoder extracts the encoder layout. The longest success-return layout is
// the message layout; shorter ones (early returns such as the root name) are
// kept in encAlts.
func wEncoder(c *Ctx, w *prove.World, rel, recv, name string) *wcodec {
	k := wAnchor(c, w, rel, recv, name)
	if k == nil {
		return nil
	}
	c.guard("extract", k.label()+" encoder", k.pos, func() {
		k.x = wire.New(w, k.fn)
		k.x.Units = wUnits
		k.encAlts = k.x.EncLayouts()
		for _, alt := range k.encAlts {
			if len(wire.Flatten(alt.Atoms)) >= len(wire.Flatten(k.enc)) {
				k.enc = alt.Atoms
			}
		}
		if len(k.encAlts) == 0 {
			k.incomplete = "no return of " + k.label() + " with a constant nil error yields a byte sequence (the result is returned through variables, e.g. by a range-over-func body or a deferred function)"
		} else {
			k.incomplete = wEncIncomplete(k.encAlts)
		}
		if k.incomplete != "" {
			c.R.OK("extract", k.label()+" encoder", k.pos, "NOT DECIDED — "+k.incomplete)
			c.R.Note("%s %s: encoder NOT DECIDED — %s (layout read so far: %s)", c.R.Property, k.label(), k.incomplete, wire.Render(k.enc))
			return
		}
		for _, alt := range k.encAlts {
			if a, bad := wire.HasUnknown(alt.Atoms); bad {
				// a defect observed on a completely collected buffer
				c.R.Fail("extract", k.label()+" encoder", c.P.Rel(a.Pos), "the bytes "+k.label()+" returns are not a layout: "+a.Expr)
				return
			}
		}
		c.R.OK("extract", k.label()+" encoder", k.pos, "layout: "+wire.Render(k.enc))
	})
	if k.x == nil {
		return nil
	}
	return k
}

// wDecoder extracts the decoder layout.
func wDecoder(c *Ctx, w *prove.World, rel, recv, name string) *wcodec {
	k := wAnchor(c, w, rel, recv, name)
	if k == nil {
		return nil
	}
	c.guard("extract", k.label()+" decoder", k.pos, func() {
		k.x = wire.New(w, k.fn)
		k.x.Units = wUnits
		k.dec = k.x.Decode()
		k.incomplete = wDecIncomplete(k, k.dec)
		if k.incomplete != "" {
			c.R.OK("extract", k.label()+" decoder", k.pos, "NOT DECIDED — "+k.incomplete)
			c.R.Note("%s %s: decoder NOT DECIDED — %s (layout read so far: %s)", c.R.Property, k.label(), k.incomplete, wire.Render(k.dec.Atoms))
			return
		}
		if len(k.dec.Atoms) == 0 {
			c.R.Undecided("extract", k.label()+" decoder", k.pos, "no read of the input buffer was recognised")
			k.dec = nil
			return
		}
		c.R.OK("extract", k.label()+" decoder", k.pos, "layout: "+wire.Render(k.dec.Atoms))
	})
	if k.dec == nil {
		return nil
	}
	return k
}

// wPairs maps an encoder-side helper to the decoder-side helper that undoes it.
type wPairs map[*ssa.Function]*ssa.Function

// wSig: what must agree between the two directions for one atom.
// idx/atoms give the neighbours (a length prefix is recognised by what follows it).
func wSig(as []wire.Atom, i int, x *wire.X, dec bool, pairs wPairs) string {
	a := as[i]
	pairName := func(f *ssa.Function, via string) string {
		if !dec {
			if f != nil {
				if _, ok := pairs[f]; ok {
					return f.Name()
				}
				return "unpaired:" + f.Name()
			}
			return "?"
		}
		for e, d := range pairs {
			if (f != nil && d == f) || (via != "" && d.Name() == via) {
				return e.Name()
			}
		}
		if f != nil {
			return "unpaired:" + f.Name()
		}
		return "unpaired:" + via
	}
	switch a.Kind {
	case "fixed":
		if wIsLenPrefix(as, i, x, dec) {
			return fmt.Sprintf("length-prefix:%d%s", a.Width, a.Order)
		}
		f := a.Field
		if f == "" && !dec {
			f = "(" + a.Expr + ")"
		}
		if f == "" {
			f = "(not stored)"
		}
		return fmt.Sprintf("%s:%d%s", f, a.Width, a.Order)
	case "bytes":
		if a.Via != "" {
			return fmt.Sprintf("%s:via %s", a.Field, pairName(nil, a.Via))
		}
		f := a.Field
		if f == "" {
			f = "(not stored)"
			if !dec {
				f = "(" + a.Expr + ")"
			}
		}
		return f + ":bytes"
	case "nested":
		return fmt.Sprintf("%s:via %s", a.Field, pairName(a.Callee, ""))
	case "repeat":
		var parts []string
		for j := range a.Body {
			parts = append(parts, wSig(a.Body, j, x, dec, pairs))
		}
		return "repeat(" + a.Over + "){" + strings.Join(parts, "; ") + "}"
	case "const":
		return fmt.Sprintf("const %s:%d", a.Expr, a.Width)
	case "pad":
		return fmt.Sprintf("pad:%d", a.Width)
	}
	return "unknown " + a.Expr
}

// wIsLenPrefix: encoder — the value is len(S) and S is what the next atom
// emits; decoder — the value is not stored and is the width of the next atom.
func wIsLenPrefix(as []wire.Atom, i int, x *wire.X, dec bool) bool {
	a := as[i]
	if i+1 >= len(as) {
		return false
	}
	n := as[i+1]
	if !dec {
		if a.LenOf == nil {
			return false
		}
		l := wire.StripConv(a.LenOf)
		if nv := n.Val; nv != nil {
			if wire.StripConv(nv) == l {
				return true
			}
			if x != nil && x.Rep(nv) == x.Rep(l) {
				return true
			}
			if ex, ok := l.(*ssa.Extract); ok && ex.Tuple == nv {
				return true
			}
		}
		return false
	}
	if a.Field != "" {
		return false
	}
	return wIsWidthOfNext(as, i)
}

// wIsWidthOfNext (decoder): the value read by atom i is the width of the read
// that follows it, whether or not it is also stored into a field.
func wIsWidthOfNext(as []wire.Atom, i int) bool {
	if i+1 >= len(as) {
		return false
	}
	a, n := as[i], as[i+1]
	if a.Val == nil || n.Off == nil || n.End == nil {
		return false
	}
	wv, ok := n.End.Sub(*n.Off).Single()
	return ok && wv == a.Val
}

// wCompare reports one obligation per atom position: same field, same order,
// same width, same byte order, same helper pair.
func wCompare(c *Ctx, rule, what, pos string, enc, dec *wcodec, encAtoms, decAtoms []wire.Atom, pairs wPairs) {
	r := c.R
	n := len(encAtoms)
	if len(decAtoms) > n {
		n = len(decAtoms)
	}
	if n == 0 {
		r.Undecided(rule, what, pos, "nothing to compare")
		return
	}
	for i := 0; i < n; i++ {
		es, ds := "(nothing)", "(nothing)"
		if i < len(encAtoms) && i < len(decAtoms) && encAtoms[i].Kind == "repeat" && decAtoms[i].Kind == "repeat" &&
			encAtoms[i].Over == decAtoms[i].Over && len(encAtoms[i].Body)+len(decAtoms[i].Body) > 2 {
			// same section on both sides: compare the element layouts atom by atom
			wCompare(c, rule, what+" "+encAtoms[i].Over, pos, enc, dec, encAtoms[i].Body, decAtoms[i].Body, pairs)
			continue
		}
		if i < len(encAtoms) {
			es = wSig(encAtoms, i, enc.x, false, pairs)
		}
		if i < len(decAtoms) {
			ds = wSig(decAtoms, i, dec.x, true, pairs)
		}
		key := fmt.Sprintf("%s: atom %d", what, i)
		// a length field: the encoder may emit len(G) directly (no stored copy of
		// the length) where the decoder stores the value into a field AND uses it
		// as the width of the read of G. Both say "W bytes, order O, = length of
		// what follows"; the field the decoder keeps it in is not on the wire.
		if es != ds && i < len(encAtoms) && i < len(decAtoms) && encAtoms[i].Kind == "fixed" && decAtoms[i].Kind == "fixed" &&
			wIsLenPrefix(encAtoms, i, enc.x, false) && wIsWidthOfNext(decAtoms, i) &&
			encAtoms[i].Width == decAtoms[i].Width && encAtoms[i].Order == decAtoms[i].Order {
			es = fmt.Sprintf("length-prefix:%d%s", encAtoms[i].Width, encAtoms[i].Order)
			ds = es
		}
		if es == ds {
			r.OK(rule, key+" "+es, pos, "encoder and decoder agree: "+es)
		} else if strings.Contains(es, "via unpaired:") || strings.Contains(ds, "via unpaired:") {
			// the bytes come from / go to an in-module helper that is not one of the paired
			// codec units (an append-style core a unit delegates to, a new helper): what it
			// emits was not read, so nothing can be compared at this position
			c.NotDecided(rule, key+fmt.Sprintf(" position %d", i), pos, fmt.Sprintf("%s emits [%s] where %s reads [%s]: the helper is not a paired codec unit and is not followed", enc.label(), es, dec.label(), ds))
		} else {
			r.Fail(rule, key, pos, fmt.Sprintf("%s emits [%s] at position %d but %s reads [%s]", enc.label(), es, i, dec.label(), ds))
		}
	}
}

// wOrder: every multi-byte integer is big-endian (network order).
func wOrder(c *Ctx, k *wcodec, atoms []wire.Atom, side string) {
	for _, a := range wire.Flatten(atoms) {
		if a.Kind != "fixed" || a.Width < 2 {
			continue
		}
		f := a.Field
		if f == "" {
			f = a.Expr
		}
		key := fmt.Sprintf("%s %s: %s", k.label(), side, f)
		if a.Order == "BE" {
			c.R.OK("order", key, c.P.Rel(a.Pos), fmt.Sprintf("%d bytes big-endian", a.Width))
		} else {
			c.R.Fail("order", key, c.P.Rel(a.Pos), fmt.Sprintf("%s is %s %d-byte %s in %s; the protocol is network byte order (big-endian) in both directions", f, map[string]string{"encoder": "written", "decoder": "read"}[side], a.Width, map[string]string{"LE": "little-endian", "": "in an unrecognised order"}[a.Order], k.label()))
		}
	}
}

// wCheckDec reports the structural checks of a decoder (contiguity, cursor,
// guards) as obligations.
func wCheckDec(c *Ctx, k *wcodec) {
	issues, links, guards := k.dec.Check()
	byKind := map[string]int{}
	for _, is := range issues {
		byKind[is.Kind]++
		rule := map[string]string{"chain": "count", "cursor": "count", "store": "count", "ret": "count", "guard": "guard", "shape": "extract"}[is.Kind]
		if rule == "" {
			rule = "count"
		}
		st := "fail"
		if is.Kind == "shape" {
			st = "undecided"
		}
		if st == "fail" {
			c.R.Fail(rule, is.What, c.P.Rel(is.Pos), is.Msg)
		} else {
			c.R.Undecided(rule, is.What, c.P.Rel(is.Pos), is.Msg)
		}
	}
	if byKind["chain"]+byKind["cursor"]+byKind["store"]+byKind["ret"] == 0 {
		c.R.OK("count", k.label()+": reads are contiguous and the cursor ends at the last read", k.pos, fmt.Sprintf("%d links checked", links))
	}
	if byKind["guard"] == 0 {
		c.R.OK("guard", k.label()+": each length check establishes exactly the end of the reads it protects", k.pos, fmt.Sprintf("%d reads/guards checked", guards))
	}
}

// ---------------------------------------------------------------------------
// constants and small proofs

// wConst returns the value of a package-level integer constant.
func wConst(c *Ctx, rel, name string) (int64, bool) {
	pk := c.P.Pkg(rel)
	if pk == nil {
		return 0, false
	}
	k, ok := pk.Types.Scope().Lookup(name).(*types.Const)
	if !ok || k.Val().Kind() != constant.Int {
		return 0, false
	}
	return constant.Int64Val(k.Val())
}

func wConstOf(v ssa.Value) (int64, bool) {
	k, ok := v.(*ssa.Const)
	if !ok || k.Value == nil || k.Value.Kind() != constant.Int {
		return 0, false
	}
	return constant.Int64Val(k.Value)
}

// wLenBound: an `if` whose one branch is an error exit and whose condition
// compares len(S) with a constant: returns S and the largest length that passes.
type wLenGuard struct {
	at  *ssa.If
	of  ssa.Value
	max int64
	min int64 // smallest length that passes (0 when unconstrained)
}

func wErrorExit(b *ssa.BasicBlock) bool {
	seen := map[*ssa.BasicBlock]bool{}
	for steps := 0; steps < 6 && !seen[b]; steps++ {
		seen[b] = true
		switch last := b.Instrs[len(b.Instrs)-1].(type) {
		case *ssa.Panic:
			return true
		case *ssa.Return:
			if len(last.Results) == 0 {
				return false
			}
			rv := last.Results[len(last.Results)-1]
			switch types.TypeString(rv.Type(), nil) {
			case "error":
				k, isK := rv.(*ssa.Const)
				return !(isK && k.Value == nil)
			case "bool":
				k, isK := rv.(*ssa.Const)
				return isK && k.Value != nil && !constant.BoolVal(k.Value)
			}
			return false
		case *ssa.Jump:
			b = b.Succs[0]
			continue
		}
		return false
	}
	return false
}

func wLenGuards(fn *ssa.Function) []wLenGuard {
	var out []wLenGuard
	const inf = int64(1) << 40
	for _, b := range fn.Blocks {
		iff, ok := b.Instrs[len(b.Instrs)-1].(*ssa.If)
		if !ok || len(b.Succs) != 2 {
			continue
		}
		cmp, ok := iff.Cond.(*ssa.BinOp)
		if !ok {
			continue
		}
		e0, e1 := wErrorExit(b.Succs[0]), wErrorExit(b.Succs[1])
		if e0 == e1 {
			continue
		}
		lenArg := func(v ssa.Value) ssa.Value {
			call, ok := v.(*ssa.Call)
			if !ok {
				return nil
			}
			if bi, ok := call.Call.Value.(*ssa.Builtin); ok && bi.Name() == "len" {
				return call.Call.Args[0]
			}
			return nil
		}
		op := cmp.Op
		var of ssa.Value
		var k int64
		if a := lenArg(cmp.X); a != nil {
			kk, isK := wConstOf(cmp.Y)
			if !isK {
				continue
			}
			of, k = a, kk
		} else if a := lenArg(cmp.Y); a != nil {
			kk, isK := wConstOf(cmp.X)
			if !isK {
				continue
			}
			of, k = a, kk
			switch op {
			case token.LSS:
				op = token.GTR
			case token.LEQ:
				op = token.GEQ
			case token.GTR:
				op = token.LSS
			case token.GEQ:
				op = token.LEQ
			}
		} else {
			continue
		}
		// the comparison reads len op k; passing = !cond when e0 (true branch is the error)
		lo, hi := int64(0), inf
		set := func(op token.Token, holds bool) bool {
			switch {
			case op == token.GTR && holds, op == token.LEQ && !holds:
				lo = k + 1
			case op == token.GTR && !holds, op == token.LEQ && holds:
				hi = k
			case op == token.GEQ && holds, op == token.LSS && !holds:
				lo = k
			case op == token.GEQ && !holds, op == token.LSS && holds:
				hi = k - 1
			case op == token.EQL && holds, op == token.NEQ && !holds:
				lo, hi = k, k
			default:
				return false
			}
			return true
		}
		if !set(op, !e0) {
			continue
		}
		out = append(out, wLenGuard{at: iff, of: of, max: hi, min: lo})
	}
	return out
}

// wProveLE proves v <= k at instruction at with E1.
func wProveLE(w *prove.World, at ssa.Instruction, v ssa.Value, k int64, isLen bool) bool {
	fi := w.Info(at.Parent())
	cx := fi.CtxBefore(at)
	var f lin.Form
	if isLen {
		f = cx.LenOf(v)
	} else {
		f = cx.Lin(v)
	}
	return cx.Prove(lin.LE(f, lin.K(k)))
}

func wProveGE(w *prove.World, at ssa.Instruction, v ssa.Value, k int64, isLen bool) bool {
	fi := w.Info(at.Parent())
	cx := fi.CtxBefore(at)
	var f lin.Form
	if isLen {
		f = cx.LenOf(v)
	} else {
		f = cx.Lin(v)
	}
	return cx.Prove(lin.GE(f, lin.K(k)))
}

// wProveLT proves a < b at instruction at.
func wProveLT(w *prove.World, at ssa.Instruction, a, b ssa.Value) bool {
	fi := w.Info(at.Parent())
	cx := fi.CtxBefore(at)
	return cx.Prove(lin.LT(cx.Lin(a), cx.Lin(b)))
}

// wStructFields resolves field names of a named struct through go/types.
func wStructFields(c *Ctx, rel, typ string) map[string]*types.Var {
	pk := c.P.Pkg(rel)
	if pk == nil {
		return nil
	}
	tn, ok := pk.Types.Scope().Lookup(typ).(*types.TypeName)
	if !ok {
		return nil
	}
	st, ok := tn.Type().Underlying().(*types.Struct)
	if !ok {
		return nil
	}
	out := map[string]*types.Var{}
	for i := 0; i < st.NumFields(); i++ {
		out[st.Field(i).Name()] = st.Field(i)
	}
	return out
}

// wProveLenLEDeep proves len(v) <= k at `at`: with the guards that dominate
// `at`, or — when v is what an in-module helper returned (encoded, err :=
// wireName(…)) — at every success return of that helper, where its own guards
// apply (one level).
func wProveLenLEDeep(c *Ctx, w *prove.World, at ssa.Instruction, v ssa.Value, k int64) bool {
	if wProveLE(w, at, v, k, true) {
		return true
	}
	var call *ssa.Call
	switch y := wire.StripConv(v).(type) {
	case *ssa.Extract:
		if y.Index == 0 {
			call, _ = y.Tuple.(*ssa.Call)
		}
	case *ssa.Call:
		call = y
	}
	if call == nil {
		return false
	}
	f := call.Call.StaticCallee()
	if f == nil || f.Blocks == nil || call.Call.IsInvoke() || !c.P.InModule(f) {
		return false
	}
	n := 0
	for _, b := range f.Blocks {
		ret, ok := b.Instrs[len(b.Instrs)-1].(*ssa.Return)
		if !ok || len(ret.Results) == 0 {
			continue
		}
		if last := ret.Results[len(ret.Results)-1]; types.TypeString(last.Type(), nil) == "error" {
			if kk, isK := last.(*ssa.Const); !isK || kk.Value != nil {
				continue // an error return: the caller does not use the value
			}
		}
		n++
		if !wProveLE(w, ret, ret.Results[0], k, true) {
			return false
		}
	}
	return n > 0
}

// wGuardingHelper: an in-module function called, on a path that dominates
// `at`, with one of vals among its arguments, and whose last result is an
// error / bool — a validation step of that very value in which a bound this
// rule looks for may have been established.
func wGuardingHelper(c *Ctx, at ssa.Instruction, vals ...ssa.Value) *ssa.Function {
	fn := at.Parent()
	about := func(call *ssa.Call) bool {
		for _, a := range call.Call.Args {
			for _, v := range vals {
				if v != nil && wire.StripConv(a) == wire.StripConv(v) {
					return true
				}
			}
		}
		return false
	}
	for _, b := range fn.Blocks {
		if !(b == at.Block() || b.Dominates(at.Block())) {
			continue
		}
		for _, in := range b.Instrs {
			if in == at {
				break
			}
			call, ok := in.(*ssa.Call)
			if !ok || call.Call.IsInvoke() {
				continue
			}
			f := call.Call.StaticCallee()
			if f == nil || f.Blocks == nil || !c.P.InModule(f) {
				continue
			}
			res := f.Signature.Results()
			if res.Len() == 0 {
				continue
			}
			if !about(call) {
				continue // not a check of the value in question
			}
			switch types.TypeString(res.At(res.Len()-1).Type(), nil) {
			case "error", "bool":
				return f
			}
		}
	}
	return nil
}
