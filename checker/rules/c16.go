package rules

import (
	"fmt"
	"go/token"
	"go/types"
	"math/big"
	"sort"
	"strings"

	"golang.org/x/tools/go/ssa"

	"manticheck/internal/lanes"
	"manticheck/internal/lin"
	"manticheck/internal/prove"
	"manticheck/internal/report"
	"manticheck/internal/strtmpl"
)

// C16 — binary SIDs and distinguished names decode to their canonical text.
func init() { register(&Check{ID: "C16", NeedSSA: true, Run: runC16}) }

const (
	c16Pkg    = "network/ldap"
	c16RLane  = "lanes"
	c16RGuard = "guard"
	c16RText  = "text"
	c16RDN    = "dn"
	c16RCall  = "callers"
)

const c16MaxCount = 15 // MS-DTYP 2.4.2: SubAuthorityCount ≤ 15

func runC16(c *Ctx) {
	r := c.R
	r.Explanation = "Structural rules on go/ssa for ldap.ParseSIDFromBytes and ldap.GetDomainFromDistinguishedName; nothing is executed. " +
		"The text a function returns is turned into a TEMPLATE (internal/strtmpl: literals, printed values, repetitions produced by counted loops through `acc += …` or append + strings.Join, fmt.Sprintf with constant formats, strconv.Itoa/Format*); " +
		"integers that are printed are traced to the input bytes with the bit-lane domain (internal/lanes) and, for reads at loop-dependent offsets, with linear forms (internal/prove). " +
		"DECIDED for ParseSIDFromBytes: (guard) no early exit can be taken by a well-formed SID — revision byte 1, count byte 0..15, len = 8+4·count — (each edge into a `return <constant>` is shown infeasible under these facts), which together with C07's bounds obligations pins the guard to exactly len ≥ 8+4·count; " +
		"(text) for every count 0..15 the template, with each loop's trip count evaluated from its bound as a linear form in the count byte, instantiates to exactly `S-` %d `-` %d followed by count × (`-` %d): single dashes, decimal verbs, no other literal; " +
		"(lanes) the first printed value is byte 0 (or the constant 1 the guard enforces), the second is bytes 2..7 big-endian into 48 bits, and the k-th following one is the 32-bit little-endian word at offset 8+4k, for every count and every k < count. " +
		"DECIDED for GetDomainFromDistinguishedName: (dn join) the result is a join with the constant separator \".\" of elements produced by forward loops over the decomposed DN; (dn filter) an element is produced only under a test that the attribute type of the SAME component equals the constant DC (case-insensitively or in AD's upper-case spelling) and the element is that component's value (for prefix-style code: the same constant is tested and removed); " +
		"(dn decomposition) the DN is decomposed by an escape-aware parser (go-ldap ParseDN): splitting on \",\" mis-parses the `\\,` that AD emits inside RDN values; (dn order) components are visited by increasing index. " +
		"(callers) every in-module caller of ParseSIDFromBytes passes a []byte obtained from GetRawAttributeValue, every caller of GetDomainFromDistinguishedName a string attribute value — recorded, not a rule that can fail on its own. " +
		"NOT DECIDED: the numeric formatting inside fmt (%d of uint64/uint32/int), the MS-DTYP hexadecimal form of authorities ≥ 2^32, rejection of counts > 15 or of trailing bytes, what ParseDN accepts, DNS name normalisation (case, trailing dots), LDAP search behaviour in objects.go / rid.go."
	r.Assumptions = append(r.Assumptions,
		"go/parser, go/types and the go/ssa builder of x/tools are correct",
		"fmt.Sprintf with a constant format and no flags prints its literals verbatim and one token per verb; %d prints the decimal value of an integer",
		"github.com/go-ldap/ldap/v3.ParseDN decomposes a DN per RFC 4514 (escaped separators stay inside values) and returns RDNs and attributes in document order",
		"a well-formed binary SID is revision 1, count 0..15, exactly 8+4·count bytes (MS-DTYP 2.4.2.2)")

	p := c.P
	if p.Pkg(c16Pkg) == nil {
		r.Undecided("anchor", "package "+c16Pkg, "-", "package does not resolve")
		return
	}
	w := prove.NewWorld(p)
	c16SID(c, w)
	c16DN(c)
	c16Callers(c)
	r.Floor(c16RGuard, 3)
	r.Floor(c16RText, 16)
	r.Floor(c16RLane, 17)
	r.Floor(c16RDN, 4)
}

// ---------------------------------------------------------------------------
// ParseSIDFromBytes

type c16sid struct {
	c    *Ctx
	w    *prove.World
	fn   *ssa.Function
	fi   *prove.FuncInfo
	buf  *ssa.Parameter
	an   *lanes.Analyzer
	root *lanes.Frame
	ex   lanes.Analyzer
}

// byteLoad: v is *(&buf[k]) with constant k.
func (s *c16sid) byteLoad(v ssa.Value) (int, bool) {
	u, ok := v.(*ssa.UnOp)
	if !ok || u.Op != token.MUL {
		return 0, false
	}
	ia, ok := u.X.(*ssa.IndexAddr)
	if !ok || ia.X != ssa.Value(s.buf) {
		return 0, false
	}
	k, ok := c20ConstInt(ia.Index)
	if !ok || k < 0 || k > 1<<16 {
		return 0, false
	}
	return int(k), true
}

func c16BinaryRead(cc *ssa.CallCommon) (bigEndian bool, bits int, ok bool) {
	fn := cc.StaticCallee()
	if fn == nil || fn.Pkg == nil || fn.Pkg.Pkg.Path() != "encoding/binary" || fn.Signature.Recv() == nil || len(cc.Args) != 2 {
		return false, 0, false
	}
	nt, isN := fn.Signature.Recv().Type().(*types.Named)
	if !isN {
		return false, 0, false
	}
	switch nt.Obj().Name() {
	case "bigEndian":
		bigEndian = true
	case "littleEndian":
	default:
		return false, 0, false
	}
	switch fn.Name() {
	case "Uint16":
		return bigEndian, 16, true
	case "Uint32":
		return bigEndian, 32, true
	case "Uint64":
		return bigEndian, 64, true
	}
	return false, 0, false
}

func c16ReadVec(off int, bits int, bigEndian bool) lanes.Vec {
	out := make(lanes.Vec, 0, bits)
	for j := 0; j < bits/8; j++ { // j = byte significance
		i := j
		if bigEndian {
			i = bits/8 - 1 - j
		}
		out = append(out, lanes.SrcByte(0, off+i)...)
	}
	return out
}

// window: v is buf or buf[lo:…]; returns the low bound value (nil = 0).
func (s *c16sid) window(v ssa.Value) (lo ssa.Value, ok bool) {
	switch x := v.(type) {
	case *ssa.Parameter:
		return nil, x == s.buf
	case *ssa.Slice:
		if x.X == ssa.Value(s.buf) {
			return x.Low, true
		}
	}
	return nil, false
}

type c16env struct {
	count int
	iter  map[*strtmpl.Loop]int
}

// evalForm evaluates a linear form whose terms are the count byte, len(buf) and loop indexes.
func (s *c16sid) evalForm(f lin.Form, env c16env) (int64, string) {
	total := new(big.Int).Set(f.C)
	for t, coef := range f.Coef {
		v, isLen := s.fi.TermValue(t)
		var val int64
		switch {
		case isLen && v == ssa.Value(s.buf):
			val = int64(8 + 4*env.count)
		case isLen:
			return 0, "length of a value other than the input"
		default:
			if k, ok := s.byteLoad(v); ok && k == 1 {
				val = int64(env.count)
			} else if k, ok := s.byteLoad(v); ok && k == 0 {
				val = 1
			} else {
				found := false
				for l, it := range env.iter {
					if v == ssa.Value(l.Index) {
						val, found = l.Start+int64(it), true
					}
				}
				if !found {
					return 0, "term " + s.ex.Expr(v) + " is neither the count byte, len(input) nor a loop index"
				}
			}
		}
		total.Add(total, new(big.Int).Mul(coef, big.NewInt(val)))
	}
	if !total.IsInt64() {
		return 0, "offset out of range"
	}
	return total.Int64(), ""
}

// provenance of a printed integer: its 64 lanes (zero/sign-extended) over input bytes.
func (s *c16sid) provenance(v ssa.Value, env c16env) (lanes.Vec, string) {
	inner := v
	for {
		if cv, ok := inner.(*ssa.Convert); ok {
			inner = cv.X
			continue
		}
		if ct, ok := inner.(*ssa.ChangeType); ok {
			inner = ct.X
			continue
		}
		break
	}
	if call, ok := inner.(*ssa.Call); ok {
		if be, bits, ok := c16BinaryRead(call.Common()); ok {
			lo, ok := s.window(call.Common().Args[1])
			if !ok {
				return nil, "binary read of something other than a window of the input"
			}
			off := int64(0)
			if lo != nil {
				ctx := s.fi.CtxAt(call.Block())
				var why string
				off, why = s.evalForm(ctx.Lin(lo), env)
				if why != "" {
					return nil, why
				}
			}
			if off < 0 || off > 1<<16 {
				return nil, fmt.Sprintf("read at offset %d", off)
			}
			vec := c16ReadVec(int(off), bits, be)
			// re-apply the conversions between the read and the printed value
			return s.applyConversions(v, inner, vec), ""
		}
	}
	vec := s.root.Lanes(v)
	if vec == nil {
		return nil, "printed value is not an integer"
	}
	_, signed, _ := lanes.IntWidth(v.Type())
	return vec.Resize(64, signed), ""
}

func (s *c16sid) applyConversions(outer, inner ssa.Value, vec lanes.Vec) lanes.Vec {
	// collect the chain outer → inner
	var chain []ssa.Value
	for x := outer; x != inner; {
		chain = append(chain, x)
		switch y := x.(type) {
		case *ssa.Convert:
			x = y.X
		case *ssa.ChangeType:
			x = y.X
		default:
			x = inner
		}
	}
	_, signed, _ := lanes.IntWidth(inner.Type())
	for i := len(chain) - 1; i >= 0; i-- {
		w, sg, ok := lanes.IntWidth(chain[i].Type())
		if !ok {
			return lanes.TopVec(64)
		}
		vec = vec.Resize(w, signed)
		signed = sg
	}
	return vec.Resize(64, signed)
}

func c16VecName(b lanes.Bit) string { return fmt.Sprintf("in[%d].%d", b.I, b.B) }

func c16SID(c *Ctx, w *prove.World) {
	r, p := c.R, c.P
	fn := p.Func(c16Pkg, "", "ParseSIDFromBytes")
	if fn == nil {
		r.Undecided("anchor", c16Pkg+".ParseSIDFromBytes", "-", "anchored function does not resolve")
		return
	}
	name := p.FuncName(fn)
	var buf *ssa.Parameter
	for _, q := range fn.Params {
		if prove.IsByteSeq(q.Type()) {
			if _, isSlice := q.Type().Underlying().(*types.Slice); isSlice && buf == nil {
				buf = q
			}
		}
	}
	if buf == nil || fn.Signature.Results().Len() != 1 || !c20IsString(fn.Signature.Results().At(0).Type()) {
		r.Undecided("anchor", name, p.Rel(fn.Pos()), "signature is not func([]byte) string")
		return
	}
	r.OK("anchor", name, p.Rel(fn.Pos()), "resolved: func([]byte) string")
	s := &c16sid{c: c, w: w, fn: fn, fi: w.Info(fn), buf: buf}
	s.an = &lanes.Analyzer{InModule: p.InModule}
	s.an.Leaf = func(f *lanes.Frame, v ssa.Value) (lanes.Vec, bool) {
		if k, ok := s.byteLoad(v); ok {
			return lanes.SrcByte(0, k), true
		}
		if call, ok := v.(*ssa.Call); ok {
			if be, bits, ok := c16BinaryRead(call.Common()); ok {
				if lo, ok := s.window(call.Common().Args[1]); ok {
					off := int64(0)
					if lo != nil {
						k, isK := c20ConstInt(lo)
						if !isK {
							return nil, false
						}
						off = k
					}
					return c16ReadVec(int(off), bits, be), true
				}
			}
		}
		return nil, false
	}
	s.root = s.an.Root(fn)

	// all loads of the revision and count bytes
	var loads0, loads1 []ssa.Value
	for _, b := range fn.Blocks {
		for _, in := range b.Instrs {
			if v, ok := in.(ssa.Value); ok {
				if k, ok := s.byteLoad(v); ok {
					if k == 0 {
						loads0 = append(loads0, v)
					} else if k == 1 {
						loads1 = append(loads1, v)
					}
				}
			}
		}
	}
	if len(loads1) == 0 {
		r.Undecided(c16RGuard, name+": sub-authority count", p.Rel(fn.Pos()), "the function never reads byte 1 (SubAuthorityCount) of its input")
		return
	}
	// well-formedness facts; count < 0 means "any count 0..15"
	wf := func(ctx *prove.Ctx, count int) {
		for _, l := range loads0 {
			ctx.AddFact(lin.EQ(ctx.Lin(l), lin.K(1))...)
		}
		cnt := ctx.Lin(loads1[0])
		for _, l := range loads1[1:] {
			ctx.AddFact(lin.EQ(ctx.Lin(l), cnt)...)
		}
		if count >= 0 {
			ctx.AddFact(lin.EQ(cnt, lin.K(int64(count)))...)
		} else {
			ctx.AddFact(lin.GE0(cnt), lin.LE(cnt, lin.K(c16MaxCount)))
		}
		ctx.AddFact(lin.EQ(ctx.LenOf(buf), cnt.ScaleI(4).AddK(8))...)
	}

	// ---- guard: early exits
	type ret struct {
		in    *ssa.Return
		konst bool
	}
	var rets []ret
	for _, b := range fn.Blocks {
		if rt, ok := b.Instrs[len(b.Instrs)-1].(*ssa.Return); ok {
			_, isK := rt.Results[0].(*ssa.Const)
			rets = append(rets, ret{rt, isK})
		}
	}
	nMain := 0
	for _, rt := range rets {
		if !rt.konst {
			nMain++
			continue
		}
		b := rt.in.Block()
		kv, _ := c20ConstString(rt.in.Results[0])
		for _, pred := range b.Preds {
			cond := "entry"
			if iff, ok := pred.Instrs[len(pred.Instrs)-1].(*ssa.If); ok {
				cond = s.ex.Expr(iff.Cond)
				if pred.Succs[1] == b && pred.Succs[0] != b {
					cond = "!(" + cond + ")"
				}
			}
			construct := fmt.Sprintf("%s: early return %q when %s", name, kv, cond)
			c.guard(c16RGuard, construct, p.Rel(rt.in.Pos()), func() {
				ctx := s.fi.CtxEdge(pred, b)
				wf(ctx, -1)
				if ctx.Infeasible() {
					r.OK(c16RGuard, construct, p.Rel(rt.in.Pos()), "no well-formed SID (revision 1, count 0..15, len = 8+4·count) takes this exit")
					return
				}
				var wit []string
				for n := 0; n <= c16MaxCount; n++ {
					cx := s.fi.CtxEdge(pred, b)
					wf(cx, n)
					if !cx.Infeasible() {
						wit = append(wit, fmt.Sprint(n))
					}
				}
				r.Fail(c16RGuard, construct, p.Rel(rt.in.Pos()), fmt.Sprintf("a well-formed SID can take this exit and is answered %q instead of its text form (not excluded for sub-authority count ∈ {%s})", kv, strings.Join(wit, ",")))
			})
		}
	}
	if nMain == 0 {
		r.Undecided(c16RText, name+": text form", p.Rel(fn.Pos()), "the function has no return that builds a text")
		return
	}

	// ---- text + lanes, per main return and per count
	type laneIssue struct {
		fails, unds []string
		seen        int
	}
	laneKeys := []string{"revision"}
	laneKeys = append(laneKeys, "identifier authority")
	for k := 0; k < c16MaxCount; k++ {
		laneKeys = append(laneKeys, fmt.Sprintf("sub-authority #%d", k))
	}
	issues := map[string]*laneIssue{}
	for _, k := range laneKeys {
		issues[k] = &laneIssue{}
	}
	expectVec := func(idx int) lanes.Vec {
		switch idx {
		case 0:
			return lanes.SrcByte(0, 0).Resize(64, false)
		case 1:
			return c16ReadVec(2, 48, true).Resize(64, false)
		}
		return c16ReadVec(8+4*(idx-2), 32, false).Resize(64, false)
	}
	var templates []string
	for _, rt := range rets {
		if rt.konst {
			continue
		}
		ev := strtmpl.New()
		tmpl, terr := ev.String(rt.in.Results[0])
		if terr == nil {
			templates = append(templates, strtmpl.Describe(tmpl))
		}
		for n := 0; n <= c16MaxCount; n++ {
			construct := fmt.Sprintf("%s: text for %d sub-authorit%s", name, n, map[bool]string{true: "y", false: "ies"}[n == 1])
			c.guard(c16RText, construct, p.Rel(rt.in.Pos()), func() {
				if terr != nil {
					r.Undecided(c16RText, construct, p.Rel(rt.in.Pos()), "the construction of the text is not modelled: "+terr.Error())
					return
				}
				ctx := s.fi.CtxAt(rt.in.Block())
				wf(ctx, n)
				if ctx.Infeasible() {
					r.Fail(c16RText, construct, p.Rel(rt.in.Pos()), "no text is produced for this count: the guards reject it (see the guard rule)")
					return
				}
				envc := c16env{count: n}
				env := &strtmpl.Env{Trip: func(l *strtmpl.Loop, outer map[*strtmpl.Loop]int) (int, error) {
					lc := s.fi.CtxAt(l.Header)
					e2 := c16env{count: n, iter: outer}
					bound, why := s.evalForm(lc.Lin(l.Bound), e2)
					if why != "" {
						return 0, fmt.Errorf("loop bound: %s", why)
					}
					first := l.Start
					if l.Range {
						first = l.Start + 1
					}
					trip := bound - first
					if l.Op == token.LEQ {
						trip++
					}
					if trip < 0 {
						trip = 0
					}
					if trip > 64 {
						return 0, fmt.Errorf("loop runs %d times", trip)
					}
					return int(trip), nil
				}}
				toks, err := env.Items(tmpl, map[*strtmpl.Loop]int{})
				if err != nil {
					r.Undecided(c16RText, construct, p.Rel(rt.in.Pos()), err.Error())
					return
				}
				toks = strtmpl.Merge(toks)
				want := "S-%d-%d" + strings.Repeat("-%d", n)
				got := strtmpl.Render(toks)
				if got != want {
					r.Fail(c16RText, construct, p.Rel(rt.in.Pos()), fmt.Sprintf("the text is built as %q, the canonical form is %q (template: %s)", got, want, strtmpl.Describe(tmpl)))
					return
				}
				r.OK(c16RText, construct, p.Rel(rt.in.Pos()), "instantiates to "+want)
				// lanes of every printed value
				vi := 0
				for _, t := range toks {
					if t.Val == nil {
						continue
					}
					key := laneKeys[0]
					if vi < len(laneKeys) {
						key = laneKeys[vi]
					}
					is := issues[key]
					is.seen++
					e2 := envc
					e2.iter = t.Iter
					got, why := s.provenance(t.Val, e2)
					switch {
					case why != "":
						is.unds = append(is.unds, fmt.Sprintf("count %d: %s", n, why))
					case vi == 0 && func() bool { k, ok := got.ConstVal(); return ok && k.Int64() == 1 }():
					case got.HasTop():
						is.unds = append(is.unds, fmt.Sprintf("count %d: lanes %s (%s)", n, got.String(c16VecName), strings.Join(s.an.Why, "; ")))
					case !got.Equal(expectVec(vi)):
						is.fails = append(is.fails, fmt.Sprintf("count %d: printed value has lanes %s, MS-DTYP says %s", n, got.String(c16VecName), expectVec(vi).String(c16VecName)))
					}
					vi++
				}
			})
		}
	}
	for i, k := range laneKeys {
		is := issues[k]
		construct := name + ": " + k
		what := []string{"byte 0", "bytes 2..7 big-endian (48 bits)"}
		desc := ""
		if i < 2 {
			desc = what[i]
		} else {
			desc = fmt.Sprintf("32-bit little-endian word at offset %d", 8+4*(i-2))
		}
		switch {
		case len(is.fails) > 0:
			r.Fail(c16RLane, construct, p.Rel(fn.Pos()), strings.Join(c20Dedup(is.fails)[:min(3, len(c20Dedup(is.fails)))], " | "))
		case len(is.unds) > 0:
			r.Undecided(c16RLane, construct, p.Rel(fn.Pos()), strings.Join(c20Dedup(is.unds)[:min(3, len(c20Dedup(is.unds)))], " | "))
		case is.seen == 0:
			r.Undecided(c16RLane, construct, p.Rel(fn.Pos()), "never printed by a text that matched the canonical form")
		default:
			r.OK(c16RLane, construct, p.Rel(fn.Pos()), fmt.Sprintf("%s in all %d instantiations", desc, is.seen))
		}
	}
	r.Extra["sid_templates"] = templates
}

// ---------------------------------------------------------------------------
// GetDomainFromDistinguishedName

func c16FoldDC(s string) bool { return strings.EqualFold(s, "DC") }

func c16DN(c *Ctx) {
	r, p := c.R, c.P
	fn := p.Func(c16Pkg, "", "GetDomainFromDistinguishedName")
	if fn == nil {
		r.Undecided("anchor", c16Pkg+".GetDomainFromDistinguishedName", "-", "anchored function does not resolve")
		return
	}
	name := p.FuncName(fn)
	if len(fn.Params) != 1 || !c20IsString(fn.Params[0].Type()) || fn.Signature.Results().Len() != 1 || !c20IsString(fn.Signature.Results().At(0).Type()) {
		r.Undecided("anchor", name, p.Rel(fn.Pos()), "signature is not func(string) string")
		return
	}
	prm := fn.Params[0]
	r.OK("anchor", name, p.Rel(fn.Pos()), "resolved: func(string) string")
	var ex lanes.Analyzer
	pos := p.Rel(fn.Pos())
	var mains []*ssa.Return
	for _, b := range fn.Blocks {
		if rt, ok := b.Instrs[len(b.Instrs)-1].(*ssa.Return); ok {
			if k, isK := rt.Results[0].(*ssa.Const); isK {
				if s, _ := c20ConstString(k); s != "" {
					r.Undecided(c16RDN, name+": constant result", p.Rel(rt.Pos()), fmt.Sprintf("returns the constant %q", s))
				}
				continue
			}
			mains = append(mains, rt)
		}
	}
	if len(mains) != 1 {
		r.Undecided(c16RDN, name+": join", pos, fmt.Sprintf("%d returns build a text; exactly one is modelled", len(mains)))
		return
	}
	rt := mains[0]
	ev := strtmpl.New()
	tmpl, err := ev.String(rt.Results[0])
	if err != nil {
		r.Undecided(c16RDN, name+": join", p.Rel(rt.Pos()), "the construction of the result is not modelled: "+err.Error())
		return
	}
	r.Extra["dn_template"] = strtmpl.Describe(tmpl)
	// shape: one join whose only element source is a (possibly nested) loop producing one element under one filter
	if len(tmpl) != 1 || tmpl[0].Kind != strtmpl.Join || len(tmpl[0].Parts) != 1 {
		r.Fail(c16RDN, name+": join", p.Rel(rt.Pos()), "the result is not a single join of the DC components: "+strtmpl.Describe(tmpl))
		return
	}
	j := tmpl[0]
	if j.Sep == "." {
		r.OK(c16RDN, name+": join", p.Rel(rt.Pos()), "components are joined with the constant \".\" (no leading/trailing separator by construction of a join)")
	} else {
		r.Fail(c16RDN, name+": join", p.Rel(rt.Pos()), fmt.Sprintf("components are joined with %q, a DNS name joins its labels with \".\"", j.Sep))
	}
	var loops []*strtmpl.Loop
	var filters []*strtmpl.Filter
	part := j.Parts[0]
	for part.Loop != nil {
		loops = append(loops, part.Loop)
		if part.Cond != nil {
			filters = append(filters, part.Cond)
		}
		if len(part.Body) != 1 {
			r.Undecided(c16RDN, name+": filter", p.Rel(rt.Pos()), "an iteration produces more than one element")
			return
		}
		part = part.Body[0]
	}
	if part.Cond != nil {
		filters = append(filters, part.Cond)
	}
	if len(loops) == 0 {
		r.Fail(c16RDN, name+": filter", p.Rel(rt.Pos()), "the joined list is not produced by a loop over the components of the DN")
		return
	}
	if len(part.Elem) != 1 || part.Elem[0].Kind != strtmpl.Val {
		r.Fail(c16RDN, name+": filter", p.Rel(rt.Pos()), "a joined element is not a plain component value: "+strtmpl.Describe(part.Elem))
		return
	}
	elem := part.Elem[0].Val

	// ---- filter
	c.guard(c16RDN, name+": filter", p.Rel(rt.Pos()), func() {
		if len(filters) != 1 {
			r.Fail(c16RDN, name+": filter", p.Rel(rt.Pos()), fmt.Sprintf("%d tests decide whether a component is kept; exactly one test of the attribute type is expected (without one, non-DC components leak into the domain)", len(filters)))
			return
		}
		f := &strtmpl.Filter{Cond: filters[0].Cond, Truth: filters[0].Truth}
		for {
			u, ok := f.Cond.(*ssa.UnOp)
			if !ok || u.Op != token.NOT {
				break
			}
			f.Cond, f.Truth = u.X, !f.Truth
		}
		neqAsEq := false
		if bo, ok := f.Cond.(*ssa.BinOp); ok && bo.Op == token.NEQ && !f.Truth {
			// kept when a != b is false, i.e. when a == b
			neqAsEq, f.Truth = true, true
		}
		if !f.Truth {
			r.Fail(c16RDN, name+": filter", p.Rel(rt.Pos()), "the component is kept when the test "+ex.Expr(f.Cond)+" FAILS: every component but the tested kind ends up in the domain")
			return
		}
		ok, why := c16FilterMatches(f.Cond, elem, neqAsEq)
		if why != "" && !ok {
			if strings.HasPrefix(why, "?") {
				r.Undecided(c16RDN, name+": filter", p.Rel(rt.Pos()), why[1:])
			} else {
				r.Fail(c16RDN, name+": filter", p.Rel(rt.Pos()), why)
			}
			return
		}
		r.OK(c16RDN, name+": filter", p.Rel(rt.Pos()), "a component is kept exactly when its attribute type tests equal to DC, and the kept text is that component's value")
	})

	// ---- decomposition + order
	c.guard(c16RDN, name+": decomposition", pos, func() {
		var decomposers []string
		bad, und := "", ""
		counters := map[ssa.Value]bool{}
		for _, l := range loops {
			counters[l.Counter] = true
		}
		usedCounters := map[ssa.Value]bool{}
		orderBad := ""
		seen := map[ssa.Value]bool{}
		var walk func(v ssa.Value, d int)
		walk = func(v ssa.Value, d int) {
			if v == nil || seen[v] || d > 30 {
				return
			}
			seen[v] = true
			switch x := v.(type) {
			case *ssa.Parameter, *ssa.Const, *ssa.Global:
				return
			case *ssa.IndexAddr:
				if counters[x.Index] {
					usedCounters[x.Index] = true
				} else if _, isK := x.Index.(*ssa.Const); !isK {
					orderBad = "a component is selected with " + ex.Expr(x.Index) + ", not with the loop counter"
				}
				walk(x.X, d+1)
				return
			case *ssa.Call:
				cc := x.Common()
				pkg, _, nm := c20CalleeName(cc)
				takesDN := false
				for _, a := range cc.Args {
					if a == ssa.Value(prm) {
						takesDN = true
					}
				}
				if takesDN {
					switch {
					case strings.HasSuffix(pkg, "go-ldap/ldap/v3") && nm == "ParseDN":
						decomposers = append(decomposers, "ldap.ParseDN")
					case pkg == "strings" && (nm == "Split" || nm == "SplitN" || nm == "SplitAfter" || nm == "Cut" || nm == "Fields" || nm == "FieldsFunc"):
						sep := ""
						if len(cc.Args) > 1 {
							sep, _ = c20ConstString(cc.Args[1])
						}
						decomposers = append(decomposers, fmt.Sprintf("strings.%s(%q)", nm, sep))
						bad = fmt.Sprintf("the DN is cut with strings.%s on %q: Active Directory escapes a comma inside an RDN value as `\\,` (e.g. CN=Doe\\, John), so a value containing `,DC=` yields a spurious domain label", nm, sep)
					default:
						und = "the DN is handed to " + nm + ", whose decomposition is not modelled"
					}
					return
				}
				for _, a := range cc.Args {
					walk(a, d+1)
				}
				return
			}
			if in, ok := v.(ssa.Instruction); ok {
				for _, op := range in.Operands(nil) {
					if op != nil && *op != nil {
						walk(*op, d+1)
					}
				}
			}
		}
		walk(elem, 0)
		switch {
		case bad != "":
			r.Fail(c16RDN, name+": decomposition", pos, bad)
		case und != "":
			r.Undecided(c16RDN, name+": decomposition", pos, und)
		case len(decomposers) == 0:
			r.Undecided(c16RDN, name+": decomposition", pos, "the kept value is not derived from a decomposition of the parameter")
		default:
			r.OK(c16RDN, name+": decomposition", pos, "components come from "+strings.Join(c20Dedup(decomposers), ", ")+" (escape-aware)")
		}
		switch {
		case orderBad != "":
			r.Fail(c16RDN, name+": order", pos, orderBad)
		case len(usedCounters) != len(loops):
			r.Undecided(c16RDN, name+": order", pos, fmt.Sprintf("%d loop(s) but %d of their counters select the component", len(loops), len(usedCounters)))
		default:
			r.OK(c16RDN, name+": order", pos, fmt.Sprintf("components are selected by the counters of %d forward loop(s) (start 0, step 1)", len(loops)))
		}
	})
}

// c16SameLocation: two SSA values denote the same object: identical, or loads of
// the same element of the same (unmodified) slice / field of the same object.
func c16SameLocation(a, b ssa.Value, d int) bool {
	if a == b {
		return true
	}
	if d > 6 {
		return false
	}
	ua, ok1 := a.(*ssa.UnOp)
	ub, ok2 := b.(*ssa.UnOp)
	if !ok1 || !ok2 || ua.Op != token.MUL || ub.Op != token.MUL {
		return false
	}
	switch xa := ua.X.(type) {
	case *ssa.IndexAddr:
		xb, ok := ub.X.(*ssa.IndexAddr)
		if !ok || xa.Index != xb.Index || !c16SameLocation(xa.X, xb.X, d+1) {
			return false
		}
		return !c16Stored(xa.X) && !c16Stored(xb.X)
	case *ssa.FieldAddr:
		xb, ok := ub.X.(*ssa.FieldAddr)
		return ok && xa.Field == xb.Field && c16SameLocation(xa.X, xb.X, d+1)
	}
	return false
}

// c16Stored: some element of this slice value is written in the function.
func c16Stored(sl ssa.Value) bool {
	if sl.Referrers() == nil {
		return false
	}
	for _, r := range *sl.Referrers() {
		if ia, ok := r.(*ssa.IndexAddr); ok && ia.Referrers() != nil {
			for _, rr := range *ia.Referrers() {
				if st, ok := rr.(*ssa.Store); ok && st.Addr == ssa.Value(ia) {
					return true
				}
			}
		}
	}
	return false
}

// c16FilterMatches: cond tests "the attribute type of the component is DC" and elem is that component's value.
// A leading '?' in the reason means undecided.
func c16FilterMatches(cond ssa.Value, elem ssa.Value, neqAsEq bool) (bool, string) {
	var ex lanes.Analyzer
	unfold := func(v ssa.Value) (ssa.Value, string) { // ToUpper/ToLower wrappers
		if call, ok := v.(*ssa.Call); ok {
			pkg, _, nm := c20CalleeName(call.Common())
			if pkg == "strings" && (nm == "ToUpper" || nm == "ToLower" || nm == "TrimSpace") {
				return call.Common().Args[0], nm
			}
		}
		return v, ""
	}
	fieldOf := func(v ssa.Value) (base ssa.Value, field string) {
		f, _, b := c20FieldLoad(v)
		if f == nil {
			return nil, ""
		}
		return b, f.Name()
	}
	typeVsValue := func(typ ssa.Value, konst string, how string) (bool, string) {
		switch how {
		case "fold":
			if !c16FoldDC(konst) {
				return false, fmt.Sprintf("the attribute type is compared with %q, not with DC", konst)
			}
		case "ToUpper", "":
			if konst != "DC" {
				return false, fmt.Sprintf("the attribute type is compared with %q; Active Directory spells the type DC", konst)
			}
		case "ToLower":
			if konst != "dc" {
				return false, fmt.Sprintf("the lower-cased attribute type is compared with %q", konst)
			}
		}
		tb, tf := fieldOf(typ)
		eb, ef := fieldOf(elem)
		if tb == nil || eb == nil {
			return false, "?the tested type or the kept value is not a field of a parsed component"
		}
		if !c16SameLocation(tb, eb, 0) {
			return false, "the tested attribute type and the kept value belong to different components"
		}
		if tf != "Type" || ef != "Value" {
			return false, fmt.Sprintf("the test reads field %s and the kept text is field %s of the component (expected Type / Value)", tf, ef)
		}
		return true, ""
	}
	switch x := cond.(type) {
	case *ssa.Call:
		pkg, _, nm := c20CalleeName(x.Common())
		args := x.Common().Args
		if pkg == "strings" && nm == "EqualFold" {
			a, b := args[0], args[1]
			if k, ok := c20ConstString(a); ok {
				return typeVsValue(b, k, "fold")
			}
			if k, ok := c20ConstString(b); ok {
				return typeVsValue(a, k, "fold")
			}
			return false, "?EqualFold of two non-constant values"
		}
		if pkg == "strings" && nm == "HasPrefix" {
			k, ok := c20ConstString(args[1])
			if !ok {
				return false, "?prefix is not a constant"
			}
			src, norm := unfold(args[0])
			want := map[string]string{"": "DC=", "ToUpper": "DC=", "ToLower": "dc="}[norm]
			if k != want {
				return false, fmt.Sprintf("components are kept when they start with %q, the attribute type of a domain component is %q", k, want)
			}
			// the kept text must be the same part with exactly that prefix removed
			switch e := elem.(type) {
			case *ssa.Call:
				ep, _, en := c20CalleeName(e.Common())
				if ep == "strings" && en == "TrimPrefix" {
					k2, ok := c20ConstString(e.Common().Args[1])
					if !ok || k2 != k {
						return false, fmt.Sprintf("the test looks for %q but %q is removed", k, k2)
					}
					if e.Common().Args[0] != src {
						return false, "the prefix is tested on one part and removed from another"
					}
					return true, ""
				}
			case *ssa.Slice:
				lo, ok := c20ConstInt(e.Low)
				if e.Low == nil || !ok || int(lo) != len(k) || e.High != nil {
					return false, fmt.Sprintf("the test looks for %q (%d bytes) but the kept text is %s", k, len(k), ex.Expr(e))
				}
				if e.X != src {
					return false, "the prefix is tested on one part and removed from another"
				}
				return true, ""
			}
			return false, "?the kept text is not the tested part with its prefix removed"
		}
	case *ssa.BinOp:
		if x.Op == token.EQL || (neqAsEq && x.Op == token.NEQ) {
			a, b := x.X, x.Y
			if k, ok := c20ConstString(a); ok {
				src, norm := unfold(b)
				return typeVsValue(src, k, norm)
			}
			if k, ok := c20ConstString(b); ok {
				src, norm := unfold(a)
				return typeVsValue(src, k, norm)
			}
		}
	}
	return false, "?the test " + ex.Expr(cond) + " is not a recognised attribute-type test"
}

// ---------------------------------------------------------------------------
// callers (recorded)

func c16Callers(c *Ctx) {
	r, p := c.R, c.P
	targets := map[*ssa.Function]string{}
	if fn := p.Func(c16Pkg, "", "ParseSIDFromBytes"); fn != nil {
		targets[fn] = "GetRawAttributeValue"
	}
	if fn := p.Func(c16Pkg, "", "GetDomainFromDistinguishedName"); fn != nil {
		targets[fn] = "GetAttributeValue"
	}
	var sites []string
	for _, fn := range p.SrcFuncs() {
		for _, b := range fn.Blocks {
			for _, in := range b.Instrs {
				call, ok := in.(*ssa.Call)
				if !ok {
					continue
				}
				want, ok := targets[call.Common().StaticCallee()]
				if !ok {
					continue
				}
				src := "?"
				if ac, ok := call.Common().Args[0].(*ssa.Call); ok {
					_, recv, nm := c20CalleeName(ac.Common())
					src = recv + "." + nm
					attr := ""
					if len(ac.Common().Args) > 1 {
						attr, _ = c20ConstString(ac.Common().Args[len(ac.Common().Args)-1])
					}
					src += fmt.Sprintf("(%q)", attr)
					if nm != want {
						src += " [expected " + want + "]"
					}
				}
				sites = append(sites, fmt.Sprintf("%s → %s(%s)", p.FuncName(fn), call.Common().StaticCallee().Name(), src))
			}
		}
	}
	sort.Strings(sites)
	r.Extra["call_sites"] = sites
	_ = report.Discharged
}
