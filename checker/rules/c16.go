package rules

import (
	"fmt"
	"go/token"
	"go/types"
	"sort"
	"strings"

	"golang.org/x/tools/go/ssa"

	"manticheck/internal/lanes"
	"manticheck/internal/lin"
	"manticheck/internal/prove"
	"manticheck/internal/report"
	"manticheck/internal/strtmpl"
)

// C16 — binary SIDs and distinguished names decode to their canonical text.
func init() { register(&Check{ID: "C16", NeedSSA: true, Run: runC16}) }

const (
	c16Pkg    = "network/ldap"
	c16RLane  = "lanes"
	c16RGuard = "guard"
	c16RText  = "text"
	c16RDN    = "dn"
	c16RCall  = "callers"
)

const c16MaxCount = 15 // MS-DTYP 2.4.2: SubAuthorityCount ≤ 15

func runC16(c *Ctx) {
	r := c.R
	r.Explanation = "Rules on go/ssa for ldap.ParseSIDFromBytes and ldap.GetDomainFromDistinguishedName; no Manticore code is run. " +
		"ParseSIDFromBytes is decided by ABSTRACT INTERPRETATION (internal/absint over the bit-lane domain of internal/lanes), once per sub-authority count 0..15 — the property's own quantifier — on the input shape MS-DTYP calls well-formed: byte 0 is the constant 1, byte 1 the constant count, the length is exactly 8+4·count, and every other byte is symbolic (lanes in[i].0..7; no data byte is ever chosen). " +
		"The interpreter follows the branches the header bytes and the length decide, through any loop shape and any number of in-module helpers; the returned text is recovered as literal bytes and PRINTED VALUES (verb + the 64 lanes of the printed integer) however it is assembled: `+=` with fmt.Sprintf, strings.Join, strconv.Itoa/Format*/Append*, fmt.Appendf into a byte buffer + string(b), strings.Builder / bytes.Buffer with WriteString/WriteByte/Fprintf. " +
		"DECIDED per count: (guard) the run reaches a text, i.e. no guard rejects a well-formed SID and no index leaves the buffer (which together with C07's bounds obligations pins the guard to exactly len ≥ 8+4·count); when a count is rejected, the early exits it can take in the anchored function are named with the linear prover (diagnostic only); " +
		"(text) the text is exactly `S-` %d `-` %d followed by count × (`-` %d) — or the same with the revision written as the literal 1 — : single dashes, decimal verbs, no other literal; " +
		"(lanes) the first printed value is the constant 1 the guard enforces for byte 0, the second is bytes 2..7 big-endian into 48 bits, and the k-th following one is the 32-bit little-endian word at offset 8+4k, for every count and every k < count. " +
		"A run that stops at a construct the interpreter does not model is reported NOT DECIDED (discharged with a note) — it is no evidence of a violation; a run that stops because an index would be out of range, or because a branch depends on data bytes, is undecided (= violation). " +
		"GetDomainFromDistinguishedName is decided on the TEMPLATE of its result (internal/strtmpl: literals, values, repetitions produced by counted loops through `acc += …`, append + strings.Join, append to a byte buffer + string(b), or writes to a strings.Builder / bytes.Buffer, which is put into SSA form on the fly; `(v + sep)*` + TrimSuffix, `(sep + v)*` + TrimPrefix and `if n > 0 { sep }; v; n++` / `if !first { sep }; first = false; v` — the counter or flag shown to change exactly where a value is written — are recognised as joins; a loop body that is a CLOSURE — the synthetic yield function of a range-over-func loop over an in-module iterator (a function literal, a function or method returning one, iter.Seq or iter.Seq2), or a callback handed to an in-module function — is read through: the iterator is evaluated to the template of its yield calls and the closure to the text one call appends to the captured strings.Builder / string / []string variable, with captured counters and flags decided on the closure; slices.Collect / AppendSeq of such an iterator is the list of its yields): " +
		"(dn join) the result is a join with the constant separator \".\" of elements produced by forward loops over the decomposed DN; (dn filter) an element is produced only under a test that the attribute type of the SAME component equals the constant DC (case-insensitively or in AD's upper-case spelling; the test may sit in an in-module helper that is a single `return <test>`) and the element is that component's value (for prefix-style code: the same constant is tested and removed); " +
		"(dn decomposition) the DN is decomposed by an escape-aware parser (go-ldap ParseDN): splitting on \",\" mis-parses the `\\,` that AD emits inside RDN values; (dn order) components are visited by increasing index. " +
		"COMPLETENESS BEFORE VERDICT: a mismatch is reported only for a construction that was read completely — a separator other than \".\", a separator written before the first / after the last element, a counter that also counts filtered-out components, a flag tested the wrong way round or never cleared, a type test for something other than DC, the wrong field kept, strings.Split on the DN. A construction this rule does not read (an iterator from outside the module, a break inside the loop body, the result of a call that is not entered, an additional test it does not interpret, a value it cannot trace back to ParseDN) leaves the condition NOT DECIDED (discharged, with a note); the four dn conditions are always recorded, so the floor never adds a second report. For ParseSIDFromBytes an aborted abstract run is a violation only when the interpreter saw the well-formed input make the code fail (an index or slice bound out of range, a nil dereference, an explicit panic); every other abort, an opaque result text and lost lanes are NOT DECIDED. " +
		"(callers) every in-module caller of ParseSIDFromBytes passes a []byte obtained from GetRawAttributeValue, every caller of GetDomainFromDistinguishedName a string attribute value — recorded, not a rule that can fail on its own. " +
		"NOT DECIDED: the numeric formatting inside fmt / strconv (%d of uint64/uint32/int), the MS-DTYP hexadecimal form of authorities ≥ 2^32, rejection of counts > 15 or of trailing bytes, what ParseDN accepts, DNS name normalisation (case, trailing dots), LDAP search behaviour in objects.go / rid.go."
	r.Assumptions = append(r.Assumptions,
		"go/parser, go/types and the go/ssa builder of x/tools are correct",
		"fmt.Sprintf/Fprintf/Appendf with a constant format and no flags print their literals verbatim and one token per verb; %d, strconv.Itoa and strconv.Format*/Append* in base 10 print the decimal value of an integer",
		"internal/absint's transfer functions are exact on the lane domain (shared with C13/C14)",
		"github.com/go-ldap/ldap/v3.ParseDN decomposes a DN per RFC 4514 (escaped separators stay inside values) and returns RDNs and attributes in document order",
		"a well-formed binary SID is revision 1, count 0..15, exactly 8+4·count bytes (MS-DTYP 2.4.2.2)")

	p := c.P
	if p.Pkg(c16Pkg) == nil {
		r.Undecided("anchor", "package "+c16Pkg, "-", "package does not resolve")
		return
	}
	w := prove.NewWorld(p)
	c16SID(c, w)
	c16DN(c)
	c16Callers(c)
	r.Floor(c16RGuard, c16MaxCount+1) // one per sub-authority count 0..15, whatever the code looks like
	r.Floor(c16RText, 16)
	r.Floor(c16RLane, 17)
	r.Floor(c16RDN, 4)
}

// ---------------------------------------------------------------------------
// ParseSIDFromBytes

type c16sid struct {
	c   *Ctx
	w   *prove.World
	fn  *ssa.Function
	fi  *prove.FuncInfo
	buf *ssa.Parameter
	ex  lanes.Analyzer
}

// byteLoad: v is *(&buf[k]) with constant k.
func (s *c16sid) byteLoad(v ssa.Value) (int, bool) {
	u, ok := v.(*ssa.UnOp)
	if !ok || u.Op != token.MUL {
		return 0, false
	}
	ia, ok := u.X.(*ssa.IndexAddr)
	if !ok || ia.X != ssa.Value(s.buf) {
		return 0, false
	}
	k, ok := c20ConstInt(ia.Index)
	if !ok || k < 0 || k > 1<<16 {
		return 0, false
	}
	return int(k), true
}

func c16ReadVec(off int, bits int, bigEndian bool) lanes.Vec {
	out := make(lanes.Vec, 0, bits)
	for j := 0; j < bits/8; j++ { // j = byte significance
		i := j
		if bigEndian {
			i = bits/8 - 1 - j
		}
		out = append(out, lanes.SrcByte(0, off+i)...)
	}
	return out
}

func c16VecName(b lanes.Bit) string { return fmt.Sprintf("in[%d].%d", b.I, b.B) }

func c16SID(c *Ctx, w *prove.World) {
	r, p := c.R, c.P
	fn := p.Func(c16Pkg, "", "ParseSIDFromBytes")
	if fn == nil {
		r.Undecided("anchor", c16Pkg+".ParseSIDFromBytes", "-", "anchored function does not resolve")
		return
	}
	name := p.FuncName(fn)
	var buf *ssa.Parameter
	for _, q := range fn.Params {
		if prove.IsByteSeq(q.Type()) {
			if _, isSlice := q.Type().Underlying().(*types.Slice); isSlice && buf == nil {
				buf = q
			}
		}
	}
	if buf == nil || len(fn.Params) != 1 || fn.Signature.Results().Len() != 1 || !c20IsString(fn.Signature.Results().At(0).Type()) {
		r.Undecided("anchor", name, p.Rel(fn.Pos()), "signature is not func([]byte) string")
		return
	}
	r.OK("anchor", name, p.Rel(fn.Pos()), "resolved: func([]byte) string")
	pos := p.Rel(fn.Pos())

	type laneIssue struct {
		fails, unds []string
		seen        int
	}
	laneKeys := []string{"revision", "identifier authority"}
	for k := 0; k < c16MaxCount; k++ {
		laneKeys = append(laneKeys, fmt.Sprintf("sub-authority #%d", k))
	}
	issues := map[string]*laneIssue{}
	for _, k := range laneKeys {
		issues[k] = &laneIssue{}
	}
	expectVec := func(idx int) lanes.Vec {
		switch idx {
		case 0:
			return lanes.SrcByte(0, 0).Resize(64, false)
		case 1:
			return c16ReadVec(2, 48, true).Resize(64, false)
		}
		return c16ReadVec(8+4*(idx-2), 32, false).Resize(64, false)
	}
	plural := func(n int) string {
		if n == 1 {
			return "y"
		}
		return "ies"
	}

	// ---- one abstract run per sub-authority count
	var rejected []int
	rejectedAs := map[int]string{}
	notDecided := map[string][]int{}
	texts := map[string][]int{}
	helpers := map[string]bool{}
	for n := 0; n <= c16MaxCount; n++ {
		gname := fmt.Sprintf("%s: a well-formed SID with %d sub-authorit%s is answered with its text", name, n, plural(n))
		tname := fmt.Sprintf("%s: text for %d sub-authorit%s", name, n, plural(n))
		c.guard(c16RGuard, gname, pos, func() {
			out := c16Exec(c, fn, n)
			for _, f := range out.funcs {
				helpers[f] = true
			}
			if out.abort != "" {
				why := out.abort
				if len(out.soft) > 0 {
					why += " [" + strings.Join(c20Dedup(out.soft), "; ") + "]"
				}
				if len(out.unknown) > 0 {
					why += " [calls with an unknown result: " + strings.Join(c20Dedup(out.unknown), ", ") + "]"
				}
				if out.unmodel {
					notDecided[why] = append(notDecided[why], n)
					r.OK(c16RGuard, gname, pos, "NOT DECIDED — "+why)
					r.OK(c16RText, tname, pos, "NOT DECIDED — "+why)
					return
				}
				r.Undecided(c16RGuard, gname, pos, "the abstract run on this input does not reach a result: "+why)
				r.Undecided(c16RText, tname, pos, "no text: the abstract run does not reach a result (see the guard rule)")
				return
			}
			toks := out.toks
			nvals := 0
			for _, t := range toks {
				if t.val != nil {
					nvals++
				}
			}
			got := c16Render(toks)
			if nvals == 0 {
				rejected = append(rejected, n)
				rejectedAs[n] = got
				r.Fail(c16RGuard, gname, pos, fmt.Sprintf("it is answered with the constant %q: a guard rejects this well-formed input (revision 1, count %d, %d bytes)", got, n, 8+4*n))
				r.Fail(c16RText, tname, pos, "no text is produced for this count: the guards reject it (see the guard rule)")
				return
			}
			r.OK(c16RGuard, gname, pos, "no guard rejects revision 1, count "+fmt.Sprint(n)+", length "+fmt.Sprint(8+4*n)+"; no index leaves the buffer")
			texts[got] = append(texts[got], n)
			want := "S-%d-%d" + strings.Repeat("-%d", n)
			wantLit := "S-1-%d" + strings.Repeat("-%d", n)
			vi := 0
			switch got {
			case want:
			case wantLit:
				vi = 1
				issues[laneKeys[0]].seen++
			default:
				r.Fail(c16RText, tname, pos, fmt.Sprintf("the text is built as %q, the canonical form is %q", got, want))
				return
			}
			r.OK(c16RText, tname, pos, "instantiates to "+got)
			for _, t := range toks {
				if t.val == nil {
					continue
				}
				is := issues[laneKeys[vi]]
				is.seen++
				vec := t.val.vec
				switch {
				case vi == 0:
					if k, ok := vec.ConstVal(); !ok || k.Int64() != 1 {
						is.fails = append(is.fails, fmt.Sprintf("count %d: printed value has lanes %s, MS-DTYP says %s (the constant 1 on a well-formed SID)", n, vec.String(c16VecName), expectVec(0).String(c16VecName)))
					}
				case vec.HasTop():
					is.unds = append(is.unds, fmt.Sprintf("count %d: lanes %s", n, vec.String(c16VecName)))
				case !vec.Equal(expectVec(vi)):
					is.fails = append(is.fails, fmt.Sprintf("count %d: printed value has lanes %s, MS-DTYP says %s", n, vec.String(c16VecName), expectVec(vi).String(c16VecName)))
				}
				vi++
			}
		})
	}
	for why, ns := range notDecided {
		r.Note("C16 %s: NOT DECIDED for sub-authority counts %v — %s", name, ns, why)
	}
	if len(rejected) > 0 {
		c16GuardDiag(c, w, fn, buf, rejected)
	}
	for i, k := range laneKeys {
		is := issues[k]
		construct := name + ": " + k
		what := []string{"byte 0 (the constant 1 the guard enforces)", "bytes 2..7 big-endian (48 bits)"}
		desc := ""
		if i < 2 {
			desc = what[i]
		} else {
			desc = fmt.Sprintf("32-bit little-endian word at offset %d", 8+4*(i-2))
		}
		switch {
		case len(is.fails) > 0:
			r.Fail(c16RLane, construct, pos, strings.Join(c20Dedup(is.fails)[:min(3, len(c20Dedup(is.fails)))], " | "))
		case len(is.unds) > 0:
			// some lanes of the printed value were lost by the interpreter (⊤): a limit of
			// the abstraction, not an observed mismatch
			why := strings.Join(c20Dedup(is.unds)[:min(3, len(c20Dedup(is.unds)))], " | ")
			r.OK(c16RLane, construct, pos, "NOT DECIDED — the interpreter lost lanes of the printed value: "+why)
			r.Note("C16 %s: lanes NOT DECIDED — %s", construct, why)
		case is.seen == 0 && len(notDecided) > 0:
			r.OK(c16RLane, construct, pos, "NOT DECIDED — no text was obtained (see the notes)")
		case is.seen == 0:
			r.Undecided(c16RLane, construct, pos, "never printed by a text that matched the canonical form")
		default:
			r.OK(c16RLane, construct, pos, fmt.Sprintf("%s in all %d instantiations", desc, is.seen))
		}
	}
	var shapes []string
	for t, ns := range texts {
		shapes = append(shapes, fmt.Sprintf("counts %v: %s", ns, t))
	}
	sort.Strings(shapes)
	r.Extra["sid_texts"] = shapes
	var hs []string
	for h := range helpers {
		hs = append(hs, h)
	}
	sort.Strings(hs)
	r.Extra["sid_functions_interpreted"] = hs
}

// c16GuardDiag names the early exits a rejected well-formed SID can take. It is
// a DIAGNOSTIC of the verdict the abstract runs already reached (it only adds
// detail to failures): for code that reads the header bytes in the anchored
// function itself, every edge into a `return <constant>` is tested for
// feasibility under the well-formedness facts with the linear prover.
func c16GuardDiag(c *Ctx, w *prove.World, fn *ssa.Function, buf *ssa.Parameter, rejected []int) {
	r, p := c.R, c.P
	name := p.FuncName(fn)
	s := &c16sid{c: c, w: w, fn: fn, fi: w.Info(fn), buf: buf}
	var loads0, loads1 []ssa.Value
	for _, b := range fn.Blocks {
		for _, in := range b.Instrs {
			if v, ok := in.(ssa.Value); ok {
				if k, ok := s.byteLoad(v); ok {
					if k == 0 {
						loads0 = append(loads0, v)
					} else if k == 1 {
						loads1 = append(loads1, v)
					}
				}
			}
		}
	}
	if len(loads1) == 0 {
		return
	}
	wf := func(ctx *prove.Ctx, count int) {
		for _, l := range loads0 {
			ctx.AddFact(lin.EQ(ctx.Lin(l), lin.K(1))...)
		}
		cnt := ctx.Lin(loads1[0])
		for _, l := range loads1[1:] {
			ctx.AddFact(lin.EQ(ctx.Lin(l), cnt)...)
		}
		ctx.AddFact(lin.EQ(cnt, lin.K(int64(count)))...)
		ctx.AddFact(lin.EQ(ctx.LenOf(buf), cnt.ScaleI(4).AddK(8))...)
	}
	for _, b := range fn.Blocks {
		rt, ok := b.Instrs[len(b.Instrs)-1].(*ssa.Return)
		if !ok {
			continue
		}
		if _, isK := rt.Results[0].(*ssa.Const); !isK {
			continue
		}
		kv, _ := c20ConstString(rt.Results[0])
		for _, pred := range b.Preds {
			cond := "entry"
			if iff, ok := pred.Instrs[len(pred.Instrs)-1].(*ssa.If); ok {
				cond = s.ex.Expr(iff.Cond)
				if pred.Succs[1] == b && pred.Succs[0] != b {
					cond = "!(" + cond + ")"
				}
			}
			construct := fmt.Sprintf("%s: early return %q when %s", name, kv, cond)
			c.guard(c16RGuard, construct, p.Rel(rt.Pos()), func() {
				var wit []string
				for _, n := range rejected {
					cx := s.fi.CtxEdge(pred, b)
					wf(cx, n)
					if !cx.Infeasible() {
						wit = append(wit, fmt.Sprint(n))
					}
				}
				if len(wit) > 0 {
					r.Fail(c16RGuard, construct, p.Rel(rt.Pos()), fmt.Sprintf("a well-formed SID can take this exit and is answered %q instead of its text form (not excluded for sub-authority count ∈ {%s})", kv, strings.Join(wit, ",")))
				}
			})
		}
	}
}

// ---------------------------------------------------------------------------
// GetDomainFromDistinguishedName

func c16FoldDC(s string) bool { return strings.EqualFold(s, "DC") }

func c16DN(c *Ctx) {
	r, p := c.R, c.P
	fn := p.Func(c16Pkg, "", "GetDomainFromDistinguishedName")
	if fn == nil {
		r.Undecided("anchor", c16Pkg+".GetDomainFromDistinguishedName", "-", "anchored function does not resolve")
		return
	}
	name := p.FuncName(fn)
	if len(fn.Params) != 1 || !c20IsString(fn.Params[0].Type()) || fn.Signature.Results().Len() != 1 || !c20IsString(fn.Signature.Results().At(0).Type()) {
		r.Undecided("anchor", name, p.Rel(fn.Pos()), "signature is not func(string) string")
		return
	}
	prm := fn.Params[0]
	r.OK("anchor", name, p.Rel(fn.Pos()), "resolved: func(string) string")
	var ex lanes.Analyzer
	pos := p.Rel(fn.Pos())
	// The four conditions of the dn rule (join, filter, decomposition, order) are
	// the ENTITIES its floor counts: whichever of them is not reached — because an
	// earlier one failed, or because the construction of the result has a shape
	// this rule does not read — is recorded NOT DECIDED, so that the floor never
	// turns a gap of the extraction into a second report.
	before := r.Counts[c16RDN]
	stopped := ""
	defer func() {
		names := map[string]bool{}
		for _, o := range r.Obls {
			if o.Rule == c16RDN {
				names[o.Construct] = true
			}
		}
		_ = before
		for _, k := range []string{"join", "filter", "decomposition", "order"} {
			if !names[name+": "+k] {
				why := "not evaluated"
				if stopped != "" {
					why += ": " + stopped
				}
				r.OK(c16RDN, name+": "+k, pos, "NOT DECIDED — "+why)
			}
		}
	}()
	var mains []*ssa.Return
	for _, b := range fn.Blocks {
		if rt, ok := b.Instrs[len(b.Instrs)-1].(*ssa.Return); ok {
			if k, isK := rt.Results[0].(*ssa.Const); isK {
				if s, _ := c20ConstString(k); s != "" {
					r.Undecided(c16RDN, name+": constant result", p.Rel(rt.Pos()), fmt.Sprintf("returns the constant %q", s))
				}
				continue
			}
			mains = append(mains, rt)
		}
	}
	if len(mains) == 0 {
		r.Undecided(c16RDN, name+": join", pos, "no return builds a text")
		return
	}
	if len(mains) != 1 {
		stopped = fmt.Sprintf("%d returns build a text; exactly one is modelled", len(mains))
		r.OK(c16RDN, name+": join", pos, "NOT DECIDED — "+stopped)
		r.Note("C16 %s: NOT DECIDED — %s", name, stopped)
		return
	}
	rt := mains[0]
	ev := strtmpl.New()
	ev.InModule = p.InModule // in-module helpers that build the list / the text are entered
	tmpl, err := ev.String(rt.Results[0])
	if err != nil {
		// the text is assembled in a way internal/strtmpl does not read: nothing
		// offending was observed, the extraction is incomplete
		stopped = "the construction of the result is not modelled: " + err.Error()
		r.OK(c16RDN, name+": join", p.Rel(rt.Pos()), "NOT DECIDED — "+stopped)
		r.Note("C16 %s: NOT DECIDED — %s", name, stopped)
		return
	}
	// `if n > 0 { write(".") }; write(value); n++` (any buffer, any counter placement that counts exactly the written values) is a join
	tmpl = ev.Joinify(tmpl)
	r.Extra["dn_template"] = strtmpl.Describe(tmpl)
	if strtmpl.Flat(tmpl) {
		for _, it := range tmpl {
			if it.Kind == strtmpl.Val {
				// the text is handed over ready-made by something that was not read
				stopped = "the result is the value of " + ex.Expr(it.Val) + ", whose construction is not read"
				r.OK(c16RDN, name+": join", p.Rel(rt.Pos()), "NOT DECIDED — "+stopped)
				r.Note("C16 %s: NOT DECIDED — %s", name, stopped)
				return
			}
		}
	}
	// shape: one join whose only element source is a (possibly nested) loop producing one element under one filter
	if len(tmpl) != 1 || tmpl[0].Kind != strtmpl.Join || len(tmpl[0].Parts) != 1 {
		r.Fail(c16RDN, name+": join", p.Rel(rt.Pos()), "the result is not a single join of the DC components: "+strtmpl.Describe(tmpl))
		stopped = "the result is not a single join (see the join condition)"
		return
	}
	j := tmpl[0]
	if strings.HasPrefix(j.Assume, "?") {
		r.OK(c16RDN, name+": join", p.Rel(rt.Pos()), "NOT DECIDED — the values are written one after the other with "+fmt.Sprintf("%q", j.Sep)+" in front of each under a condition this rule does not interpret: "+j.Assume[1:])
		r.Note("C16 %s: join NOT DECIDED — %s (template %s)", name, j.Assume[1:], strtmpl.Describe(tmpl))
		if j.Sep != "." {
			r.Fail(c16RDN, name+": join separator", p.Rel(rt.Pos()), fmt.Sprintf("components are separated by %q, a DNS name joins its labels with \".\"", j.Sep))
		}
	} else if j.Sep == "." && j.Assume != "" {
		r.OK(c16RDN, name+": join", p.Rel(rt.Pos()), "components are joined with the constant \".\" provided "+j.Assume+" — Active Directory never emits an empty DC value")
		r.Note("C16 %s: the separator is keyed on the text written so far, which equals strings.Join only when %s", name, j.Assume)
	} else if j.Sep == "." {
		r.OK(c16RDN, name+": join", p.Rel(rt.Pos()), "components are joined with the constant \".\" (no leading/trailing separator by construction of a join)")
	} else {
		r.Fail(c16RDN, name+": join", p.Rel(rt.Pos()), fmt.Sprintf("components are joined with %q, a DNS name joins its labels with \".\"", j.Sep))
	}
	var loops []*strtmpl.Loop
	var filters []*strtmpl.Filter
	part := j.Parts[0]
	for part.Loop != nil {
		loops = append(loops, part.Loop)
		if part.Cond != nil {
			filters = append(filters, part.Cond)
		}
		if len(part.Body) != 1 {
			stopped = "an iteration produces more than one element"
			r.OK(c16RDN, name+": filter", p.Rel(rt.Pos()), "NOT DECIDED — "+stopped)
			r.Note("C16 %s: filter NOT DECIDED — %s", name, stopped)
			return
		}
		part = part.Body[0]
	}
	if part.Cond != nil {
		filters = append(filters, part.Cond)
	}
	if len(loops) == 0 {
		r.Fail(c16RDN, name+": filter", p.Rel(rt.Pos()), "the joined list is not produced by a loop over the components of the DN")
		return
	}
	if len(part.Elem) != 1 || part.Elem[0].Kind != strtmpl.Val {
		r.Fail(c16RDN, name+": filter", p.Rel(rt.Pos()), "a joined element is not a plain component value: "+strtmpl.Describe(part.Elem))
		return
	}
	elem := part.Elem[0].Val

	// ---- filter
	c.guard(c16RDN, name+": filter", p.Rel(rt.Pos()), func() {
		if len(filters) == 0 {
			r.Fail(c16RDN, name+": filter", p.Rel(rt.Pos()), "0 tests decide whether a component is kept; exactly one test of the attribute type is expected (without one, non-DC components leak into the domain)")
			return
		}
		// Every test on the way to the element is looked at: one of them must be the
		// test of the attribute type; a test this rule does not read (an additional
		// guard, a predicate passed as an opaque value) leaves the condition NOT DECIDED.
		matched := 0
		var fails, nds []string
		for _, flt := range filters {
			f := &strtmpl.Filter{Cond: flt.Cond, Truth: flt.Truth}
			for {
				u, ok := f.Cond.(*ssa.UnOp)
				if !ok || u.Op != token.NOT {
					break
				}
				f.Cond, f.Truth = u.X, !f.Truth
			}
			neqAsEq := false
			if bo, ok := f.Cond.(*ssa.BinOp); ok && bo.Op == token.NEQ && !f.Truth {
				// kept when a != b is false, i.e. when a == b
				neqAsEq, f.Truth = true, true
			}
			ok, why := c16FilterMatches(c, ev, f.Cond, elem, neqAsEq || !f.Truth, nil, 0)
			switch {
			case strings.HasPrefix(why, "?"):
				nds = append(nds, why[1:])
			case !ok:
				fails = append(fails, why)
			case !f.Truth:
				fails = append(fails, "the component is kept when the test "+ex.Expr(f.Cond)+" FAILS: every component but the tested kind ends up in the domain")
			default:
				matched++
			}
		}
		switch {
		case len(fails) > 0:
			r.Fail(c16RDN, name+": filter", p.Rel(rt.Pos()), strings.Join(c20Dedup(fails), " | "))
		case len(nds) > 0:
			// a test has a shape this rule does not read: nothing offending was observed
			why := strings.Join(c20Dedup(nds), " | ")
			r.OK(c16RDN, name+": filter", p.Rel(rt.Pos()), "NOT DECIDED — "+why)
			r.Note("C16 %s: filter NOT DECIDED — %s", name, why)
		case matched > 1:
			r.OK(c16RDN, name+": filter", p.Rel(rt.Pos()), fmt.Sprintf("a component is kept only when its attribute type tests equal to DC (tested %d times), and the kept text is that component's value", matched))
		default:
			r.OK(c16RDN, name+": filter", p.Rel(rt.Pos()), "a component is kept exactly when its attribute type tests equal to DC, and the kept text is that component's value")
		}
	})

	// ---- decomposition + order
	c.guard(c16RDN, name+": decomposition", pos, func() {
		var decomposers []string
		bad, und := "", ""
		counters := map[ssa.Value]bool{}
		for _, l := range loops {
			counters[l.Counter] = true
		}
		usedCounters := map[ssa.Value]bool{}
		orderBad := ""
		seen := map[ssa.Value]bool{}
		var walk func(v ssa.Value, d int)
		walk = func(v ssa.Value, d int) {
			if v == nil || seen[v] || d > 30 {
				return
			}
			seen[v] = true
			switch x := v.(type) {
			case *ssa.Parameter:
				if b := ev.Bound(x); b != nil {
					walk(b, d+1) // parameter of a helper that was entered: go on in the caller
				}
				return
			case *ssa.Const, *ssa.Global:
				return
			case *ssa.FreeVar:
				// variable of an enclosing function, seen from a closure that was entered
				if b := ev.BoundFree(x); b != nil {
					walk(b, d+1)
				}
				return
			case *ssa.Alloc:
				// a local cell (a captured variable, a struct literal): whatever is stored into it or into its fields
				if x.Referrers() != nil {
					for _, rr := range *x.Referrers() {
						switch y := rr.(type) {
						case *ssa.Store:
							if y.Addr == ssa.Value(x) {
								walk(y.Val, d+1)
							}
						case *ssa.FieldAddr:
							if y.Referrers() != nil {
								for _, r3 := range *y.Referrers() {
									if st, ok := r3.(*ssa.Store); ok && st.Addr == ssa.Value(y) {
										walk(st.Val, d+1)
									}
								}
							}
						}
					}
				}
				return
			case *ssa.IndexAddr:
				if counters[x.Index] {
					usedCounters[x.Index] = true
				} else if _, isK := x.Index.(*ssa.Const); !isK {
					orderBad = "a component is selected with " + ex.Expr(x.Index) + ", not with the loop counter"
				}
				walk(x.X, d+1)
				return
			case *ssa.Call:
				cc := x.Common()
				pkg, _, nm := c20CalleeName(cc)
				takesDN := false
				for _, a := range cc.Args {
					a = c16ResolveArg(ev, a)
					if a == ssa.Value(prm) {
						takesDN = true
					}
				}
				if takesDN {
					switch {
					case strings.HasSuffix(pkg, "go-ldap/ldap/v3") && nm == "ParseDN":
						decomposers = append(decomposers, "ldap.ParseDN")
					case pkg == "strings" && (nm == "Split" || nm == "SplitN" || nm == "SplitAfter" || nm == "Cut" || nm == "Fields" || nm == "FieldsFunc"):
						sep := ""
						if len(cc.Args) > 1 {
							sep, _ = c20ConstString(cc.Args[1])
						}
						decomposers = append(decomposers, fmt.Sprintf("strings.%s(%q)", nm, sep))
						bad = fmt.Sprintf("the DN is cut with strings.%s on %q: Active Directory escapes a comma inside an RDN value as `\\,` (e.g. CN=Doe\\, John), so a value containing `,DC=` yields a spurious domain label", nm, sep)
					default:
						und = "the DN is handed to " + nm + ", whose decomposition is not modelled"
					}
					return
				}
				for _, a := range cc.Args {
					walk(a, d+1)
				}
				return
			}
			if in, ok := v.(ssa.Instruction); ok {
				for _, op := range in.Operands(nil) {
					if op != nil && *op != nil {
						walk(*op, d+1)
					}
				}
			}
		}
		walk(elem, 0)
		switch {
		case bad != "":
			r.Fail(c16RDN, name+": decomposition", pos, bad)
		case und != "":
			r.OK(c16RDN, name+": decomposition", pos, "NOT DECIDED — "+und)
			r.Note("C16 %s: decomposition NOT DECIDED — %s", name, und)
		case len(decomposers) == 0:
			r.OK(c16RDN, name+": decomposition", pos, "NOT DECIDED — the kept value was not traced back to a decomposition of the parameter")
			r.Note("C16 %s: decomposition NOT DECIDED — the kept value was not traced back to a decomposition of the parameter (it passes through a construct this rule does not follow)", name)
		default:
			r.OK(c16RDN, name+": decomposition", pos, "components come from "+strings.Join(c20Dedup(decomposers), ", ")+" (escape-aware)")
		}
		switch {
		case orderBad != "":
			r.Fail(c16RDN, name+": order", pos, orderBad)
		case len(usedCounters) != len(loops):
			why := fmt.Sprintf("%d loop(s) but %d of their counters were seen to select the component", len(loops), len(usedCounters))
			r.OK(c16RDN, name+": order", pos, "NOT DECIDED — "+why)
			r.Note("C16 %s: order NOT DECIDED — %s", name, why)
		default:
			r.OK(c16RDN, name+": order", pos, fmt.Sprintf("components are selected by the counters of %d forward loop(s) (start 0, step 1)", len(loops)))
		}
	})
}

// c16ResolveArg follows a value back through the parameters of helpers that
// were entered, the captured variables of closures that were entered, and
// local cells that are stored exactly once.
func c16ResolveArg(ev *strtmpl.Eval, a ssa.Value) ssa.Value {
	for i := 0; i < 8; i++ {
		switch x := a.(type) {
		case *ssa.Parameter:
			if b := ev.Bound(x); b != nil {
				a = b
				continue
			}
		case *ssa.FreeVar:
			if b := ev.BoundFree(x); b != nil {
				a = b
				continue
			}
		case *ssa.UnOp:
			if x.Op != token.MUL {
				return a
			}
			cell := x.X
			if fv, ok := cell.(*ssa.FreeVar); ok {
				cell = ev.BoundFree(fv)
			}
			al, ok := cell.(*ssa.Alloc)
			if !ok || al.Referrers() == nil {
				return a
			}
			var val ssa.Value
			n := 0
			for _, rr := range *al.Referrers() {
				if st, ok := rr.(*ssa.Store); ok && st.Addr == ssa.Value(al) {
					val = st.Val
					n++
				}
			}
			if n == 1 {
				a = val
				continue
			}
		}
		return a
	}
	return a
}

// c16SameLocation: two SSA values denote the same object: identical, or loads of
// the same element of the same (unmodified) slice / field of the same object.
func c16SameLocation(a, b ssa.Value, d int) bool {
	if a == b {
		return true
	}
	if d > 6 {
		return false
	}
	ua, ok1 := a.(*ssa.UnOp)
	ub, ok2 := b.(*ssa.UnOp)
	if !ok1 || !ok2 || ua.Op != token.MUL || ub.Op != token.MUL {
		return false
	}
	switch xa := ua.X.(type) {
	case *ssa.IndexAddr:
		xb, ok := ub.X.(*ssa.IndexAddr)
		if !ok || xa.Index != xb.Index || !c16SameLocation(xa.X, xb.X, d+1) {
			return false
		}
		return !c16Stored(xa.X) && !c16Stored(xb.X)
	case *ssa.FieldAddr:
		xb, ok := ub.X.(*ssa.FieldAddr)
		return ok && xa.Field == xb.Field && c16SameLocation(xa.X, xb.X, d+1)
	}
	return false
}

// c16Stored: some element of this slice value is written in the function.
func c16Stored(sl ssa.Value) bool {
	if sl.Referrers() == nil {
		return false
	}
	for _, r := range *sl.Referrers() {
		if ia, ok := r.(*ssa.IndexAddr); ok && ia.Referrers() != nil {
			for _, rr := range *ia.Referrers() {
				if st, ok := rr.(*ssa.Store); ok && st.Addr == ssa.Value(ia) {
					return true
				}
			}
		}
	}
	return false
}

// c16FilterMatches: cond tests "the attribute type of the component is DC" and elem is that component's value.
// A leading '?' in the reason means undecided.
//
// A test that is delegated to an in-module helper whose body is a single
// `return <test>` (isDomainComponent(attribute.Type), isDC(attribute)) is
// decided on the helper's returned expression with the helper's parameters
// replaced by the arguments of the call (subst), up to two levels deep.
func c16FilterMatches(c *Ctx, ev *strtmpl.Eval, cond ssa.Value, elem ssa.Value, neqAsEq bool, subst map[ssa.Value]ssa.Value, depth int) (bool, string) {
	var ex lanes.Analyzer
	res := func(v ssa.Value) ssa.Value {
		for i := 0; i < 4; i++ {
			w, ok := subst[v]
			if !ok {
				break
			}
			v = w
		}
		return v
	}
	unfold := func(v ssa.Value) (ssa.Value, string) { // ToUpper/ToLower wrappers
		v = res(v)
		if call, ok := v.(*ssa.Call); ok {
			pkg, _, nm := c20CalleeName(call.Common())
			if pkg == "strings" && (nm == "ToUpper" || nm == "ToLower" || nm == "TrimSpace") {
				return res(call.Common().Args[0]), nm
			}
		}
		return v, ""
	}
	fieldOf := func(v ssa.Value) (base ssa.Value, field string) {
		f, _, b := c20FieldLoad(v)
		if f == nil {
			return nil, ""
		}
		return b, f.Name()
	}
	typeVsValue := func(typ ssa.Value, konst string, how string) (bool, string) {
		switch how {
		case "fold":
			if !c16FoldDC(konst) {
				return false, fmt.Sprintf("the attribute type is compared with %q, not with DC", konst)
			}
		case "ToUpper", "":
			if konst != "DC" {
				return false, fmt.Sprintf("the attribute type is compared with %q; Active Directory spells the type DC", konst)
			}
		case "ToLower":
			if konst != "dc" {
				return false, fmt.Sprintf("the lower-cased attribute type is compared with %q", konst)
			}
		}
		tb, tf := fieldOf(res(typ))
		eb, ef := fieldOf(elem)
		if tb != nil {
			tb = res(tb)
		}
		if tb == nil || eb == nil {
			return false, "?the tested type or the kept value is not a field of a parsed component"
		}
		if !c16SameLocation(tb, eb, 0) {
			return false, "the tested attribute type and the kept value belong to different components"
		}
		if tf != "Type" || ef != "Value" {
			return false, fmt.Sprintf("the test reads field %s and the kept text is field %s of the component (expected Type / Value)", tf, ef)
		}
		return true, ""
	}
	switch x := cond.(type) {
	case *ssa.Call:
		pkg, _, nm := c20CalleeName(x.Common())
		args := x.Common().Args
		g := x.Common().StaticCallee()
		if g == nil && !x.Common().IsInvoke() {
			// a predicate passed as a function value (keep func(attr) bool): the literal
			// or function the parameter / captured variable stands for
			switch fv := c16ResolveArg(ev, res(x.Common().Value)).(type) {
			case *ssa.Function:
				g = fv
			case *ssa.MakeClosure:
				if f, ok := fv.Fn.(*ssa.Function); ok && len(fv.Bindings) == 0 {
					g = f
				}
			}
		}
		if g != nil && g.Blocks != nil && c.P.InModule(g) && depth < 2 {
			var rets []*ssa.Return
			for _, b := range g.Blocks {
				if rt, ok := b.Instrs[len(b.Instrs)-1].(*ssa.Return); ok {
					rets = append(rets, rt)
				}
			}
			if len(rets) != 1 || len(rets[0].Results) != 1 || len(g.Params) != len(args) {
				return false, "?the test is delegated to " + g.Name() + ", which is not a single `return <test>`"
			}
			sub := map[ssa.Value]ssa.Value{}
			for k, v := range subst {
				sub[k] = v
			}
			for i, q := range g.Params {
				sub[q] = res(args[i])
			}
			inner, truth := rets[0].Results[0], true
			for {
				u, ok := inner.(*ssa.UnOp)
				if !ok || u.Op != token.NOT {
					break
				}
				inner, truth = u.X, !truth
			}
			innerNeq := false
			if bo, ok := inner.(*ssa.BinOp); ok && bo.Op == token.NEQ && !truth {
				innerNeq, truth = true, true
			}
			if !truth {
				return false, "the component is kept when the test inside " + g.Name() + " FAILS: every component but the tested kind ends up in the domain"
			}
			return c16FilterMatches(c, ev, inner, elem, innerNeq, sub, depth+1)
		}
		if pkg == "strings" && nm == "EqualFold" {
			a, b := res(args[0]), res(args[1])
			if k, ok := c20ConstString(a); ok {
				return typeVsValue(b, k, "fold")
			}
			if k, ok := c20ConstString(b); ok {
				return typeVsValue(a, k, "fold")
			}
			return false, "?EqualFold of two non-constant values"
		}
		if pkg == "strings" && nm == "HasPrefix" {
			k, ok := c20ConstString(args[1])
			if !ok {
				return false, "?prefix is not a constant"
			}
			src, norm := unfold(args[0])
			if len(subst) > 0 {
				return false, "?a prefix test inside a helper is not modelled"
			}
			want := map[string]string{"": "DC=", "ToUpper": "DC=", "ToLower": "dc="}[norm]
			if k != want {
				return false, fmt.Sprintf("components are kept when they start with %q, the attribute type of a domain component is %q", k, want)
			}
			// the kept text must be the same part with exactly that prefix removed
			switch e := elem.(type) {
			case *ssa.Call:
				ep, _, en := c20CalleeName(e.Common())
				if ep == "strings" && en == "TrimPrefix" {
					k2, ok := c20ConstString(e.Common().Args[1])
					if !ok || k2 != k {
						return false, fmt.Sprintf("the test looks for %q but %q is removed", k, k2)
					}
					if e.Common().Args[0] != src {
						return false, "the prefix is tested on one part and removed from another"
					}
					return true, ""
				}
			case *ssa.Slice:
				lo, ok := c20ConstInt(e.Low)
				if e.Low == nil || !ok || int(lo) != len(k) || e.High != nil {
					return false, fmt.Sprintf("the test looks for %q (%d bytes) but the kept text is %s", k, len(k), ex.Expr(e))
				}
				if e.X != src {
					return false, "the prefix is tested on one part and removed from another"
				}
				return true, ""
			}
			return false, "?the kept text is not the tested part with its prefix removed"
		}
	case *ssa.BinOp:
		if x.Op == token.EQL || (neqAsEq && x.Op == token.NEQ) {
			a, b := res(x.X), res(x.Y)
			if k, ok := c20ConstString(a); ok {
				src, norm := unfold(b)
				return typeVsValue(src, k, norm)
			}
			if k, ok := c20ConstString(b); ok {
				src, norm := unfold(a)
				return typeVsValue(src, k, norm)
			}
		}
	}
	return false, "?the test " + ex.Expr(cond) + " is not a recognised attribute-type test"
}

// ---------------------------------------------------------------------------
// callers (recorded)

func c16Callers(c *Ctx) {
	r, p := c.R, c.P
	targets := map[*ssa.Function]string{}
	if fn := p.Func(c16Pkg, "", "ParseSIDFromBytes"); fn != nil {
		targets[fn] = "GetRawAttributeValue"
	}
	if fn := p.Func(c16Pkg, "", "GetDomainFromDistinguishedName"); fn != nil {
		targets[fn] = "GetAttributeValue"
	}
	var sites []string
	for _, fn := range p.SrcFuncs() {
		for _, b := range fn.Blocks {
			for _, in := range b.Instrs {
				call, ok := in.(*ssa.Call)
				if !ok {
					continue
				}
				want, ok := targets[call.Common().StaticCallee()]
				if !ok {
					continue
				}
				src := "?"
				if ac, ok := call.Common().Args[0].(*ssa.Call); ok {
					_, recv, nm := c20CalleeName(ac.Common())
					src = recv + "." + nm
					attr := ""
					if len(ac.Common().Args) > 1 {
						attr, _ = c20ConstString(ac.Common().Args[len(ac.Common().Args)-1])
					}
					src += fmt.Sprintf("(%q)", attr)
					if nm != want {
						src += " [expected " + want + "]"
					}
				}
				sites = append(sites, fmt.Sprintf("%s → %s(%s)", p.FuncName(fn), call.Common().StaticCallee().Name(), src))
			}
		}
	}
	sort.Strings(sites)
	r.Extra["call_sites"] = sites
	_ = report.Discharged
}
