package rules

import (
	"fmt"
	"go/constant"
	"go/token"
	"go/types"
	"sort"
	"strings"
	"unicode"

	"golang.org/x/tools/go/ssa"
)

// C20 — address, port-range and hash-credential parsers.
//
//	R1 (c20.go)        validated-value consistency on the go/ssa def-use graph
//	R2 (c20_sep.go)    printer ⇄ parser separator / field tables (template evaluation; helpers inlined, loop-filled tables resolved)
//	R4 (c20_subnet.go) subnet / range predicates depend on the operands they must depend on
func init() { register(&Check{ID: "C20", NeedSSA: true, Run: runC20}) }

const (
	c20R1     = "validated"
	c20RSep   = "separator"
	c20RField = "field"
	c20RArity = "arity"
	c20RPair  = "pair"
	c20RDep   = "depends"
)

// packages whose string parsers R1 is applied to (every top-level function with a string parameter)
var c20R1Pkgs = []string{"windows/credentials", "network/ip", "windows/guid"}

// anchors that must resolve (property text / DESIGN Appendix A row C20.a)
var c20R1Anchors = [][2]string{
	{"windows/credentials", "ParseLMNTHashes"},
	{"windows/credentials", "NewCredentials"},
	{"windows/guid", "FromString"}, {"windows/guid", "FromFormatN"}, {"windows/guid", "FromFormatD"},
	{"windows/guid", "FromFormatB"}, {"windows/guid", "FromFormatP"}, {"windows/guid", "FromFormatX"},
	{"network/ip", "NewTCPPortRangeFromString"}, {"network/ip", "NewIPv4FromString"}, {"network/ip", "NewIPv6FromString"},
}

func runC20(c *Ctx) {
	r := c.R
	r.Explanation = "Structural necessary conditions for the text parsers/printers of network/ip, windows/credentials (and windows/guid for R1), decided on go/ssa and go/types; nothing is executed. " +
		"DECIDED: (R1 validated = parsed) for every top-level function with a string parameter p in the anchored packages, the family of p is the set of values N(p) obtained through normaliser chains " +
		"(strings.TrimSpace/ToLower/ToUpper/Trim*/Title-free; in-module wrappers that only return such a chain are followed); a member is VALIDATED when it is examined by regexp.Match*/(*Regexp).Match*/Find*, " +
		"a length/index/prefix test that only feeds branch conditions; a member is CONSUMED when it (or a value obtained from it by concatenation, slicing, φ or []byte conversion) reaches anything else — a call argument, a return, a store. " +
		"Rule: no consumed (or non-trivially tested) member may be a strict ancestor of a validated member, i.e. the text that is split/returned is at least as normalised as the text the validation looked at; " +
		"exempt are uses that provably cannot tell the two apart (strings.Contains/Count with a constant needle made of ASCII non-space non-letter characters, emptiness tests) and diagnostics (fmt.Errorf, errors.New, fmt.Print*, logger.*). " +
		"(R2 printer ⇄ parser tables) for every struct type T of network/ip that has both a printer (method whose returns are texts made of constant literals and fields of T: fmt.Sprintf with a constant format, or concatenation / strconv.Itoa/Format*/Append* / a strings.Builder as modelled by internal/strtmpl; every return that prints a field is one FORM and is checked on its own, a return of a constant is a guard) and a parser (function from one string to *T): " +
		"the parser's access path of every field (strings.Split/SplitN/Cut or Index/LastIndex + slicing with constant separators and constant indexes, strings.TrimSpace, strconv.ParseUint/ParseInt/Atoi, constructor parameter → field or struct literal; " +
		"through in-module helpers entered with their parameters bound to the arguments — a helper that parses one piece, cuts the text, or builds the struct; variables captured by function literals are followed to the one value stored in them — and through tables: an element table[j] of a local array / made slice / append-grown slice filled by a counted loop stands for the value assigned in iteration j (index i, i±K or K−i), provided the loop starts at 0, reaches j, assigns in every iteration and is left early only to reject; the filling loop may sit in an in-module helper the table (or table[:]) is handed to — generic ones included, up to three calls deep — or in a helper that makes and returns the table, in which case \"rejects\" means that the helper hands back false / a non-nil error / nil and its caller leaves through a rejecting return on that answer) is evaluated on the printer's format TEMPLATE with verbs as opaque tokens: " +
		"the path must select exactly the verb that prints the same field (separator), the len(parts) constants the parser compares with must include the number of template parts (arity), every literal the printer emits between verbs must be a separator the parser consumes, " +
		"the numeric base must match the verb (%d↔10, %x↔16) and the bit size must hold the field; every printed field must be parsed. " +
		"COMPLETENESS BEFORE VERDICT (R2): a mismatch is reported only for a flow that was read completely. When the table, the result struct or the text escapes into something this rule does not read (a function outside the module, a closure, a method of a new type, a store, a φ, fmt.Sscanf with element addresses, a cursor type …), when a printer builds its text with a repetition, or when a printer prints values that are not plain fields, the obligations concerned (field, separator, number of parts, pair) are recorded NOT DECIDED with a note — never a violation — and they count for the floors, which stand for the five exported text forms IPv4.String/CIDRAddress/CIDRMask, IPv6.String and TCPPortRange.String (each of them must resolve: anchor). \"the parser never splits on this literal\" and \"the parser never sets this field\" are only reported when every access path of the pair was read. " +
		"(R4 dependence) IsInSubnet's boolean result must depend (data or control dependence, through in-module callees) on every address field of both operands AND on the subnet operand's prefix-length field " +
		"(the integer field of T that T's integer-conversion method does not read) — a membership test that never reads the prefix length cannot agree with CIDR semantics for two different prefix lengths; " +
		"IsInRange / Range.Contains must depend on every address field of all their operands. " +
		"NOT DECIDED: the arithmetic itself (that the mask is ^0<<(32-n), that comparisons are unsigned and inclusive, carry between the two IPv6 halves), IPv6 compressed/zone/embedded-IPv4 text forms, " +
		"what the regular expressions accept beyond the use made of the validated value, out-of-range octets/prefix lengths, behaviour of callers. Bounds of the parsers' indexing are C07's (R3)."
	r.Assumptions = append(r.Assumptions,
		"go/parser, go/types and the go/ssa builder of x/tools are correct",
		"strings.TrimSpace/ToLower/ToUpper/Trim* are pure; two calls of the same chain on the same parameter yield equal values",
		"verbs %d/%x of unsigned integer fields print digits only, so a printed field never contains a separator character",
		"R4 uses syntactic dependence: a value that flows to the result is assumed to influence it")

	c20RunR1(c)
	tbl := c20RunR2(c)
	c20RunR4(c, tbl)
}

// ---------------------------------------------------------------------------
// R1

type c20Use struct {
	what    string
	pos     token.Pos
	trivial bool // emptiness test / provably insensitive to the normalisers
}

type c20Member struct {
	chain []string
	vals  map[ssa.Value]bool
	tests []c20Use // validation tests
	cons  []c20Use // consumption
	diag  []c20Use // diagnostics (exempt)
}

type c20Family struct {
	fn      *ssa.Function
	members map[string]*c20Member
	order   []string
	escaped string
}

func c20CalleeName(cc *ssa.CallCommon) (pkg, recv, name string) {
	if b, ok := cc.Value.(*ssa.Builtin); ok {
		return "", "", b.Name()
	}
	fn := cc.StaticCallee()
	if fn == nil {
		return "", "", ""
	}
	if fn.Pkg != nil {
		pkg = fn.Pkg.Pkg.Path()
	} else if o := fn.Object(); o != nil && o.Pkg() != nil {
		pkg = o.Pkg().Path()
	}
	if rv := fn.Signature.Recv(); rv != nil {
		t := rv.Type()
		if p, ok := t.(*types.Pointer); ok {
			t = p.Elem()
		}
		if n, ok := types.Unalias(t).(*types.Named); ok {
			recv = n.Obj().Name()
		}
	}
	return pkg, recv, fn.Name()
}

func c20IsString(t types.Type) bool {
	b, ok := t.Underlying().(*types.Basic)
	return ok && b.Info()&types.IsString != 0
}

func c20ConstString(v ssa.Value) (string, bool) {
	k, ok := v.(*ssa.Const)
	if !ok || k.Value == nil || k.Value.Kind() != constant.String {
		return "", false
	}
	return constant.StringVal(k.Value), true
}

func c20ConstInt(v ssa.Value) (int64, bool) {
	k, ok := v.(*ssa.Const)
	if !ok || k.Value == nil || k.Value.Kind() != constant.Int {
		return 0, false
	}
	return constant.Int64Val(k.Value)
}

var c20Normalisers = map[string]bool{
	"TrimSpace": true, "ToLower": true, "ToUpper": true,
	"Trim": true, "TrimLeft": true, "TrimRight": true, "TrimPrefix": true, "TrimSuffix": true,
}

// normaliser: strings.<N>(v, consts...) with v first.
func c20NormaliserCall(call *ssa.Call, v ssa.Value) (string, bool) {
	cc := call.Common()
	pkg, recv, name := c20CalleeName(cc)
	if pkg != "strings" || recv != "" || !c20Normalisers[name] || len(cc.Args) == 0 || cc.Args[0] != v {
		return "", false
	}
	label := name
	for _, a := range cc.Args[1:] {
		s, ok := c20ConstString(a)
		if !ok {
			return "", false
		}
		label += fmt.Sprintf("(%q)", s)
	}
	return label, true
}

// flowsOnlyToBranches: v influences nothing but branch conditions.
func c20OnlyBranches(v ssa.Value, depth int) bool {
	if depth > 6 || v.Referrers() == nil {
		return false
	}
	n := 0
	for _, ref := range *v.Referrers() {
		switch x := ref.(type) {
		case *ssa.DebugRef:
			continue
		case *ssa.If:
			n++
		case *ssa.BinOp:
			n++
			if !c20OnlyBranches(x, depth+1) {
				return false
			}
		case *ssa.UnOp:
			if x.Op != token.NOT && x.Op != token.SUB {
				return false
			}
			n++
			if !c20OnlyBranches(x, depth+1) {
				return false
			}
		case *ssa.Phi:
			if _, isBool := x.Type().Underlying().(*types.Basic); !isBool {
				return false
			}
			n++
			if !c20OnlyBranches(x, depth+1) {
				return false
			}
		case *ssa.Convert:
			n++
			if !c20OnlyBranches(x, depth+1) {
				return false
			}
		default:
			return false
		}
	}
	return n > 0
}

// emptiness: the only comparisons v takes part in are against constant 0 / "".
func c20EmptinessOnly(v ssa.Value) bool {
	if v.Referrers() == nil {
		return false
	}
	for _, ref := range *v.Referrers() {
		switch x := ref.(type) {
		case *ssa.DebugRef:
		case *ssa.BinOp:
			other := x.Y
			if other == v {
				other = x.X
			}
			if k, ok := c20ConstInt(other); ok && (k == 0 || (k == 1 && (x.Op == token.LSS || x.Op == token.GEQ))) {
				continue
			}
			if s, ok := c20ConstString(other); ok && s == "" {
				continue
			}
			return false
		default:
			return false
		}
	}
	return true
}

// needleNeutral: searching for this constant gives the same answer before and
// after TrimSpace / ToLower / ToUpper / Trim* of white space.
func c20NeedleNeutral(s string) bool {
	if s == "" {
		return false
	}
	for _, r := range s {
		if r > unicode.MaxASCII || unicode.IsSpace(r) || unicode.IsLetter(r) {
			return false
		}
	}
	return true
}

var c20StringPreds = map[string]bool{
	"HasPrefix": true, "HasSuffix": true, "Contains": true, "ContainsAny": true, "ContainsRune": true,
	"EqualFold": true, "Count": true, "Index": true, "IndexByte": true, "IndexRune": true, "IndexAny": true,
	"LastIndex": true, "LastIndexByte": true, "Compare": true,
}

func c20IsDiagnostic(pkg, recv, name string) bool {
	switch {
	case pkg == "fmt" && (name == "Errorf" || strings.HasPrefix(name, "Print") || strings.HasPrefix(name, "Fprint")):
		return true
	case pkg == "errors" && name == "New":
		return true
	case pkg == "log":
		return true
	case strings.HasSuffix(pkg, "/logger"):
		return true
	}
	return false
}

func (c *Ctx) c20Family(fn *ssa.Function, p *ssa.Parameter, depth int) *c20Family {
	fam := &c20Family{fn: fn, members: map[string]*c20Member{}}
	get := func(chain []string) *c20Member {
		k := strings.Join(chain, " ∘ ")
		m := fam.members[k]
		if m == nil {
			m = &c20Member{chain: append([]string(nil), chain...), vals: map[ssa.Value]bool{}}
			fam.members[k] = m
			fam.order = append(fam.order, k)
		}
		return m
	}
	type item struct {
		m *c20Member
		v ssa.Value
	}
	var work []item
	add := func(m *c20Member, v ssa.Value) {
		if !m.vals[v] {
			m.vals[v] = true
			work = append(work, item{m, v})
		}
	}
	add(get(nil), p)
	callUse := func(m *c20Member, call *ssa.Call, v ssa.Value) {
		cc := call.Common()
		pkg, recv, name := c20CalleeName(cc)
		pos := call.Pos()
		desc := name
		if pkg != "" {
			desc = pkg[strings.LastIndex(pkg, "/")+1:] + "." + name
			if recv != "" {
				desc = "(" + pkg[strings.LastIndex(pkg, "/")+1:] + "." + recv + ")." + name
			}
		}
		switch {
		case pkg == "" && name == "len":
			if c20OnlyBranches(call, 0) {
				m.tests = append(m.tests, c20Use{what: "len test", pos: pos, trivial: c20EmptinessOnly(call)})
			}
			return
		case pkg == "" && name != "":
			// other builtins (append of a string to []byte, copy, print)
			m.cons = append(m.cons, c20Use{what: "builtin " + name, pos: pos})
			return
		case pkg == "regexp":
			if strings.HasPrefix(name, "Match") {
				m.tests = append(m.tests, c20Use{what: desc, pos: pos})
				return
			}
			if recv == "Regexp" {
				m.tests = append(m.tests, c20Use{what: desc, pos: pos})
				m.cons = append(m.cons, c20Use{what: desc, pos: pos})
				return
			}
		case pkg == "strings" && recv == "" && c20StringPreds[name]:
			if c20OnlyBranches(call, 0) {
				triv := false
				if name == "Contains" || name == "ContainsRune" || name == "Count" {
					for _, a := range cc.Args {
						if a == v {
							continue
						}
						if s, ok := c20ConstString(a); ok && c20NeedleNeutral(s) {
							triv = true
						}
						if k, ok := c20ConstInt(a); ok && c20NeedleNeutral(string(rune(k))) {
							triv = true
						}
					}
				}
				m.tests = append(m.tests, c20Use{what: desc + " test", pos: pos, trivial: triv})
				return
			}
		case c20IsDiagnostic(pkg, recv, name):
			m.diag = append(m.diag, c20Use{what: desc, pos: pos})
			return
		}
		m.cons = append(m.cons, c20Use{what: "argument of " + desc, pos: pos})
	}
	for len(work) > 0 {
		it := work[len(work)-1]
		work = work[:len(work)-1]
		m, v := it.m, it.v
		if v.Referrers() == nil {
			continue
		}
		for _, ref := range *v.Referrers() {
			switch x := ref.(type) {
			case *ssa.DebugRef:
			case *ssa.Phi:
				add(m, x)
			case *ssa.BinOp:
				if x.Op == token.ADD && c20IsString(x.Type()) {
					add(m, x)
					continue
				}
				// comparison of the text with something
				other := x.Y
				if other == v {
					other = x.X
				}
				if c20OnlyBranches(x, 0) {
					s, isK := c20ConstString(other)
					m.tests = append(m.tests, c20Use{what: "comparison", pos: x.Pos(), trivial: isK && s == ""})
				} else {
					m.cons = append(m.cons, c20Use{what: "comparison result used as a value", pos: x.Pos()})
				}
			case *ssa.Slice:
				add(m, x)
			case *ssa.Convert, *ssa.ChangeType:
				add(m, x.(ssa.Value))
			case *ssa.Lookup:
				if x.X == v {
					if c20OnlyBranches(x, 0) {
						m.tests = append(m.tests, c20Use{what: "character test", pos: x.Pos()})
					} else {
						m.cons = append(m.cons, c20Use{what: "indexed character", pos: x.Pos()})
					}
				}
			case *ssa.Index:
				if c20OnlyBranches(x, 0) {
					m.tests = append(m.tests, c20Use{what: "character test", pos: x.Pos()})
				} else {
					m.cons = append(m.cons, c20Use{what: "indexed character", pos: x.Pos()})
				}
			case *ssa.IndexAddr:
				// &b[i] of a []byte view of the text
				onlyTests := x.Referrers() != nil
				if onlyTests {
					for _, rr := range *x.Referrers() {
						if u, ok := rr.(*ssa.UnOp); ok && u.Op == token.MUL && c20OnlyBranches(u, 0) {
							continue
						}
						if _, ok := rr.(*ssa.DebugRef); ok {
							continue
						}
						onlyTests = false
					}
				}
				if onlyTests {
					m.tests = append(m.tests, c20Use{what: "character test", pos: x.Pos()})
				} else {
					m.cons = append(m.cons, c20Use{what: "indexed byte", pos: x.Pos()})
				}
			case *ssa.Call:
				if x.Common().Value == v {
					continue
				}
				if label, ok := c20NormaliserCall(x, v); ok {
					add(get(append(append([]string(nil), m.chain...), label)), x)
					continue
				}
				if wchain, ok := c.c20Wrapper(x, v, depth); ok {
					add(get(append(append([]string(nil), m.chain...), wchain...)), x)
					continue
				}
				callUse(m, x, v)
			case *ssa.MakeInterface:
				c20InterfaceUses(m, x)
			case *ssa.Return:
				m.cons = append(m.cons, c20Use{what: "returned", pos: x.Pos()})
			case *ssa.Store:
				if x.Val == v {
					if call := c20VarargsCall(x.Addr); call != nil {
						pkg, recv, name := c20CalleeName(call.Common())
						if c20IsDiagnostic(pkg, recv, name) {
							m.diag = append(m.diag, c20Use{what: name, pos: call.Pos()})
						} else {
							m.cons = append(m.cons, c20Use{what: "variadic argument of " + name, pos: call.Pos()})
						}
						continue
					}
					if _, isAlloc := x.Addr.(*ssa.Alloc); isAlloc && !x.Addr.(*ssa.Alloc).Heap {
						fam.escaped = "the parameter is spilled to a local cell (address taken)"
					}
					m.cons = append(m.cons, c20Use{what: "stored", pos: x.Pos()})
				}
			default:
				pos := token.NoPos
				if in, ok := ref.(ssa.Instruction); ok {
					pos = in.Pos()
				}
				m.cons = append(m.cons, c20Use{what: fmt.Sprintf("used by %T", ref), pos: pos})
			}
		}
	}
	return fam
}

// c20VarargsCall: addr is &t[i] of a `new [n]T (varargs)` array; returns the call that receives the slice.
func c20VarargsCall(addr ssa.Value) *ssa.Call {
	ia, ok := addr.(*ssa.IndexAddr)
	if !ok {
		return nil
	}
	al, ok := ia.X.(*ssa.Alloc)
	if !ok || al.Referrers() == nil {
		return nil
	}
	for _, r := range *al.Referrers() {
		if sl, ok := r.(*ssa.Slice); ok && sl.Referrers() != nil {
			for _, rr := range *sl.Referrers() {
				if call, ok := rr.(*ssa.Call); ok {
					return call
				}
			}
		}
	}
	return nil
}

func c20InterfaceUses(m *c20Member, mi *ssa.MakeInterface) {
	if mi.Referrers() == nil {
		return
	}
	for _, r := range *mi.Referrers() {
		switch x := r.(type) {
		case *ssa.DebugRef:
		case *ssa.Store:
			if call := c20VarargsCall(x.Addr); call != nil {
				pkg, recv, name := c20CalleeName(call.Common())
				if c20IsDiagnostic(pkg, recv, name) {
					m.diag = append(m.diag, c20Use{what: name, pos: call.Pos()})
				} else {
					m.cons = append(m.cons, c20Use{what: "argument of " + name, pos: call.Pos()})
				}
				continue
			}
			m.cons = append(m.cons, c20Use{what: "stored as interface", pos: x.Pos()})
		default:
			pos := token.NoPos
			if in, ok := r.(ssa.Instruction); ok {
				pos = in.Pos()
			}
			m.cons = append(m.cons, c20Use{what: "converted to interface", pos: pos})
		}
	}
}

// c20Wrapper: call is an in-module function of one string result whose every
// return is a normaliser chain of the parameter that receives v.
func (c *Ctx) c20Wrapper(call *ssa.Call, v ssa.Value, depth int) ([]string, bool) {
	if depth >= 2 {
		return nil, false
	}
	g := call.Common().StaticCallee()
	if g == nil || g.Blocks == nil || !c.P.InModule(g) || g.Signature.Results().Len() != 1 || !c20IsString(g.Signature.Results().At(0).Type()) {
		return nil, false
	}
	idx := -1
	for i, a := range call.Common().Args {
		if a == v {
			if idx >= 0 {
				return nil, false
			}
			idx = i
		}
	}
	if idx < 0 || idx >= len(g.Params) {
		return nil, false
	}
	fam := c.c20Family(g, g.Params[idx], depth+1)
	var chain []string
	found := false
	for _, b := range g.Blocks {
		ret, ok := b.Instrs[len(b.Instrs)-1].(*ssa.Return)
		if !ok {
			continue
		}
		var mine *c20Member
		for _, k := range fam.order {
			if fam.members[k].vals[ret.Results[0]] {
				if mine == nil || len(fam.members[k].chain) < len(mine.chain) {
					mine = fam.members[k]
				}
			}
		}
		if mine == nil {
			return nil, false
		}
		if found && strings.Join(chain, "|") != strings.Join(mine.chain, "|") {
			return nil, false
		}
		chain, found = mine.chain, true
	}
	if !found {
		return nil, false
	}
	// the wrapper must do nothing else with the text
	for _, k := range fam.order {
		m := fam.members[k]
		for _, u := range m.cons {
			if u.what != "returned" {
				return nil, false
			}
		}
	}
	return chain, true
}

func c20IsPrefix(a, b []string) bool { // a strict prefix of b
	if len(a) >= len(b) {
		return false
	}
	for i := range a {
		if a[i] != b[i] {
			return false
		}
	}
	return true
}

func c20ChainString(ch []string, pname string) string {
	s := pname
	for _, n := range ch {
		s = n + "(" + s + ")"
	}
	return s
}

func c20RunR1(c *Ctx) {
	r, p := c.R, c.P
	anchored := map[*ssa.Function]bool{}
	for _, a := range c20R1Anchors {
		fn := p.Func(a[0], "", a[1])
		if fn == nil {
			r.Undecided(c20R1, a[0]+"."+a[1], "-", "anchored parser does not resolve")
			continue
		}
		anchored[fn] = true
	}
	inScope := map[string]bool{}
	for _, k := range c20R1Pkgs {
		inScope[k] = true
	}
	var analysed []string
	nontrivial := 0
	for _, fn := range p.SrcFuncs() {
		if fn.Parent() != nil || !inScope[relPkg(p, fn)] {
			continue
		}
		for i, prm := range fn.Params {
			if !c20IsString(prm.Type()) {
				continue
			}
			name := fmt.Sprintf("%s: string parameter #%d", p.FuncName(fn), i)
			c.guard(c20R1, name, p.Rel(fn.Pos()), func() {
				fam := c.c20Family(fn, prm, 0)
				hasNorm := len(fam.order) > 1
				hasTest := false
				for _, k := range fam.order {
					for _, t := range fam.members[k].tests {
						if !t.trivial {
							hasTest = true
						}
					}
				}
				if !hasNorm && !hasTest {
					if anchored[fn] {
						r.OK(c20R1, name, p.Rel(fn.Pos()), "no normaliser chain and no validation of this parameter: nothing to keep consistent")
					}
					return
				}
				nontrivial++
				analysed = append(analysed, fmt.Sprintf("%s: members %s", name, strings.Join(fam.order, " ; ")))
				if fam.escaped != "" {
					// the parameter lives in a cell (it is captured by a closure / its address is
					// taken): its uses through the cell are not followed, so the family is incomplete
					r.OK(c20R1, name, p.Rel(fn.Pos()), "NOT DECIDED — "+fam.escaped)
					r.Note("C20 R1 %s: NOT DECIDED — %s", name, fam.escaped)
					return
				}
				var bad, und []string
				var validated []*c20Member
				for _, k := range fam.order {
					m := fam.members[k]
					for _, t := range m.tests {
						if !t.trivial {
							validated = append(validated, m)
							break
						}
					}
				}
				for _, k := range fam.order {
					m := fam.members[k]
					var uses []c20Use
					uses = append(uses, m.cons...)
					for _, t := range m.tests {
						if !t.trivial {
							uses = append(uses, t)
						}
					}
					if len(uses) == 0 {
						continue
					}
					for _, v := range validated {
						if v == m {
							continue
						}
						switch {
						case c20IsPrefix(m.chain, v.chain):
							seen := map[string]bool{}
							var ws []string
							for _, u := range uses {
								w := u.what + " at " + p.Rel(u.pos)
								if !seen[w] {
									seen[w] = true
									ws = append(ws, w)
								}
							}
							sort.Strings(ws)
							bad = append(bad, fmt.Sprintf("the validation examines %s but %s is used: %s",
								c20ChainString(v.chain, prm.Name()), c20ChainString(m.chain, prm.Name()), strings.Join(ws, "; ")))
						case c20IsPrefix(v.chain, m.chain):
						default:
							if len(m.cons) > 0 {
								und = append(und, fmt.Sprintf("validated %s and consumed %s are different normalisations of the parameter",
									c20ChainString(v.chain, prm.Name()), c20ChainString(m.chain, prm.Name())))
							}
						}
					}
				}
				switch {
				case len(bad) > 0:
					r.Fail(c20R1, name, p.Rel(fn.Pos()), "validated value ≠ parsed value: "+strings.Join(bad, " | ")+
						" — input that differs from its normalised form passes the validation and is then parsed un-normalised")
				case len(und) > 0:
					// two normalisations neither of which refines the other: whether they agree on
					// the accepted inputs is not decided by this rule — nothing offending was observed
					r.OK(c20R1, name, p.Rel(fn.Pos()), "NOT DECIDED — "+strings.Join(und, " | "))
					r.Note("C20 R1 %s: NOT DECIDED — %s", name, strings.Join(und, " | "))
				default:
					var vs []string
					for _, v := range validated {
						vs = append(vs, c20ChainString(v.chain, prm.Name()))
					}
					r.OK(c20R1, name, p.Rel(fn.Pos()), "every use of the parameter goes through the validated value ("+strings.Join(vs, ", ")+") or a further normalisation of it")
				}
			})
		}
	}
	// confirmed by reading (2026-09): ParseLMNTHashes, FromString, FromFormatN/D/B/P/X, NewTCPPortRangeFromString
	// have a normaliser chain or a validation (8); the anchored NewIPv4FromString, NewIPv6FromString and the four
	// string parameters of NewCredentials are plain and are recorded as such (6).
	r.Floor(c20R1, 14)
	r.Extra["R1_families"] = analysed
	r.Extra["R1_functions_with_normaliser_or_validation"] = nontrivial
}
