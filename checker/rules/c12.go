package rules

import (
	"fmt"
	"go/ast"
	"go/constant"
	"go/token"
	"go/types"
	"sort"
	"strings"

	"golang.org/x/tools/go/ssa"

	"manticheck/internal/flow"
)

// C12 — RC4, CMAC, PKCS#7, GPP (DESIGN.md §4 C12; Appendix A rows C12.a–b).

func init() { register(&Check{ID: "C12", NeedSSA: true, Run: runC12}) }

const (
	c12R1 = "R1-effects"
	c12R2 = "R2-gpp-pairing"
)

// MS-GPPREF 2.2.1.1.4: the published 32-byte AES key.
var c12Key = []byte{
	0x4e, 0x99, 0x06, 0xe8, 0xfc, 0xb6, 0x6c, 0xc9, 0xfa, 0xf4, 0x93, 0x10, 0x62, 0x0f, 0xfe, 0xe8,
	0xf4, 0x96, 0xe8, 0x06, 0xcc, 0x05, 0x79, 0x90, 0x20, 0x9b, 0x09, 0xa4, 0x33, 0xb6, 0x6c, 0x1b,
}

type c12 struct {
	*cry
	lEnc, lDec, lPad, lUnpad, lCrypt, lB64Enc, lB64Dec string
	fPad, fUnpad, fAesNew, fCBCEnc, fCBCDec            *ssa.Function
	key                                                *ssa.Global
	cmacFields                                         int // number of fields of struct cmac (0: not resolved)
}

func runC12(c *Ctx) {
	r := c.R
	r.Explanation = "C12 RC4 / CMAC / PKCS#7 / GPP, decided statically on go/ssa and the typed AST; no Manticore code is executed, no cipher is run. " +
		"R1-effects (parameter-rooted write summaries + the package-wide who-writes table; a slice header and its backing store are one cell): (*cmac).Sum stores to none of the running-state fields ci, p, k1, k2, c of its receiver (digest is its scratch buffer) — necessary for 'CMAC is unaffected by earlier Sum calls'; (*cmac).Reset writes exactly ci (every element, the constant 0, in a loop over ci) and p (the constant 0) and nothing else; in package cmac the only functions that write ci/p are New, Reset and Write, and k1/k2/c are written by New only; in package rc4 the only functions that write RC4.s/i/j are NewRC4WithKey, Reset and XORKeyStream. " +
		"R2-gpp-pairing (E5 provenance + constants): GPPP_AES_KEY's initialiser is the 32 bytes published in MS-GPPREF 2.2.1.1.4 and no function of the module stores to the variable or writes through it; GPPPEncrypt: the CryptBlocks source derives from the plaintext through exactly EncodeUTF16LE and pkcs7.Pad(·, aes.BlockSize), the mode is cipher.NewCBCEncrypter(aes.NewCipher(GPPP_AES_KEY), iv) with iv a fresh 16-byte zero buffer that nothing writes, the destination is make([]byte, len(source)), and the result is base64.StdEncoding.EncodeToString of that destination; GPPPDecryptBytes is the mirror: cipher.NewCBCDecrypter with the SAME key variable and a fresh zero iv, source = the ciphertext parameter itself, guarded by a dominating len(ciphertext) % aes.BlockSize test (CryptBlocks panics on partial blocks), destination make([]byte, len(ciphertext)), result = DecodeUTF16LE(pkcs7.Unpad(destination)); GPPPDecryptBase64 returns GPPPDecryptBytes(base64.StdEncoding.DecodeString(·)) of its argument. " +
		"Shapes decided (behaviour-preserving rewrites stay silent): a writer of a running-state field that is not one of the named entry points is accepted when it is an unexported function or method that is never used as a value, is not reachable through an interface, and whose every static call site lies in a named writer or in another such helper (the rule is about which ENTRY POINTS change the state; a helper reachable from anything else still fires); Reset may zero ci by a loop, by clear(ci) or through such a helper; cmac's fields other than c, k1, k2, ci, p are scratch space (the R1 floor is computed from the declared fields); GPPPEncrypt may encrypt the padded plaintext in place; the block test may be len % 16 or len & 15. " +
		"NOT decided: that RC4 output equals standard RC4 (KSA/PRGA arithmetic), that CMAC equals RFC 4493 / SP 800-38B (sub-key derivation, last-block selection, padding arithmetic), invariance of either under chunking of the streaming calls, that pkcs7.Unpad(pkcs7.Pad(m, b)) = m and that every invalid padding is rejected (value-level; Pad returning a multiple of the block size is an assumption of R2), AES/CBC/base64 numerics (standard library, trusted), the base64 re-padding arithmetic in GPPPDecryptBase64."
	r.Assumptions = []string{
		cryTrusted,
		"type-based aliasing: distinct struct fields do not alias; a slice header and its backing array are one cell; unexported fields of cmac/RC4 can only be written by functions of their own package (Go visibility; crypto/rc4 uses unsafe.Pointer only to compare addresses)",
		"stdlib contracts: cipher.Block.Encrypt(dst, src) and cipher.BlockMode.CryptBlocks(dst, src) write dst only; aes.NewCipher and cipher.NewCBCEncrypter/NewCBCDecrypter copy what they need from key and iv and do not write them; base64 and hex encoders are pure",
		"pkcs7.Pad(b, n) returns a buffer whose length is a positive multiple of n (its arithmetic is not decided here), so CryptBlocks in GPPPEncrypt receives whole blocks",
		"SPEC: MS-GPPREF 2.2.1.1.4 AES-256 key 4e9906e8fcb66cc9faf49310620ffee8f496e806cc057990209b09a433b66c1b, CBC, all-zero IV, PKCS#7 padding, UTF-16LE plaintext, base64 text",
	}
	r.Explanation += crySxExplain
	r.Assumptions = append(r.Assumptions, crySxAssume)
	x := &c12{cry: newCry(c)}
	x.guard(c12R1, "R1 analysis", "", x.effects)
	x.guard(c12R2, "R2 analysis", "", x.gpp)
	x.finish()
	// R1 instances are keyed to declarations, not to copies of code: 5 running-state
	// fields Sum must not store to, one Reset obligation per declared field of cmac,
	// 2 reset values (ci elements, p), 5 + 3 who-writes rows (cmac, rc4).
	if x.cmacFields > 0 {
		r.Floor(c12R1, 5+x.cmacFields+2+5+3)
	} else {
		r.Floor(c12R1, 21)
	}
	r.Floor(c12R2, 18)
}

// ---- R1 ---------------------------------------------------------------------------

func structFields(pk *types.Package, name string) (*types.Named, []string) {
	tn, ok := pk.Scope().Lookup(name).(*types.TypeName)
	if !ok {
		return nil, nil
	}
	n, _ := tn.Type().(*types.Named)
	st, ok := tn.Type().Underlying().(*types.Struct)
	if n == nil || !ok {
		return nil, nil
	}
	var out []string
	for i := 0; i < st.NumFields(); i++ {
		out = append(out, st.Field(i).Name())
	}
	return n, out
}

func (x *c12) pkgFuncs(rel string) []*ssa.Function {
	var out []*ssa.Function
	if x.Tier == "thorough" {
		// module-wide: every function, not only the owning package's
		out = append(out, x.P.SrcFuncs()...)
		if sp := x.P.SSAPkgs[x.P.ModPath+"/"+rel]; sp != nil {
			if f := sp.Func("init"); f != nil {
				out = append(out, f)
			}
		}
		return out
	}
	for _, f := range x.P.SrcFuncs() {
		if f.Pkg != nil && f.Pkg.Pkg.Path() == x.P.ModPath+"/"+rel {
			out = append(out, f)
		} else if f.Pkg == nil && f.Parent() != nil && f.Parent().Pkg != nil && f.Parent().Pkg.Pkg.Path() == x.P.ModPath+"/"+rel {
			out = append(out, f)
		}
	}
	// the synthetic package initialiser too (package-level var initialisers)
	if sp := x.P.SSAPkgs[x.P.ModPath+"/"+rel]; sp != nil {
		if f := sp.Func("init"); f != nil {
			out = append(out, f)
		}
	}
	return out
}

// whoWrites checks that each guarded field is written only by its allowed functions.
func (x *c12) whoWrites(rel string, T *types.Named, allowed map[string][]string) {
	fws := x.e.FieldWriters(x.pkgFuncs(rel), T)
	byField := map[string]map[string]flow.FieldWrite{}
	for _, w := range fws {
		if byField[w.Field] == nil {
			byField[w.Field] = map[string]flow.FieldWrite{}
		}
		nm := w.Fn.Name()
		if prev, ok := byField[w.Field][nm]; !ok || (prev.Uncertain && !w.Uncertain) {
			byField[w.Field][nm] = w
		}
	}
	var fields []string
	for f := range allowed {
		fields = append(fields, f)
	}
	sort.Strings(fields)
	for _, f := range fields {
		construct := fmt.Sprintf("%s.%s.%s: writers ⊆ {%s}", rel, T.Obj().Name(), f, strings.Join(allowed[f], ", "))
		var names []string
		for nm := range byField[f] {
			names = append(names, nm)
		}
		sort.Strings(names)
		bad, und := "", ""
		var at token.Pos
		var helpers []string
		for _, nm := range names {
			w := byField[f][nm]
			if has(allowed[f], nm) {
				continue
			}
			// an unexported helper that only the allowed writers can reach is part of
			// them: the rule is about which ENTRY POINTS change the running state
			if ok, via := x.privateHelper(w.Fn, rel, allowed[f], map[*ssa.Function]bool{}); ok {
				helpers = append(helpers, nm+" (unexported, reached only from "+via+")")
				continue
			}
			at = w.Pos
			if w.Uncertain {
				und = fmt.Sprintf("%s hands the field's memory to an unmodelled callee (%s)", nm, w.How)
			} else {
				bad = fmt.Sprintf("%s also writes this field (%s); the running state may only change in {%s}", nm, w.How, strings.Join(allowed[f], ", "))
				break
			}
		}
		okMsg := "written by {" + strings.Join(names, ", ") + "}"
		if len(helpers) > 0 {
			okMsg += "; helpers: " + strings.Join(helpers, "; ")
		}
		x.verdict(c12R1, construct, at, bad, und, okMsg)
	}
	x.R.Extra["who_writes "+rel+"."+T.Obj().Name()] = func() map[string][]string {
		m := map[string][]string{}
		for f, ws := range byField {
			for nm := range ws {
				m[f] = append(m[f], nm)
			}
			sort.Strings(m[f])
		}
		return m
	}()
}

// privateHelper: fn is an unexported function or method (or a closure of one)
// that is never used as a value and is not reachable through an interface, and
// every static call of it sits in an allowed writer or in another such helper.
// Then fn cannot run except on behalf of an allowed writer. via names the
// allowed writers (or "nothing": dead code) it is reached from.
func (x *c12) privateHelper(fn *ssa.Function, rel string, allowed []string, seen map[*ssa.Function]bool) (bool, string) {
	for fn.Parent() != nil {
		fn = fn.Parent()
	}
	if has(allowed, fn.Name()) {
		return true, fn.Name()
	}
	if seen[fn] {
		return true, ""
	}
	seen[fn] = true
	if ast.IsExported(fn.Name()) || fn.Name() == "init" || fn.Name() == "main" || fn.Synthetic != "" {
		return false, ""
	}
	obj := fn.Object()
	var via []string
	for _, g := range x.pkgFuncs(rel) {
		for _, b := range g.Blocks {
			for _, in := range b.Instrs {
				if ci, ok := in.(ssa.CallInstruction); ok {
					cc := ci.Common()
					// dispatch through an interface that has a method of this name
					if cc.IsInvoke() && cc.Method.Name() == fn.Name() && fn.Signature.Recv() != nil {
						return false, ""
					}
					if cc.StaticCallee() == fn {
						if _, isGo := in.(*ssa.Go); isGo {
							return false, "" // runs concurrently with (and after) its caller
						}
						for _, a := range cc.Args {
							if a == ssa.Value(fn) {
								return false, ""
							}
						}
						ok, v := x.privateHelper(g, rel, allowed, seen)
						if !ok {
							return false, ""
						}
						if v != "" && !has(via, v) {
							via = append(via, v)
						}
						continue
					}
				}
				for _, op := range in.Operands(nil) {
					if *op == nil {
						continue
					}
					if *op == ssa.Value(fn) {
						return false, "" // used as a value
					}
					if f2, ok := (*op).(*ssa.Function); ok && obj != nil && f2 != fn && f2.Object() == obj {
						return false, "" // bound-method wrapper / thunk of fn used as a value
					}
				}
			}
		}
	}
	if len(via) == 0 {
		return true, "nothing (it has no caller)"
	}
	sort.Strings(via)
	return true, strings.Join(via, ", ")
}

func (x *c12) effects() {
	// ---- cmac
	pk := x.P.Pkg(cryCMAC)
	fSum := x.mod(cryCMAC, "cmac", "Sum")
	fReset := x.mod(cryCMAC, "cmac", "Reset")
	x.mod(cryCMAC, "cmac", "Write")
	x.mod(cryCMAC, "", "New")
	if pk == nil {
		x.R.Undecided("anchor", cryCMAC, "", "package does not resolve")
	} else if T, fields := structFields(pk.Types, "cmac"); T == nil {
		x.R.Undecided("anchor", cryCMAC+".cmac", "", "struct type does not resolve")
	} else {
		// the running state a later Write/Sum continues from; any other field of the
		// struct (today: digest) is scratch space Sum may use
		state := []string{"c", "k1", "k2", "ci", "p"}
		for _, f := range state {
			if !has(fields, f) {
				x.R.Undecided("anchor", cryCMAC+".cmac fields", "", "expected running-state fields c, k1, k2, ci, p; found "+strings.Join(fields, ", "))
			}
		}
		x.cmacFields = len(fields)
		if fSum != nil {
			ws := x.e.Writes(fSum)
			for _, f := range state {
				if !has(fields, f) {
					continue
				}
				construct := fmt.Sprintf("%s: stores to cmac.%s", x.P.FuncName(fSum), f)
				var hit *flow.Write
				for i := range ws {
					if ws[i].Param == 0 && (ws[i].Field() == f || ws[i].Path == "") {
						hit = &ws[i]
						if !hit.Uncertain {
							break
						}
					}
				}
				switch {
				case hit == nil:
					x.R.OK(c12R1, construct, x.pos(fSum.Pos()), "Sum does not write this field of the receiver")
				case hit.Uncertain:
					x.R.Undecided(c12R1, construct, x.pos(hit.Pos), "the field's memory is "+hit.How)
				default:
					x.R.Fail(c12R1, construct, x.pos(hit.Pos), "Sum must leave the running state alone (a later Write/Sum continues from it), but "+f+" is written: "+hit.How)
				}
			}
		}
		if fReset != nil {
			ws := x.e.Writes(fReset)
			name := x.P.FuncName(fReset)
			got := map[string]flow.Write{}
			for _, w := range ws {
				if w.Param == 0 && w.Path == "" {
					for _, f := range fields {
						got[f] = w
					}
				} else if w.Param == 0 {
					got[w.Field()] = w
				}
			}
			for _, f := range fields {
				construct := fmt.Sprintf("%s: writes cmac.%s", name, f)
				w, written := got[f]
				want := f == "ci" || f == "p"
				switch {
				case want && !written:
					x.R.Fail(c12R1, construct, x.pos(fReset.Pos()), "Reset does not reset "+f+": the next message would continue from the previous one's running state")
				case want:
					x.R.OK(c12R1, construct, x.pos(w.Pos), "reset ("+w.How+")")
				case written && w.Uncertain:
					x.R.Undecided(c12R1, construct, x.pos(w.Pos), "the field's memory is "+w.How)
				case written:
					x.R.Fail(c12R1, construct, x.pos(w.Pos), "Reset must write exactly the running state {ci, p}; it also writes "+f+" ("+w.How+")")
				default:
					x.R.OK(c12R1, construct, x.pos(fReset.Pos()), "not written")
				}
			}
			x.resetValues(fReset)
		}
		x.whoWrites(cryCMAC, T, map[string][]string{
			"ci": {"New", "Reset", "Write"}, "p": {"New", "Reset", "Write"},
			"k1": {"New"}, "k2": {"New"}, "c": {"New"},
		})
	}
	// ---- rc4
	if pk := x.P.Pkg(cryRC4); pk == nil {
		x.R.Undecided("anchor", cryRC4, "", "package does not resolve")
	} else if T, fields := structFields(pk.Types, "RC4"); T == nil || !has(fields, "s") || !has(fields, "i") || !has(fields, "j") {
		x.R.Undecided("anchor", cryRC4+".RC4", "", "struct type with fields s, i, j does not resolve")
	} else {
		x.mod(cryRC4, "", "NewRC4WithKey")
		x.mod(cryRC4, "RC4", "Reset")
		x.mod(cryRC4, "RC4", "XORKeyStream")
		w := []string{"NewRC4WithKey", "Reset", "XORKeyStream"}
		x.whoWrites(cryRC4, T, map[string][]string{"s": w, "i": w, "j": w})
	}
}

// resetValues: Reset stores the constant 0 into every element of ci and into p.
func (x *c12) resetValues(fn *ssa.Function) {
	name := x.P.FuncName(fn)
	before := len(x.R.Obls)
	x.resetValuesIn(fn, name, 0)
	// the two reset values are entities of the rule (they count towards its
	// floor): a value that is written in a way this reader does not follow is
	// NOT DECIDED, not missing
	have := map[string]bool{}
	for _, o := range x.R.Obls[before:] {
		have[o.Construct] = true
	}
	written := map[string]bool{}
	for _, w := range x.e.Writes(fn) {
		if w.Param == 0 {
			written[w.Field()] = true
		}
	}
	for f, construct := range map[string]string{"ci": fmt.Sprintf("%s: every ci[i] = 0", name), "p": fmt.Sprintf("%s: p = 0", name)} {
		if !have[construct] && written[f] {
			x.R.OK(c12R1, construct, x.pos(fn.Pos()), "NOT DECIDED — Reset writes "+f+" (see the obligation about which fields it writes), but not by a store of a constant, a loop over the elements, clear(), or a freshly made slice of the block length, which are the forms this clause reads")
			x.R.Note("NOT DECIDED: %s — the value Reset leaves in %s", construct, f)
		}
	}
}

// blockLenExpr: v is len(recv.F) of a slice field of the receiver, or
// recv.c.BlockSize(): the length every running-state slice has.
func blockLenExpr(v ssa.Value, recv ssa.Value) bool {
	c, ok := v.(*ssa.Call)
	if !ok {
		return false
	}
	cc := c.Common()
	if bi, isB := cc.Value.(*ssa.Builtin); isB && bi.Name() == "len" && len(cc.Args) == 1 {
		if ld, ok := cc.Args[0].(*ssa.UnOp); ok && ld.Op == token.MUL {
			if fa, ok := ld.X.(*ssa.FieldAddr); ok && fa.X == recv {
				return true
			}
		}
		return false
	}
	if cc.IsInvoke() && cc.Method.Name() == "BlockSize" {
		if ld, ok := cc.Value.(*ssa.UnOp); ok && ld.Op == token.MUL {
			if fa, ok := ld.X.(*ssa.FieldAddr); ok && fa.X == recv {
				return true
			}
		}
	}
	return false
}

// resetValuesIn looks at g, which runs on Reset's receiver (Reset itself, or an
// in-module helper Reset passes its receiver to).
func (x *c12) resetValuesIn(fn *ssa.Function, name string, depth int) {
	if len(fn.Params) == 0 {
		return
	}
	recv := fn.Params[0]
	for _, b := range fn.Blocks {
		for _, in := range b.Instrs {
			if call, isCall := in.(ssa.CallInstruction); isCall {
				cc := call.Common()
				// clear(d.ci): every element becomes the zero value
				if bi, isB := cc.Value.(*ssa.Builtin); isB && bi.Name() == "clear" && len(cc.Args) == 1 {
					if ld, ok := cc.Args[0].(*ssa.UnOp); ok && ld.Op == token.MUL {
						if fa, ok := ld.X.(*ssa.FieldAddr); ok && fa.X == ssa.Value(recv) {
							f := fieldNameOf(fa)
							x.R.OK(c12R1, fmt.Sprintf("%s: every %s[i] = 0", name, f), x.pos(in.Pos()), "clear("+f+") zeroes every element")
						}
					}
					continue
				}
				if g := cc.StaticCallee(); g != nil && g != fn && depth < 2 && g.Blocks != nil && x.P.InModule(g) && len(cc.Args) > 0 && cc.Args[0] == ssa.Value(recv) && g.Signature.Recv() != nil {
					x.resetValuesIn(g, name, depth+1)
				}
				continue
			}
			st, ok := in.(*ssa.Store)
			if !ok {
				continue
			}
			switch a := st.Addr.(type) {
			case *ssa.FieldAddr:
				if _, isP := a.X.(*ssa.Parameter); !isP {
					continue
				}
				f := fieldNameOf(a)
				construct := fmt.Sprintf("%s: %s = 0", name, f)
				if m, isMk := st.Val.(*ssa.MakeSlice); isMk && blockLenExpr(m.Len, a.X) {
					// d.ci = make([]byte, len(d.ci)): a fresh, all-zero slice of the block length
					x.R.OK(c12R1, fmt.Sprintf("%s: every %s[i] = 0", name, f), x.pos(st.Pos()), "replaced by a freshly made (all-zero) slice of the block length")
					continue
				}
				if k, ok := constI(st.Val); ok && k == 0 {
					x.R.OK(c12R1, construct, x.pos(st.Pos()), "constant 0")
				} else if f == "p" {
					x.R.Fail(c12R1, construct, x.pos(st.Pos()), "Reset sets the position to "+flow.Expr(st.Val)+", not 0")
				}
			case *ssa.IndexAddr:
				ld, ok := a.X.(*ssa.UnOp)
				if !ok {
					continue
				}
				fa, ok := ld.X.(*ssa.FieldAddr)
				if !ok {
					continue
				}
				f := fieldNameOf(fa)
				construct := fmt.Sprintf("%s: every %s[i] = 0", name, f)
				k, isK := constI(st.Val)
				over, stride, slack, okc := counted(a.Index, st.Block())
				sameField := false
				if ol, ok := over.(*ssa.UnOp); ok && okc {
					if ofa, ok := ol.X.(*ssa.FieldAddr); ok && ofa.Field == fa.Field && ofa.X == fa.X {
						sameField = true
					}
				}
				switch {
				case !isK || k != 0:
					x.R.Fail(c12R1, construct, x.pos(st.Pos()), "Reset stores "+flow.Expr(st.Val)+" into the running block, not 0")
				case !okc || !sameField || stride != 1 || slack != 0:
					x.R.Undecided(c12R1, construct, x.pos(st.Pos()), "the zeroing loop is not a recognised loop over every element of "+f)
				default:
					x.R.OK(c12R1, construct, x.pos(st.Pos()), "constant 0 for i = 0..len("+f+")-1")
				}
			}
		}
	}
}

func fieldNameOf(a *ssa.FieldAddr) string {
	t := a.X.Type().Underlying()
	if p, ok := t.(*types.Pointer); ok {
		t = p.Elem().Underlying()
	}
	if st, ok := t.(*types.Struct); ok && a.Field < st.NumFields() {
		return st.Field(a.Field).Name()
	}
	return "?"
}

// ---- R2 ---------------------------------------------------------------------------

func (x *c12) gpp() {
	pk := x.P.Pkg(cryGPPP)
	sp := x.P.SSAPkgs[x.P.ModPath+"/"+cryGPPP]
	if pk == nil || sp == nil {
		x.R.Undecided("anchor", cryGPPP, "", "package does not resolve")
		return
	}
	fEncU := x.mod(cryUTF16, "", "EncodeUTF16LE")
	fDecU := x.mod(cryUTF16, "", "DecodeUTF16LE")
	x.fPad = x.mod(cryPKCS7, "", "Pad")
	x.fUnpad = x.mod(cryPKCS7, "", "Unpad")
	x.lEnc, x.lDec = x.label(fEncU), x.label(fDecU)
	x.lPad, x.lUnpad = x.label(x.fPad), x.label(x.fUnpad)
	x.fAesNew = x.ext("crypto/aes", "NewCipher")
	x.fCBCEnc = x.ext("crypto/cipher", "NewCBCEncrypter")
	x.fCBCDec = x.ext("crypto/cipher", "NewCBCDecrypter")
	x.lCrypt = "crypto/cipher.BlockMode.CryptBlocks"
	x.key, _ = sp.Members["GPPP_AES_KEY"].(*ssa.Global)
	if x.key == nil {
		x.R.Undecided("anchor", cryGPPP+".GPPP_AES_KEY", "", "package-level variable does not resolve")
		return
	}
	x.keyTable(pk.Syntax, pk.TypesInfo)
	x.keyWriters()
	fEnc := x.mod(cryGPPP, "", "GPPPEncrypt")
	fDecB := x.mod(cryGPPP, "", "GPPPDecryptBytes")
	fDec64 := x.mod(cryGPPP, "", "GPPPDecryptBase64")
	if fEnc != nil {
		x.side(fEnc, true)
	}
	if fDecB != nil {
		x.side(fDecB, false)
	}
	if fDec64 != nil && fDecB != nil {
		lBytes := x.label(fDecB)
		// GPPPDecryptBytes may itself be a thin wrapper `return h(fresh buffer, ciphertext)` around
		// the shared decryption body h; the base64 variant may then call h directly
		labels := []string{lBytes}
		if h := c12TailDelegate(fDecB); h != nil {
			labels = append(labels, x.label(h))
		}
		name := x.P.FuncName(fDec64)
		for _, ret := range cryptoSuccessReturns(fDec64) {
			var bad, und, shown string
			for i, lb := range labels {
				set := x.e.Prov(fDec64, ret.Results[0])
				b, u := judge(set, []need{{what: "the base64 argument", src: isParam(0),
					must:  []string{"(*encoding/base64.Encoding).DecodeString", lb},
					allow: []string{"strings.Repeat", "len", "slice[:?]"}}},
					func(o flow.Origin) bool {
						return constsOnly(o) || (o.Src.Kind == flow.SGlobal && o.Src.Name == "encoding/base64.StdEncoding")
					})
				if i == 0 || (b == "" && u == "") {
					bad, und, shown = b, u, trim(set.String(), 200)
				}
				if b == "" && u == "" {
					break
				}
			}
			x.verdict(c12R2, name+": result = GPPPDecryptBytes(base64.StdEncoding.DecodeString(·))", ret.Pos(), bad, und, shown)
		}
	}
}

// keyTable compares GPPP_AES_KEY's initialiser with the published key.
func (x *c12) keyTable(files []*ast.File, info *types.Info) {
	construct := cryGPPP + ".GPPP_AES_KEY = MS-GPPREF 2.2.1.1.4 key"
	obj := x.key.Object()
	for _, f := range files {
		for _, d := range f.Decls {
			gd, ok := d.(*ast.GenDecl)
			if !ok {
				continue
			}
			for _, s := range gd.Specs {
				vs, ok := s.(*ast.ValueSpec)
				if !ok {
					continue
				}
				for i, nm := range vs.Names {
					if info.Defs[nm] != obj {
						continue
					}
					if i >= len(vs.Values) {
						x.R.Undecided(c12R2, construct, x.pos(nm.Pos()), "the variable has no initialiser")
						return
					}
					cl, ok := vs.Values[i].(*ast.CompositeLit)
					if !ok {
						x.R.Undecided(c12R2, construct, x.pos(nm.Pos()), "the initialiser is not a composite literal")
						return
					}
					var got []byte
					for _, e := range cl.Elts {
						tv, ok := info.Types[e]
						if _, isKV := e.(*ast.KeyValueExpr); isKV || !ok || tv.Value == nil || tv.Value.Kind() != constant.Int {
							x.R.Undecided(c12R2, construct, x.pos(e.Pos()), "an element of the initialiser is not a plain constant")
							return
						}
						v, _ := constant.Int64Val(tv.Value)
						got = append(got, byte(v))
					}
					if string(got) == string(c12Key) {
						x.R.OK(c12R2, construct, x.pos(nm.Pos()), "32 bytes, equal to the published key "+hexOf(c12Key[:4])+" … "+hexOf(c12Key[28:]))
					} else {
						at := 0
						for at < len(got) && at < len(c12Key) && got[at] == c12Key[at] {
							at++
						}
						x.R.Fail(c12R2, construct, x.pos(nm.Pos()), fmt.Sprintf("the initialiser has %d bytes and first differs from the published key at byte %d; nothing encrypted by Windows decrypts under another key", len(got), at))
					}
					return
				}
			}
		}
	}
	x.R.Undecided(c12R2, construct, "", "declaration not found in the package syntax")
}

// keyWriters: nothing in the module assigns the key variable or writes through it.
func (x *c12) keyWriters() {
	construct := cryGPPP + ".GPPP_AES_KEY is never written"
	refs := 0
	for _, fn := range x.P.SrcFuncs() {
		for _, b := range fn.Blocks {
			for _, in := range b.Instrs {
				uses := false
				for _, op := range in.Operands(nil) {
					if *op == ssa.Value(x.key) {
						uses = true
					}
				}
				if !uses {
					continue
				}
				refs++
				switch y := in.(type) {
				case *ssa.UnOp:
					if y.Op == token.MUL {
						if !x.e.ReadOnly(y) {
							x.R.Fail(c12R2, construct, x.pos(y.Pos()), x.P.FuncName(fn)+" uses the key slice in a way that may write its bytes")
							return
						}
						continue
					}
				case *ssa.Store:
					if y.Addr == ssa.Value(x.key) {
						x.R.Fail(c12R2, construct, x.pos(y.Pos()), x.P.FuncName(fn)+" assigns GPPP_AES_KEY")
						return
					}
				case *ssa.DebugRef:
					continue
				}
				x.R.Undecided(c12R2, construct, x.pos(in.Pos()), fmt.Sprintf("%s uses the variable's address in a %T", x.P.FuncName(fn), in))
				return
			}
		}
	}
	x.R.OK(c12R2, construct, x.pos(x.key.Pos()), fmt.Sprintf("%d references in the module, all read-only loads", refs))
	x.R.Extra["gpp_key_references"] = refs
}

// side checks GPPPEncrypt (enc) or GPPPDecryptBytes (!enc).
func (x *c12) sideSyn(fn *ssa.Function, enc bool) {
	name := x.P.FuncName(fn)
	crypts := invokes(fn, "CryptBlocks")
	cc := name + ": one CryptBlocks call"
	if len(crypts) != 1 {
		x.R.Fail(c12R2, cc, x.pos(fn.Pos()), fmt.Sprintf("%d CryptBlocks calls, expected one", len(crypts)))
		return
	}
	cb := crypts[0]
	x.R.OK(c12R2, cc, x.pos(cb.Pos()), "")
	dst, src := cb.Call.Args[0], cb.Call.Args[1]
	// mode
	wantMode, other, modeName := x.fCBCEnc, x.fCBCDec, "cipher.NewCBCEncrypter"
	if !enc {
		wantMode, other, modeName = x.fCBCDec, x.fCBCEnc, "cipher.NewCBCDecrypter"
	}
	mc := name + ": mode = " + modeName + "(aes.NewCipher(GPPP_AES_KEY), zero iv)"
	mode, _, ok := tupleResult(cb.Call.Value, wantMode)
	if !ok {
		if _, _, isOther := tupleResult(cb.Call.Value, other); isOther {
			x.R.Fail(c12R2, mc, x.pos(cb.Pos()), "the block mode runs in the wrong direction")
		} else if g := loadedGlobal(cb.Call.Value); g != nil {
			// observed: CryptBlocks runs on an object held in a package-level variable. A CBC
			// block mode carries its chaining value from one CryptBlocks call to the next, so the
			// second call of this function starts from the last ciphertext block of the first.
			x.R.Fail(c12R2, mc, x.pos(cb.Pos()), "the block mode is the package-level variable "+g.Name()+", shared by every call: its CBC chaining value is carried over from the previous call (and two concurrent calls race on it)")
		} else {
			x.R.Fail(c12R2, mc, x.pos(cb.Pos()), "the block mode "+flow.Expr(cb.Call.Value)+" is not "+modeName+"(…) built in this function")
		}
		return
	}
	x.R.OK(c12R2, mc, x.pos(mode.Pos()), "")
	// key
	kc := name + ": AES key = GPPP_AES_KEY"
	blk, bi, ok := tupleResult(mode.Call.Args[0], x.fAesNew)
	if !ok {
		// one level of helper: func newCipher() (cipher.Block, error) { return aes.NewCipher(GPPP_AES_KEY) }
		v := flow.Strip(mode.Call.Args[0])
		if ex, isEx := v.(*ssa.Extract); isEx && ex.Index == 0 {
			v = ex.Tuple
		}
		if hc, isC := v.(*ssa.Call); isC {
			if g := hc.Call.StaticCallee(); g != nil && g.Blocks != nil && x.P.InModule(g) && len(hc.Call.Args) == 0 {
				var found *ssa.Call
				all := true
				for _, gb := range g.Blocks {
					ret, isRet := gb.Instrs[len(gb.Instrs)-1].(*ssa.Return)
					if !isRet || len(ret.Results) == 0 {
						continue
					}
					if k, isK := ret.Results[0].(*ssa.Const); isK && k.Value == nil {
						continue
					}
					c, i, okc := tupleResult(ret.Results[0], x.fAesNew)
					if !okc || i != 0 || (found != nil && found != c) {
						all = false
					}
					found = c
				}
				if all && found != nil {
					blk, bi, ok = found, 0, true
				}
			}
		}
	}
	if !ok || bi != 0 {
		x.R.Fail(c12R2, kc, x.pos(mode.Pos()), "the cipher "+flow.Expr(mode.Call.Args[0])+" is not the result of aes.NewCipher in this function")
	} else if ld, isLd := flow.Strip(blk.Call.Args[0]).(*ssa.UnOp); isLd && ld.Op == token.MUL && ld.X == ssa.Value(x.key) {
		x.R.OK(c12R2, kc, x.pos(blk.Pos()), "aes.NewCipher(GPPP_AES_KEY): the same variable on both sides")
	} else {
		x.R.Fail(c12R2, kc, x.pos(blk.Pos()), "aes.NewCipher is keyed with "+flow.Expr(blk.Call.Args[0])+", not with the variable GPPP_AES_KEY: encryption and decryption would not be mutual inverses / would not agree with Windows")
	}
	// iv
	ic := name + ": iv = fresh all-zero block that nothing writes"
	if b, ok := x.e.ConstBytes(mode.Call.Args[1]); ok && len(b) == 16 && flow.AllZero(b) {
		x.R.OK(c12R2, ic, x.pos(mode.Pos()), "make([]byte, aes.BlockSize), only ever read")
	} else if ok {
		x.R.Fail(c12R2, ic, x.pos(mode.Pos()), fmt.Sprintf("the iv is the constant %s, GPP uses 16 zero bytes", hexOf(b)))
	} else {
		x.R.Fail(c12R2, ic, x.pos(mode.Pos()), "the iv "+flow.Expr(mode.Call.Args[1])+" is not a buffer allocated in this call that nothing writes (a shared or reused iv can be modified between calls)")
	}
	// destination
	dc := name + ": destination = make([]byte, len(source))"
	if enc && flow.Strip(dst) == flow.Strip(src) {
		// cipher.BlockMode.CryptBlocks: "dst and src must overlap entirely or not at all";
		// the padded plaintext is a local temporary, so encrypting it in place is unobservable
		x.R.OK(c12R2, dc, x.pos(cb.Pos()), "in place: destination and source are the same buffer (exact overlap is allowed)")
	} else if m, ok := flow.Strip(dst).(*ssa.MakeSlice); ok {
		if lc, ok := m.Len.(*ssa.Call); ok && len(lc.Call.Args) == 1 && flow.Strip(lc.Call.Args[0]) == flow.Strip(src) {
			x.R.OK(c12R2, dc, x.pos(m.Pos()), "")
		} else {
			x.R.Fail(c12R2, dc, x.pos(m.Pos()), "the destination is "+flow.Expr(m)+", not exactly as long as the source (CryptBlocks panics when dst is shorter)")
		}
	} else {
		x.R.Fail(c12R2, dc, x.pos(cb.Pos()), "the destination "+flow.Expr(dst)+" is not a buffer allocated here")
	}
	if enc {
		// source = Pad(EncodeUTF16LE(plaintext), aes.BlockSize)
		set := x.e.Prov(fn, src)
		srcNeed := need{what: "the plaintext", src: isParam(0), must: []string{x.lEnc, x.lPad}}
		other := others(constsOnly)
		if flow.Strip(dst) == flow.Strip(src) {
			// in place: what CryptBlocks writes back into the buffer (key, iv and the
			// buffer itself through the cipher) is not an input of the encryption
			srcNeed.allow = []string{x.lCrypt}
			other = func(o flow.Origin) bool { return constsOnly(o) || o.Has(x.lCrypt) }
		}
		bad, und := judge(set, []need{srcNeed}, other)
		x.verdict(c12R2, name+": source = pkcs7.Pad(EncodeUTF16LE(plaintext), ·)", cb.Pos(), bad, und, trim(set.String(), 160))
		pc := name + ": pad block size = aes.BlockSize; whole blocks reach CryptBlocks"
		if pad, idx, ok := tupleResult(src, x.fPad); ok && idx == 0 {
			if k, isK := constI(pad.Call.Args[1]); isK && k == 16 {
				x.R.OK(c12R2, pc, x.pos(pad.Pos()), "the source is the Pad result itself, padded to 16")
			} else {
				x.R.Fail(c12R2, pc, x.pos(pad.Pos()), "pkcs7.Pad is called with block size "+flow.Expr(pad.Call.Args[1])+", AES-CBC needs 16 (CryptBlocks panics on partial blocks)")
			}
		} else {
			x.R.Fail(c12R2, pc, x.pos(cb.Pos()), "the CryptBlocks source "+flow.Expr(src)+" is not the pkcs7.Pad result itself")
		}
		// result = base64.StdEncoding.EncodeToString(dst)
		rc := name + ": result = base64.StdEncoding.EncodeToString(destination)"
		for _, ret := range cryptoSuccessReturns(fn) {
			c, isC := flow.Strip(ret.Results[0]).(*ssa.Call)
			okR := false
			if isC && c.Call.StaticCallee() != nil && c.Call.StaticCallee().String() == "(*encoding/base64.Encoding).EncodeToString" && len(c.Call.Args) == 2 {
				if g, isG := flow.Strip(c.Call.Args[0]).(*ssa.UnOp); isG && g.Op == token.MUL {
					if gl, ok := g.X.(*ssa.Global); ok && gl.Pkg.Pkg.Path() == "encoding/base64" && gl.Name() == "StdEncoding" {
						okR = flow.Strip(c.Call.Args[1]) == flow.Strip(dst)
					}
				}
			}
			if okR {
				x.R.OK(c12R2, rc, x.pos(ret.Pos()), "")
			} else {
				x.R.Fail(c12R2, rc, x.pos(ret.Pos()), "the function returns "+flow.Expr(ret.Results[0])+", not the standard base64 text of the CryptBlocks destination")
			}
		}
		return
	}
	// decrypt: source is the parameter itself
	sc := name + ": source = the ciphertext argument"
	if p, ok := flow.Strip(src).(*ssa.Parameter); ok && paramIndex(fn, p) == 0 {
		x.R.OK(c12R2, sc, x.pos(cb.Pos()), "")
	} else {
		x.R.Fail(c12R2, sc, x.pos(cb.Pos()), "CryptBlocks decrypts "+flow.Expr(src)+", not the ciphertext argument as given")
	}
	// guard
	gc := name + ": len(ciphertext) % aes.BlockSize test dominates CryptBlocks"
	if x.blockGuard(fn, cb, src) {
		x.R.OK(c12R2, gc, x.pos(cb.Pos()), "partial blocks are refused before CryptBlocks can panic")
	} else {
		x.R.Fail(c12R2, gc, x.pos(cb.Pos()), "no dominating test that len(ciphertext) is a multiple of 16: cipher.BlockMode.CryptBlocks panics on input that is not whole blocks")
	}
	// result = DecodeUTF16LE(Unpad(dst))
	rc := name + ": result = DecodeUTF16LE(pkcs7.Unpad(destination))"
	for _, ret := range cryptoSuccessReturns(fn) {
		okR := false
		var why string
		if dc, _, ok := tupleResult(ret.Results[0], x.P.Func(cryUTF16, "", "DecodeUTF16LE")); ok {
			if up, idx, ok := tupleResult(dc.Call.Args[0], x.fUnpad); ok && idx == 0 {
				if flow.Strip(up.Call.Args[0]) == flow.Strip(dst) {
					okR = true
				} else {
					why = "pkcs7.Unpad is applied to " + flow.Expr(up.Call.Args[0]) + ", not to the CryptBlocks destination"
				}
			} else {
				why = "DecodeUTF16LE is applied to " + flow.Expr(dc.Call.Args[0]) + ", not to the pkcs7.Unpad result (the padding would be decoded as text)"
			}
		} else {
			why = "the function returns " + flow.Expr(ret.Results[0]) + ", not DecodeUTF16LE(…)"
		}
		if okR {
			x.R.OK(c12R2, rc, x.pos(ret.Pos()), "mirror of GPPPEncrypt's EncodeUTF16LE → Pad")
		} else {
			x.R.Fail(c12R2, rc, x.pos(ret.Pos()), why)
		}
	}
}

// blockGuard: the call is dominated by the "is a multiple of 16" edge of a test
// on len(src) % 16.
func (x *c12) blockGuard(fn *ssa.Function, call *ssa.Call, src ssa.Value) bool {
	for _, b := range fn.Blocks {
		if len(b.Instrs) == 0 {
			continue
		}
		iff, ok := b.Instrs[len(b.Instrs)-1].(*ssa.If)
		if !ok {
			continue
		}
		cmp, ok := iff.Cond.(*ssa.BinOp)
		if !ok || (cmp.Op != token.NEQ && cmp.Op != token.EQL) {
			continue
		}
		rem, k := cmp.X, cmp.Y
		if _, isK := constI(rem); isK {
			rem, k = k, rem
		}
		if z, isK := constI(k); !isK || z != 0 {
			continue
		}
		rb, ok := rem.(*ssa.BinOp)
		if !ok || (rb.Op != token.REM && rb.Op != token.AND) {
			continue
		}
		// len % 16, or the equivalent mask len & 15
		if m, isK := constI(rb.Y); !isK || (rb.Op == token.REM && m != 16) || (rb.Op == token.AND && m != 15) {
			continue
		}
		lc, ok := rb.X.(*ssa.Call)
		if !ok || len(lc.Call.Args) != 1 || flow.Strip(lc.Call.Args[0]) != flow.Strip(src) {
			continue
		}
		if bi, isB := lc.Call.Value.(*ssa.Builtin); !isB || bi.Name() != "len" {
			continue
		}
		good := b.Succs[1]
		bad := b.Succs[0]
		if cmp.Op == token.EQL {
			good, bad = bad, good
		}
		if (good == call.Block() || good.Dominates(call.Block())) && len(good.Preds) == 1 && bad != good {
			return true
		}
	}
	return false
}

// loadedGlobal: v is a load of a package-level variable (possibly through a
// type assertion / change of interface).
func loadedGlobal(v ssa.Value) *ssa.Global {
	for d := 0; d < 4; d++ {
		switch x := v.(type) {
		case *ssa.UnOp:
			if g, ok := x.X.(*ssa.Global); ok {
				return g
			}
			return nil
		case *ssa.ChangeInterface:
			v = x.X
		case *ssa.TypeAssert:
			v = x.X
		case *ssa.MakeInterface:
			v = x.X
		default:
			return nil
		}
	}
	return nil
}

// c12TailDelegate: fn's only success return forwards the results of one static
// call to an in-module function of the same package; returns that function.
func c12TailDelegate(fn *ssa.Function) *ssa.Function {
	var h *ssa.Function
	for _, b := range fn.Blocks {
		ret, ok := b.Instrs[len(b.Instrs)-1].(*ssa.Return)
		if !ok || len(ret.Results) == 0 {
			continue
		}
		ex, ok := ret.Results[0].(*ssa.Extract)
		if !ok {
			return nil
		}
		call, ok := ex.Tuple.(*ssa.Call)
		if !ok {
			return nil
		}
		g := call.Call.StaticCallee()
		if g == nil || g.Blocks == nil || g.Pkg != fn.Pkg {
			return nil
		}
		if h != nil && h != g {
			return nil
		}
		h = g
	}
	return h
}
