package rules

import (
	"fmt"
	"os"
	"strings"

	"golang.org/x/tools/go/ssa"

	"manticheck/internal/flow"
	"manticheck/internal/report"
)

// Shared by C01 and C02: the symbolic evaluator of internal/flow (sx_*.go)
// bound to Manticore's crypto primitives, and the protocol by which a rule
// group falls back on it ("completeness before verdict").
//
// A rule group first runs its syntactic recogniser (the shapes listed in each
// check's explanation). If every obligation of the group is discharged, that
// is the verdict. Otherwise the group's anchor function is EVALUATED
// symbolically (helpers, closures, methods of new types, loops over tables,
// bytes.Buffer accumulation … are executed, not pattern-matched) and the
// result term is compared with the specification term:
//
//   - evaluation complete and equal to the specification: the group is
//     discharged by evaluation (the recogniser had only seen part of the code);
//   - evaluation complete and different: the difference is reported — it is a
//     positively observed mismatch — together with the recogniser's findings;
//   - evaluation stopped (something on the path is not modelled): the
//     recogniser's findings are kept only where they rest on a construct that
//     was positively observed in a completely extracted flow (a wrong label on
//     a def-use path, a write after the proof, swapped windows); findings that
//     merely say "this shape was not recognised" become NOT DECIDED.

const (
	crySxExplain = " COMPLETENESS BEFORE VERDICT: every composition group above (an entry point and the clauses about it) is first read by its shape recogniser; if that reports anything, the entry point is EVALUATED symbolically (internal/flow sx_*.go: the SSA is executed on symbolic arguments — in-module helpers, methods of helper types, closures and method values are entered with parameters bound to arguments, counted loops and loops over constant tables run with concrete counters, bytes.Buffer / strings.Builder / hash.Hash / cipher.Block / cipher.BlockMode / encoding/binary / fmt.Sprintf,Fprintf / strconv / hex / base64 follow their documented contracts, package-level variables that nothing writes outside their initialiser evaluate to it, length tests on a value of unknown length are enumerated as paths with the learnt bounds) and the result TERM is compared with the specification term. Complete and equal: the group is discharged by evaluation. Complete and different: the difference is reported (a positively observed mismatch). Evaluation stopped (an instruction, library call or data-dependent branch that is not modelled; possible aliasing): the recogniser's findings stay violations only where they rest on a construct that was positively observed in a completely extracted flow (a def-use path with the wrong labels, swapped windows, a wrong constant, a write after the proof, a package-level constant written elsewhere, a panic met on a path without data-dependent branches); findings that only say that a shape was not recognised are recorded as NOT DECIDED (discharged, with a note naming what stopped the evaluation), and the entity still counts towards its rule's floor."
	crySxAssume  = "symbolic evaluation (internal/flow sx_*.go): the contracts of the modelled library objects (Write appends, Sum does not change the state, Encrypt/CryptBlocks write dst from src under the key/iv given at construction, copy/append/PutUintN semantics, Sprintf verbs %s %d %x %X %v, Itoa/FormatInt, hex/base64 are pure); two evaluations name the value of time.Now / rand.Read by call site and occurrence; a branch on unknown data whose one arm only returns a non-nil error is followed on the other arm (the success path) and recorded; reading byte i of a value of unknown length assumes it exists (a shorter value panics — C07's concern)"
)

// sxLabels are the primitives that are never entered by the evaluator.
type sxConf struct {
	labels map[*ssa.Function]string
	ctors  map[*ssa.Function]string
}

func (x *cry) sxConf() *sxConf {
	c := &sxConf{labels: map[*ssa.Function]string{}, ctors: map[*ssa.Function]string{}}
	add := func(rel, recv, name string) {
		if fn := x.P.Func(rel, recv, name); fn != nil {
			c.labels[fn] = x.e.Name(fn)
		}
	}
	add(cryUTF16, "", "EncodeUTF16LE")
	add(cryUTF16, "", "DecodeUTF16LE")
	add(cryNT, "", "NTHash")
	add(cryLM, "", "LMHash")
	add(cryNTLMv1, "", "ParityAdjust")
	add(cryPKCS7, "", "Pad")
	add(cryPKCS7, "", "Unpad")
	if fn := x.P.Func(cryMD4, "", "New"); fn != nil {
		c.ctors[fn] = "md4"
	}
	return c
}

// newSx builds an evaluator; `more` are further functions to keep as labels and
// `enter` functions of the default label set that this evaluation enters.
func (x *cry) newSx(conf *sxConf, more []*ssa.Function, enter []*ssa.Function) *flow.Sx {
	sx := flow.NewSx(x.e)
	labels := map[*ssa.Function]string{}
	for f, l := range conf.labels {
		labels[f] = l
	}
	for _, f := range more {
		if f != nil {
			labels[f] = x.e.Name(f)
		}
	}
	for _, f := range enter {
		delete(labels, f)
	}
	sx.Label = func(fn *ssa.Function) (string, bool) { l, ok := labels[fn]; return l, ok }
	sx.HashCtor = func(fn *ssa.Function) (string, bool) { l, ok := conf.ctors[fn]; return l, ok }
	enc := cryUTF16 + ".EncodeUTF16LE"
	sx.Dist = func(l string) bool {
		return l == enc || l == "strings.ToUpper" || l == "strings.ToLower" || l == "encoding/hex.EncodeToString"
	}
	sx.LabelLen = func(l string) int {
		switch l {
		case cryLM + ".LMHash", cryNT + ".NTHash":
			return 16
		case cryNTLMv1 + ".ParityAdjust":
			return 8
		}
		return 0
	}
	if x.sxSetup != nil {
		x.sxSetup(sx)
	}
	return sx
}

// ---- groups ------------------------------------------------------------------------

// group is a run of obligations produced by a syntactic recogniser.
type group struct {
	x     *cry
	start int
	// positive: obligations that rest on a positively observed construct
	positive map[*report.Obligation]bool
}

func (x *cry) begin() *group {
	g := &group{x: x, start: len(x.R.Obls), positive: map[*report.Obligation]bool{}}
	x.cur = g
	return g
}

// positively records a finding that rests on an observed construct (kept as a
// violation even when the evaluation of its group stops).
func (x *cry) positively(rule, construct, pos string, st report.Status, reason string) {
	o := x.R.Add(rule, construct, pos, st, reason, nil)
	if x.cur != nil {
		x.cur.positive[o] = true
	}
}

func (g *group) obls() []*report.Obligation { return g.x.R.Obls[g.start:] }

// clean: every obligation of the group is discharged.
func (g *group) clean() bool {
	for _, o := range g.obls() {
		if o.Status != report.Discharged {
			return false
		}
	}
	return true
}

// drop removes the group's obligations (they are replaced by the evaluator's).
func (g *group) drop() {
	for _, o := range g.obls() {
		g.x.R.Counts[o.Rule]--
	}
	g.x.R.Obls = g.x.R.Obls[:g.start]
}

// undecide turns every finding of the group that is not marked positive into a
// NOT DECIDED discharge, and returns how many were kept as violations.
func (g *group) undecide(why string) (kept int) {
	n := 0
	for _, o := range g.obls() {
		if o.Status == report.Discharged {
			continue
		}
		if g.positive[o] || positiveReason(o.Reason) {
			kept++
			continue
		}
		o.Reason = "NOT DECIDED — the recogniser reported: " + o.Reason + " — but the code it could not follow may well do exactly that: " + why
		o.Status, o.StatusStr = report.Discharged, report.Discharged.String()
		n++
	}
	if n > 0 {
		g.x.R.Note("NOT DECIDED (%d obligation(s)): %s", n, why)
	}
	return kept
}

// positiveReason classifies a recogniser message: it names a construct that was
// observed (a label on a def-use path, a constant, a window, an order), not the
// absence of a recognised shape.
func positiveReason(r string) bool {
	for _, s := range []string{
		"reaches the sink on a path",        // judge: a def-use path with the wrong labels
		"the sink also depends on",          // judge: an extra source
		"the sink does not depend on",       // judge: complete provenance without the source
		"halves swapped or mis-cut",         // LM windows read off constant bounds
		"in the wrong order",                // ciphertext order
		"plaintext is \"",                   // wrong magic constant
		"pads with ",                        // wrong pad byte
		"is written after",                  // mutation after the proof
		"is written in place after",         // mutation after the proof
		"written big-endian",                // byte order
		"format is \"",                      // Sprintf format constant
		"the DES key schedule (str_to_key)", // a lane that was followed and is wrong
		"the buffer is also written by",     // a store into the padding buffer that was seen
		"-byte buffer, LM pads/truncates to 14",
		"key length is",
		"iteration count is",
		"PRF hash is",
		"not by md4.New",                             // the constructor that was seen
		"is not hmac.New(md5.New",                    // the constructor that was seen
		"not hmac.New",                               //
		"the proof MAC is not HMAC-MD5",              //
		"the block mode runs in the wrong direction", // NewCBCDecrypter seen where NewCBCEncrypter belongs
		"not with the variable GPPP_AES_KEY",         // another key variable was seen
		"GPP uses 16 zero bytes",                     // a constant non-zero iv
		"AES-CBC needs 16",                           // a constant pad size other than 16
		"shared by every call",                       // a stateful object loaded from a package-level variable
	} {
		if strings.Contains(r, s) {
			return true
		}
	}
	return false
}

var sxDebug = os.Getenv("MANTICHECK_SXDEBUG") != ""

func (x *cry) sxDump(what string, fn *ssa.Function, sx *flow.Sx, res []*flow.Tm, err error) {
	if !sxDebug || fn == nil {
		return
	}
	fmt.Fprintf(os.Stderr, "SX %s %s:\n", what, x.P.FuncName(fn))
	if err != nil {
		fmt.Fprintf(os.Stderr, "   STOPPED: %v\n", err)
	}
	for i, t := range res {
		if t == nil {
			fmt.Fprintf(os.Stderr, "   #%d: <not data>\n", i)
			continue
		}
		fmt.Fprintf(os.Stderr, "   #%d: %s\n", i, t.Key())
	}
	for _, p := range sx.Positive {
		fmt.Fprintf(os.Stderr, "   positive: %s\n", p)
	}
	for _, p := range sx.Assumed {
		fmt.Fprintf(os.Stderr, "   assumed: %s\n", p)
	}
	for _, p := range sx.Unknown {
		fmt.Fprintf(os.Stderr, "   unknown: %s\n", p)
	}
}

// sxDebugAll evaluates the anchors of C01/C02 and prints their terms (debugging aid).
func (x *cry) sxDebugAll() {
	if !sxDebug {
		return
	}
	if os.Getenv("MANTICHECK_SXOBLS") != "" {
		for _, o := range x.R.Obls {
			fmt.Fprintf(os.Stderr, "OBL %s | %s | %s | %s\n", o.Rule, o.Construct, o.StatusStr, trim(o.Reason, 100))
		}
		return
	}
	conf := x.sxConf()
	if d := os.Getenv("MANTICHECK_SXDUMP"); d != "" {
		// "pkgrel:func" — print the SSA of a function (init for the package initialiser)
		if rel, name, ok := strings.Cut(d, ":"); ok {
			if sp := x.P.SSAPkgs[x.P.ModPath+"/"+rel]; sp != nil {
				if f := sp.Func(name); f != nil {
					f.WriteTo(os.Stderr)
				}
				for _, m := range sp.Members {
					if f, ok := m.(*ssa.Function); ok && f.Name() == name {
						for _, a := range f.AnonFuncs {
							a.WriteTo(os.Stderr)
						}
					}
				}
			}
		}
	}
	for _, a := range [][3]string{
		{cryLM, "", "LMHash"}, {cryNT, "", "NTHash"}, {cryMD4, "", "Sum"},
		{cryDCC, "", "DCCHashFromNTHash"}, {cryDCC, "", "DCCHashFromPassword"}, {cryDCC, "", "DCCHashFromNTHashToHashcatString"},
		{cryDCC, "", "DCCHashFromPasswordToHashcatString"}, {cryDCC2, "", "DCC2HashWithNTHash"}, {cryDCC2, "", "DCC2Hash"},
		{cryNTLMv2, "NTLMv2", "Hash"}, {cryNTLMv2, "", "NewNTLMv2"}, {cryNTLMv2, "NTLMv2", "ToHashcatString"},
		{cryNTLM, "", "calculateNTLMv2Response"}, {cryNTLM, "", "ntowfv2"}, {cryNTLM, "", "calculateNTLMv1Response"},
		{cryNTLMv1, "NTLMv1", "NTResponse"}, {cryNTLMv1, "NTLMv1", "LMResponse"}, {cryNTLMv1, "NTLMv1", "Hash"},
	} {
		fn := x.P.Func(a[0], a[1], a[2])
		if fn == nil {
			continue
		}
		runs, err := x.sxEval(conf, fn, nil, []*ssa.Function{fn})
		if err != nil {
			fmt.Fprintf(os.Stderr, "SX debug %s: STOPPED: %v\n", x.P.FuncName(fn), err)
		}
		for _, r := range runs {
			x.sxDump("debug", fn, r.sx, r.res, nil)
		}
	}
}

// sxRun is one completely evaluated path.
type sxRun struct {
	sx  *flow.Sx
	res []*flow.Tm
}

// sxEval evaluates fn on every path through its data-dependent branches (at
// most 16). err != nil: some path stopped (or there are too many) — nothing
// may be concluded.
func (x *cry) sxEval(conf *sxConf, fn *ssa.Function, more, enter []*ssa.Function) (runs []sxRun, err error) {
	ps := flow.NewSxPaths(16)
	var positive []string
	for ps.More() {
		sx := x.newSx(conf, more, enter)
		ps.Attach(sx)
		res, e := sx.Run(fn)
		positive = append(positive, sx.Positive...)
		if e != nil {
			// a panic met on a path without data-dependent branches is met on every input
			if sx.Forks() == 0 && (strings.Contains(e.Error(), "the code would panic") || strings.Contains(e.Error(), "explicit panic is reached")) {
				positive = append(positive, "evaluating "+x.P.FuncName(fn)+" on symbolic arguments runs into a panic on every input: "+e.Error())
			}
			return nil, &sxStopped{why: e.Error(), positive: positive}
		}
		runs = append(runs, sxRun{sx, res})
	}
	if ps.Overflow {
		return nil, &sxStopped{why: "more than 16 paths through data-dependent branches", positive: positive}
	}
	return runs, nil
}

type sxStopped struct {
	why      string
	positive []string
}

func (e *sxStopped) Error() string { return e.why }

// ---- settling a group by evaluation -------------------------------------------------------

// specItem is one clause of a specification checked on an evaluated result.
type specItem struct {
	rule, construct string
	ok              bool
	undecided       bool // the clause could not be checked (the term holds an undescribed value)
	msg             string
}

// count: obligations of `rule` in the group.
func (g *group) count(rule string) int {
	n := 0
	for _, o := range g.obls() {
		if o.Rule == rule {
			n++
		}
	}
	return n
}

// pad adds discharged placeholder obligations so that the group holds at least
// `nominal` obligations of `rule` (the number the recogniser produces on the
// shapes it knows): entities that were decided another way, or not decided,
// still count as present for the rule's floor.
func (g *group) pad(rule, prefix string, nominal int, reason string) {
	for k := g.count(rule); k < nominal; k++ {
		g.x.R.OK(rule, fmt.Sprintf("%s: clause %d of %d", prefix, k+1, nominal), "", reason)
	}
}

// settleOK: the evaluation is complete and meets the specification: every
// finding of the recogniser in this group is overridden.
func (g *group) settleOK(how string) {
	n := 0
	for _, o := range g.obls() {
		if o.Status == report.Discharged {
			continue
		}
		o.Reason = how + " (the shape recogniser alone had reported: " + trim(o.Reason, 160) + ")"
		o.Status, o.StatusStr = report.Discharged, report.Discharged.String()
		n++
	}
	if n > 0 {
		g.x.R.Note("%d obligation(s) discharged by symbolic evaluation instead of shape recognition: %s", n, trim(how, 200))
	}
}

// tmDiff describes the first place where two terms differ.
func tmDiff(got, want *flow.Tm) string {
	if got == nil || want == nil {
		return "one side is not data"
	}
	if got.Key() == want.Key() {
		return ""
	}
	if got.Op == want.Op && got.S == want.S && got.N == want.N && got.M == want.M && len(got.A) == len(want.A) && len(got.A) > 0 {
		for i := range got.A {
			if d := tmDiff(got.A[i], want.A[i]); d != "" {
				return d
			}
		}
	}
	if got.Op == "cat" && want.Op == "cat" {
		for i := 0; i < len(got.A) && i < len(want.A); i++ {
			if d := tmDiff(got.A[i], want.A[i]); d != "" {
				return fmt.Sprintf("piece %d: %s", i+1, d)
			}
		}
		return fmt.Sprintf("%d pieces instead of %d", len(got.A), len(want.A))
	}
	return "the code has " + got.Short() + " where the specification has " + want.Short()
}

// bySx settles group g of function fn by evaluation against a specification
// that yields clauses per evaluated path. nominal: rule → number of
// obligations the recogniser produces for this entity on known shapes.
func (x *cry) bySx(g *group, fn *ssa.Function, more, enter []*ssa.Function, nominal map[string]int, spec func(r sxRun) []specItem) sxOutcome {
	name := x.P.FuncName(fn)
	padAll := func(reason string) {
		for rule, n := range nominal {
			g.pad(rule, name, n, reason)
		}
	}
	runs, err := x.sxEval(x.sxConf(), fn, more, enter)
	if sxDebug {
		for _, r := range runs {
			x.sxDump("fallback", fn, r.sx, r.res, nil)
		}
		if err != nil {
			fmt.Fprintf(os.Stderr, "SX fallback %s: STOPPED: %v\n", name, err)
		}
	}
	if err != nil {
		why := "symbolic evaluation of " + name + " stopped: " + err.Error()
		if st, ok := err.(*sxStopped); ok {
			for _, p := range st.positive {
				x.cur = g
				if strings.Contains(p, "panic") {
					x.positively(firstRule(nominal), name+": returns normally", x.pos(fn.Pos()), report.Finding, p)
				} else {
					x.positively(firstRule(nominal), name+": depends only on its arguments", x.pos(fn.Pos()), report.Finding, p+" — the value computed here can change between calls")
				}
			}
		}
		kept := g.undecide(why)
		padAll("NOT DECIDED — " + why)
		if kept > 0 {
			return sxBad
		}
		return sxUndecided
	}
	var bad, und []specItem
	var all []specItem
	for pi, r := range runs {
		for _, it := range spec(r) {
			if len(runs) > 1 && !it.ok {
				it.msg = fmt.Sprintf("on path %d of %d through the length tests: %s", pi+1, len(runs), it.msg)
			}
			switch {
			case it.ok:
			case it.undecided:
				und = append(und, it)
			default:
				bad = append(bad, it)
			}
			if pi == 0 {
				all = append(all, it)
			}
		}
	}
	switch {
	case len(bad) > 0:
		seen := map[string]bool{}
		for _, it := range bad {
			if seen[it.construct] {
				continue
			}
			seen[it.construct] = true
			x.R.Fail(it.rule, it.construct+" [evaluated]", x.pos(fn.Pos()), "symbolic evaluation of the whole function (complete: helpers, loops and buffers executed) shows: "+it.msg)
		}
		padAll("see the findings of this entity")
		return sxBad
	case len(und) > 0:
		why := "symbolic evaluation of " + name + " completed but " + und[0].msg
		kept := g.undecide(why)
		padAll("NOT DECIDED — " + why)
		if kept > 0 {
			return sxBad
		}
		return sxUndecided
	default:
		how := "decided by symbolic evaluation of " + name + " (helpers, methods, closures, loops and buffers executed on symbolic arguments): the result term equals the specification"
		g.settleOK(how)
		have := map[string]bool{}
		for _, o := range g.obls() {
			have[o.Rule+" "+o.Construct] = true
		}
		for _, it := range all {
			if !have[it.rule+" "+it.construct] {
				x.R.OK(it.rule, it.construct, x.pos(fn.Pos()), it.msg+" — "+how)
			}
		}
		padAll(how)
	}
	return sxOK
}

// sxOutcome is how a group was settled by evaluation.
type sxOutcome int

const (
	sxOK        sxOutcome = iota // complete evaluation, specification met
	sxBad                        // a violation stands
	sxUndecided                  // NOT DECIDED
)

func firstRule(nominal map[string]int) string {
	best := ""
	for r := range nominal {
		if best == "" || r < best {
			best = r
		}
	}
	return best
}
