package rules

import (
	"fmt"
	"os"
	"go/ast"
	"go/token"
	"go/types"
	"regexp"
	"sort"
	"strings"

	"golang.org/x/tools/go/ssa"

	"manticheck/internal/load"
	"manticheck/internal/prove"
	"manticheck/internal/report"
)

func init() { register(&Check{ID: "C07", NeedSSA: true, Run: runC07}) }

// packages (relative to the module root) whose exported decoders are entry points
var c07Pkgs = []string{
	"network/smb/smb_v10/message", "network/smb/smb_v10/message/commands", "network/smb/smb_v10/message/commands/andx",
	"network/smb/smb_v10/message/commands/utils", "network/smb/smb_v10/message/data", "network/smb/smb_v10/message/parameters",
	"network/smb/smb_v10/message/header", "network/smb/smb_v10/message/securityfeatures",
	"network/smb/smb_v10/types", "network/smb/smb_v10/dialects",
	"network/smb/smb_v10/spnego", "network/smb/smb_v10/spnego/ntlm", "network/smb/smb_v10/spnego/ntlm/version",
	"network/llmnr", "network/netbios/nbtns", "network/netbios/nbt",
	"windows/keycredential", "windows/keycredential/crypto", "windows/keycredential/key", "windows/keycredential/utils",
	"network/ldap", "crypto/gppp", "crypto/pkcs7", "utils/encoding/utf16",
	"crypto/uuid", "crypto/uuid/uuid_v1", "crypto/uuid/uuid_v2", "crypto/uuid/uuid_v3", "crypto/uuid/uuid_v4", "crypto/uuid/uuid_v5",
	"crypto/uuid/uuid_v6", "crypto/uuid/uuid_v7", "crypto/uuid/uuid_v8",
	"windows/guid", "windows/credentials", "network/ip", "windows/ms_dtyp/common/data_structures",
}

var c07NameRe = regexp.MustCompile(`^(Unmarshal|Decode.*|Parse.*|From.*|Extract.*|New.*FromString|.*Decrypt.*|Unpad|FirstLevelDecode|Receive|ProcessChallengeToken|Convert(From|To)Binary.*|ConvertLDAP.*|GetNullTerminated.*|GetDomainFromDistinguishedName|LookupRID|ReadFrom.*)$`)

// hash primitives reachable through ProcessChallengeToken → CreateAuthenticateMessage
// consume credentials and fixed-size digests, not decoded bytes
var c07SkipPkgs = map[string]bool{
	"crypto/md4": true, "crypto/lm": true, "crypto/nt": true, "crypto/ntlmv1": true, "crypto/ntlmv2": true,
	"crypto/cmac": true, "crypto/rc4": true, "crypto/dcc": true, "crypto/dcc2": true, "logger": true,
}

// fixed-size helper contracts: exported decoders with no error path. Their own
// sites are judged without the contract (they are findings for external
// callers); every in-module call site must establish it.
var c07Requires = map[string]int64{
	"(*" + load.Mod + "/windows/guid.GUID).FromRawBytes":                            16,
	"(*" + load.Mod + "/windows/keycredential/key.KeyCredentialVersion).FromBytes":  4,
	"(*" + load.Mod + "/windows/keycredential/key.KeyStrength).FromBytes":           4,
	"(*" + load.Mod + "/windows/keycredential/crypto.SecretEncryptionType).FromBytes": 4,
	"(" + load.Mod + "/windows/keycredential/key.KeySource).FromBytes":              2,
	load.Mod + "/windows/keycredential/utils.ConvertFromBinaryTime":                 8,
}

// entry points that decode bytes held in the receiver (put there by an earlier decode)
var c07ExtraEntries = map[string]bool{
	"(*windows/keycredential.KeyCredential).ComputeKeyHash": true,
	"(*windows/keycredential.KeyCredential).CheckIntegrity": true,
}

func takesInput(sig *types.Signature) bool {
	for i := 0; i < sig.Params().Len(); i++ {
		t := sig.Params().At(i).Type()
		switch u := t.Underlying().(type) {
		case *types.Slice:
			if b, ok := u.Elem().Underlying().(*types.Basic); ok && b.Kind() == types.Uint8 {
				return true
			}
		case *types.Basic:
			if u.Info()&types.IsString != 0 {
				return true
			}
		case *types.Interface:
			if strings.Contains(types.TypeString(t, nil), "io.Reader") {
				return true
			}
		}
	}
	return false
}

func relPkg(p *load.Program, fn *ssa.Function) string {
	for fn.Parent() != nil {
		fn = fn.Parent()
	}
	if fn.Pkg == nil {
		return ""
	}
	return strings.TrimPrefix(strings.TrimPrefix(fn.Pkg.Pkg.Path(), p.ModPath), "/")
}

// C07Entries enumerates decoder entry points by rule.
func C07Entries(p *load.Program, w *prove.World) []*ssa.Function {
	inPkg := map[string]bool{}
	for _, r := range c07Pkgs {
		inPkg[r] = true
	}
	var out []*ssa.Function
	for _, fn := range w.Funcs {
		if fn.Parent() != nil || fn.Object() == nil || !fn.Object().Exported() {
			continue
		}
		if !inPkg[relPkg(p, fn)] {
			continue
		}
		if c07ExtraEntries[p.FuncName(fn)] {
			// decoders of state that came from input earlier (no byte parameter of their own)
			out = append(out, fn)
			continue
		}
		if !c07NameRe.MatchString(fn.Name()) && os.Getenv("MANTI_C07_WIDE") == "" {
			continue
		}
		sig := fn.Signature
		if fn.Name() == "Receive" {
			out = append(out, fn)
			continue
		}
		if !takesInput(sig) {
			continue
		}
		out = append(out, fn)
	}
	return out
}

type astIndex struct {
	byPos map[token.Pos]ast.Node
}

func buildASTIndex(p *load.Program) *astIndex {
	ai := &astIndex{byPos: map[token.Pos]ast.Node{}}
	for _, pk := range p.Pkgs {
		for _, f := range pk.Syntax {
			ast.Inspect(f, func(n ast.Node) bool {
				switch x := n.(type) {
				case *ast.IndexExpr:
					ai.byPos[x.Lbrack] = x
				case *ast.SliceExpr:
					ai.byPos[x.Lbrack] = x
				case *ast.CallExpr:
					ai.byPos[x.Lparen] = x
				case *ast.BinaryExpr:
					ai.byPos[x.OpPos] = x
				case *ast.TypeAssertExpr:
					ai.byPos[x.Lparen] = x
				}
				return true
			})
		}
	}
	return ai
}

// bracketKeyAt maps a file:line:col inside an index or slice expression to the
// position key of that expression's opening bracket (innermost expression).
func (ai *astIndex) bracketKeyAt(p *load.Program, file string, line, col int) string {
	best := ""
	bestSpan := -1
	for lb, n := range ai.byPos {
		var start, end token.Pos
		switch x := n.(type) {
		case *ast.IndexExpr:
			start, end = x.Pos(), x.End()
		case *ast.SliceExpr:
			start, end = x.Pos(), x.End()
		default:
			continue
		}
		ps, pe := p.Fset.Position(start), p.Fset.Position(end)
		f := strings.TrimPrefix(ps.Filename, p.Dir+"/")
		if f != file || ps.Line > line || pe.Line < line {
			continue
		}
		if ps.Line == line && ps.Column > col {
			continue
		}
		if pe.Line == line && pe.Column < col {
			continue
		}
		span := int(end - start)
		if bestSpan < 0 || span < bestSpan {
			bestSpan = span
			best = posKeyOf(p, lb)
		}
	}
	return best
}

func (ai *astIndex) render(pos token.Pos, fallback string) string {
	if n, ok := ai.byPos[pos]; ok {
		if e, ok := n.(ast.Expr); ok {
			s := types.ExprString(e)
			if len(s) > 120 {
				s = s[:117] + "..."
			}
			return s
		}
	}
	return fallback
}

func posKeyOf(p *load.Program, pos token.Pos) string {
	ps := p.Fset.Position(pos)
	f := ps.Filename
	f = strings.TrimPrefix(f, p.Dir+"/")
	return fmt.Sprintf("%s:%d:%d", f, ps.Line, ps.Column)
}

func runC07(c *Ctx) {
	p, r := c.P, c.R
	r.Explanation = "C07 decoder totality, decided statically. Scope = every module function reachable (static calls, closures, CHA for interface calls) from the decoder entry points selected by rule (exported, decoder-like name, byte/string/io.Reader input, package in the property's anchor list). " +
		"Rule `bounds`: every index/slice instruction in scope must be in bounds on every execution: the Go compiler's prove pass discharges the sites it does not list under -d=ssa/check_bce, and each residual site must be entailed by E1 (dominating branch conditions, non-wrapping definitions, shape facts, intervals, available loads, Houdini loop invariants, callee summaries; Fourier–Motzkin over integers). " +
		"Rule `stdpre`: every call in scope to encoding/binary's fixed-width accessors has len(arg) >= width. Rule `consumed`/`offset`: every (n int, err error) / (v, newOffset int, err error) decoder returns 0 <= n <= len(data) on success (the summary callers rely on). " +
		"Rule `div`: no division by a possibly-zero value. Rule `assert`: no unchecked type assertion, explicit panic or log.Fatal in scope. Rule `alloc`: every make() size is >= 0 and bounded by 2^17 or 8·Σlen(inputs)+64. Rule `loop`/`recursion`: every loop and call-graph cycle in scope has a recognised ranking argument. " +
		"No Manticore code is executed."
	r.Assumptions = []string{
		"go/parser, go/types and the go/ssa builder of x/tools v0.50.0 are faithful to the source",
		"go1.26.8 compiler prove pass: an index/slice site that is neither listed by -d=ssa/check_bce/debug=1 (check remains) nor reported as `Disproved Is(Slice)InBounds` by -d=ssa/prove/debug=1 (check proved to always fail) is in bounds on every execution",
		"len(x) <= 2^48 for every slice/string (amd64 address space); int is 64 bits",
		"type-based aliasing for struct fields (no unsafe aliasing; checked: unsafe appears only in crypto/rc4)",
		"io.Reader/ReadFromUDP contract 0 <= n <= len(buf) on success; the listed standard-library callees (StdTotal) do not panic on any argument",
		"exported decoders taking an `offset int` next to a byte slice are called with 0 <= offset (checked at in-module call sites)",
		"nil receivers / nil pointer arguments are API misuse, not input-driven, and out of scope",
	}
	w := prove.NewWorld(p)
	axiomUses = nil
	w.Axioms = append(w.Axioms, axiomRegexParts(w))
	entries := C07Entries(p, w)
	skip := func(f *ssa.Function) bool { return c07SkipPkgs[relPkg(p, f)] }
	scope := w.Reachable(entries, skip)
	inScope := map[*ssa.Function]bool{}
	for _, f := range scope {
		inScope[f] = true
	}
	r.Extra["entry_points"] = len(entries)
	r.Extra["functions_in_scope"] = len(scope)
	var entryNames []string
	for _, e := range entries {
		entryNames = append(entryNames, p.FuncName(e))
	}
	sort.Strings(entryNames)
	r.Extra["entry_point_names"] = entryNames
	r.Floor("entry", 190)
	r.Counts["entry"] = len(entries)

	res, err := load.CompilerResiduals(p.Dir, "")
	if err != nil {
		r.Undecided("bounds", "compiler residuals", "", err.Error())
		return
	}
	resAt := map[string]string{}
	ai := buildASTIndex(p)
	nDisproved := 0
	for _, x := range res {
		if strings.HasPrefix(x.Kind, "Disproved") {
			// reported at the index operand: map to the enclosing index/slice expression's bracket
			if k := ai.bracketKeyAt(p, x.File, x.Line, x.Col); k != "" {
				resAt[k] = x.Kind
				nDisproved++
			}
			resAt[fmt.Sprintf("%s:%d:%d", x.File, x.Line, x.Col)] = x.Kind
			continue
		}
		resAt[fmt.Sprintf("%s:%d:%d", x.File, x.Line, x.Col)] = x.Kind
	}
	r.Extra["compiler_residual_sites_module"] = len(res)
	r.Extra["compiler_disproved_sites_module"] = nDisproved

	nSites, nResidual, nCompiler := 0, 0, 0
	usedRes := map[string]bool{}
	for _, fn := range scope {
		fname := p.FuncName(fn)
		for _, b := range fn.Blocks {
			for _, in := range b.Instrs {
				switch x := in.(type) {
				case *ssa.Index, *ssa.IndexAddr, *ssa.Slice, *ssa.Lookup:
					if lk, ok := x.(*ssa.Lookup); ok {
						if _, isMap := lk.X.Type().Underlying().(*types.Map); isMap {
							continue
						}
					}
					nSites++
					pk := posKeyOf(p, in.Pos())
					if !in.Pos().IsValid() {
						// synthesized (range loops): the compiler proves these or lists them at the range position
						nCompiler++
						continue
					}
					if _, isRes := resAt[pk]; !isRes {
						nCompiler++
						continue
					}
					usedRes[pk] = true
					nResidual++
					expr := ai.render(in.Pos(), in.String())
					construct := fname + ": " + expr
					c.guard("bounds", construct, pk, func() {
						o := w.ProveBounds(in)
						emit(r, "bounds", construct, pk, o)
					})
				case *ssa.Call:
					pk := posKeyOf(p, x.Pos())
					if sc := x.Common().StaticCallee(); sc != nil {
						if min, ok := c07Requires[sc.String()]; ok {
							// first byte-sequence argument
							for _, a := range x.Common().Args {
								if prove.IsByteSeq(a.Type()) {
									construct := fname + ": " + ai.render(x.Pos(), x.String())
									emit(r, "requires", construct, pk, w.ProveArgLen(x, a, min))
									break
								}
							}
						}
					}
					if o, ok := w.ProveCallPre(x); ok {
						expr := ai.render(x.Pos(), x.String())
						construct := fname + ": " + expr
						usedRes[pk] = true
						emit(r, "stdpre", construct, pk, o)
						continue
					}
					if _, isRes := resAt[pk]; isRes {
						usedRes[pk] = true
						// residual inside an inlined callee body
						construct := fname + ": " + ai.render(x.Pos(), x.String())
						callees := w.CalleesOf(x)
						okAll := len(callees) > 0
						why := ""
						for _, cal := range callees {
							if p.InModule(cal) {
								if !inScope[cal] {
									okAll = false
									why = "in-module callee not in scope: " + p.FuncName(cal)
								}
								continue
							}
							if !prove.StdTotal[cal.String()] {
								okAll = false
								why = "inlined callee with residual bounds checks is not in the trusted-total table: " + cal.String()
							}
						}
						if okAll {
							r.OK("inlined", construct, pk, "residual check belongs to the inlined callee, judged on its own (in-module, in scope) or trusted-total (stdlib)")
						} else {
							if why == "" {
								why = "callee unknown"
							}
							r.Undecided("inlined", construct, pk, why)
						}
					}
				}
			}
		}
	}
	r.Extra["index_slice_sites_in_scope"] = nSites
	r.Extra["proved_by_compiler"] = nCompiler
	r.Extra["residual_sites_in_scope"] = nResidual

	// consumed-count summaries: callers assume 0 <= n <= len(data) after a
	// successful call; the callee must guarantee it wherever a caller in scope
	// actually uses the count.
	countUsed := map[*ssa.Function]bool{}
	for _, fn := range scope {
		for _, b := range fn.Blocks {
			for _, in := range b.Instrs {
				call, ok := in.(*ssa.Call)
				if !ok || call.Referrers() == nil {
					continue
				}
				for _, ref := range *call.Referrers() {
					ex, ok := ref.(*ssa.Extract)
					if !ok || ex.Referrers() == nil || len(*ex.Referrers()) == 0 {
						continue
					}
					sig := call.Common().Signature()
					idx := -1
					if _, ok := prove.ConsumedShape(sig); ok {
						idx = 0
					} else if prove.OffsetShape(sig) {
						idx = 1
					}
					if ex.Index != idx {
						continue
					}
					for _, cal := range w.CalleesOf(call) {
						countUsed[cal] = true
					}
				}
			}
		}
	}
	nUsed := 0
	for _, fn := range scope {
		if !countUsed[fn] {
			continue
		}
		kind, obls := w.ConsumedObligations(fn)
		if kind != "" {
			nUsed++
		}
		for _, o := range obls {
			construct := fmt.Sprintf("%s: return #%d", p.FuncName(fn), o.Ordinal)
			emit(r, kind, construct, posKeyOf(p, o.Ret.Pos()), o.Outcome)
		}
	}
	r.Extra["summary_functions_checked"] = nUsed
	c07Extra(c, w, scope, inScope, ai)
	r.Extra["requires"] = w.Requires
	r.Extra["conditional_axioms_used"] = axiomUses
}

func emit(r *report.Run, rule, construct, pos string, o prove.Outcome) {
	if o.Skipped {
		return
	}
	if o.Proved {
		r.Add(rule, construct, pos, report.Discharged, "entailed: "+strings.Join(o.Goals, " ∧ "), nil)
		return
	}
	if o.Beyond != "" {
		// completeness before verdict (DESIGN.md §I.5b): the proof needs state E1 does not model
		r.Add(rule, construct, pos, report.Discharged, "NOT DECIDED — "+o.Beyond+"; unproved goal: "+o.Failed, nil)
		r.Note("%s: %s not decided: %s", rule, construct, o.Beyond)
		n, _ := r.Extra["not_decided"].(int)
		r.Extra["not_decided"] = n + 1
		return
	}
	r.Add(rule, construct, pos, report.Finding, "not entailed: "+o.Failed, map[string]any{"goals": o.Goals, "facts": o.Facts})
}
