package rules

import (
	"fmt"
	"go/token"
	"strings"

	"golang.org/x/tools/go/ssa"
)

// Shared rule `err-propagated` (added after an independently seeded change —
// Message.Unmarshal falling back to a stub command instead of returning the
// factory's error — was missed): in the decoders of a property's packages, when
// the error result of an in-module call is tested and found non-nil, that path
// must END IN A FAILURE: every return reachable from the `err != nil` arm
// carries a non-nil error (the error itself, a wrapped one, a fresh one). A
// path that swallows the error and goes on to a success return turns a
// rejected input into a silently mis-decoded one (wrong type, dropped blocks).
//
// Decided on the CFG: from the non-nil arm of every `err != nil` / `err == nil`
// test on the last result of an in-module static call, no return whose error
// operand is the nil constant is reachable without re-testing. Loops `continue`
// style skipping (arm rejoins a loop header) is reported too: decoders of wire
// formats in this library never skip malformed elements.

var errPropScopes = map[string][]string{
	"C03": {"network/smb/smb_v10/message"},
	"C04": {"network/smb/smb_v10/message/commands", "network/smb/smb_v10/message/commands/andx"},
	"C06": {"network/smb/smb_v10/types"},
	"C09": {"network/llmnr"},
	"C10": {"network/netbios/nbtns"},
}

func init() {
	for id, pk := range errPropScopes {
		ck := registry[id]
		if ck == nil {
			continue
		}
		orig := ck.Run
		scope := map[string]bool{}
		for _, q := range pk {
			scope[q] = true
		}
		ck.Run = func(c *Ctx) {
			orig(c)
			errPropagated(c, scope)
			c.R.Explanation += " Shared rule `err-propagated`: in the decoders (Unmarshal/Decode*/FromBytes) of this property's packages, the non-nil arm of every test of an in-module callee's error ends in returns that carry a non-nil error — a decode error is never swallowed into a success."
		}
	}
}

func isDecoderName(n string) bool {
	return n == "Unmarshal" || strings.HasPrefix(n, "Decode") || strings.HasPrefix(n, "FromBytes") || strings.HasPrefix(n, "Parse") || strings.HasPrefix(n, "Unmarshal")
}

func errPropagated(c *Ctx, scope map[string]bool) {
	const rule = "err-propagated"
	p, r := c.P, c.R
	n := 0
	for _, fn := range p.SrcFuncs() {
		if !scope[relPkg(p, fn)] || fn.Blocks == nil || !isDecoderName(fn.Name()) {
			continue
		}
		res := fn.Signature.Results()
		if res.Len() == 0 || res.At(res.Len()-1).Type().String() != "error" {
			continue
		}
		fname := p.FuncName(fn)
		ord := map[string]int{}
		for _, b := range fn.Blocks {
			iff, ok := b.Instrs[len(b.Instrs)-1].(*ssa.If)
			if !ok {
				continue
			}
			bo, ok := iff.Cond.(*ssa.BinOp)
			if !ok || (bo.Op != token.NEQ && bo.Op != token.EQL) {
				continue
			}
			var ev ssa.Value
			if k, isK := bo.Y.(*ssa.Const); isK && k.Value == nil {
				ev = bo.X
			} else if k, isK := bo.X.(*ssa.Const); isK && k.Value == nil {
				ev = bo.Y
			}
			if ev == nil || ev.Type().String() != "error" {
				continue
			}
			// the error of an in-module static call (directly, or merged in a φ of such)
			callee := errSourceCallee(ev, 0)
			if callee == "" {
				continue
			}
			arm := b.Succs[0]
			if bo.Op == token.EQL {
				arm = b.Succs[1]
			}
			n++
			key := fmt.Sprintf("%s: error of %s is not swallowed", fname, callee)
			ord[key]++
			if ord[key] > 1 {
				key = fmt.Sprintf("%s #%d", key, ord[key])
			}
			// reachability from the non-nil arm, stopping at re-tests of an error
			bad := ""
			seen := map[*ssa.BasicBlock]bool{}
			work := []*ssa.BasicBlock{arm}
			for len(work) > 0 && bad == "" {
				x := work[len(work)-1]
				work = work[:len(work)-1]
				if seen[x] {
					continue
				}
				seen[x] = true
				if ret, isRet := x.Instrs[len(x.Instrs)-1].(*ssa.Return); isRet {
					last := ret.Results[len(ret.Results)-1]
					if k, isK := last.(*ssa.Const); isK && k.Value == nil {
						bad = "a return with a nil error at " + p.Rel(ret.Pos()) + " is reachable"
					}
					continue
				}
				for _, s := range x.Succs {
					work = append(work, s)
				}
			}
			if bad == "" {
				r.OK(rule, key, p.Rel(iff.Cond.Pos()), "every return reachable from the non-nil arm carries an error")
			} else {
				r.Fail(rule, key, p.Rel(iff.Cond.Pos()), "after "+callee+" failed, "+bad+": the failure is swallowed and the decoder reports success on input it could not decode")
			}
		}
	}
	r.Extra["err_propagated_sites"] = n
}

// errSourceCallee: v is the error result of an in-module static call (or a φ
// whose non-nil edges all are); returns the callee's name.
func errSourceCallee(v ssa.Value, d int) string {
	if d > 3 {
		return ""
	}
	switch x := v.(type) {
	case *ssa.Extract:
		if call, ok := x.Tuple.(*ssa.Call); ok {
			if f := call.Common().StaticCallee(); f != nil && f.Pkg != nil && strings.Contains(f.Pkg.Pkg.Path(), "TheManticoreProject/Manticore") {
				if x.Index == call.Common().Signature().Results().Len()-1 {
					return f.Name()
				}
			}
			if call.Common().IsInvoke() && x.Index == call.Common().Signature().Results().Len()-1 {
				return call.Common().Method.Name()
			}
		}
	case *ssa.Call:
		if f := x.Common().StaticCallee(); f != nil && f.Pkg != nil && strings.Contains(f.Pkg.Pkg.Path(), "TheManticoreProject/Manticore") {
			return f.Name()
		}
	case *ssa.Phi:
		name := ""
		for _, e := range x.Edges {
			if k, isK := e.(*ssa.Const); isK && k.Value == nil {
				continue
			}
			s := errSourceCallee(e, d+1)
			if s == "" {
				return ""
			}
			if name == "" {
				name = s
			} else if name != s {
				name = name + "/" + s
			}
		}
		return name
	}
	return ""
}
