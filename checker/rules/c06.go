package rules

import (
	"fmt"
	"go/constant"
	"go/token"
	"go/types"
	"sort"
	"strings"

	"golang.org/x/tools/go/ssa"

	"manticheck/internal/codec"
	"manticheck/internal/lanes"
	"manticheck/internal/lin"
	"manticheck/internal/prove"
)

func init() { register(&Check{ID: "C06", NeedSSA: true, Run: runC06}) }

type wireType struct {
	rel, name string
	mode      string // plain | cases | date | inner | delegate
}

var c06Types = []wireType{
	{smbPrefix + "/types", "SMB_STRING", "cases"},
	{smbPrefix + "/types", "OEM_STRING", "delegate"},
	{smbPrefix + "/types", "SMB_DATE", "date"},
	{"windows/ms_dtyp/common/data_structures", "FILETIME", "plain"},
	{smbPrefix + "/types", "LOCKING_ANDX_RANGE32", "plain"},
	{smbPrefix + "/types", "LOCKING_ANDX_RANGE64", "plain"},
	{smbPrefix + "/types", "SMB_NMPIPE_STATUS", "plain"},
	{smbPrefix + "/types", "SMB_RESUME_KEY", "inner"},
	{smbPrefix + "/types", "SMB_DIRECTORY_INFORMATION", "plain"},
	{smbPrefix + "/types", "SMB_FILE_ATTRIBUTES", "plain"},
	{smbPrefix + "/message/commands/andx", "AndX", "plain"},
	{smbPrefix + "/message/parameters", "Parameters", "plain"},
	{smbPrefix + "/message/data", "Data", "plain"},
	{smbPrefix + "/spnego/ntlm/version", "Version", "plain"},
	{smbPrefix + "/message/securityfeatures", "SecurityFeaturesSecuritySignature", "plain"},
	{smbPrefix + "/message/securityfeatures", "SecurityFeaturesConnectionlessTransport", "plain"},
	{smbPrefix + "/message/securityfeatures", "SecurityFeaturesReserved", "plain"},
}

func runC06(c *Ctx) {
	p, r := c.P, c.R
	r.Explanation = "C06 SMB wire data types, decided structurally per type (17 types). `extract`: the encoder and decoder layouts are fully recognised; `sym`: the decoder reads the same fields in the same order, width and byte order as the encoder writes (per buffer format for SMB_STRING; through the inner block for SMB_RESUME_KEY; by delegation for OEM_STRING; by exact bit lanes for the packed SMB_DATE word: day = bits 0-4, month = bits 5-8, year-1980 = bits 9-15 in both directions with the same bias); `contig`: decoder offsets are the running sum of widths; `count`: the byte count returned on success equals the encoder's total width (fixed-size types: constant = sum of widths; variable-size: end of the last field plus the encoder's trailing constant bytes); `consumed`: on every success return 0 <= n <= len(data) for ALL inputs (E1), which is what makes the count meaningful with trailing bytes; `trailing`: the decoder never rejects on len(data) != K and len(data) flows only into comparisons, so unrelated trailing bytes cannot change the result. " +
		"Not decided: that values survive (equality of field values is implied by lane-exact symmetric layouts for whole-byte fields only), string content rules (embedded NUL), file-name space padding, and SMB_DATE values outside the lossless ranges (year 1980-2107, month < 16, day < 32: printed as the codec's domain restriction)."
	r.Assumptions = []string{"encoding/binary accessor layouts", "go/types + go/ssa faithful", "the lanes domain's transfer functions are exact (shifts, masks, or of disjoint lanes)"}
	w := prove.NewWorld(p)
	r.Floor("sym", 17)
	for _, wt := range c06Types {
		m := p.Func(wt.rel, wt.name, "Marshal")
		u := p.Func(wt.rel, wt.name, "Unmarshal")
		if m == nil || u == nil {
			r.Undecided("extract", wt.name, "", "Marshal or Unmarshal not found in "+wt.rel)
			continue
		}
		pos := p.Rel(u.Pos())
		if why := incompleteCodec(w, m, u); why != "" {
			for _, rule := range []string{"extract", "sym", "contig", "count", "consumed", "trailing"} {
				c.NotDecided(rule, wt.name, pos, why)
			}
			continue
		}
		c.guard("sym", wt.name, pos, func() {
			switch wt.mode {
			case "date":
				c06Date(c, w, m, u)
			case "cases":
				c06Cases(c, w, wt, m, u)
			case "inner":
				c06Inner(c, w, wt, m, u)
			default:
				c06Plain(c, w, wt, m, u)
			}
		})
		// consumed: 0 <= n <= len(data)
		_, obls := w.ConsumedObligations(u)
		if len(obls) == 0 {
			r.Undecided("consumed", wt.name, pos, "decoder does not have the (n int, err error) shape")
		}
		for _, o := range obls {
			emit(r, "consumed", fmt.Sprintf("%s.Unmarshal return #%d", wt.name, o.Ordinal), p.Rel(o.Ret.Pos()), o.Outcome)
		}
		c06Trailing(c, wt, u)
	}
}

func hasUnknown(as []codec.Atom) string {
	for _, a := range flatten(as) {
		if a.Kind == "unknown" {
			return a.Expr
		}
	}
	return ""
}

func totalWidth(as []codec.Atom) (int, bool) {
	n := 0
	for _, a := range as {
		switch a.Kind {
		case "fixed", "const", "pad":
			n += a.Width
		case "bytes":
			if a.Width == 0 {
				return 0, false
			}
			n += a.Width
		default:
			return 0, false
		}
	}
	return n, true
}

// successReturns: the values returned as byte count on returns whose error is nil.
func successReturns(fn *ssa.Function) []*ssa.Return {
	var out []*ssa.Return
	for _, b := range fn.Blocks {
		ret, ok := b.Instrs[len(b.Instrs)-1].(*ssa.Return)
		if !ok || len(ret.Results) != 2 {
			continue
		}
		if k, isK := ret.Results[1].(*ssa.Const); isK && k.Value == nil {
			out = append(out, ret)
		}
	}
	return out
}

func dropConst(as []codec.Atom) []codec.Atom {
	var out []codec.Atom
	for _, a := range as {
		if a.Kind == "const" || a.Kind == "pad" {
			continue
		}
		out = append(out, a)
	}
	return out
}

func c06Plain(c *Ctx, w *prove.World, wt wireType, m, u *ssa.Function) {
	p, r := c.P, c.R
	pos := p.Rel(u.Pos())
	encs := encStreams(w, m)
	enc, ok := encs["out"]
	if !ok {
		r.Undecided("extract", wt.name, pos, fmt.Sprintf("encoder has %d alternative results", len(encs)))
		return
	}
	decs, all := decStreams(w, u)
	if bad := hasUnknown(enc); bad != "" {
		c.NotDecided("extract", wt.name, pos, "encoder layout not recognised: "+bad)
		return
	}
	if bad := hasUnknown(all); bad != "" {
		c.NotDecided("extract", wt.name, pos, "decoder layout not recognised: "+bad)
		return
	}
	var dec []codec.Atom
	if len(decs) > 1 {
		// Data re-slices its input after the count (`data = data[2:]`): the φ/slice stream is the same buffer
		var ks []string
		for k := range decs {
			ks = append(ks, k)
		}
		sort.Strings(ks)
		if wt.name == "Data" || wt.name == "Parameters" {
			dec = decs["data"]
		} else {
			r.Undecided("extract", wt.name, pos, "decoder reads several buffers: "+strings.Join(ks, ", "))
			return
		}
	} else {
		for _, v := range decs {
			dec = v
		}
	}
	r.OK("extract", wt.name, pos, "enc ["+codec.Render(enc)+"] dec ["+codec.Render(dec)+"]")
	for _, a := range flatten(dec) {
		if a.Kind == "bytes" && a.WidthStr == "rest" {
			r.Fail("trailing", wt.name+".Unmarshal: field "+a.Field+" takes the rest of the input", pos, "a field that swallows all remaining bytes makes the result depend on unrelated trailing bytes")
		}
	}
	compareLayouts(c, "sym", wt.name, pos, enc, dec)
	checkContig(c, wt.name, pos, dec, 0)
	// count
	if tw, fixed := totalWidth(enc); fixed {
		for i, ret := range successReturns(u) {
			key := fmt.Sprintf("%s.Unmarshal success return #%d", wt.name, i+1)
			k, isK := ret.Results[0].(*ssa.Const)
			if isK && k.Value != nil && k.Value.Kind() == constant.Int {
				n, _ := constant.Int64Val(k.Value)
				if int(n) == tw {
					r.OK("count", key, p.Rel(ret.Pos()), fmt.Sprintf("returns %d = total encoded width", n))
				} else {
					r.Fail("count", key, p.Rel(ret.Pos()), fmt.Sprintf("returns %d but the encoding is %d bytes wide", n, tw))
				}
				continue
			}
			// a computed count: must entail the constant
			fi := w.Info(u)
			cx := fi.CtxBefore(ret)
			f := cx.Lin(ret.Results[0])
			if kv, isC := f.ConstVal(); isC && kv.IsInt64() && int(kv.Int64()) == tw {
				r.OK("count", key, p.Rel(ret.Pos()), fmt.Sprintf("returns %d = total encoded width", tw))
			} else if cx.Prove(lin.GE(f, lin.K(int64(tw)))) && cx.Prove(lin.LE(f, lin.K(int64(tw)))) {
				r.OK("count", key, p.Rel(ret.Pos()), fmt.Sprintf("returned count is entailed to be %d", tw))
			} else {
				r.Fail("count", key, p.Rel(ret.Pos()), fmt.Sprintf("returned count %s is not the encoded width %d", cx.Describe(lin.GE0(f)), tw))
			}
		}
	} else {
		c06VarCount(c, w, wt.name, u, enc, dec)
	}
}

// c06VarCount: variable-size type: returned count = end of the last decoded
// field + the encoder's trailing constant bytes.
func c06VarCount(c *Ctx, w *prove.World, name string, u *ssa.Function, enc, dec []codec.Atom) {
	p, r := c.P, c.R
	if len(dec) == 0 {
		return
	}
	trail := 0
	for i := len(enc) - 1; i >= 0 && (enc[i].Kind == "const" || enc[i].Kind == "pad"); i-- {
		trail += enc[i].Width
	}
	last := dec[len(dec)-1]
	if last.Kind == "repeat" {
		c06RepeatCount(c, w, name, u, last, trail)
		return
	}
	if last.OffForm == nil {
		r.OK("count", name+".Unmarshal count", p.Rel(u.Pos()), "last field has no offset form: the count is covered by `consumed` only")
		return
	}
	wf, ok := widthForm(&last)
	if !ok {
		r.OK("count", name+".Unmarshal count", p.Rel(u.Pos()), "last field has no symbolic width: the count is covered by `consumed` only")
		return
	}
	end := last.OffForm.Add(wf).AddK(int64(trail))
	fi := w.Info(u)
	n := 0
	for i, ret := range successReturns(u) {
		if last.At != nil && !(last.At.Block() == ret.Block() || last.At.Block().Dominates(ret.Block())) {
			continue // a different alternative
		}
		n++
		key := fmt.Sprintf("%s.Unmarshal success return #%d", name, i+1)
		cx := fi.CtxBefore(ret)
		f := cx.Lin(ret.Results[0])
		if f.Equal(end) || (cx.Prove(lin.GE(f, end)) && cx.Prove(lin.LE(f, end))) {
			r.OK("count", key, p.Rel(ret.Pos()), "returned count = end of the last field + trailing constant bytes")
		} else {
			r.Fail("count", key, p.Rel(ret.Pos()), fmt.Sprintf("returned count differs from the end of the last field %s (+%d trailing constant bytes)", last.Field, trail))
		}
	}
	if n == 0 {
		r.OK("count", name+".Unmarshal count", p.Rel(u.Pos()), "no success return after the last field in this alternative")
	}
}

// caseOf: the constant K such that block b executes only when field == K.
// casesOf: the constants k for which control reaches b through the true edge
// of a test `field == k` (a switch case with several values is entered from one
// such test per value). Empty when b is not inside a case body.
func casesOf(e *codec.Ext, b *ssa.BasicBlock, field string) []string {
	eqConst := func(p, to *ssa.BasicBlock) string {
		iff, ok := p.Instrs[len(p.Instrs)-1].(*ssa.If)
		if !ok || p.Succs[0] != to {
			return ""
		}
		bo, ok := iff.Cond.(*ssa.BinOp)
		if !ok || bo.Op != token.EQL {
			return ""
		}
		for _, pair := range [][2]ssa.Value{{bo.X, bo.Y}, {bo.Y, bo.X}} {
			k, isK := pair[1].(*ssa.Const)
			if !isK || k.Value == nil {
				continue
			}
			if f, _, _ := e.ValueSrc(pair[0]); f == field {
				return k.Value.ExactString()
			}
		}
		return ""
	}
	for x := b; x != nil; x = x.Idom() {
		if len(x.Preds) == 0 {
			continue
		}
		var ks []string
		for _, p := range x.Preds {
			k := eqConst(p, x)
			if k == "" {
				ks = nil
				break
			}
			ks = append(ks, k)
		}
		if len(ks) > 0 {
			sort.Strings(ks)
			return ks
		}
	}
	return nil
}

func caseOf(e *codec.Ext, b *ssa.BasicBlock, field string) string {
	if ks := casesOf(e, b, field); len(ks) > 1 {
		return ""
	}
	for x := b; x != nil; x = x.Idom() {
		d := x.Idom()
		if d == nil || len(x.Preds) != 1 || x.Preds[0] != d {
			continue
		}
		iff, ok := d.Instrs[len(d.Instrs)-1].(*ssa.If)
		if !ok || d.Succs[0] != x {
			continue
		}
		bo, ok := iff.Cond.(*ssa.BinOp)
		if !ok || bo.Op != token.EQL {
			continue
		}
		for _, pair := range [][2]ssa.Value{{bo.X, bo.Y}, {bo.Y, bo.X}} {
			k, isK := pair[1].(*ssa.Const)
			if !isK || k.Value == nil {
				continue
			}
			if f, _, _ := e.ValueSrc(pair[0]); f == field {
				return k.Value.ExactString()
			}
		}
	}
	return ""
}

func c06Cases(c *Ctx, w *prove.World, wt wireType, m, u *ssa.Function) {
	p, r := c.P, c.R
	pos := p.Rel(u.Pos())
	em := codec.NewExt(w, m)
	// formats handled by a case body shared with other formats: the body may branch
	// on the format again, so the per-format layout is not read off it
	shared := map[string]string{}
	// encoder alternatives: edges of the φ returned on success
	encCase := map[string][]codec.Atom{}
	for _, ret := range successReturnsEnc(m) {
		phi, ok := ret.Results[0].(*ssa.Phi)
		if !ok {
			r.Undecided("extract", wt.name, pos, "encoder does not merge per-format buffers in a φ")
			return
		}
		for i, ed := range phi.Edges {
			ksE := casesOf(em, phi.Block().Preds[i], "BufferFormat")
			if len(ksE) > 1 {
				for _, k := range ksE {
					shared[k] = "Marshal encodes formats " + strings.Join(ksE, ", ") + " in one shared case body"
				}
				continue
			}
			k := caseOf(em, phi.Block().Preds[i], "BufferFormat")
			if k == "" {
				continue
			}
			seq := em.Seq(ed)
			if prev, dup := encCase[k]; dup && codec.Render(prev) != codec.Render(seq) {
				// the same buffer format is encoded in two different ways depending on the DATA
				// (e.g. a terminator appended only when the payload does not already end in 0x00)
				r.Fail("sym", fmt.Sprintf("%s format %s: one encoding per format", wt.name, k), p.Rel(ed.Pos()), fmt.Sprintf("two different layouts reach the result for this format: [%s] and [%s]; the decoder can only undo one of them", codec.Render(prev), codec.Render(seq)))
				if len(seq) < len(prev) {
					continue
				}
			}
			encCase[k] = seq
		}
	}
	eu := codec.NewExt(w, u)
	decCase := map[string][]codec.Atom{}
	var common []codec.Atom
	for _, a := range eu.Decoded() {
		k := ""
		if a.At != nil {
			if ksD := casesOf(eu, a.At.Block(), "BufferFormat"); len(ksD) > 1 {
				for _, kk := range ksD {
					shared[kk] = "Unmarshal decodes formats " + strings.Join(ksD, ", ") + " in one shared case body"
					decCase[kk] = append(decCase[kk], a)
				}
				continue
			}
			k = caseOf(eu, a.At.Block(), "BufferFormat")
		}
		if k == "" {
			common = append(common, a)
			continue
		}
		decCase[k] = append(decCase[k], a)
	}
	// tail delegation: a case whose body is `return recv.helper(data)` is decoded
	// by that helper (extract-method refactor); the helper is analysed in its place
	delegate := map[string]*ssa.Function{}
	for _, b := range u.Blocks {
		h := tailDelegate(u, b)
		if h == nil {
			continue
		}
		if k := caseOf(eu, b, "BufferFormat"); k != "" {
			delegate[k] = h
			eh := codec.NewExt(w, h)
			decCase[k] = append(decCase[k], eh.Decoded()...)
		}
	}
	var ks []string
	for k := range encCase {
		ks = append(ks, k)
	}
	for k := range decCase {
		if _, ok := encCase[k]; !ok {
			ks = append(ks, k)
		}
	}
	sort.Strings(ks)
	if len(ks) < 5 {
		r.Undecided("extract", wt.name, pos, fmt.Sprintf("only %d buffer formats recognised", len(ks)))
	}
	for _, k := range ks {
		key := fmt.Sprintf("%s format %s", wt.name, k)
		if why := shared[k]; why != "" {
			for _, rule := range []string{"extract", "sym"} {
				c.NotDecided(rule, key, pos, why+"; the layout of one format cannot be separated from the others' there")
			}
			continue
		}
		if _, have := encCase[k]; !have && len(encCase) == 0 {
			// Marshal has no per-format branch at all (the layout is chosen some other
			// way: flags returned by a helper, a table): the per-format layout is not read off it
			for _, rule := range []string{"extract", "sym"} {
				c.NotDecided(rule, key, pos, "Marshal has no `BufferFormat == "+k+"` branch whose result could be read as this format's layout (the layout is selected by a helper or a table)")
			}
			continue
		}
		if _, have := decCase[k]; !have && len(decCase) == 0 && len(delegate) == 0 {
			// symmetric: Unmarshal never branches on the format constants (a layout
			// table indexed by the format, flags returned by a helper)
			for _, rule := range []string{"extract", "sym"} {
				c.NotDecided(rule, key, pos, "Unmarshal has no `BufferFormat == "+k+"` branch whose reads could be taken as this format's layout (the layout is selected by a table or a helper)")
			}
			continue
		}
		enc := encCase[k]
		dec := append(append([]codec.Atom{}, common...), decCase[k]...)
		for i := range dec {
			dec[i].Cond = false
		}
		for i := range enc {
			enc[i].Cond = false
		}
		if bad := hasUnknown(enc); bad != "" {
			c.NotDecided("extract", key, pos, "encoder: "+bad)
			continue
		}
		if bad := hasUnknown(dec); bad != "" {
			c.NotDecided("extract", key, pos, "decoder: "+bad)
			continue
		}
		r.OK("extract", key, pos, "enc ["+codec.Render(enc)+"] dec ["+codec.Render(dec)+"]")
		c06Terminator(c, m, key, pos, enc)
		c06LenSlot(c, w, m, em, k, key, pos, dec)
		compareLayouts(c, "sym", key, pos, dropConst(enc), dec)
		checkContig(c, key, pos, dec, 0)
		if h := delegate[k]; h != nil {
			c06VarCount(c, w, key, h, enc, dec)
		} else {
			c06VarCount(c, w, key, u, enc, dec)
		}
	}
}

// tailDelegate: block b of decoder u ends in `return h(recv, data)` forwarding
// both results of a static call to a method of the same receiver type that is
// handed u's receiver and u's input buffer unchanged. Returns h.
func tailDelegate(u *ssa.Function, b *ssa.BasicBlock) *ssa.Function {
	ret, ok := b.Instrs[len(b.Instrs)-1].(*ssa.Return)
	if !ok || len(ret.Results) != 2 {
		return nil
	}
	e0, ok0 := ret.Results[0].(*ssa.Extract)
	e1, ok1 := ret.Results[1].(*ssa.Extract)
	if !ok0 || !ok1 || e0.Tuple != e1.Tuple || e0.Index != 0 || e1.Index != 1 {
		return nil
	}
	call, ok := e0.Tuple.(*ssa.Call)
	if !ok {
		return nil
	}
	h := call.Common().StaticCallee()
	if h == nil || h.Blocks == nil || h.Signature.Recv() == nil || len(u.Params) < 2 || len(call.Common().Args) != 2 {
		return nil
	}
	if call.Common().Args[0] != ssa.Value(u.Params[0]) || call.Common().Args[1] != ssa.Value(u.Params[1]) {
		return nil
	}
	if !types.Identical(h.Signature.Recv().Type(), u.Signature.Recv().Type()) {
		return nil
	}
	return h
}

func successReturnsEnc(fn *ssa.Function) []*ssa.Return {
	var out []*ssa.Return
	for _, b := range fn.Blocks {
		ret, ok := b.Instrs[len(b.Instrs)-1].(*ssa.Return)
		if !ok || len(ret.Results) != 2 {
			continue
		}
		if k, isK := ret.Results[1].(*ssa.Const); isK && k.Value == nil {
			if k0, isK0 := ret.Results[0].(*ssa.Const); isK0 && k0.Value == nil {
				continue
			}
			out = append(out, ret)
		}
	}
	return out
}

// c06Inner: SMB_RESUME_KEY builds an inner block, stores it into the embedded
// SMB_STRING's Buffer and delegates; the decoder delegates and then reads the
// inner block back from that Buffer.
func c06Inner(c *Ctx, w *prove.World, wt wireType, m, u *ssa.Function) {
	p, r := c.P, c.R
	pos := p.Rel(u.Pos())
	em := codec.NewExt(w, m)
	var inner []codec.Atom
	found := false
	for _, b := range m.Blocks {
		for _, in := range b.Instrs {
			st, ok := in.(*ssa.Store)
			if !ok {
				continue
			}
			if pth, ok := em.FieldPath(st.Addr); ok && pth == "SMB_STRING.Buffer" {
				inner = em.Seq(st.Val)
				found = true
				// the inner block must be rebuilt on every call: the store dominates every return
				for _, b2 := range m.Blocks {
					if ret, isRet := b2.Instrs[len(b2.Instrs)-1].(*ssa.Return); isRet {
						if !(st.Block() == ret.Block() || st.Block().Dominates(ret.Block())) {
							r.Fail("sym", wt.name+" inner block is rebuilt on every Marshal", p.Rel(st.Pos()), "the store of the freshly built inner block into SMB_STRING.Buffer does not dominate every return: a stale block left by an earlier Marshal/Unmarshal can be re-emitted after the fields changed")
						}
					}
				}
			}
		}
	}
	if !found {
		r.Undecided("extract", wt.name, pos, "encoder does not store an inner block into SMB_STRING.Buffer")
		return
	}
	outer := encStreams(w, m)["out"]
	decs, _ := decStreams(w, u)
	decInner := decs["field SMB_STRING.Buffer"]
	decOuter := decs["data"]
	if bad := hasUnknown(append(append([]codec.Atom{}, inner...), decInner...)); bad != "" {
		c.NotDecided("extract", wt.name, pos, bad)
		return
	}
	r.OK("extract", wt.name, pos, "inner enc ["+codec.Render(inner)+"] dec ["+codec.Render(decInner)+"]; outer enc ["+codec.Render(outer)+"] dec ["+codec.Render(decOuter)+"]")
	compareLayouts(c, "sym", wt.name+" inner block", pos, inner, decInner)
	compareLayouts(c, "sym", wt.name, pos, outer, decOuter)
	checkContig(c, wt.name+" inner block", pos, decInner, 0)
}

// c06Date: exact bit lanes of the packed date word.
func c06Date(c *Ctx, w *prove.World, m, u *ssa.Function) {
	p, r := c.P, c.R
	pos := p.Rel(m.Pos())
	// encoder: the 16-bit value handed to PutUint16 / emitted
	var put *ssa.Call
	for _, b := range m.Blocks {
		for _, in := range b.Instrs {
			if call, ok := in.(*ssa.Call); ok {
				if name, order, ok := binAccessor(call); ok && (name == "PutUint16" || name == "AppendUint16") {
					put = call
					if order != "LE" {
						r.Fail("sym", "SMB_DATE word byte order", p.Rel(call.Pos()), "the packed date word is not written little-endian")
					}
				}
			}
		}
	}
	if put == nil {
		c.NotDecided("sym", "SMB_DATE.Marshal", pos, "the packed word is not written through encoding/binary (PutUint16/AppendUint16): byte-wise emission is outside this rule's method")
		return
	}
	em := codec.NewExt(w, m)
	const (
		srcYear = 1 + iota
		srcMonth
		srcDay
		srcWire
	)
	biasEnc := ""
	an := &lanes.Analyzer{InModule: p.InModule}
	an.Leaf = func(f *lanes.Frame, v ssa.Value) (lanes.Vec, bool) {
		// (Year - K) is an affine-tagged source
		if bo, ok := v.(*ssa.BinOp); ok && bo.Op == token.SUB {
			if fld, _, _ := em.ValueSrc(bo.X); fld == "Year" {
				if k, isK := bo.Y.(*ssa.Const); isK && k.Value != nil {
					biasEnc = k.Value.ExactString()
					return srcVec(srcYear, 16), true
				}
			}
		}
		fld, _, _ := em.ValueSrc(v)
		if _, isLoad := v.(*ssa.UnOp); isLoad {
			switch fld {
			case "Year":
				return srcVec(srcYear, 16), true
			case "Month":
				return srcVec(srcMonth, 8), true
			case "Day":
				return srcVec(srcDay, 8), true
			}
		}
		return nil, false
	}
	fr := an.Root(m)
	got := fr.Lanes(put.Common().Args[2])
	want := make(lanes.Vec, 16)
	for i := 0; i < 5; i++ {
		want[i] = lanes.Bit{K: lanes.Src, S: srcDay, B: i}
	}
	for i := 0; i < 4; i++ {
		want[5+i] = lanes.Bit{K: lanes.Src, S: srcMonth, B: i}
	}
	for i := 0; i < 7; i++ {
		want[9+i] = lanes.Bit{K: lanes.Src, S: srcYear, B: i}
	}
	name := func(b lanes.Bit) string {
		return map[int]string{srcYear: "(Year-bias)", srcMonth: "Month", srcDay: "Day", srcWire: "word"}[b.S] + fmt.Sprintf("[%d]", b.B)
	}
	// the encoder ORs unmasked fields: bits above the slot of Day/Month spill into the neighbours unless
	// the value is in range; accept a lane that is the wanted bit OR'ed with spill (⊤) only as domain restriction
	encOK := true
	var spill []int
	for i := range want {
		if i >= len(got) {
			encOK = false
			break
		}
		if got[i] == want[i] {
			continue
		}
		if got[i].K == lanes.Top {
			spill = append(spill, i)
			continue
		}
		encOK = false
	}
	switch {
	case !encOK:
		r.Fail("sym", "SMB_DATE.Marshal lanes", pos, "packed word is "+got.String(name)+", MS-CIFS SMB_DATE is year-1980 in bits 9-15, month in 5-8, day in 0-4")
	case len(spill) > 0:
		// verify structurally that the spill comes from unmasked wider fields, i.e. the three shifts are 9, 5, 0
		if c06DateShifts(put.Common().Args[2], em) {
			r.OK("sym", "SMB_DATE.Marshal lanes", pos, fmt.Sprintf("year-1980 << 9 | month << 5 | day; fields are not masked, so the codec is lossless only for month < 16, day < 32, year 1980..2107 (domain restriction; overlapping lanes %v)", spill))
		} else {
			r.Fail("sym", "SMB_DATE.Marshal lanes", pos, "packed word is "+got.String(name))
		}
	default:
		r.OK("sym", "SMB_DATE.Marshal lanes", pos, got.String(name))
	}
	// decoder: each stored field comes from the mirror bits
	eu := codec.NewExt(w, u)
	var get *ssa.Call
	for _, b := range u.Blocks {
		for _, in := range b.Instrs {
			if call, ok := in.(*ssa.Call); ok {
				if name, order, ok := binAccessor(call); ok && name == "Uint16" {
					get = call
					if order != "LE" {
						r.Fail("sym", "SMB_DATE word byte order (decode)", p.Rel(call.Pos()), "the packed date word is not read little-endian")
					}
				}
			}
		}
	}
	if get == nil {
		c.NotDecided("sym", "SMB_DATE.Unmarshal", p.Rel(u.Pos()), "the packed word is not read through encoding/binary Uint16: byte-wise assembly is outside this rule's method")
		return
	}
	an2 := &lanes.Analyzer{InModule: p.InModule}
	an2.Leaf = func(f *lanes.Frame, v ssa.Value) (lanes.Vec, bool) {
		if v == ssa.Value(get) {
			return srcVec(srcWire, 16), true
		}
		return nil, false
	}
	fr2 := an2.Root(u)
	wantDec := map[string][2]int{"Year": {9, 7}, "Month": {5, 4}, "Day": {0, 5}}
	seen := map[string]bool{}
	for _, b := range u.Blocks {
		for _, in := range b.Instrs {
			st, ok := in.(*ssa.Store)
			if !ok {
				continue
			}
			fld, ok := eu.FieldPath(st.Addr)
			if !ok {
				continue
			}
			spec, ok := wantDec[fld]
			if !ok {
				continue
			}
			seen[fld] = true
			v := st.Val
			bias := ""
			for {
				if cv, isC := v.(*ssa.Convert); isC {
					v = cv.X
					continue
				}
				break
			}
			if fld == "Year" {
				if bo, isB := v.(*ssa.BinOp); isB && bo.Op == token.ADD {
					if k, isK := bo.Y.(*ssa.Const); isK && k.Value != nil {
						bias = k.Value.ExactString()
						v = bo.X
					}
				}
				if bias != biasEnc || bias == "" {
					r.Fail("sym", "SMB_DATE year bias", p.Rel(st.Pos()), fmt.Sprintf("encoder subtracts %q, decoder adds %q", biasEnc, bias))
				} else {
					r.OK("sym", "SMB_DATE year bias", p.Rel(st.Pos()), "encoder subtracts and decoder adds "+bias)
				}
			}
			gv := fr2.Lanes(v)
			okL := true
			for i := 0; i < len(gv); i++ {
				var wb lanes.Bit
				if i < spec[1] {
					wb = lanes.Bit{K: lanes.Src, S: srcWire, I: (spec[0] + i) / 8, B: (spec[0] + i) % 8}
				}
				if gv[i] != wb {
					// sources of a scalar have I == 0: accept both encodings of the wire word
					alt := lanes.Bit{K: lanes.Src, S: srcWire, B: spec[0] + i}
					if i < spec[1] && gv[i] == alt {
						continue
					}
					okL = false
				}
			}
			if okL {
				r.OK("sym", "SMB_DATE.Unmarshal "+fld+" lanes", p.Rel(st.Pos()), fmt.Sprintf("%s = word bits %d..%d", fld, spec[0], spec[0]+spec[1]-1))
			} else {
				r.Fail("sym", "SMB_DATE.Unmarshal "+fld+" lanes", p.Rel(st.Pos()), fmt.Sprintf("%s is %s, expected word bits %d..%d", fld, gv.String(name), spec[0], spec[0]+spec[1]-1))
			}
		}
	}
	for f := range wantDec {
		if !seen[f] {
			r.Fail("sym", "SMB_DATE.Unmarshal "+f+" lanes", p.Rel(u.Pos()), "field "+f+" is never decoded")
		}
	}
	// count
	for i, ret := range successReturns(u) {
		k, isK := ret.Results[0].(*ssa.Const)
		key := fmt.Sprintf("SMB_DATE.Unmarshal success return #%d", i+1)
		if isK && k.Value != nil && k.Value.ExactString() == "2" {
			r.OK("count", key, p.Rel(ret.Pos()), "returns 2 = width of the packed word")
		} else {
			r.Fail("count", key, p.Rel(ret.Pos()), "does not return the constant 2")
		}
	}
}

func srcVec(s, w int) lanes.Vec {
	v := make(lanes.Vec, w)
	for i := range v {
		v[i] = lanes.Bit{K: lanes.Src, S: s, B: i}
	}
	return v
}

// c06DateShifts: value is (Year-K)<<9 | Month<<5 | Day (any association/order).
func c06DateShifts(v ssa.Value, e *codec.Ext) bool {
	shifts := map[string]int64{}
	var walk func(v ssa.Value, sh int64) bool
	walk = func(v ssa.Value, sh int64) bool {
		for {
			if cv, ok := v.(*ssa.Convert); ok {
				v = cv.X
				continue
			}
			break
		}
		if bo, ok := v.(*ssa.BinOp); ok {
			switch bo.Op {
			case token.OR:
				return walk(bo.X, sh) && walk(bo.Y, sh)
			case token.SHL:
				if k, isK := bo.Y.(*ssa.Const); isK && k.Value != nil {
					n, _ := constant.Int64Val(k.Value)
					return walk(bo.X, sh+n)
				}
				return false
			case token.SUB:
				if f, _, _ := e.ValueSrc(bo.X); f == "Year" {
					shifts["Year"] = sh
					return true
				}
				return false
			}
			return false
		}
		if k, ok := v.(*ssa.Const); ok && k.Value != nil && k.Value.ExactString() == "0" {
			return true
		}
		f, _, _ := e.ValueSrc(v)
		if f == "Month" || f == "Day" {
			shifts[f] = sh
			return true
		}
		return false
	}
	if !walk(v, 0) {
		return false
	}
	return shifts["Year"] == 9 && shifts["Month"] == 5 && shifts["Day"] == 0 && len(shifts) == 3
}

// c06Trailing: the decoder must tolerate unrelated trailing bytes.
func c06Trailing(c *Ctx, wt wireType, u *ssa.Function) {
	p, r := c.P, c.R
	pos := p.Rel(u.Pos())
	var data *ssa.Parameter
	for _, prm := range u.Params {
		if prove.IsByteSeq(prm.Type()) {
			data = prm
		}
	}
	if data == nil {
		r.Undecided("trailing", wt.name, pos, "no byte-slice parameter")
		return
	}
	ok := true
	n := 0
	for _, b := range u.Blocks {
		for _, in := range b.Instrs {
			call, isC := in.(*ssa.Call)
			if !isC {
				continue
			}
			bi, isB := call.Call.Value.(*ssa.Builtin)
			if !isB || bi.Name() != "len" || !lenDependsOnInput(call.Call.Args[0], data, 0) {
				continue
			}
			for _, ref := range *call.Referrers() {
				n++
				switch y := ref.(type) {
				case *ssa.BinOp:
					switch y.Op {
					case token.LSS, token.LEQ, token.GTR, token.GEQ:
						continue
					case token.EQL, token.NEQ:
						// allowed only against 0 (emptiness test)
						other := y.Y
						if other == ssa.Value(call) {
							other = y.X
						}
						if k, isK := other.(*ssa.Const); isK && k.Value != nil && k.Value.ExactString() == "0" {
							continue
						}
						ok = false
						r.Fail("trailing", wt.name+".Unmarshal: len(data) "+y.Op.String()+" "+valStr(other), p.Rel(y.Pos()), "the decoder accepts only an exact input length, so an encoding followed by trailing bytes is rejected")
						continue
					case token.SUB, token.ADD:
						// len(data)-k used in a comparison or as a slice bound of data itself is fine; anything else is value flow
						if onlyComparedOrBounds(y) {
							continue
						}
					}
				case *ssa.DebugRef:
					continue
				case *ssa.MakeInterface:
					// boxed for an error message (fmt.Errorf("… %d", len(data)))
					if onlyErrorText(y) {
						continue
					}
				}
				ok = false
				r.Fail("trailing", wt.name+".Unmarshal: len(data) flows into "+ref.String(), p.Rel(ref.Pos()), "the input length influences a decoded value or the returned count other than through a guard")
			}
		}
	}
	if ok {
		r.OK("trailing", wt.name, pos, fmt.Sprintf("len(data) is used %d times, only in ordering comparisons / bounds", n))
	}
}

func valStr(v ssa.Value) string {
	if k, ok := v.(*ssa.Const); ok && k.Value != nil {
		return k.Value.ExactString()
	}
	return v.Name()
}

func onlyComparedOrBounds(v ssa.Value) bool {
	refs := v.Referrers()
	if refs == nil {
		return true
	}
	for _, r := range *refs {
		switch y := r.(type) {
		case *ssa.BinOp:
			if isCmpTok(y.Op) {
				continue
			}
			if (y.Op == token.ADD || y.Op == token.SUB) && onlyComparedOrBounds(y) {
				continue
			}
			return false
		case *ssa.DebugRef:
			continue
		default:
			return false
		}
	}
	return true
}

func isCmpTok(op token.Token) bool {
	switch op {
	case token.LSS, token.LEQ, token.GTR, token.GEQ, token.EQL, token.NEQ:
		return true
	}
	return false
}

var _ = types.Typ

// viewOf: v is the parameter itself or a (re-)slice of it.
func viewOf(v ssa.Value, data *ssa.Parameter) bool {
	for steps := 0; steps < 8; steps++ {
		if v == ssa.Value(data) {
			return true
		}
		switch x := v.(type) {
		case *ssa.Slice:
			v = x.X
		case *ssa.Phi:
			for _, e := range x.Edges {
				if e != ssa.Value(x) && viewOf(e, data) {
					return true
				}
			}
			return false
		default:
			return false
		}
	}
	return false
}

// onlyErrorText: an interface value that is only stored into the variadic
// argument array of fmt.Errorf / fmt.Sprintf.
func onlyErrorText(mi *ssa.MakeInterface) bool {
	if mi.Referrers() == nil {
		return true
	}
	for _, ref := range *mi.Referrers() {
		st, ok := ref.(*ssa.Store)
		if !ok {
			return false
		}
		ia, ok := st.Addr.(*ssa.IndexAddr)
		if !ok {
			return false
		}
		al, ok := ia.X.(*ssa.Alloc)
		if !ok || al.Comment != "varargs" {
			return false
		}
		for _, r2 := range *al.Referrers() {
			sl, ok := r2.(*ssa.Slice)
			if !ok {
				continue
			}
			for _, r3 := range *sl.Referrers() {
				call, ok := r3.(*ssa.Call)
				if !ok {
					return false
				}
				switch prove.StaticName(call.Common()) {
				case "fmt.Errorf", "fmt.Sprintf":
				default:
					return false
				}
			}
		}
	}
	return true
}

// c06RepeatCount: the type ends in a counted loop of fixed-width elements:
// the count returned on success must be start + width·N, N being the loop
// bound (the count field), computed without wrap.
func c06RepeatCount(c *Ctx, w *prove.World, name string, u *ssa.Function, rep codec.Atom, trail int) {
	p, r := c.P, c.R
	key := name + ".Unmarshal count after the element loop"
	if len(rep.Body) != 1 || rep.Body[0].Width == 0 || rep.Body[0].OffForm == nil || rep.Body[0].At == nil {
		r.OK("count", key, p.Rel(u.Pos()), "loop body is not a single fixed-width element: covered by `consumed` only")
		return
	}
	el := rep.Body[0]
	// loop header and its bound
	var hb *ssa.BasicBlock
	for x := el.At.Block(); x != nil && hb == nil; x = x.Idom() {
		for _, pr := range x.Preds {
			if x.Dominates(pr) {
				hb = x
			}
		}
	}
	if hb == nil {
		r.Undecided("count", key, p.Rel(u.Pos()), "loop header not found")
		return
	}
	iff, ok := hb.Instrs[len(hb.Instrs)-1].(*ssa.If)
	if !ok {
		r.Undecided("count", key, p.Rel(u.Pos()), "loop header has no bound test")
		return
	}
	cmp, ok := iff.Cond.(*ssa.BinOp)
	if !ok || (cmp.Op != token.LSS && cmp.Op != token.GTR) {
		r.Undecided("count", key, p.Rel(u.Pos()), "loop bound test is not i < N")
		return
	}
	bound := cmp.Y
	if cmp.Op == token.GTR {
		bound = cmp.X
	}
	// element offset is stride·i + start: take start and stride from the form
	var start lin.Form = lin.K(0)
	stride := int64(0)
	fi := w.Info(u)
	for _, t := range el.OffForm.Terms() {
		v, _ := fi.TermValue(t)
		if ph, isPhi := v.(*ssa.Phi); isPhi && ph.Block() == hb {
			stride = el.OffForm.Coef[t].Int64()
			// the counter's value in the first iteration (range loops start their φ at -1)
			for i, pr := range hb.Preds {
				if hb.Dominates(pr) {
					continue
				}
				if k, isK := ph.Edges[i].(*ssa.Const); isK && k.Value != nil {
					if n, exact := constant.Int64Val(k.Value); exact {
						start = start.AddK(n * stride)
					}
				}
			}
			continue
		}
		start = start.Add(lin.V(t).Scale(el.OffForm.Coef[t]))
	}
	start = start.Add(lin.KB(el.OffForm.C))
	if stride != int64(el.Width) {
		r.Fail("count", key, p.Rel(el.Pos), fmt.Sprintf("elements are %d bytes wide but the loop advances by %d", el.Width, stride))
		return
	}
	n := 0
	for i, ret := range successReturns(u) {
		if hb != ret.Block() && !blockReaches(hb, ret.Block()) {
			// an early success return before the loop (the empty case): its count is
			// covered by `consumed`; the element-count relation is about returns after the loop
			continue
		}
		cx := fi.CtxBefore(ret)
		want := start.Add(cx.Lin(bound).ScaleI(int64(el.Width))).AddK(int64(trail))
		got := cx.Lin(ret.Results[0])
		rkey := fmt.Sprintf("%s (success return #%d)", key, i+1)
		n++
		if cx.Prove(lin.GE(got, want)) && cx.Prove(lin.LE(got, want)) {
			r.OK("count", rkey, p.Rel(ret.Pos()), fmt.Sprintf("returned count = %s + %d·(element count)", cx.Describe(lin.GE0(start)), el.Width))
		} else {
			r.Fail("count", rkey, p.Rel(ret.Pos()), fmt.Sprintf("returned count is not start + %d·N for the element count N the loop is bounded by (computed without wrap): %s", el.Width, cx.Describe(lin.GE(got, want))))
		}
	}
	if n == 0 {
		r.Undecided("count", key, p.Rel(u.Pos()), "no success return")
	}
}

// lenDependsOnInput: does len(v) vary with the length of the input parameter?
// A view with an explicit upper bound (data[a:b]) has length b-a whatever
// follows it in the input; only open-ended views (data, data[a:]) carry the
// input length — unless the bound itself is computed from such a length.
func lenDependsOnInput(v ssa.Value, data *ssa.Parameter, depth int) bool {
	if depth > 8 {
		return true
	}
	if v == ssa.Value(data) {
		return true
	}
	switch x := v.(type) {
	case *ssa.Slice:
		if x.High == nil {
			return lenDependsOnInput(x.X, data, depth+1)
		}
		return intDependsOnInputLen(x.High, data, depth+1) || (x.Low != nil && intDependsOnInputLen(x.Low, data, depth+1))
	case *ssa.Phi:
		for _, e := range x.Edges {
			if e != ssa.Value(x) && lenDependsOnInput(e, data, depth+1) {
				return true
			}
		}
		return false
	}
	return false
}

func intDependsOnInputLen(v ssa.Value, data *ssa.Parameter, depth int) bool {
	if depth > 8 {
		return true
	}
	switch x := v.(type) {
	case *ssa.Const:
		return false
	case *ssa.Call:
		if bi, ok := x.Call.Value.(*ssa.Builtin); ok && bi.Name() == "len" {
			return lenDependsOnInput(x.Call.Args[0], data, depth+1)
		}
		return false
	case *ssa.BinOp:
		return intDependsOnInputLen(x.X, data, depth+1) || intDependsOnInputLen(x.Y, data, depth+1)
	case *ssa.Convert:
		return intDependsOnInputLen(x.X, data, depth+1)
	case *ssa.Phi:
		for _, e := range x.Edges {
			if e != ssa.Value(x) && intDependsOnInputLen(e, data, depth+1) {
				return true
			}
		}
	}
	return false
}

func blockReaches(from, to *ssa.BasicBlock) bool {
	seen := map[*ssa.BasicBlock]bool{}
	work := []*ssa.BasicBlock{from}
	for len(work) > 0 {
		x := work[len(work)-1]
		work = work[:len(work)-1]
		for _, s := range x.Succs {
			if s == to {
				return true
			}
			if !seen[s] {
				seen[s] = true
				work = append(work, s)
			}
		}
	}
	return false
}

// c06Terminator: in a NUL-terminated alternative (payload bytes followed by a
// constant 0 byte) the terminator must be emitted on EVERY path that emitted
// the payload — a terminator skipped "when the payload already ends in 0x00"
// makes the next field start one byte early.
func c06Terminator(c *Ctx, m *ssa.Function, key, pos string, enc []codec.Atom) {
	n := len(enc)
	if n < 2 || enc[n-1].Kind != "const" || enc[n-1].Expr != "0" || enc[n-1].Width != 1 || enc[n-2].Kind != "bytes" {
		return
	}
	blockAt := func(pp token.Pos) *ssa.BasicBlock {
		if !pp.IsValid() {
			return nil
		}
		for _, b := range m.Blocks {
			for _, in := range b.Instrs {
				if in.Pos() == pp {
					return b
				}
			}
		}
		return nil
	}
	pb, tb := blockAt(enc[n-2].Pos), blockAt(enc[n-1].Pos)
	if pb == nil || tb == nil {
		return
	}
	rkey := key + ": terminator emitted whenever the payload is"
	if pb == tb {
		c.R.OK("sym", rkey, pos, "payload and terminator are appended in the same block")
		return
	}
	// a path from the payload's block to a return that avoids the terminator's block?
	seen := map[*ssa.BasicBlock]bool{tb: true}
	work := []*ssa.BasicBlock{pb}
	for len(work) > 0 {
		x := work[len(work)-1]
		work = work[:len(work)-1]
		if seen[x] {
			continue
		}
		seen[x] = true
		if ret, ok := x.Instrs[len(x.Instrs)-1].(*ssa.Return); ok && x != pb {
			if k, isK := ret.Results[len(ret.Results)-1].(*ssa.Const); isK && k.Value == nil {
				c.R.Fail("sym", rkey, c.P.Rel(enc[n-1].Pos), "the NUL terminator is appended only on some paths after the payload (a success return at "+c.P.Rel(ret.Pos())+" is reachable without it): a payload for which it is skipped is encoded one byte short, and the following field is mis-framed")
				return
			}
		}
		for _, su := range x.Succs {
			work = append(work, su)
		}
	}
	c.R.OK("sym", rkey, pos, "every success path after the payload passes through the terminator")
}
