package rules

import (
	"fmt"

	"golang.org/x/tools/go/ssa"

	"manticheck/internal/flow"
	"manticheck/internal/lanes"
)

// C01 — groups settled by symbolic evaluation when the shape recognisers of
// c01.go report anything (see crypto_sx.go for the protocol).

// r2lm: LMHash. The recogniser (r2lmSyn + keySpread) knows the written-out and
// the helper forms; anything else — the two chains as iterations of a loop over
// the halves, the key spread by a loop with computed shifts, a key returned as
// an array value, the magic as a package-level array, windows with computed
// bounds … — is decided by evaluating LMHash.
func (x *c01) r2lm() {
	if x.fLMHash == nil {
		return
	}
	g := x.begin()
	x.r2lmSyn()
	if g.clean() {
		return
	}
	x.bySx(g, x.fLMHash, nil, []*ssa.Function{x.fLMHash}, map[string]int{c01R2: 9, c01R4: 16}, func(r sxRun) []specItem {
		return x.lmSpec(r)
	})
}

// lmSpec: LMHash(password) = DES(K(P[0:7]), "KGS!@#$%") ‖ DES(K(P[7:14]), "KGS!@#$%")
// where P = ToUpper(password) truncated / NUL-padded to 14 bytes and K spreads
// the 56 bits of a 7-byte half over bits 7..1 of 8 key bytes.
func (x *c01) lmSpec(r sxRun) []specItem {
	fn := x.fLMHash
	name := x.P.FuncName(fn)
	var out []specItem
	add := func(rule, construct string, ok bool, msg string) {
		out = append(out, specItem{rule: rule, construct: construct, ok: ok, msg: msg})
	}
	rc := name + ": return = Encrypt(key1) ‖ Encrypt(key2)"
	if len(r.res) == 0 || r.res[0] == nil {
		add(c01R2, rc, false, "the function returns no byte string")
		return out
	}
	R := r.res[0]
	parts := R.Parts()
	wellFormed := len(parts) == 2
	for _, p := range parts {
		if p.Op != "des" || len(p.A) != 2 || len(p.KV) != 8 {
			wellFormed = false
			continue
		}
		for _, kv := range p.KV {
			if len(kv) != 8 {
				wellFormed = false
			}
		}
	}
	if !wellFormed {
		it := specItem{rule: c01R2, construct: rc, msg: "the result is " + R.Short() + ", not two 8-byte DES ciphertexts one after the other"}
		if R.HasTop() {
			it.undecided, it.msg = true, "the result holds a value the evaluator does not describe ("+R.FirstTop()+")"
		}
		return append(out, it)
	}
	add(c01R2, rc, true, "two 8-byte DES ciphertexts, first half first")
	want := (&flow.Tm{Op: "pz", A: []*flow.Tm{r.sx.TmApp("strings.ToUpper", flow.TmParam(fn.Params[0].Name(), 0, -1))}}).Key()
	padOK := true
	for n := 0; n < 2; n++ {
		d := parts[n]
		tag := fmt.Sprintf("%s: DES key %d", name, n+1)
		// the half: where bit 7 of key byte 0 comes from
		src, off := -1, 0
		if len(d.KV) == 8 && len(d.KV[0]) == 8 && d.KV[0][7].K == lanes.Src && d.KV[0][7].B == 7 {
			src, off = d.KV[0][7].S, d.KV[0][7].I
		}
		for k := 0; k < 8; k++ {
			construct := fmt.Sprintf("%s: DES key %d byte %d", name, n+1, k)
			bad := ""
			for b := 7; b >= 1 && bad == ""; b-- {
				sbit := 7*k + (7 - b)
				wi, wb := sbit/8, 7-sbit%8
				got := d.KV[k][b]
				switch {
				case got.K == lanes.Top:
					bad = fmt.Sprintf("bit %d is computed by arithmetic that is not a pure bit movement", b)
				case src < 0 || got.K != lanes.Src || got.S != src || got.I != wi+off || got.B != wb:
					bad = fmt.Sprintf("bit %d holds %s, the DES key schedule (str_to_key) needs bit %d of half byte %d there (stream bit %d)", b, x.sxLane(r.sx, got), wb, wi, sbit)
				}
			}
			if bad == "" {
				add(c01R4, construct, true, fmt.Sprintf("bits 7..1 = stream bits %d..%d of the 7-byte half; bit 0 (parity) unconstrained", 7*k, 7*k+6))
			} else {
				add(c01R4, construct, false, bad)
			}
		}
		// provenance of the half
		pc := tag + " ← password through ToUpper only"
		srcKey := ""
		if t := r.sx.Src(src); t != nil {
			srcKey = t.Key()
		}
		if srcKey == want {
			add(c01R2, pc, true, "every key bit is a bit of ToUpper(password), read through its NUL-padded extension")
		} else {
			padOK = false
			add(c01R2, pc, false, "the key bytes are bits of "+srcKey+", not of strings.ToUpper(password) zero-padded")
		}
		wc := fmt.Sprintf("%s is spread from password[%d:%d]", tag, 7*n, 7*n+7)
		if off == 7*n {
			add(c01R2, wc, true, fmt.Sprintf("bytes %d..%d of the padded password", 7*n, 7*n+6))
		} else {
			add(c01R2, wc, false, fmt.Sprintf("key %d is spread from bytes %d..%d of the padded password; LM uses bytes %d..%d for key %d (halves swapped or mis-cut)", n+1, off, off+6, 7*n, 7*n+6, n+1))
		}
		ec := tag + ": Encrypt(fresh 8-byte buffer, \"KGS!@#$%\")"
		if p := d.A[1]; p.Op == "const" && p.S == c01Magic {
			add(c01R2, ec, true, "plaintext is the magic constant, the ciphertext is 8 bytes of the result")
		} else {
			add(c01R2, ec, false, "plaintext is "+p.Short()+", the LM magic constant is \""+c01Magic+"\"")
		}
	}
	sc := name + ": both halves are cut from one string of length 14"
	pcb := name + ": pad byte"
	if padOK {
		add(c01R2, sc, true, "both keys read bytes 0..13 of one value: truncated when longer, zero-extended when shorter")
		add(c01R2, pcb, true, "bytes the password does not cover are NUL")
	} else {
		add(c01R2, sc, false, "the two halves are not bytes 0..13 of ToUpper(password) truncated / NUL-padded to 14 bytes")
	}
	return out
}

func (x *cry) sxLane(sx *flow.Sx, b lanes.Bit) string {
	switch b.K {
	case lanes.Zero:
		return "constant 0"
	case lanes.One:
		return "constant 1"
	case lanes.Src:
		if t := sx.Src(b.S); t != nil {
			return fmt.Sprintf("bit %d of byte %d of %s", b.B, b.I, t.Short())
		}
	}
	return "⊤"
}

// ---- DCC / DCC2 -------------------------------------------------------------------------

// evalRef evaluates reference function ref on argument terms (one per
// parameter, in the evaluator sx's term space) and returns result #0.
func (x *cry) evalRef(sx *flow.Sx, ref *ssa.Function, args []*flow.Tm) (*flow.Tm, error) {
	vals := make([]any, len(ref.Params))
	for i, p := range ref.Params {
		if i >= len(args) || args[i] == nil {
			return nil, fmt.Errorf("no argument term for parameter %s of %s", p.Name(), ref.Name())
		}
		v, err := sx.ValueOf(p.Type(), args[i])
		if err != nil {
			return nil, err
		}
		vals[i] = v
	}
	res, err := sx.RunArgs(ref, vals)
	if err != nil {
		return nil, err
	}
	if len(res) == 0 || res[0] == nil {
		return nil, fmt.Errorf("%s returns no data", ref.Name())
	}
	return res[0], nil
}

// paramTm is the entry term of parameter i of fn (as flow.Sx.SymArg builds it).
func paramTm(fn *ssa.Function, i int) *flow.Tm {
	p := fn.Params[i]
	size := -1
	if n := flow.ArrayLen(p.Type()); n >= 0 {
		size = n
	}
	return flow.TmParam(p.Name(), i, size)
}

// equalsRef: result #0 of fn equals wrap(ref(args…)) where ref is evaluated by
// the same evaluator on the given argument terms.
func (x *cry) equalsRef(rule, construct string, r sxRun, fn, ref *ssa.Function, args []*flow.Tm, wrap func(*flow.Sx, *flow.Tm) *flow.Tm, what string) []specItem {
	it := specItem{rule: rule, construct: construct}
	if len(r.res) == 0 || r.res[0] == nil {
		it.msg = "the function returns no data"
		return []specItem{it}
	}
	want, err := x.evalRef(r.sx, ref, args)
	if err != nil {
		it.undecided, it.msg = true, "the reference "+x.P.FuncName(ref)+" could not be evaluated: "+err.Error()
		return []specItem{it}
	}
	if wrap != nil {
		want = wrap(r.sx, want)
	}
	got := r.res[0]
	switch {
	case got.Key() == want.Key():
		it.ok, it.msg = true, "returns "+what
	case got.HasTop():
		it.undecided, it.msg = true, "the result holds a value the evaluator does not describe ("+got.FirstTop()+")"
	default:
		it.msg = "the function returns " + got.Short() + "; " + what + " is " + want.Short() + " — " + tmDiff(got, want)
	}
	return []specItem{it}
}

func hexWrap(sx *flow.Sx, t *flow.Tm) *flow.Tm { return sx.TmApp("encoding/hex.EncodeToString", t) }

// wrapper (C01): the recogniser of c01.go, then evaluation against the
// reference function applied to the wrapper's own parameters.
func (x *c01) wrapper(fn, raw *ssa.Function, args []argWant, hexed bool) {
	if fn == nil || raw == nil {
		return
	}
	g := x.begin()
	x.wrapperSyn(fn, raw, args, hexed)
	if g.clean() {
		return
	}
	name := x.P.FuncName(fn)
	construct := fmt.Sprintf("%s: derives from %s", name, short(x.e.Name(raw)))
	// fn and the reference are both entered, so that a wrapper that calls the
	// reference and one that repeats its body evaluate to the same term
	x.bySx(g, fn, nil, []*ssa.Function{fn, raw}, map[string]int{c01R2: len(args) + 1}, func(r sxRun) []specItem {
		ts := make([]*flow.Tm, len(args))
		for i, a := range args {
			t := paramTm(fn, a.param)
			for _, v := range a.via {
				if v == x.lNT {
					t = r.sx.TmApp(x.lNT, t)
					t.M = 16
				}
			}
			ts[i] = t
		}
		var wrap func(*flow.Sx, *flow.Tm) *flow.Tm
		what := short(x.e.Name(raw)) + " of its own arguments in their own roles"
		if hexed {
			wrap, what = hexWrap, "the lower-case hex of "+what
		}
		return x.equalsRef(c01R2, construct+" [result]", r, fn, raw, ts, wrap, what)
	})
}

// dccLine: the hashcat line "<hex digest>:<lower(username)>".
func (x *c01) dccLineBySx(g *group, fn, rawFn *ssa.Function) {
	name := x.P.FuncName(fn)
	x.bySx(g, fn, nil, []*ssa.Function{fn}, map[string]int{c01R2: 3}, func(r sxRun) []specItem {
		args := []*flow.Tm{paramTm(fn, 0), paramTm(fn, 1)}
		user := paramTm(fn, 1)
		return x.equalsRef(c01R2, name+": format", r, fn, rawFn, args, func(sx *flow.Sx, t *flow.Tm) *flow.Tm {
			return flow.TmCat(hexWrap(sx, t), flow.TmConst(":"), sx.TmApp("strings.ToLower", user))
		}, "hex("+short(x.e.Name(rawFn))+"(same arguments)) + \":\" + ToLower(username)")
	})
}

// dcc2BySx: DCC2HashWithNTHash(username, ntHash, rounds) =
// "$DCC2$" itoa(rounds) "#" username "#" hex(PBKDF2-HMAC-SHA1(MD4(ntHash ‖ U), U, rounds, 16)), U = UTF16LE(lower(username)).
func (x *c01) dcc2BySx(g *group, fn *ssa.Function) {
	name := x.P.FuncName(fn)
	x.bySx(g, fn, nil, []*ssa.Function{fn}, map[string]int{c01R2: 10}, func(r sxRun) []specItem {
		sx := r.sx
		user, nth, rounds := paramTm(fn, 0), paramTm(fn, 1), paramTm(fn, 2)
		U := sx.TmApp(x.lEnc, sx.TmApp("strings.ToLower", user))
		dcc1 := flow.TmHash("md4", nil, flow.TmCat(nth, U))
		key := sx.TmApp("golang.org/x/crypto/pbkdf2.Key", dcc1, U, rounds, flow.TmInt(16), flow.TmFunc("crypto/sha1.New"))
		want := flow.TmCat(flow.TmConst("$DCC2$"), &flow.Tm{Op: "itoa", N: 10, A: []*flow.Tm{rounds}}, flow.TmConst("#"), user, flow.TmConst("#"), hexWrap(sx, key))
		it := specItem{rule: c01R2, construct: name + ": format"}
		switch got := r.res[0]; {
		case got == nil:
			it.msg = "the function returns no data"
		case got.Key() == want.Key():
			it.ok, it.msg = true, "returns \"$DCC2$\" rounds \"#\" username \"#\" hex(PBKDF2-HMAC-SHA1(MD4(ntHash ‖ UTF16LE(lower(username))), UTF16LE(lower(username)), rounds, 16))"
		case got.HasTop():
			it.undecided, it.msg = true, "the result holds a value the evaluator does not describe ("+got.FirstTop()+")"
		default:
			it.msg = "the function returns " + got.Short() + " — " + tmDiff(got, want)
		}
		return []specItem{it}
	})
}

// md4BySx: fn returns the MD4 digest of exactly input(sx).
func (x *c01) md4BySx(g *group, fn *ssa.Function, construct string, nominal int, input func(sx *flow.Sx) *flow.Tm) {
	x.bySx(g, fn, nil, []*ssa.Function{fn}, map[string]int{c01R2: nominal}, func(r sxRun) []specItem {
		it := specItem{rule: c01R2, construct: construct}
		want := flow.TmHash("md4", nil, input(r.sx))
		switch got := r.res[0]; {
		case got == nil:
			it.msg = "the function returns no data"
		case got.Key() == want.Key():
			it.ok, it.msg = true, "returns "+want.Short()
		case got.HasTop():
			it.undecided, it.msg = true, "the result holds a value the evaluator does not describe ("+got.FirstTop()+")"
		default:
			it.msg = "the function returns " + got.Short() + ", the composition is " + want.Short() + " — " + tmDiff(got, want)
		}
		return []specItem{it}
	})
}
