package rules

import (
	"strings"

	"golang.org/x/tools/go/ssa"

	"manticheck/internal/flow"
)

// C12 — R2-gpp-pairing settled by symbolic evaluation when the shape
// recogniser of c12.go (sideSyn) reports anything (protocol: crypto_sx.go).
//
// The recogniser wants aes.NewCipher → cipher.NewCBC{En,De}crypter →
// CryptBlocks written in the function itself (the cipher at most one helper
// away). A mode built by a shared helper, the two sides folded into one
// function with a direction flag, the iv as an array, the block work done by a
// method of a helper type … are decided by evaluating the entry point:
//
//	GPPPEncrypt(p)      = base64.Std( CBC-enc(AES(K), 0^16, pkcs7.Pad(UTF16LE(p), 16)) )
//	GPPPDecryptBytes(c) = DecodeUTF16LE( pkcs7.Unpad( CBC-dec(AES(K), 0^16, c) ) ), refused unless len(c) % 16 == 0
func (x *c12) side(fn *ssa.Function, enc bool) {
	g := x.begin()
	x.sideSyn(fn, enc)
	if g.clean() {
		return
	}
	x.bySx(g, fn, nil, []*ssa.Function{fn}, map[string]int{c12R2: 8}, func(r sxRun) []specItem {
		return x.gppSpec(r, fn, enc)
	})
}

func (x *c12) gppSpec(r sxRun, fn *ssa.Function, enc bool) []specItem {
	name := x.P.FuncName(fn)
	sx := r.sx
	var out []specItem
	add := func(construct string, ok bool, msg string, got *flow.Tm) {
		it := specItem{rule: c12R2, construct: construct, ok: ok, msg: msg}
		if !ok && got != nil && got.HasTop() {
			it.undecided, it.msg = true, "a value the evaluator does not describe ("+got.FirstTop()+") stands where "+construct+" is decided"
		}
		out = append(out, it)
	}
	modeName, dir := "cipher.NewCBCEncrypter", "cbc-enc<crypto/aes.NewCipher>"
	if !enc {
		modeName, dir = "cipher.NewCBCDecrypter", "cbc-dec<crypto/aes.NewCipher>"
	}
	cc := name + ": one CryptBlocks call"
	mc := name + ": mode = " + modeName + "(aes.NewCipher(GPPP_AES_KEY), zero iv)"
	kc := name + ": AES key = GPPP_AES_KEY"
	ic := name + ": iv = fresh all-zero block that nothing writes"
	dc := name + ": destination = make([]byte, len(source))"
	if len(r.res) == 0 || r.res[0] == nil {
		add(cc, false, "the function returns no string", nil)
		return out
	}
	R := r.res[0]
	// peel the result down to the block-mode application
	var M *flow.Tm
	if enc {
		rc := name + ": result = base64.StdEncoding.EncodeToString(destination)"
		if R.Op == "app" && R.S == "base64.EncodeToString<encoding/base64.StdEncoding>" && len(R.A) == 1 {
			add(rc, true, "standard base64 text of the CryptBlocks output", nil)
			M = R.A[0]
		} else {
			add(rc, false, "the function returns "+R.Short()+", not the standard base64 text of the CryptBlocks destination", R)
			return out
		}
	} else {
		rc := name + ": result = DecodeUTF16LE(pkcs7.Unpad(destination))"
		ok := R.Op == "app" && R.S == x.lDec && len(R.A) == 1 && R.A[0].Op == "app" && R.A[0].S == x.lUnpad && len(R.A[0].A) == 1
		if ok {
			add(rc, true, "mirror of GPPPEncrypt's EncodeUTF16LE → Pad", nil)
			M = R.A[0].A[0]
		} else {
			add(rc, false, "the function returns "+R.Short()+", not DecodeUTF16LE(pkcs7.Unpad(CryptBlocks output))", R)
			return out
		}
	}
	if M.Op != "app" || !strings.HasPrefix(M.S, "cbc-") || len(M.A) != 3 {
		add(cc, false, "the bytes that are encoded are "+M.Short()+", not the output of one CryptBlocks call", M)
		return out
	}
	add(cc, true, "the output of one CryptBlocks call", nil)
	add(dc, true, "the whole CryptBlocks output, as long as its source", nil)
	switch {
	case M.S == dir:
		add(mc, true, modeName+" over AES", nil)
	case strings.HasPrefix(M.S, "cbc-") && strings.HasSuffix(M.S, "<crypto/aes.NewCipher>"):
		add(mc, false, "the block mode runs in the wrong direction", nil)
	default:
		add(mc, false, "the block mode is "+M.S+", not "+modeName+" over aes.NewCipher", nil)
	}
	// key and iv must be THE key variable and a buffer of this call: any other
	// package-level variable the evaluation touched is a shared value that can
	// diverge or be modified between calls
	var otherGlobals []string
	for _, gname := range sx.ModGlobals {
		if gname != "GPPP_AES_KEY" && !has(otherGlobals, gname) {
			otherGlobals = append(otherGlobals, gname)
		}
	}
	if len(otherGlobals) > 0 {
		add(kc, false, "the computation also reads the package-level variable(s) "+strings.Join(otherGlobals, ", ")+": key and iv must be the variable GPPP_AES_KEY and a buffer allocated in this call (a shared or second variable can diverge or be modified between calls)", nil)
	} else if k := M.A[0]; k.Op == "const" && k.S == string(c12Key) {
		add(kc, true, "the 32 bytes of GPPP_AES_KEY's initialiser (a variable nothing writes)", nil)
	} else {
		add(kc, false, "AES is keyed with "+k.Short()+", not with the published key held by GPPP_AES_KEY", k)
	}
	if iv := M.A[1]; iv.Op == "const" && iv.S == strings.Repeat("\x00", 16) {
		add(ic, true, "16 zero bytes at the time the mode is created", nil)
	} else {
		add(ic, false, "the iv is "+iv.Short()+", GPP uses 16 zero bytes", iv)
	}
	src := M.A[2]
	if enc {
		sc := name + ": source = pkcs7.Pad(EncodeUTF16LE(plaintext), ·)"
		pc := name + ": pad block size = aes.BlockSize; whole blocks reach CryptBlocks"
		wantIn := sx.TmApp(x.lEnc, paramTm(fn, 0))
		if src.Op == "app" && src.S == x.lPad && len(src.A) == 2 {
			if src.A[0].Key() == wantIn.Key() {
				add(sc, true, "pkcs7.Pad of EncodeUTF16LE(plaintext)", nil)
			} else {
				add(sc, false, "pkcs7.Pad is applied to "+src.A[0].Short()+", not to EncodeUTF16LE(plaintext)", src.A[0])
			}
			if src.A[1].Op == "int" && src.A[1].N == 16 {
				add(pc, true, "padded to 16", nil)
			} else {
				add(pc, false, "pkcs7.Pad is called with block size "+src.A[1].Short()+", AES-CBC needs 16 (CryptBlocks panics on partial blocks)", src.A[1])
			}
		} else {
			add(sc, false, "the CryptBlocks source is "+src.Short()+", not the pkcs7.Pad result itself", src)
		}
		return out
	}
	sc := name + ": source = the ciphertext argument"
	if src.Key() == paramTm(fn, 0).Key() {
		add(sc, true, "the ciphertext argument as given", nil)
	} else {
		add(sc, false, "CryptBlocks decrypts "+src.Short()+", not the ciphertext argument as given", src)
	}
	gc := name + ": len(ciphertext) % aes.BlockSize test dominates CryptBlocks"
	guard := false
	p := paramTm(fn, 0).Key()
	for _, t := range sx.Trace {
		if strings.HasPrefix(t, "CryptBlocks") && (strings.Contains(t, "arith<%>(len("+p+"), 16) != 0 (error exit not taken)") || strings.Contains(t, "arith<&>(len("+p+"), 15) != 0 (error exit not taken)") ||
			strings.Contains(t, "arith<%>(len("+p+"), 16) == 0 (error exit not taken)") || strings.Contains(t, "arith<&>(len("+p+"), 15) == 0 (error exit not taken)")) {
			guard = true
		}
	}
	if guard {
		add(gc, true, "a test of len(ciphertext) modulo 16 leads to an error return before CryptBlocks runs", nil)
	} else {
		add(gc, false, "no test that len(ciphertext) is a multiple of 16 was passed before CryptBlocks ran: cipher.BlockMode.CryptBlocks panics on input that is not whole blocks", nil)
	}
	return out
}
