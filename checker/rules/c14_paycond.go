package rules

import (
	"fmt"
	"go/types"
	"sort"
	"strings"

	"golang.org/x/tools/go/ssa"

	"manticheck/internal/prove"
	"manticheck/internal/report"
)

// C14 extension `R4b-payload-cond` (added after an independently seeded change
// — RSAKeyMaterial.ToBytes emitting the primes only when BOTH are present while
// the header still announces each length — was missed). R4 establishes that the
// cbModulus/cbPrime1/cbPrime2 slots always hold len(F). For FromBytes to find
// every field where the header says it is, the bytes of F must be emitted
// whenever len(F) != 0: the emission of F may be conditional only on F itself.
// Rule: every branch that controls an append of F's bytes in ToBytes reads no
// receiver field other than F.

func init() {
	ck := registry["C14"]
	if ck == nil {
		return
	}
	orig := ck.Run
	ck.Run = func(c *Ctx) {
		orig(c)
		c14PayloadCond(c)
		c.R.Explanation += " Extension R4b PAYLOAD-COND: in RSAKeyMaterial.ToBytes each append of the bytes of Modulus/Prime1/Prime2 is controlled only by branches on that same field (the header slot always announces len(F), so F must be present whenever it is non-empty)."
	}
}

// fieldsRead: receiver fields (by name) a value is computed from.
func fieldsRead(v ssa.Value, recv *ssa.Parameter, out map[string]bool, seen map[ssa.Value]bool) {
	if v == nil || seen[v] {
		return
	}
	seen[v] = true
	switch x := v.(type) {
	case *ssa.FieldAddr:
		if stripLoadsTo(x.X) == ssa.Value(recv) {
			st := derefType(x.X.Type()).Underlying().(*types.Struct)
			out[st.Field(x.Field).Name()] = true
			return
		}
		fieldsRead(x.X, recv, out, seen)
	case *ssa.UnOp:
		if a, ok := x.X.(*ssa.Alloc); ok && a.Referrers() != nil {
			for _, r := range *a.Referrers() {
				if st, ok := r.(*ssa.Store); ok && st.Addr == ssa.Value(a) {
					fieldsRead(st.Val, recv, out, seen)
				}
			}
			return
		}
		fieldsRead(x.X, recv, out, seen)
	case *ssa.Phi:
		for _, e := range x.Edges {
			fieldsRead(e, recv, out, seen)
		}
	case *ssa.BinOp:
		fieldsRead(x.X, recv, out, seen)
		fieldsRead(x.Y, recv, out, seen)
	case *ssa.Convert:
		fieldsRead(x.X, recv, out, seen)
	case *ssa.ChangeType:
		fieldsRead(x.X, recv, out, seen)
	case *ssa.Slice:
		fieldsRead(x.X, recv, out, seen)
	case *ssa.Call:
		for _, a := range x.Common().Args {
			fieldsRead(a, recv, out, seen)
		}
		if !x.Common().IsInvoke() {
			if _, isB := x.Common().Value.(*ssa.Builtin); !isB && x.Common().StaticCallee() == nil {
				out["?"] = true
			}
		}
	case *ssa.Const, *ssa.Parameter:
	default:
		out["?"] = true
	}
}

// stripLoadsTo: the receiver spilled to a cell and reloaded is still the receiver.
func stripLoadsTo(v ssa.Value) ssa.Value {
	for d := 0; d < 4; d++ {
		u, ok := v.(*ssa.UnOp)
		if !ok {
			return v
		}
		a, ok := u.X.(*ssa.Alloc)
		if !ok || a.Referrers() == nil {
			return v
		}
		var only ssa.Value
		n := 0
		for _, r := range *a.Referrers() {
			if st, ok := r.(*ssa.Store); ok && st.Addr == ssa.Value(a) {
				only = st.Val
				n++
			}
		}
		if n != 1 {
			return v
		}
		v = only
	}
	return v
}

// controllingConds: conditions of the branches b is control-dependent on
// (dominating Ifs one of whose arms dominates b while the other does not).
func controllingConds(b *ssa.BasicBlock) []ssa.Value {
	var out []ssa.Value
	for d := b.Idom(); d != nil; d = d.Idom() {
		iff, ok := d.Instrs[len(d.Instrs)-1].(*ssa.If)
		if !ok {
			continue
		}
		t, f := d.Succs[0], d.Succs[1]
		dt := t.Dominates(b) && len(t.Preds) == 1
		df := f.Dominates(b) && len(f.Preds) == 1
		if dt != df {
			out = append(out, iff.Cond)
		}
	}
	return out
}

func c14PayloadCond(c *Ctx) {
	const rule = "R4b-payload-cond"
	p, r := c.P, c.R
	fn := p.Func(c14PkgCrypto, "RSAKeyMaterial", "ToBytes")
	if fn == nil || fn.Blocks == nil {
		r.Undecided(rule, "RSAKeyMaterial.ToBytes", "", "not found")
		return
	}
	recv := fn.Params[0]
	name := c14PkgCrypto + ".(*RSAKeyMaterial).ToBytes"
	found := map[string]int{}
	// The scan below looks for append(…, F...) and the branches that control
	// it. The lane interpretation of ToBytes on key materials with one prime
	// missing, both missing and both present decides the same question — are
	// F's bytes where the header says — for any way of emitting them (copy
	// into a pre-sized buffer, a helper, …).
	mark := len(r.Obls)
	defer func() {
		x := &c14{Ctx: c}
		var sem map[string]c14V
		func() {
			defer func() {
				if e := recover(); e != nil {
					sem = nil
				}
			}()
			sem = x.semRsaEncoder(fn)
		}()
		for _, f := range []string{"Modulus", "Prime1", "Prime2"} {
			v, ok := sem[f]
			if !ok {
				v = c14Na("internal error in the lane interpretation")
			}
			pre := fmt.Sprintf("%s: emission of %s", name, f)
			x.arbitrate(mark, func(o *report.Obligation) bool {
				return o.Rule == rule && (o.Construct == pre || strings.HasPrefix(o.Construct, pre+" #"))
			}, v)
		}
	}()
	for _, b := range fn.Blocks {
		for _, in := range b.Instrs {
			call, ok := in.(*ssa.Call)
			if !ok {
				continue
			}
			bi, ok := call.Call.Value.(*ssa.Builtin)
			if !ok || bi.Name() != "append" || len(call.Call.Args) != 2 {
				continue
			}
			src := map[string]bool{}
			fieldsRead(call.Call.Args[1], recv, src, map[ssa.Value]bool{})
			for _, f := range []string{"Modulus", "Prime1", "Prime2"} {
				if !src[f] || len(src) != 1 {
					continue
				}
				found[f]++
				construct := fmt.Sprintf("%s: emission of %s", name, f)
				if found[f] > 1 {
					construct += fmt.Sprintf(" #%d", found[f])
				}
				others := map[string]bool{}
				for _, cond := range controllingConds(b) {
					fs := map[string]bool{}
					fieldsRead(cond, recv, fs, map[ssa.Value]bool{})
					for k := range fs {
						if k != f {
							others[k] = true
						}
					}
				}
				if len(others) == 0 {
					r.OK(rule, construct, p.Rel(call.Pos()), "controlled only by branches on "+f+" (or unconditional)")
				} else {
					var ks []string
					for k := range others {
						ks = append(ks, k)
					}
					sort.Strings(ks)
					r.Fail(rule, construct, p.Rel(call.Pos()), "the bytes of "+f+" are emitted only under a condition on "+strings.Join(ks, ", ")+" while the header announces len("+f+") unconditionally: FromBytes reads the following field (or past the end) at the announced offset")
				}
			}
		}
	}
	for _, f := range []string{"Modulus", "Prime1", "Prime2"} {
		if found[f] == 0 {
			// pattern not found (copy into a pre-sized buffer, a helper, a writer …):
			// not an observation about the code — the lane interpretation decides
			r.Undecided(rule, fmt.Sprintf("%s: emission of %s", name, f), p.Rel(fn.Pos()), "no append of the bytes of "+f+" found")
		}
	}
	r.Floor(rule, 3)
}

// C14 extension `R6b-verbatim` (added after an independently seeded change —
// DNWithBinary.Parse trimming white space from its input "to tolerate a
// trailing newline" — was missed): the string form must round-trip the
// distinguished name for EVERY distinguished name, so the free-form field must
// reach DistinguishedName verbatim: between the input parameter and the store
// the only operations are conversions, Split/SplitN and selecting a part.
func init() {
	ck := registry["C14"]
	if ck == nil {
		return
	}
	orig := ck.Run
	ck.Run = func(c *Ctx) {
		orig(c)
		c14Verbatim(c)
		c.R.Explanation += " Extension R6b VERBATIM: in DNWithBinary.Parse the value stored into DistinguishedName derives from the input parameter through conversions, Split/SplitN and part selection only (no trimming, case mapping or other rewriting call)."
	}
}

func c14Verbatim(c *Ctx) {
	const rule = "R6b-verbatim"
	p, r := c.P, c.R
	fn := p.Func(c14Pkg, "DNWithBinary", "Parse")
	if fn == nil || fn.Blocks == nil {
		r.Undecided(rule, "DNWithBinary.Parse", "", "not found")
		return
	}
	name := c14Pkg + ".(*DNWithBinary).Parse"
	n := 0
	// the walk below allows conversions, Split/SplitN and part selection only;
	// the lane interpretation of Parse(ToString(d)) on names with surrounding
	// white space, mixed case and embedded separators decides "verbatim" for
	// any other spelling (Cut, Index + re-slice, …)
	mark := len(r.Obls)
	defer func() {
		if toS := p.Func(c14Pkg, "DNWithBinary", "ToString"); toS != nil && toS.Blocks != nil {
			x := &c14{Ctx: c}
			x.arbitrate(mark, func(o *report.Obligation) bool { return o.Rule == rule }, x.dnSem(fn, toS))
		}
	}()
	for _, b := range fn.Blocks {
		for _, in := range b.Instrs {
			st, ok := in.(*ssa.Store)
			if !ok {
				continue
			}
			fa, ok := st.Addr.(*ssa.FieldAddr)
			if !ok {
				continue
			}
			stt, ok := derefType(fa.X.Type()).Underlying().(*types.Struct)
			if !ok || stt.Field(fa.Field).Name() != "DistinguishedName" {
				continue
			}
			n++
			construct := fmt.Sprintf("%s: DistinguishedName taken verbatim from the input (store #%d)", name, n)
			var bad []string
			reached := false
			seen := map[ssa.Value]bool{}
			var walk func(v ssa.Value)
			walk = func(v ssa.Value) {
				if v == nil || seen[v] {
					return
				}
				seen[v] = true
				switch x := v.(type) {
				case *ssa.Parameter:
					reached = true
				case *ssa.Convert:
					walk(x.X)
				case *ssa.ChangeType:
					walk(x.X)
				case *ssa.Phi:
					for _, e := range x.Edges {
						walk(e)
					}
				case *ssa.UnOp:
					switch a := x.X.(type) {
					case *ssa.IndexAddr:
						walk(a.X)
					case *ssa.Alloc:
						if a.Referrers() != nil {
							for _, u := range *a.Referrers() {
								if s, ok := u.(*ssa.Store); ok && s.Addr == ssa.Value(a) {
									walk(s.Val)
								}
							}
						}
					default:
						bad = append(bad, "a load of "+x.X.String())
					}
				case *ssa.Call:
					f := x.Call.StaticCallee()
					fn := ""
					if f != nil {
						fn = f.String()
					}
					switch fn {
					case "bytes.SplitN", "bytes.Split", "strings.SplitN", "strings.Split":
						walk(x.Call.Args[0])
					default:
						if fn == "" {
							fn = "a dynamic call"
						}
						bad = append(bad, fn+" at "+p.Rel(x.Pos()))
					}
				case *ssa.Slice:
					bad = append(bad, "a re-slice at "+p.Rel(x.Pos()))
				case *ssa.Const:
					bad = append(bad, "a constant")
				default:
					bad = append(bad, fmt.Sprintf("%T", v))
				}
			}
			walk(st.Val)
			switch {
			case len(bad) > 0 && !c14Rewrites(bad):
				// something the walk does not follow (a re-slice, Cut, a helper): not an observation
				sort.Strings(bad)
				r.Undecided(rule, construct, p.Rel(st.Pos()), "between the input and the store the walk meets "+strings.Join(bad, ", ")+", which it does not follow")
			case len(bad) > 0:
				sort.Strings(bad)
				r.Fail(rule, construct, p.Rel(st.Pos()), "the name passes through "+strings.Join(bad, ", ")+" before it is stored: a distinguished name that this rewriting changes (trailing or escaped white space, case …) does not round-trip")
			case !reached:
				r.Undecided(rule, construct, p.Rel(st.Pos()), "the walk does not reach the input parameter from the stored name")
			default:
				r.OK(rule, construct, p.Rel(st.Pos()), "parameter → conversions / SplitN / part selection → field")
			}
		}
	}
	r.Floor(rule, 1)
}

// c14Rewrites: the walk met a call that is known to rewrite text (trimming,
// case mapping, replacing): that is an observed offending construct.
func c14Rewrites(bad []string) bool {
	for _, b := range bad {
		for _, k := range []string{".Trim", ".ToLower", ".ToUpper", ".Title", ".Replace", ".Map(", ".Fields", ".ToValidUTF8"} {
			if strings.Contains(b, k) {
				return true
			}
		}
	}
	return false
}

// C14 extension `R6c-format-data` (added after an independently seeded change —
// ToString splicing the hex data and the distinguished name into the Sprintf
// FORMAT — was missed once the unreadable format became NOT DECIDED): a
// free-form string must be an OPERAND of the formatting call, never part of
// its format: a '%' in the distinguished name would be read as a verb. The
// rule looks at the format operand of every fmt *printf-family call in the
// printers of DNWithBinary: constants, concatenations and φ of constants are
// fine; text produced by encoding/hex or strconv (no '%' possible) is fine; a
// string-typed struct field (or parameter) spliced in is reported; anything
// else is NOT DECIDED.
func init() {
	ck := registry["C14"]
	if ck == nil {
		return
	}
	orig := ck.Run
	ck.Run = func(c *Ctx) {
		orig(c)
		c14FormatData(c)
		c.R.Explanation += " Extension R6c FORMAT-DATA: in the DNWithBinary printers the format operand of every fmt formatting call is built from constants and %-free producers (encoding/hex, strconv) only — a free-form string field is an operand, never part of the format."
	}
}

func c14FormatData(c *Ctx) {
	const rule = "R6c-format-data"
	p, r := c.P, c.R
	n := 0
	for _, mname := range []string{"ToString", "String"} {
		fn := p.Func(c14Pkg, "DNWithBinary", mname)
		if fn == nil || fn.Blocks == nil {
			continue
		}
		fns := append([]*ssa.Function{fn}, fn.AnonFuncs...)
		for _, f := range fns {
			for _, b := range f.Blocks {
				for _, in := range b.Instrs {
					call, ok := in.(*ssa.Call)
					if !ok {
						continue
					}
					sn := prove.StaticName(call.Common())
					fmtIdx := -1
					switch sn {
					case "fmt.Sprintf", "fmt.Errorf", "fmt.Printf":
						fmtIdx = 0
					case "fmt.Fprintf", "fmt.Appendf":
						fmtIdx = 1
					}
					if fmtIdx < 0 || fmtIdx >= len(call.Common().Args) {
						continue
					}
					n++
					construct := fmt.Sprintf("%s.(*DNWithBinary).%s: format of %s #%d holds no free-form data", c14Pkg, mname, sn, n)
					var free, unread []string
					seen := map[ssa.Value]bool{}
					var walk func(v ssa.Value)
					walk = func(v ssa.Value) {
						if v == nil || seen[v] {
							return
						}
						seen[v] = true
						switch x := v.(type) {
						case *ssa.Const:
						case *ssa.BinOp:
							walk(x.X)
							walk(x.Y)
						case *ssa.Phi:
							for _, e := range x.Edges {
								walk(e)
							}
						case *ssa.ChangeType:
							walk(x.X)
						case *ssa.Parameter:
							if bt, ok := x.Type().Underlying().(*types.Basic); ok && bt.Info()&types.IsString != 0 {
								free = append(free, "parameter "+x.Name())
							} else {
								unread = append(unread, x.Name())
							}
						case *ssa.UnOp:
							if fa, ok := x.X.(*ssa.FieldAddr); ok {
								if stt, ok := derefType(fa.X.Type()).Underlying().(*types.Struct); ok {
									if bt, ok := x.Type().Underlying().(*types.Basic); ok && bt.Info()&types.IsString != 0 {
										free = append(free, "field "+stt.Field(fa.Field).Name())
										return
									}
								}
							}
							if g, ok := x.X.(*ssa.Global); ok {
								unread = append(unread, "package variable "+g.Name())
								return
							}
							unread = append(unread, x.String())
						case *ssa.Call:
							cn := prove.StaticName(x.Common())
							switch {
							case cn == "encoding/hex.EncodeToString", strings.HasPrefix(cn, "strconv.Itoa"), strings.HasPrefix(cn, "strconv.Format"), strings.HasPrefix(cn, "strconv.Quote"):
								// digits / hex digits / quoted text without '%'? Quote keeps '%': not accepted
								if strings.HasPrefix(cn, "strconv.Quote") {
									unread = append(unread, cn)
								}
							default:
								unread = append(unread, "result of "+cn)
							}
						default:
							unread = append(unread, v.String())
						}
					}
					walk(call.Common().Args[fmtIdx])
					pos := p.Rel(call.Pos())
					switch {
					case len(free) > 0:
						r.Fail(rule, construct, pos, "the format string is built from "+strings.Join(free, ", ")+": a '%' in that text is interpreted as a formatting verb, so the printed form is not the text Parse splits")
					case len(unread) > 0:
						c.NotDecided(rule, construct, pos, "the format string includes "+strings.Join(unread, ", ")+", whose contents this rule does not read")
					default:
						r.OK(rule, construct, pos, "format built from constants and %-free producers only")
					}
				}
			}
		}
	}
	if n == 0 {
		c.NotDecided(rule, c14Pkg+".(*DNWithBinary).ToString: format holds no free-form data", "", "no fmt formatting call in the printers")
	}
}
