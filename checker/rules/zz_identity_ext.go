package rules

// `identity` (see wire_identity.go) applied to the SMB command decoders (C04)
// and the SMB wire types (C06), after an independently seeded change —
// AndX.Unmarshal zeroing the decoded AndXOffset when AndXCommand is 0xFF — was
// reported only by a neighbouring check.

func init() {
	if ck := registry["C04"]; ck != nil {
		orig := ck.Run
		ck.Run = func(c *Ctx) {
			orig(c)
			var fns [][3]string
			for _, nt := range commandTypes(c.P) {
				if c.P.Func(cmdPkg, nt.Obj().Name(), "Unmarshal") != nil {
					fns = append(fns, [3]string{cmdPkg, nt.Obj().Name(), "Unmarshal"})
				}
			}
			fns = append(fns, [3]string{smbPrefix + "/message/commands/andx", "AndX", "Unmarshal"})
			wDecodedIdentity(c, fns, 0)
			c.R.Explanation += " Extension `identity`: every struct field a command decoder (and AndX.Unmarshal) fills from an integer read of the wire holds exactly that read on every path."
		}
	}
	if ck := registry["C06"]; ck != nil {
		orig := ck.Run
		ck.Run = func(c *Ctx) {
			orig(c)
			var fns [][3]string
			for _, wt := range c06Types {
				if c.P.Func(wt.rel, wt.name, "Unmarshal") != nil {
					fns = append(fns, [3]string{wt.rel, wt.name, "Unmarshal"})
				}
			}
			wDecodedIdentity(c, fns, 0)
			c.R.Explanation += " Extension `identity`: every struct field a wire-type decoder fills from an integer read of the wire holds exactly that read on every path."
		}
	}
}
