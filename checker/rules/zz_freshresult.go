package rules

import (
	"fmt"
	"go/types"
	"strings"

	"golang.org/x/tools/go/ssa"
)

// C02 extension `fresh-result` (added after an independently seeded change —
// NTResponse() and LMResponse() building their 24 bytes in one per-instance
// scratch array — was missed): a byte slice returned by an exported method of
// the response types must not be a view of the receiver's own storage, or the
// next call overwrites what the previous one returned (the LM field of an
// AUTHENTICATE message then carries the NT response). Decided on the def-use
// chain of every returned []byte: through append / re-slices / φ it must not
// reach a field of the receiver (append onto recv.buf[:0], recv.buf[:]).
func init() {
	ck := registry["C02"]
	if ck == nil {
		return
	}
	orig := ck.Run
	ck.Run = func(c *Ctx) {
		orig(c)
		freshResult(c, []string{"crypto/ntlmv1", "crypto/ntlmv2"})
		c.R.Explanation += " Extension FRESH-RESULT: no []byte returned by an exported method of crypto/ntlmv1 and crypto/ntlmv2 is a view of a field of the receiver reached through append / re-slicing (a per-instance scratch buffer would be overwritten by the next call); returning a stored field itself (a cached hash) is not covered."
	}
}

func freshResult(c *Ctx, pkgs []string) {
	const rule = "fresh-result"
	p, r := c.P, c.R
	inScope := func(rp string) bool {
		for _, q := range pkgs {
			if strings.HasSuffix(rp, q) {
				return true
			}
		}
		return false
	}
	n := 0
	for _, fn := range p.SrcFuncs() {
		if !inScope(relPkg(p, fn)) || fn.Blocks == nil || fn.Signature.Recv() == nil || len(fn.Params) == 0 || fn.Parent() != nil {
			continue
		}
		if obj, ok := fn.Object().(*types.Func); !ok || !obj.Exported() {
			continue
		}
		recv := fn.Params[0]
		nret := 0
		for _, b := range fn.Blocks {
			ret, ok := b.Instrs[len(b.Instrs)-1].(*ssa.Return)
			if !ok {
				continue
			}
			nret++
			for ri, res := range ret.Results {
				sl, isSl := res.Type().Underlying().(*types.Slice)
				if !isSl {
					continue
				}
				if bt, isB := sl.Elem().Underlying().(*types.Basic); !isB || bt.Kind() != types.Uint8 {
					continue
				}
				n++
				construct := fmt.Sprintf("%s: return %d result %d is not a view of the receiver's storage", p.FuncName(fn), nret, ri)
				bad := ""
				seen := map[ssa.Value]bool{}
				var walk func(v ssa.Value, viaOp bool)
				walk = func(v ssa.Value, viaOp bool) {
					if v == nil || seen[v] || bad != "" {
						return
					}
					seen[v] = true
					switch x := v.(type) {
					case *ssa.Phi:
						for _, e := range x.Edges {
							walk(e, viaOp)
						}
					case *ssa.Slice:
						// a re-slice of an array field of the receiver, or of a slice
						if fa, isFA := x.X.(*ssa.FieldAddr); isFA && derivesFromRecv(fa.X, recv) {
							if stt, ok := derefType(fa.X.Type()).Underlying().(*types.Struct); ok {
								bad = "a slice of the receiver's field " + stt.Field(fa.Field).Name()
							}
							return
						}
						walk(x.X, true)
					case *ssa.Call:
						if bi, isB := x.Call.Value.(*ssa.Builtin); isB && bi.Name() == "append" {
							walk(x.Call.Args[0], true)
						}
					case *ssa.UnOp:
						if fa, isFA := x.X.(*ssa.FieldAddr); isFA && viaOp && derivesFromRecv(fa.X, recv) {
							if stt, ok := derefType(fa.X.Type()).Underlying().(*types.Struct); ok {
								bad = "built by append / re-slicing on the receiver's field " + stt.Field(fa.Field).Name()
							}
						}
					case *ssa.ChangeType:
						walk(x.X, viaOp)
					case *ssa.Convert:
						walk(x.X, viaOp)
					}
				}
				walk(res, false)
				if bad != "" {
					r.Fail(rule, construct, p.Rel(ret.Pos()), "the returned bytes are "+bad+": the next call on the same value overwrites them while the caller may still hold them")
				} else {
					r.OK(rule, construct, p.Rel(ret.Pos()), "not built in the receiver's storage")
				}
			}
		}
	}
	r.Extra["fresh_result_returns"] = n
}
