package rules

import (
	"fmt"
	"go/constant"
	"go/token"
	"go/types"
	"sort"
	"strings"

	"golang.org/x/tools/go/ssa"

	"manticheck/internal/codec"
	"manticheck/internal/prove"
	"manticheck/internal/report"
)

// C14 — key-credential blobs (DESIGN.md §4 C14; §3 E2 layouts, §3 E3
// SIBLING-CONST; Appendix A row C14.a; Appendix B BCRYPT_RSAKEY_BLOB).

func init() { register(&Check{ID: "C14", NeedSSA: true, Run: runC14}) }

const (
	c14Pkg       = "windows/keycredential"
	c14PkgKey    = "windows/keycredential/key"
	c14PkgCrypto = "windows/keycredential/crypto"
	c14PkgUtils  = "windows/keycredential/utils"

	c14R1 = "R1-entry-tables"
	c14R2 = "R2-entry-header"
	c14R3 = "R3-cki-thresholds"
	c14R4 = "R4-rsa-blob"
	c14R5 = "R5-integrity"
	c14R6 = "R6-dn-with-binary"

	c14EntryPrefix = "KeyCredentialEntryType_"
)

type c14 struct {
	*Ctx
	w       *prove.World
	kcT     *types.Named
	kcSt    *types.Struct
	entryT  *types.Named
	family  map[int64]string // value → constant name
	hashVal int64

	readSem    *c14ReadSem  // lane interpretation of FromBytes (memoised)
	writeSem   *c14WriteSem // lane interpretation of ToBytes (memoised)
	keyHashSem *c14V        // lane interpretation of ComputeKeyHash (memoised)
}

func (x *c14) fromBytesSem(fromB *ssa.Function) *c14ReadSem {
	if x.readSem == nil {
		x.readSem = &c14ReadSem{why: "internal error in the lane interpretation"}
		func() {
			defer func() {
				if r := recover(); r != nil {
					x.readSem = &c14ReadSem{why: fmt.Sprintf("internal error in the lane interpretation: %v", r)}
				}
			}()
			x.readSem = x.semFromBytes(fromB)
		}()
	}
	return x.readSem
}

func (x *c14) toBytesSem(toB *ssa.Function) *c14WriteSem {
	if x.writeSem == nil {
		x.writeSem = &c14WriteSem{why: "internal error in the lane interpretation"}
		func() {
			defer func() {
				if r := recover(); r != nil {
					x.writeSem = &c14WriteSem{why: fmt.Sprintf("internal error in the lane interpretation: %v", r)}
				}
			}()
			x.writeSem = x.semToBytes(toB)
		}()
	}
	return x.writeSem
}

func (x *c14) computeKeyHashSem(cKH *ssa.Function) c14V {
	if x.keyHashSem == nil {
		v := c14Na("internal error in the lane interpretation")
		func() {
			defer func() {
				if r := recover(); r != nil {
					v = c14Na("internal error in the lane interpretation: %v", r)
				}
			}()
			v = x.semKeyHash(cKH)
		}()
		x.keyHashSem = &v
	}
	return *x.keyHashSem
}

func runC14(c *Ctx) {
	p, r := c.P, c.R
	r.Explanation = "C14 key-credential blobs, decided statically on go/ssa (def-use, dominance), internal/codec layouts and the E1 prover; no Manticore code is executed. " +
		"R1-entry-tables: for every constant KeyCredentialEntryType_* the entry is written by (*KeyCredential).ToBytes (a writeEntry call whose type argument is that constant) iff (*KeyCredential).FromBytes compares the entry type with that constant and the branch assigns KeyCredential fields; the set of KeyCredential fields the writer takes the entry's bytes from equals the set the reader's branch assigns (Version, which both sides only consult, is ignored); (*KeyCredential).ComputeKeyHash starts its walk after the 4-byte version, appends to the hashed data exactly under entryType == KeyCredentialEntryType_KeyHash and appends exactly the remainder that follows that entry (so it skips up to and including the KeyHash entry), and returns the SHA-256 digest of that data (utils.ComputeHash of a buffer, or the same bytes written piecewise into a sha256 state: what is judged is the byte sequence that reaches the digest). " +
		"R2-entry-header (internal/codec): writeEntry emits uint16 little-endian len(data) | KeyCredentialEntryType.ToBytes (1 byte = Value) | data, ToBytes emits KeyCredentialVersion.ToBytes (4 bytes LE) and then writeEntry records only; FromBytes and ComputeKeyHash read the length as little-endian uint16 at entry offset 0, the type byte at offset 2 (KeyCredentialEntryType.FromBytes stores it in Value), the value at offset 3 with exactly that length, and continue at 3+length; KeyCredentialVersion.FromBytes reads the same 4 LE bytes. " +
		"R3-cki-thresholds (SIBLING-CONST, thresholds by the E1 prover from the dominating guards): each CustomKeyInformation field is decoded from blob[o:o+w] under the weakest size bound T_dec = o+w (T_dec = the minimum accepted size for the mandatory fields), encoded by ToBytes in the same wire order and width, under T_enc = T_dec for optional fields and unconditionally for mandatory ones. " +
		"R4-rsa-blob (internal/codec; BCRYPT_RSAKEY_BLOB): RSAKeyMaterial.ToBytes emits \"RSA1\" | KeySize | cbPublicExp | cbModulus | cbPrime1 | cbPrime2, each 4 bytes little-endian, then the exponent big-endian, Modulus, Prime1, Prime2, each length slot holding the length of the very field emitted in that position; FromBytes compares bytes 0..3 with \"RSA1\", reads KeySize from 4..7 LE, takes the exponent byte count from 8..11, the Modulus/Prime1/Prime2 widths from 12..15/16..19/20..23 (LE) and their offsets as 24 + the preceding widths, and accumulates the exponent big-endian over exactly cbPublicExp bytes from offset 24. " +
		"R5-integrity: every `return true` of CheckIntegrity is dominated by the equal-length edge of a comparison of len(ComputeKeyHash()) with len(KeyHash) and by the exit edge of a loop that runs the index over 0..len(hash)-1 and leaves with `false` on the first hash[i] != KeyHash[i] (or the result is bytes.Equal / subtle.ConstantTimeCompare of the two). " +
		"R6-dn-with-binary: DNWithBinary.ToString's format has the free-form DistinguishedName as its LAST verb; Parse splits on the same separator constant, demands as many parts as the format has fields, assigns parts[i] to the field verb i prints, uses the same ×2 factor between BinaryData and the printed size, and — because the last field may contain the separator — splits with SplitN(…, number of fields). " +
		"LANE INTERPRETATION (internal/absint; robustness to behaviour-preserving refactors): the recognisers above read today's code shapes; every clause they decide is ALSO decided from the functions' behaviour, by interpreting go/ssa over the bit-lane domain on inputs of concrete shape and symbolic content (helpers are entered, switch/if, early returns, predicates, bytes.Clone/copy/append, PutUintN/AppendUintN, bytes.Buffer, strings/bytes Cut/Split/Index, read-only package-level tables, function values and closures just execute; data-dependent branches that do not guard an error exit are enumerated path by path). FromBytes: on version | unknown(258) | K(L) | unknown(1) for every entry-type constant K and L ∈ {1,8,16,40}, which KeyCredential fields are assigned because of the K entry and which blob bytes they and the (summarised) value decoders see — exactly the L bytes at entry offset 3. ToBytes: with the value encoders summarised as fresh symbolic bytes the blob must read back as Version.Value (4 bytes LE) and length(2,LE)|type(1)|value records that consume it exactly; each record's bytes are traced to the fields they come from. ComputeKeyHash: on four entry sequences exactly the bytes after the KeyHash entry reach one SHA-256 digest — hash.Hash is modelled (the hashed sequence is the concatenation of the Write/WriteString/io.WriteString/binary.Write arguments before Sum; sha256.Sum256 is the one-shot form; the utils helpers are entered) — and that digest is what is returned. RSAKeyMaterial.FromBytes: on blobs \"RSA1\" | KeySize (symbolic) | four constant size words | symbolic payload for (cbPublicExp,cbModulus,cbPrime1,cbPrime2) ∈ {(3,300,130,129), (1,5,3,2), (4,7,0,0)+2 stray bytes, (5,2,1,0)} KeySize, the big-endian exponent fold, Modulus, Prime1 and Prime2 come back as exactly the bytes BCRYPT_RSAKEY_BLOB puts there, and a blob type that differs from \"RSA1\" in any one byte is refused (so header words read in a loop, a cursor type with methods, a take closure over a re-sliced tail decide like the running-offset spelling). KeyCredentialEntryType / KeyCredentialVersion ToBytes/FromBytes: on symbolic values, one byte == Value and the 4 bytes of Value little-endian. CheckIntegrity: against a fixed 32-byte digest, equal → true, each of the 256 single-bit alterations, a 31-, 33- and 0-byte KeyHash → false. CustomKeyInformation: FromBytes on symbolic blobs of 0..40 bytes and ToBytes with RawBytesSize 0..40 give, per field, offset, width and size threshold on both sides (these tables are what R3 judges). RSAKeyMaterial.ToBytes: on five key shapes (one or both primes nil or empty, lengths above 255) every slot holds the BCRYPT_RSAKEY_BLOB value. DNWithBinary: for names with the separator inside, surrounding white space, mixed case, a nested prefix, empty: ToString prints exactly B:<2n>:<hex>:<name> and Parse returns the same name and bytes. Combination: recogniser OK + interpretation wrong ⇒ violation (a concrete counter-shape exists); recogniser not OK + interpretation OK ⇒ held (the reason names both); interpretation aborted (construct not modelled) ⇒ a VIOLATION of the recogniser stands (recognisers report as violation only what they positively saw: a wrong offset, order, width, condition), while a recogniser that merely did not find its pattern decides nothing: the clause is then recorded as NOT DECIDED (held, with a note naming what escaped) — COMPLETENESS BEFORE VERDICT: no report without an observed offending construct; a missing anchor or an internal error of the interpretation still fails. " +
		"NOT decided: that altering any covered bit is detected (needs SHA-256 semantics; R1/R5 only establish which bytes are hashed and that every hash byte is compared); re-serialisation equality of whole credentials (ordering of entries, the zero KeyHash placeholder, LegacyUsage/Usage sharing one entry type); timestamps (C15); bounds safety of FromBytes (C07); X509/PEM export."
	r.Assumptions = []string{
		"go/parser, go/types and the go/ssa builder of x/tools v0.50.0 are faithful to the source",
		"contracts: (*bytes.Buffer).Write appends its argument; encoding/binary.Write(w, order, v) writes the fixed-size integer v in that order; encoding/binary.{Little,Big}Endian.UintN/PutUintN/AppendUintN; bytes.Split/SplitN, strings.Split/SplitN; bytes.Equal(a,b) and subtle.ConstantTimeCompare(a,b)==1 hold iff len(a)==len(b) and all bytes are equal; fmt.Sprintf prints its arguments in verb order",
		"SPEC tables: MS-ADTS KEYCREDENTIALLINK_ENTRY = Length(2, LE) | Identifier(1) | Value(Length); BCRYPT_RSAKEY_BLOB = Magic \"RSA1\", BitLength, cbPublicExp, cbModulus, cbPrime1, cbPrime2 (6×4 bytes LE) followed by PublicExponent (big-endian), Modulus, Prime1, Prime2; MS-ADTS CUSTOM_KEY_INFORMATION = Version(1) Flags(1) [VolumeType(1) SupportsNotification(1) FekKeyVersion(1) KeyStrength(4) Reserved(10) EncodedExtendedCKI(*)]",
		"the E1 prover of internal/prove (dominating branch conditions, available loads, Fourier–Motzkin) is sound; type-based aliasing",
		"lane interpretation: the library contracts modelled by internal/absint (encoding/binary Uint/PutUint/AppendUint/Write, bytes.Buffer Write/WriteByte/Bytes/Len, bytes/strings Cut, CutPrefix, Split(N), Index, HasPrefix, Trim*, Clone, Equal, hmac.Equal, subtle.ConstantTimeCompare, strconv.Atoi/Itoa/ParseUint, hex Encode/Decode, fmt.Sprintf %d %s %x, copy/append/len/min/max; hash.Hash from sha256/sha1/md5/sha512 New (and crypto.Hash.New): Write/WriteString/WriteByte append to the hashed sequence, Sum(b) appends the digest of that sequence to b without changing the state, Reset empties it, SumNNN(data) is the one-shot form; a digest is an uninterpreted function of (algorithm, hashed bytes); an interface method call on a value whose dynamic type the run knows is the call of that type's method); value codecs outside windows/keycredential (identifier, RSA blob, GUID, custom key information, timestamps, SHA-256) are summarised when FromBytes/ToBytes/ComputeKeyHash are interpreted: they may write through pointer arguments, return unknown (decoders) or fresh symbolic (encoders) values, and do not modify the byte slices they are handed; a package-level variable assigned once by its package initialiser and only ever read is its initialiser; the analysed shapes are those listed in the explanation",
	}
	x := &c14{Ctx: c, family: map[int64]string{}}

	// ---- anchors -------------------------------------------------------
	if pk := p.Pkg(c14Pkg); pk != nil {
		if tn, ok := pk.Types.Scope().Lookup("KeyCredential").(*types.TypeName); ok {
			x.kcT, _ = tn.Type().(*types.Named)
			if x.kcT != nil {
				x.kcSt, _ = x.kcT.Underlying().(*types.Struct)
			}
		}
	}
	if kp := p.Pkg(c14PkgKey); kp != nil {
		if tn, ok := kp.Types.Scope().Lookup("KeyCredentialEntryType").(*types.TypeName); ok {
			x.entryT, _ = tn.Type().(*types.Named)
		}
		sc := kp.Types.Scope()
		for _, n := range sc.Names() {
			k, ok := sc.Lookup(n).(*types.Const)
			if !ok || !strings.HasPrefix(n, c14EntryPrefix) || k.Val().Kind() != constant.Int {
				continue
			}
			if v, exact := constant.Int64Val(k.Val()); exact {
				if prev, dup := x.family[v]; dup {
					r.Fail(c14R1, c14PkgKey+": "+prev+" and "+n+" are distinct entry types", p.Rel(k.Pos()), "two entry-type constants share the value "+k.Val().ExactString())
				}
				x.family[v] = n
				if n == c14EntryPrefix+"KeyHash" {
					x.hashVal = v
				}
			}
		}
	}
	if x.kcSt == nil || x.entryT == nil || len(x.family) == 0 || x.family[x.hashVal] != c14EntryPrefix+"KeyHash" {
		r.Undecided("anchor", c14Pkg+".KeyCredential / "+c14PkgKey+".KeyCredentialEntryType(_*)", "", "anchor types or the entry-type constant family do not resolve")
		r.Floor("anchor", 1)
		return
	}
	r.OK("anchor", c14Pkg+".KeyCredential, "+c14PkgKey+".KeyCredentialEntryType and its constants", p.Rel(x.kcT.Obj().Pos()), fmt.Sprintf("%d entry-type constants", len(x.family)))
	r.Floor("anchor", 1)
	x.w = prove.NewWorld(p)
	fam := map[string]string{}
	for v, n := range x.family {
		fam[n] = fmt.Sprint(v)
	}
	r.Extra["entry_type_constants"] = fam

	c.guard(c14R1, c14Pkg+".(*KeyCredential): entry tables analysis", "", x.entryTables)
	c.guard(c14R2, c14Pkg+".writeEntry: header analysis", "", x.entryHeader)
	c.guard(c14R3, c14PkgKey+".(*CustomKeyInformation): thresholds analysis", "", x.ckiThresholds)
	c.guard(c14R4, c14PkgCrypto+".(*RSAKeyMaterial): layout analysis", "", x.rsaBlob)
	c.guard(c14R5, c14Pkg+".(*KeyCredential).CheckIntegrity: analysis", "", x.integrity)
	c.guard(c14R6, c14Pkg+".(*DNWithBinary): analysis", "", x.dnWithBinary)

	// instance floors confirmed by reading today's tree
	r.Floor(c14R1, 21) // 9 constants × (written⇔read, same fields) + 3 ComputeKeyHash clauses
	r.Floor(c14R2, 12) // writeEntry, type byte enc/dec, version, ToBytes structure, 2 readers × 3 lanes, codec cross-check
	r.Floor(c14R3, 18) // 8 fields × (decoded at offset+width, encoded under the same condition) + order/widths + monotone
	r.Floor(c14R4, 18) // 10 encoder slots, magic, KeySize, 3 payloads, exponent loop, 2 lane round trips
	r.Floor(c14R5, 4)
	r.Floor(c14R6, 6)
}

func (x *c14) fn(rel, recv, name string) *ssa.Function {
	f := x.P.Func(rel, recv, name)
	if f == nil || f.Blocks == nil {
		return nil
	}
	return f
}

func c14ConstInt(v ssa.Value) (int64, bool) {
	for {
		if c, ok := v.(*ssa.Convert); ok {
			v = c.X
			continue
		}
		break
	}
	k, ok := v.(*ssa.Const)
	if !ok || k.Value == nil || k.Value.Kind() != constant.Int {
		return 0, false
	}
	return constant.Int64Val(k.Value)
}

func c14Deref(t types.Type) types.Type {
	if p, ok := t.Underlying().(*types.Pointer); ok {
		return p.Elem()
	}
	return t
}

// topField: addr is a FieldAddr/IndexAddr chain rooted at recv; it returns the
// index of the top-level field of recv it lies in.
func c14TopField(addr ssa.Value, recv ssa.Value) (int, bool) {
	for d := 0; d < 12; d++ {
		switch a := addr.(type) {
		case *ssa.FieldAddr:
			if a.X == recv {
				return a.Field, true
			}
			addr = a.X
		case *ssa.IndexAddr:
			addr = a.X
		case *ssa.UnOp:
			if a.Op != token.MUL {
				return 0, false
			}
			addr = a.X // load of a slice/pointer field, then indexed
		default:
			return 0, false
		}
	}
	return 0, false
}

// rootFields: the top-level fields of recv that value v is computed from
// (backward slice over operands; memory is followed only through local
// composite-literal / varargs allocations).
func c14RootFields(v ssa.Value, recv ssa.Value) map[int]bool {
	out := map[int]bool{}
	seen := map[ssa.Value]bool{}
	var walk func(v ssa.Value, d int)
	walk = func(v ssa.Value, d int) {
		if v == nil || seen[v] || d > 24 {
			return
		}
		seen[v] = true
		if f, ok := c14TopField(v, recv); ok {
			out[f] = true
			return
		}
		// a local buffer filled by encoding/binary.PutUintN(buf, value)
		switch v.(type) {
		case *ssa.Alloc, *ssa.Slice, *ssa.MakeSlice:
			if v.Referrers() != nil {
				for _, r := range *v.Referrers() {
					if call, ok := r.(*ssa.Call); ok {
						if f := call.Common().StaticCallee(); f != nil && f.Pkg != nil && f.Pkg.Pkg.Path() == "encoding/binary" &&
							strings.HasPrefix(f.Name(), "PutUint") && len(call.Common().Args) == 3 && call.Common().Args[1] == v {
							walk(call.Common().Args[2], d+1)
						}
					}
					if sl, ok := r.(*ssa.Slice); ok && sl.X == v {
						if _, isAl := v.(*ssa.Alloc); isAl {
							// writes made through another view of the same array
							for _, r2 := range *sl.Referrers() {
								if call, ok := r2.(*ssa.Call); ok {
									if f := call.Common().StaticCallee(); f != nil && f.Pkg != nil && f.Pkg.Pkg.Path() == "encoding/binary" &&
										strings.HasPrefix(f.Name(), "PutUint") && len(call.Common().Args) == 3 && call.Common().Args[1] == ssa.Value(sl) {
										walk(call.Common().Args[2], d+1)
									}
								}
							}
						}
					}
				}
			}
		}
		switch y := v.(type) {
		case *ssa.Alloc:
			// values stored into the local object
			for _, r := range *y.Referrers() {
				switch s := r.(type) {
				case *ssa.Store:
					if s.Addr == ssa.Value(y) {
						walk(s.Val, d+1)
					}
				case *ssa.IndexAddr, *ssa.FieldAddr:
					for _, rr := range *s.(ssa.Value).Referrers() {
						if st, ok := rr.(*ssa.Store); ok && st.Addr == s.(ssa.Value) {
							walk(st.Val, d+1)
						}
					}
				}
			}
		case ssa.Instruction:
			for _, op := range y.Operands(nil) {
				if *op != nil {
					walk(*op, d+1)
				}
			}
		}
	}
	walk(v, 0)
	return out
}

func (x *c14) fieldNames(set map[int]bool, skip map[string]bool) []string {
	var out []string
	for i := range set {
		n := x.kcSt.Field(i).Name()
		if !skip[n] {
			out = append(out, n)
		}
	}
	sort.Strings(out)
	return out
}

// entryConst resolves a key.KeyCredentialEntryType struct value to the constant
// stored in its Value field.
func (x *c14) entryConst(v ssa.Value) (int64, bool) {
	ld, ok := v.(*ssa.UnOp)
	if !ok || ld.Op != token.MUL {
		return 0, false
	}
	al, ok := ld.X.(*ssa.Alloc)
	if !ok {
		return 0, false
	}
	st, _ := c14Deref(al.Type()).Underlying().(*types.Struct)
	if st == nil {
		return 0, false
	}
	vi := -1
	for i := 0; i < st.NumFields(); i++ {
		if st.Field(i).Name() == "Value" {
			vi = i
		}
	}
	var val *int64
	n := 0
	for _, r := range *al.Referrers() {
		switch y := r.(type) {
		case *ssa.FieldAddr:
			for _, rr := range *y.Referrers() {
				if s, ok := rr.(*ssa.Store); ok && s.Addr == ssa.Value(y) {
					if y.Field == vi {
						n++
						if k, ok := c14ConstInt(s.Val); ok {
							val = &k
						}
					}
				}
			}
		case *ssa.Store:
			if y.Addr == ssa.Value(al) {
				n += 2 // whole-struct store: not a literal
			}
		}
	}
	if n != 1 || val == nil {
		return 0, false
	}
	return *val, true
}

// isEntryValueLoad: v is a load of the Value field of a key.KeyCredentialEntryType.
func (x *c14) isEntryValueLoad(v ssa.Value) (*ssa.FieldAddr, bool) {
	ld, ok := v.(*ssa.UnOp)
	if !ok || ld.Op != token.MUL {
		return nil, false
	}
	fa, ok := ld.X.(*ssa.FieldAddr)
	if !ok {
		return nil, false
	}
	nt, ok := c14Deref(fa.X.Type()).(*types.Named)
	if !ok || nt.Obj() != x.entryT.Obj() {
		return nil, false
	}
	st := nt.Underlying().(*types.Struct)
	if st.Field(fa.Field).Name() != "Value" {
		return nil, false
	}
	return fa, true
}

type c14Case struct {
	k     int64
	body  *ssa.BasicBlock
	cmp   *ssa.BinOp
	taken bool // body is the edge on which value == k
}

// entryCases lists the comparisons of an entry-type Value with a constant.
func (x *c14) entryCases(fn *ssa.Function) []c14Case {
	var out []c14Case
	for _, b := range fn.Blocks {
		for _, instr := range b.Instrs {
			bo, ok := instr.(*ssa.BinOp)
			if !ok || (bo.Op != token.EQL && bo.Op != token.NEQ) {
				continue
			}
			var k int64
			var okK bool
			if _, isV := x.isEntryValueLoad(bo.X); isV {
				k, okK = c14ConstInt(bo.Y)
			} else if _, isV := x.isEntryValueLoad(bo.Y); isV {
				k, okK = c14ConstInt(bo.X)
			} else {
				continue
			}
			if !okK {
				continue
			}
			for _, rr := range *bo.Referrers() {
				iff, ok := rr.(*ssa.If)
				if !ok {
					continue
				}
				body := iff.Block().Succs[0]
				if bo.Op == token.NEQ {
					body = iff.Block().Succs[1]
				}
				out = append(out, c14Case{k: k, body: body, cmp: bo, taken: len(body.Preds) == 1})
			}
		}
	}
	return out
}

// assignedFields: top-level fields of recv assigned (stored, or handed by
// address to a call) in the blocks dominated by body.
func c14AssignedFields(fn *ssa.Function, body *ssa.BasicBlock, recv ssa.Value) map[int]bool {
	out := map[int]bool{}
	for _, b := range fn.Blocks {
		if !body.Dominates(b) {
			continue
		}
		for _, instr := range b.Instrs {
			switch y := instr.(type) {
			case *ssa.Store:
				if f, ok := c14TopField(y.Addr, recv); ok {
					out[f] = true
				}
			case *ssa.Call:
				for _, a := range y.Common().Args {
					if _, isPtr := a.Type().Underlying().(*types.Pointer); isPtr {
						if f, ok := c14TopField(a, recv); ok {
							out[f] = true
						}
					}
				}
			}
		}
	}
	return out
}

// ---------------------------------------------------------------------------
// R1

func (x *c14) entryTables() {
	p, r := x.P, x.R
	toB, fromB, cKH := x.fn(c14Pkg, "KeyCredential", "ToBytes"), x.fn(c14Pkg, "KeyCredential", "FromBytes"), x.fn(c14Pkg, "KeyCredential", "ComputeKeyHash")
	// writeEntry is an unexported helper: the recogniser reads its call sites,
	// the lane interpretation of ToBytes does not need it
	wE := x.fn(c14Pkg, "", "writeEntry")
	if toB == nil || fromB == nil || cKH == nil {
		r.Undecided("anchor", c14Pkg+".(*KeyCredential).ToBytes/FromBytes/ComputeKeyHash", "", "anchor function does not resolve")
		return
	}
	wsem := x.toBytesSem(toB)
	// (writeEntry is an unexported helper, not an anchor: when it is gone and the
	// interpretation is not available either, the writer side is NOT DECIDED
	// clause by clause below)
	skip := map[string]bool{"Version": true, "RawBytes": true, "RawBytesSize": true}
	// writer
	written := map[int64][]string{} // K → source fields
	wcount := map[int64]int{}
	nCalls, unresolved := 0, 0
	for _, b := range toB.Blocks {
		for _, instr := range b.Instrs {
			call, ok := instr.(*ssa.Call)
			if !ok || wE == nil || call.Common().StaticCallee() != wE || len(call.Common().Args) != 3 {
				continue
			}
			nCalls++
			k, ok := x.entryConst(call.Common().Args[1])
			if !ok {
				unresolved++
				if !wsem.done {
					x.settle(c14R1, c14Pkg+".(*KeyCredential).ToBytes: entry type of a writeEntry call is a constant", p.Rel(call.Pos()), report.Undecided, "the type argument is not a KeyCredentialEntryType literal with a constant Value", c14Na("%s", wsem.why))
				}
				continue
			}
			wcount[k]++
			for _, f := range x.fieldNames(c14RootFields(call.Common().Args[2], toB.Params[0]), skip) {
				dup := false
				for _, g := range written[k] {
					dup = dup || g == f
				}
				if !dup {
					written[k] = append(written[k], f)
				}
			}
			if _, ok := written[k]; !ok {
				written[k] = nil
			}
		}
	}
	// reader
	read := map[int64][]string{}
	rcount := map[int64]int{}
	for _, cs := range x.entryCases(fromB) {
		if !cs.taken {
			continue
		}
		fs := x.fieldNames(c14AssignedFields(fromB, cs.body, fromB.Params[0]), skip)
		if len(fs) == 0 {
			continue // a comparison that assigns nothing does not handle the entry
		}
		rcount[cs.k]++
		for _, f := range fs {
			dup := false
			for _, g := range read[cs.k] {
				dup = dup || g == f
			}
			if !dup {
				read[cs.k] = append(read[cs.k], f)
			}
		}
	}
	// The reader table above comes from the shape recogniser (comparisons of
	// entryType.Value with a constant and the stores their branches dominate).
	// The lane interpretation tabulates the same fact from FromBytes's
	// behaviour — which KeyCredential fields are assigned because a K entry is
	// present — and is what is judged wherever it completes.
	r.Extra["entries_read_by_FromBytes_recogniser"] = c14Table(x.family, read)
	r.Extra["entries_read_from"] = "shape recogniser (entry-type comparisons and the stores they dominate)"
	// COMPLETENESS: a table that comes from a shape recogniser lists what the
	// recogniser FOUND; an entry type or a field missing from it is not an
	// observation ("no branch", "never written") unless the lane interpretation
	// produced the table.
	readFromSem, writtenFromSem := false, false
	readWhy, writtenWhy := "", ""
	if sem := x.fromBytesSem(fromB); sem.done {
		readFromSem = true
		n := 0
		for k := range x.family {
			if !sem.decided[k] {
				continue
			}
			n++
			var fs []string
			for _, f := range sem.handled[k] {
				if !skip[f] {
					fs = append(fs, f)
				}
			}
			delete(read, k)
			delete(rcount, k)
			if len(fs) > 0 {
				read[k], rcount[k] = fs, 1
			}
		}
		// an entry type outside the family that the recogniser saw a branch for stays as it is
		r.Extra["entries_read_from"] = fmt.Sprintf("lane interpretation of FromBytes on version | unknown(258) | K(L) | unknown(1), L ∈ {1,8,16,40}, for %d of %d entry-type constants", n, len(x.family))
		r.Extra["fields_assigned_whatever_the_entries"] = sem.always
	} else {
		readWhy = sem.why
		r.Note("C14 R1: lane interpretation of FromBytes not available (%s); the shape recogniser's reader table is judged", sem.why)
	}
	// writer table: likewise from the blob ToBytes produces (records read by
	// the MS-ADTS layout, value bytes traced back to the fields)
	r.Extra["entries_written_by_ToBytes_recogniser"] = c14Table(x.family, written)
	r.Extra["entries_written_from"] = "shape recogniser (writeEntry calls with a constant type argument, backward slice of the data argument)"
	if wsem.done && wsem.structure.st == c14Bad && wE != nil {
		// the blob does not read back as records (reported under R2): the
		// records found in it say nothing about which entries are written
		r.Note("C14 R1: the blob ToBytes produces does not parse as records (%s); the shape recogniser's writer table is judged", wsem.structure.msg)
	} else if wsem.done {
		writtenFromSem = true
		written, wcount = map[int64][]string{}, map[int64]int{}
		for k, fs := range wsem.written {
			var keep []string
			for _, f := range fs {
				if !skip[f] {
					keep = append(keep, f)
				}
			}
			written[k], wcount[k] = keep, wsem.wcount[k]
		}
		unresolved = 1 // the "no writeEntry call" report below belongs to the recogniser
		r.Extra["entries_written_from"] = "lane interpretation of ToBytes (value encoders summarised as fresh symbolic bytes; the blob read as version | length(2,LE) type(1) value records)"
	} else {
		writtenWhy = wsem.why
		r.Note("C14 R1: lane interpretation of ToBytes not available (%s); the shape recogniser's writer table is judged", wsem.why)
	}
	if wsem.done && !writtenFromSem {
		writtenWhy = "the blob ToBytes produces does not parse as records"
	}
	r.Extra["entries_written_by_ToBytes"] = c14Table(x.family, written)
	r.Extra["entries_read_by_FromBytes"] = c14Table(x.family, read)
	r.Extra["writeEntry_calls"] = nCalls

	keys := map[int64]bool{}
	for k := range x.family {
		keys[k] = true
	}
	for k := range wcount {
		keys[k] = true
	}
	for k := range rcount {
		keys[k] = true
	}
	var ks []int64
	for k := range keys {
		ks = append(ks, k)
	}
	sort.Slice(ks, func(i, j int) bool { return ks[i] < ks[j] })
	for _, k := range ks {
		name, inFam := x.family[k]
		if !inFam {
			name = fmt.Sprintf("entry type %#x (no %s* constant)", k, c14EntryPrefix)
		}
		cons := fmt.Sprintf("%s: %s is written by ToBytes ⇔ handled by FromBytes", c14Pkg, name)
		w, rd := wcount[k] > 0, rcount[k] > 0
		switch {
		case !inFam:
			r.Fail(c14R1, cons, p.Rel(toB.Pos()), "an entry type that is not one of the declared constants is written or read")
		case w && !rd && !readFromSem:
			x.settle(c14R1, cons, p.Rel(fromB.Pos()), report.Undecided, fmt.Sprintf("ToBytes writes a %s entry; the shape recogniser finds no entry-type comparison in FromBytes whose branch assigns a field", name), c14Na("%s", readWhy))
		case !w && rd && !writtenFromSem:
			x.settle(c14R1, cons, p.Rel(toB.Pos()), report.Undecided, fmt.Sprintf("FromBytes decodes %s; the shape recogniser finds no writeEntry call with that constant type in ToBytes", name), c14Na("%s", writtenWhy))
		case w && !rd:
			r.Fail(c14R1, cons, p.Rel(fromB.Pos()), fmt.Sprintf("ToBytes writes a %s entry (from %v) but FromBytes has no branch for it that assigns a field: the value is lost when the blob is parsed back", name, written[k]))
		case !w && rd:
			r.Fail(c14R1, cons, p.Rel(toB.Pos()), fmt.Sprintf("FromBytes decodes %s into %v but ToBytes never writes such an entry: the value is lost on re-serialisation", name, read[k]))
		case !w && !rd:
			r.OK(c14R1, cons, p.Rel(toB.Pos()), "neither written nor read")
		default:
			r.OK(c14R1, cons, p.Rel(toB.Pos()), fmt.Sprintf("%d writeEntry call(s), %d branch(es)", wcount[k], rcount[k]))
		}
		if w && rd && inFam {
			cf := fmt.Sprintf("%s: %s carries the same KeyCredential fields in both directions", c14Pkg, name)
			a, b := append([]string(nil), written[k]...), append([]string(nil), read[k]...)
			sort.Strings(a)
			sort.Strings(b)
			if strings.Join(a, ",") == strings.Join(b, ",") {
				r.OK(c14R1, cf, p.Rel(fromB.Pos()), "fields "+strings.Join(a, ","))
			} else if !readFromSem || !writtenFromSem {
				x.settle(c14R1, cf, p.Rel(fromB.Pos()), report.Undecided, fmt.Sprintf("the shape recogniser's field sets differ (written from %v, read into %v) but it follows neither helpers nor closures", a, b), c14Na("%s", strings.TrimSpace(readWhy+" "+writtenWhy)))
			} else {
				r.Fail(c14R1, cf, p.Rel(fromB.Pos()), fmt.Sprintf("ToBytes fills the %s entry from field(s) %v, FromBytes stores it into field(s) %v: a credential does not parse back to the same fields", name, a, b))
			}
		}
	}
	if unresolved == 0 && nCalls == 0 {
		x.settle(c14R1, c14Pkg+".(*KeyCredential).ToBytes: entries are written through writeEntry", p.Rel(toB.Pos()), report.Undecided, "no writeEntry call found", c14Na("%s", wsem.why))
	}

	mark := len(r.Obls)
	x.keyHashWalk(cKH)
	x.arbitrate(mark, func(o *report.Obligation) bool {
		return o.Rule == c14R1 && strings.Contains(o.Construct, ".ComputeKeyHash: ")
	}, x.computeKeyHashSem(cKH))
}

func c14Table(fam map[int64]string, m map[int64][]string) map[string][]string {
	out := map[string][]string{}
	for k, fs := range m {
		n := fam[k]
		if n == "" {
			n = fmt.Sprintf("%#x", k)
		}
		out[n] = fs
	}
	return out
}

// ---------------------------------------------------------------------------
// entry walk recogniser (FromBytes, ComputeKeyHash)

type c14Walk struct {
	phi      *ssa.Phi  // remainder
	init     ssa.Value // value on loop entry
	lenCall  *ssa.Call // binary.*.Uint16(remainder[a:b])
	lenOff   int64
	lenW     int64
	lenOrder string
	typeOff  int64
	typeRecv ssa.Value // the *KeyCredentialEntryType the byte is stored into
	dataOff  int64
	next     ssa.Value // loop-carried remainder after the entry
	data     ssa.Value // the value slice (may be nil when the walker only skips)
	why      string
}

func c14SliceBounds(s *ssa.Slice) (lo int64, loK bool, hi int64, hiK bool) {
	lo, loK = 0, true
	if s.Low != nil {
		lo, loK = c14ConstInt(s.Low)
	}
	if s.High != nil {
		hi, hiK = c14ConstInt(s.High)
	}
	return
}

func c14DerivesFrom(v, src ssa.Value) bool {
	for d := 0; d < 6; d++ {
		if v == src {
			return true
		}
		switch y := v.(type) {
		case *ssa.Convert:
			v = y.X
		case *ssa.ChangeType:
			v = y.X
		default:
			return false
		}
	}
	return false
}

func (x *c14) entryWalk(fn *ssa.Function) *c14Walk {
	for _, b := range fn.Blocks {
		for _, instr := range b.Instrs {
			phi, ok := instr.(*ssa.Phi)
			if !ok {
				break
			}
			if !prove.IsByteSeq(phi.Type()) {
				continue
			}
			wk := &c14Walk{phi: phi}
			// entry vs back edges
			var backs []ssa.Value
			for i, pr := range b.Preds {
				if b.Dominates(pr) {
					if phi.Edges[i] != ssa.Value(phi) {
						backs = append(backs, phi.Edges[i])
					}
				} else {
					wk.init = phi.Edges[i]
				}
			}
			if len(backs) == 0 || wk.init == nil {
				continue
			}
			same := true
			for _, e := range backs {
				same = same && e == backs[0]
			}
			if !same {
				continue
			}
			// length: Uint16(phi[a:b]); type: FromBytes(recv, phi[k])
			for _, rr := range *phi.Referrers() {
				switch y := rr.(type) {
				case *ssa.Slice:
					lo, loK, hi, hiK := c14SliceBounds(y)
					for _, r2 := range *y.Referrers() {
						if call, ok := r2.(*ssa.Call); ok {
							if f := call.Common().StaticCallee(); f != nil && f.Pkg != nil && f.Pkg.Pkg.Path() == "encoding/binary" && strings.HasPrefix(f.Name(), "Uint") && loK && hiK {
								wk.lenCall, wk.lenOff, wk.lenW = call, lo, hi-lo
								wk.lenOrder = "LE"
								if strings.Contains(f.Signature.Recv().Type().String(), "bigEndian") {
									wk.lenOrder = "BE"
								}
								if f.Name() != "Uint16" {
									wk.lenW = -1
								}
							}
						}
					}
				case *ssa.IndexAddr:
					k, isK := c14ConstInt(y.Index)
					for _, r2 := range *y.Referrers() {
						ld, ok := r2.(*ssa.UnOp)
						if !ok || ld.Op != token.MUL || !isK {
							continue
						}
						for _, r3 := range *ld.Referrers() {
							if call, ok := r3.(*ssa.Call); ok && len(call.Common().Args) == 2 && call.Common().Args[1] == ssa.Value(ld) {
								if nt, ok := c14Deref(call.Common().Args[0].Type()).(*types.Named); ok && nt.Obj() == x.entryT.Obj() {
									wk.typeOff, wk.typeRecv = k, call.Common().Args[0]
								}
							}
						}
					}
				}
			}
			if wk.lenCall == nil || wk.typeRecv == nil {
				continue
			}
			// next = (phi[d:])[length:]
			nx, ok := backs[0].(*ssa.Slice)
			if !ok || nx.High != nil || nx.Low == nil || !c14DerivesFrom(nx.Low, wk.lenCall) {
				wk.why = "the loop-carried remainder is not rest[length:]"
				return wk
			}
			inner, ok := nx.X.(*ssa.Slice)
			if !ok || inner.X != ssa.Value(phi) || inner.High != nil {
				wk.why = "the remainder after the header is not remainder[k:]"
				return wk
			}
			d, dK := c14ConstInt(inner.Low)
			if !dK {
				wk.why = "the header is skipped by a non-constant amount"
				return wk
			}
			wk.dataOff, wk.next = d, nx
			// data = (phi[d:])[:length]
			for _, rr := range *inner.Referrers() {
				if s, ok := rr.(*ssa.Slice); ok && s.Low == nil && s.High != nil && c14DerivesFrom(s.High, wk.lenCall) {
					wk.data = s
				}
			}
			return wk
		}
	}
	return nil
}

func (x *c14) keyHashWalk(fn *ssa.Function) {
	p, r := x.P, x.R
	name := c14Pkg + ".(*KeyCredential).ComputeKeyHash"
	pos := p.Rel(fn.Pos())
	cStart := name + ": the walk starts after the 4-byte version"
	cCond := name + ": data is appended exactly under entryType == " + c14EntryPrefix + "KeyHash"
	cWhat := name + ": what is hashed is the remainder that follows the KeyHash entry"
	wk := x.entryWalk(fn)
	if wk == nil || wk.why != "" {
		why := "the entry loop (remainder φ, Uint16 length, type byte, remainder[3:][length:]) is not recognised"
		if wk != nil {
			why = wk.why
		}
		r.Undecided(c14R1, cStart, pos, why)
		r.Undecided(c14R1, cCond, pos, why)
		r.Undecided(c14R1, cWhat, pos, why)
		return
	}
	// start
	okStart := false
	if s, ok := wk.init.(*ssa.Slice); ok && s.High == nil {
		if lo, isK := c14ConstInt(s.Low); isK {
			if ld, ok := s.X.(*ssa.UnOp); ok && ld.Op == token.MUL {
				if f, ok := c14TopField(ld.X, fn.Params[0]); ok && x.kcSt.Field(f).Name() == "RawBytes" {
					vw := x.versionWidth()
					if vw > 0 && lo == int64(vw) {
						okStart = true
						r.OK(c14R1, cStart, pos, fmt.Sprintf("remainder := kc.RawBytes[%d:], KeyCredentialVersion.ToBytes emits %d bytes", lo, vw))
					} else {
						r.Fail(c14R1, cStart, pos, fmt.Sprintf("the walk starts at RawBytes[%d:], the version prefix written by ToBytes is %d bytes: entries are mis-aligned", lo, vw))
						okStart = true
					}
				}
			}
		}
	}
	if !okStart {
		r.Undecided(c14R1, cStart, pos, "the initial remainder is not kc.RawBytes[const:]")
	}
	// hashed data
	var hashArg ssa.Value
	for _, b := range fn.Blocks {
		for _, instr := range b.Instrs {
			if call, ok := instr.(*ssa.Call); ok {
				if f := call.Common().StaticCallee(); f != nil && f == x.P.Func(c14PkgUtils, "", "ComputeHash") {
					hashArg = call.Common().Args[0]
					// the result must be what is returned
					for _, rr := range *call.Referrers() {
						if _, isRet := rr.(*ssa.Return); isRet {
							continue
						}
					}
				}
			}
		}
	}
	dphi, ok := hashArg.(*ssa.Phi)
	if hashArg == nil || !ok {
		r.Undecided(c14R1, cCond, pos, "utils.ComputeHash is not applied to a loop-carried buffer")
		r.Undecided(c14R1, cWhat, pos, "utils.ComputeHash is not applied to a loop-carried buffer")
		return
	}
	var appends []*ssa.Call
	okShape := true
	for _, e := range dphi.Edges {
		if e == ssa.Value(dphi) {
			continue
		}
		if call, ok := e.(*ssa.Call); ok {
			if b, isB := call.Common().Value.(*ssa.Builtin); isB && b.Name() == "append" && call.Common().Args[0] == ssa.Value(dphi) {
				appends = append(appends, call)
				continue
			}
		}
		// the initial empty buffer
		if s, ok := e.(*ssa.Slice); ok {
			if al, ok := s.X.(*ssa.Alloc); ok {
				if arr, ok := c14Deref(al.Type()).Underlying().(*types.Array); ok && arr.Len() == 0 {
					continue
				}
			}
		}
		if k, ok := e.(*ssa.Const); ok && k.Value == nil {
			continue
		}
		okShape = false
	}
	if !okShape || len(appends) == 0 {
		r.Undecided(c14R1, cCond, pos, "the hashed buffer is not built as data = append(data, …) from an empty slice")
		r.Undecided(c14R1, cWhat, pos, "the hashed buffer is not built as data = append(data, …) from an empty slice")
		return
	}
	// condition of each append
	var conds []string
	good := true
	for _, ap := range appends {
		found := false
		for _, cs := range x.entryCases(fn) {
			fa, _ := x.isEntryValueLoad(cs.cmp.X)
			if fa == nil {
				fa, _ = x.isEntryValueLoad(cs.cmp.Y)
			}
			if cs.taken && cs.body.Dominates(ap.Block()) && fa != nil && fa.X == wk.typeRecv {
				found = true
				conds = append(conds, fmt.Sprintf("== %s", x.family[cs.k]))
				if cs.k != x.hashVal {
					good = false
				}
			}
		}
		if !found {
			good = false
			conds = append(conds, "unconditional or under an unrecognised condition")
		}
	}
	if good && len(appends) == 1 {
		r.OK(c14R1, cCond, p.Rel(appends[0].Pos()), "one append, dominated by the entryType.Value == "+x.family[x.hashVal]+" edge; the type byte is the one read at entry offset 2")
	} else {
		r.Fail(c14R1, cCond, p.Rel(appends[0].Pos()), fmt.Sprintf("%d append(s) to the hashed data under [%s]; MS-ADTS: the hash covers all entries following the KeyHash entry, nothing else", len(appends), strings.Join(conds, "; ")))
	}
	what := appends[0].Common().Args[1]
	if what == wk.next {
		r.OK(c14R1, cWhat, p.Rel(appends[0].Pos()), fmt.Sprintf("append(data, remainder[%d:][length:]...) — the bytes after the entry's header and value, i.e. up to and including the KeyHash entry is skipped", wk.dataOff))
	} else {
		desc := "another value"
		if what == ssa.Value(wk.phi) {
			desc = "the remainder INCLUDING the KeyHash entry itself"
		} else if s, ok := what.(*ssa.Slice); ok && s.X == ssa.Value(wk.phi) {
			desc = "the remainder after the header only (the KeyHash value is hashed too)"
		}
		r.Fail(c14R1, cWhat, p.Rel(appends[0].Pos()), "the appended bytes are "+desc+", required: the loop-carried remainder after the entry (remainder[3:][length:])")
	}
}

// versionWidth: number of bytes KeyCredentialVersion.ToBytes emits.
func (x *c14) versionWidth() int {
	fn := x.fn(c14PkgKey, "KeyCredentialVersion", "ToBytes")
	if fn == nil {
		return 0
	}
	enc := encStreams(x.w, fn)
	n := 0
	for _, a := range enc["out"] {
		if a.Width == 0 || a.Kind == "unknown" {
			return 0
		}
		n += a.Width
	}
	return n
}

// ---------------------------------------------------------------------------
// R2

func (x *c14) entryHeader() {
	p, r := x.P, x.R
	wE := x.fn(c14Pkg, "", "writeEntry")
	toB, fromB, cKH := x.fn(c14Pkg, "KeyCredential", "ToBytes"), x.fn(c14Pkg, "KeyCredential", "FromBytes"), x.fn(c14Pkg, "KeyCredential", "ComputeKeyHash")
	etTo, etFrom := x.fn(c14PkgKey, "KeyCredentialEntryType", "ToBytes"), x.fn(c14PkgKey, "KeyCredentialEntryType", "FromBytes")
	vTo, vFrom := x.fn(c14PkgKey, "KeyCredentialVersion", "ToBytes"), x.fn(c14PkgKey, "KeyCredentialVersion", "FromBytes")
	if toB == nil || fromB == nil || cKH == nil || etTo == nil || etFrom == nil || vTo == nil || vFrom == nil {
		r.Undecided("anchor", c14Pkg+".(*KeyCredential).ToBytes/FromBytes/ComputeKeyHash, KeyCredentialEntryType/KeyCredentialVersion codecs", "", "anchor function does not resolve")
		return
	}
	// ---- writer: writeEntry ----
	// The recogniser reads the helper named writeEntry with internal/codec; the
	// lane interpretation of ToBytes decides the same clause from the blob (it
	// must read back as records whose 2-byte little-endian length agrees with
	// the value that follows), whatever the helper is called and however it
	// builds the header.
	wsem := x.toBytesSem(toB)
	semW := wsem.structure
	if !wsem.done {
		semW = c14Na("%s", wsem.why)
	}
	nameW := c14Pkg + ".writeEntry"
	cW := nameW + ": emits uint16 LE len(data) | type byte | data"
	markW := len(r.Obls)
	posW := p.Rel(toB.Pos())
	var bufP, typP, dataP *ssa.Parameter
	var wParams []*ssa.Parameter
	if wE != nil {
		posW = p.Rel(wE.Pos())
		wParams = wE.Params
	}
	for _, q := range wParams {
		switch {
		case strings.HasSuffix(q.Type().String(), "bytes.Buffer"):
			bufP = q
		case prove.IsByteSeq(q.Type()):
			dataP = q
		default:
			if nt, ok := q.Type().(*types.Named); ok && nt.Obj() == x.entryT.Obj() {
				typP = q
			}
		}
	}
	if bufP == nil || typP == nil || dataP == nil {
		r.Undecided(c14R2, cW, posW, "there is no writeEntry(buffer *bytes.Buffer, entryType KeyCredentialEntryType, data []byte)")
	} else {
		e := codec.NewExt(x.w, wE)
		// the by-value struct parameter is spilled into a local
		for _, rr := range *typP.Referrers() {
			if st, ok := rr.(*ssa.Store); ok && st.Val == ssa.Value(typP) {
				e.Roots[st.Addr] = "entryType"
			}
		}
		atoms, ok, why := e.BufferWrites(bufP)
		r.Extra["writeEntry_layout"] = codec.Render(atoms)
		switch {
		case !ok:
			r.Undecided(c14R2, cW, posW, "the writes to the buffer cannot be listed: "+why)
		case len(atoms) != 3:
			r.Fail(c14R2, cW, posW, "layout is ["+codec.Render(atoms)+"], required [len(data):2LE type:1 data:bytes]")
		default:
			var bad []string
			a0, a1, a2 := atoms[0], atoms[1], atoms[2]
			if a0.Kind != "fixed" || a0.Width != 2 || a0.Order != "LE" || a0.Expr != "len(param "+dataP.Name()+")" {
				bad = append(bad, "first atom is "+a0.String()+", required the little-endian uint16 length of the data parameter")
			}
			typeOK := false
			if a1.Kind == "nested" && a1.Callee == etTo && a1.Field == "entryType" {
				typeOK = true
			} else if a1.Kind == "fixed" && a1.Width == 1 && a1.Field == "entryType.Value" {
				typeOK = true
			}
			if !typeOK {
				bad = append(bad, "second atom is "+a1.String()+", required the entry type byte of the entryType parameter")
			}
			if a2.Kind != "bytes" || a2.Expr != "param "+dataP.Name() {
				bad = append(bad, "third atom is "+a2.String()+", required the data parameter")
			}
			if len(bad) == 0 {
				r.OK(c14R2, cW, posW, codec.Render(atoms))
			} else {
				r.Fail(c14R2, cW, posW, strings.Join(bad, "; ")+" (MS-ADTS KEYCREDENTIALLINK_ENTRY: Length 2 LE, Identifier 1, Value)")
			}
		}
	}
	x.arbitrate(markW, func(o *report.Obligation) bool { return o.Rule == c14R2 && o.Construct == cW }, semW)
	// type byte codec (the recogniser reads internal/codec's layout of today's
	// spelling; the lane interpretation of the four tiny methods arbitrates)
	semHdr := x.semHeaderCodecs(etTo, etFrom, vTo, vFrom)
	markHdr := len(r.Obls)
	cTE := c14PkgKey + ".(*KeyCredentialEntryType).ToBytes: one byte == Value"
	enc := encStreams(x.w, etTo)["out"]
	if len(enc) == 1 && enc[0].Width == 1 && enc[0].Field == "Value" {
		r.OK(c14R2, cTE, p.Rel(etTo.Pos()), codec.Render(enc))
	} else if len(enc) == 1 && enc[0].Kind == "unknown" {
		r.Undecided(c14R2, cTE, p.Rel(etTo.Pos()), "layout not recognised: "+codec.Render(enc))
	} else {
		r.Fail(c14R2, cTE, p.Rel(etTo.Pos()), "layout is ["+codec.Render(enc)+"], required [Value:1]")
	}
	cTD := c14PkgKey + ".(*KeyCredentialEntryType).FromBytes: Value == the byte passed"
	tdStores, tdGood := 0, 0
	for _, b := range etFrom.Blocks {
		for _, instr := range b.Instrs {
			if st, ok := instr.(*ssa.Store); ok {
				if fa, ok := st.Addr.(*ssa.FieldAddr); ok && fa.X == ssa.Value(etFrom.Params[0]) &&
					c14Deref(fa.X.Type()).Underlying().(*types.Struct).Field(fa.Field).Name() == "Value" {
					tdStores++
					if len(etFrom.Params) == 2 && c14DerivesFrom(st.Val, etFrom.Params[1]) {
						tdGood++
					}
				}
			}
		}
	}
	switch {
	case tdStores == 0:
		r.Undecided(c14R2, cTD, p.Rel(etFrom.Pos()), "no direct store into Value found in FromBytes")
	case tdGood != tdStores:
		r.Undecided(c14R2, cTD, p.Rel(etFrom.Pos()), "the value stored into Value is not a plain conversion of the byte argument")
	default:
		r.OK(c14R2, cTD, p.Rel(etFrom.Pos()), "k.Value = value")
	}
	// version codec
	cVE := c14PkgKey + ".(*KeyCredentialVersion): ToBytes and FromBytes use the same 4 little-endian bytes of Value"
	vEnc := encStreams(x.w, vTo)["out"]
	vDec, _ := decStreams(x.w, vFrom)
	var vd []codec.Atom
	for _, k := range sortedKeys(vDec) {
		for _, a := range vDec[k] {
			if a.Field == "Value" {
				vd = append(vd, a)
			}
		}
	}
	switch {
	case len(vEnc) == 1 && vEnc[0].Kind == "fixed" && vEnc[0].Field == "Value" && vEnc[0].Width == 4 && vEnc[0].Order == "LE" &&
		len(vd) == 1 && vd[0].Kind == "fixed" && vd[0].Width == 4 && vd[0].Order == "LE" && vd[0].Off == "0":
		r.OK(c14R2, cVE, p.Rel(vTo.Pos()), "enc "+codec.Render(vEnc)+"; dec "+codec.Render(vd))
	case (len(vEnc) == 1 && vEnc[0].Kind == "unknown") || len(vd) == 0:
		r.Undecided(c14R2, cVE, p.Rel(vTo.Pos()), "layouts not recognised: enc ["+codec.Render(vEnc)+"] dec ["+codec.Render(vd)+"]")
	default:
		r.Fail(c14R2, cVE, p.Rel(vTo.Pos()), "enc ["+codec.Render(vEnc)+"] vs dec ["+codec.Render(vd)+"]: required Value as 4 little-endian bytes at offset 0 in both")
	}
	x.arbitrate(markHdr, func(o *report.Obligation) bool { return o.Rule == c14R2 && o.Construct == cTE }, semHdr["typeEnc"])
	x.arbitrate(markHdr, func(o *report.Obligation) bool { return o.Rule == c14R2 && o.Construct == cTD }, semHdr["typeDec"])
	x.arbitrate(markHdr, func(o *report.Obligation) bool { return o.Rule == c14R2 && o.Construct == cVE }, semHdr["version"])
	// ---- ToBytes: version then records only ----
	cTB := c14Pkg + ".(*KeyCredential).ToBytes: the blob is Version.ToBytes() followed by writeEntry records only"
	markTB := len(r.Obls)
	{
		var buf ssa.Value
		for _, b := range toB.Blocks {
			for _, instr := range b.Instrs {
				if call, ok := instr.(*ssa.Call); ok && prove.StaticName(call.Common()) == "bytes.NewBuffer" {
					buf = call
				}
			}
		}
		if buf == nil {
			r.Undecided(c14R2, cTB, p.Rel(toB.Pos()), "no bytes.NewBuffer in ToBytes")
		} else {
			var first ssa.Instruction
			firstOK, others, nRec, retOK := false, []string{}, 0, false
			for _, rr := range *buf.Referrers() {
				call, ok := rr.(*ssa.Call)
				if !ok {
					if _, isDbg := rr.(*ssa.DebugRef); !isDbg {
						others = append(others, fmt.Sprintf("%T", rr))
					}
					continue
				}
				switch {
				case wE != nil && call.Common().StaticCallee() == wE:
					nRec++
				case prove.StaticName(call.Common()) == "(*bytes.Buffer).Write":
					if first != nil {
						others = append(others, "a second raw Write")
						continue
					}
					first = call
					if inner, ok := call.Common().Args[1].(*ssa.Call); ok && inner.Common().StaticCallee() == vTo {
						if f, ok := c14TopField(inner.Common().Args[0], toB.Params[0]); ok && x.kcSt.Field(f).Name() == "Version" {
							firstOK = true
						}
					}
				case prove.StaticName(call.Common()) == "(*bytes.Buffer).Bytes":
					for _, r2 := range *call.Referrers() {
						if _, isRet := r2.(*ssa.Return); isRet {
							retOK = true
						}
					}
				default:
					others = append(others, prove.StaticName(call.Common()))
				}
			}
			dominatesAll := first != nil
			if first != nil {
				for _, rr := range *buf.Referrers() {
					if call, ok := rr.(*ssa.Call); ok && call != first && wE != nil && call.Common().StaticCallee() == wE {
						if !(first.Block() == call.Block() || first.Block().Dominates(call.Block())) {
							dominatesAll = false
						}
					}
				}
			}
			switch {
			case len(others) > 0:
				r.Undecided(c14R2, cTB, p.Rel(toB.Pos()), "the buffer is also used by: "+strings.Join(others, ", "))
			case !firstOK || !dominatesAll || !retOK:
				r.Undecided(c14R2, cTB, p.Rel(toB.Pos()), "not of the form buffer.Write(kc.Version.ToBytes()) dominating every record, buffer.Bytes() returned")
			default:
				r.OK(c14R2, cTB, p.Rel(toB.Pos()), fmt.Sprintf("Write(kc.Version.ToBytes()) dominates %d writeEntry calls; buffer.Bytes() is returned", nRec))
			}
		}
	}
	x.arbitrate(markTB, func(o *report.Obligation) bool { return o.Rule == c14R2 && o.Construct == cTB }, semW)
	// ---- readers ----
	for _, rd := range []struct {
		fn       *ssa.Function
		needData bool
	}{{fromB, true}, {cKH, false}} {
		name := p.FuncName(rd.fn)
		pos := p.Rel(rd.fn.Pos())
		cL := name + ": entry length == little-endian uint16 at entry offset 0"
		cT := name + ": entry type == byte at entry offset 2"
		cD := name + ": entry value == length bytes at entry offset 3, next entry at 3+length"
		mark := len(r.Obls)
		sem := x.computeKeyHashSem(cKH)
		if rd.fn == fromB {
			rs := x.fromBytesSem(fromB)
			sem = rs.lanes
			if !rs.done {
				sem = c14Na("%s", rs.why)
			}
		}
		settleLanes := func() {
			x.arbitrate(mark, func(o *report.Obligation) bool {
				return o.Rule == c14R2 && (o.Construct == cL || o.Construct == cT || o.Construct == cD)
			}, sem)
		}
		wk := x.entryWalk(rd.fn)
		if wk == nil || wk.why != "" {
			why := "the entry loop is not recognised"
			if wk != nil {
				why = wk.why
			}
			r.Undecided(c14R2, cL, pos, why)
			r.Undecided(c14R2, cT, pos, why)
			r.Undecided(c14R2, cD, pos, why)
			settleLanes()
			continue
		}
		if wk.lenOff == 0 && wk.lenW == 2 && wk.lenOrder == "LE" {
			r.OK(c14R2, cL, p.Rel(wk.lenCall.Pos()), "binary.LittleEndian.Uint16(remainder[0:2])")
		} else {
			r.Fail(c14R2, cL, p.Rel(wk.lenCall.Pos()), fmt.Sprintf("the length is read from remainder[%d:%d] %s with %s, writeEntry emits it as 2 bytes LE at offset 0", wk.lenOff, wk.lenOff+wk.lenW, wk.lenOrder, wk.lenCall.Common().StaticCallee().Name()))
		}
		if wk.typeOff == 2 {
			r.OK(c14R2, cT, pos, "entryType.FromBytes(remainder[2])")
		} else {
			r.Fail(c14R2, cT, pos, fmt.Sprintf("the type byte is read from entry offset %d, writeEntry emits it at offset 2", wk.typeOff))
		}
		switch {
		case wk.dataOff != 3:
			r.Fail(c14R2, cD, pos, fmt.Sprintf("the value is taken from entry offset %d, writeEntry emits it at offset 3 (2-byte length + 1-byte type)", wk.dataOff))
		case rd.needData && wk.data == nil:
			r.Undecided(c14R2, cD, pos, "no value slice of the form remainder[3:][:length] found")
		default:
			r.OK(c14R2, cD, pos, "value = remainder[3:][:length] (where used), next = remainder[3:][length:]")
		}
		settleLanes()
	}
	// cross-check FromBytes with the codec engine's own reading
	cX := c14Pkg + ".(*KeyCredential).FromBytes: codec layout of the KeyHash entry agrees (offset 3, width = LE16 length)"
	_, all := decStreams(x.w, fromB)
	var kh *codec.Atom
	var walkAtoms func(as []codec.Atom)
	walkAtoms = func(as []codec.Atom) {
		for i := range as {
			if as[i].Field == "KeyHash" && as[i].Kind == "bytes" {
				kh = &as[i]
			}
			walkAtoms(as[i].Body)
		}
	}
	walkAtoms(all)
	// This is a cross-check by a second engine. When the extractor cannot place
	// the bytes (the value reaches the field through a helper's results, a φ it
	// cannot resolve: "via …", "?" in the offset) it has no opinion; the lane
	// interpretation of FromBytes then stands in as the second engine.
	semX := x.fromBytesSem(fromB).lanes
	if !x.fromBytesSem(fromB).done {
		semX = c14Na("%s", x.fromBytesSem(fromB).why)
	}
	switch {
	case kh == nil:
		x.settle(c14R2, cX, p.Rel(fromB.Pos()), report.Undecided, "internal/codec does not report a bytes atom for KeyHash", semX)
	case kh.Off == "3" && strings.Contains(kh.WidthStr, "Uint16") && strings.Contains(kh.WidthStr, "LittleEndian"):
		r.OK(c14R2, cX, p.Rel(fromB.Pos()), kh.String())
	case strings.Contains(kh.String(), "[via ") || strings.Contains(kh.Off, "?") || strings.Contains(kh.Off, "φ"):
		x.settle(c14R2, cX, p.Rel(fromB.Pos()), report.Undecided, "internal/codec cannot place the KeyHash value: "+kh.String(), semX)
	default:
		x.settle(c14R2, cX, p.Rel(fromB.Pos()), report.Finding, "codec reads the KeyHash value as "+kh.String()+", required offset 3 with the little-endian uint16 length as width", semX)
	}
}
