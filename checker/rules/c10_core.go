package rules

import (
	"go/token"
	"go/types"

	"golang.org/x/tools/go/ssa"

	"manticheck/internal/wire"
)

// C10: the first-level ENCODER CORE.
//
// FirstLevelEncode is the exported entry point of the name encoder, but the
// code that lays out the 32 half-ASCII bytes may live in a helper that both
// FirstLevelEncode and NBTNSPacket.Marshal use — typically an append-style
// method
//
//	func (n *NetBIOSName) appendFirstLevel(dst []byte) ([]byte, error)
//
// with FirstLevelEncode reduced to `string(n.appendFirstLevel(nil))`. The
// rules are about the bytes, not about which function holds the loop, so when
// FirstLevelEncode DELEGATES — it calls exactly one in-module function that
// yields a byte sequence, on its own receiver, with an empty buffer (if the
// helper takes one), and every success return is a conversion of that result
// — the helper is the encoder core:
//
//   - the `firstlevel` clauses are decided on the core's code;
//   - the core is a codec unit for internal/wire (Marshal's layout keeps one
//     nested atom per name) and, in the comparison with Unmarshal, stands for
//     FirstLevelEncode (same bytes by the delegation just established).
//
// Delegation that does not have this form leaves everything as before (the
// helper is analysed at its call sites, or reported NOT DECIDED).
func c10FirstLevelCore(c *Ctx, fle *ssa.Function) *ssa.Function {
	if fle == nil || fle.Blocks == nil || len(fle.Params) == 0 {
		return nil
	}
	recv := fle.Params[0]
	var core *ssa.Call
	for _, b := range fle.Blocks {
		for _, in := range b.Instrs {
			call, ok := in.(*ssa.Call)
			if !ok {
				continue
			}
			g := call.Call.StaticCallee()
			if g == nil || g.Blocks == nil || call.Call.IsInvoke() || !c.P.InModule(g) {
				continue
			}
			res := g.Signature.Results()
			if res.Len() == 0 || !c10IsByteSeq(res.At(0).Type()) {
				continue // a pure check (Validate() error) or something unrelated
			}
			if core != nil {
				return nil
			}
			core = call
		}
	}
	if core == nil {
		return nil
	}
	g := core.Call.StaticCallee()
	// on the receiver itself, other byte-sequence arguments empty
	if len(core.Call.Args) == 0 || core.Call.Args[0] != ssa.Value(recv) {
		return nil
	}
	for _, a := range core.Call.Args[1:] {
		if !c10IsByteSeq(a.Type()) {
			return nil
		}
		switch e := a.(type) {
		case *ssa.Const:
			if e.Value != nil {
				return nil
			}
		case *ssa.MakeSlice:
			if k, isK := wConstOf(e.Len); !isK || k != 0 {
				return nil
			}
		case *ssa.Slice:
			// make([]byte, 0, K) with constant K: a zero-length slice of a fresh array
			if n, okN := c10FixedBuf(e); !okN || n != 0 {
				return nil
			}
		default:
			return nil
		}
	}
	// every success return yields the helper's bytes
	nret := 0
	for _, b := range fle.Blocks {
		ret, ok := b.Instrs[len(b.Instrs)-1].(*ssa.Return)
		if !ok || len(ret.Results) == 0 {
			continue
		}
		if n := len(ret.Results); n > 1 {
			if k, isK := ret.Results[n-1].(*ssa.Const); !isK || k.Value != nil {
				continue // error return
			}
		}
		v := wire.StripConv(ret.Results[0])
		if ex, isEx := v.(*ssa.Extract); isEx && ex.Index == 0 {
			v = ex.Tuple
		}
		if v != ssa.Value(core) {
			return nil
		}
		nret++
	}
	if nret == 0 {
		return nil
	}
	return g
}

func c10IsByteSeq(t types.Type) bool {
	switch u := t.Underlying().(type) {
	case *types.Basic:
		return u.Kind() == types.String
	case *types.Slice:
		b, ok := u.Elem().Underlying().(*types.Basic)
		return ok && b.Kind() == types.Uint8
	}
	return false
}

// c10AliasCallee rewrites nested atoms of `from` into nested atoms of `to`.
func c10AliasCallee(as []wire.Atom, from, to *ssa.Function) []wire.Atom {
	out := make([]wire.Atom, len(as))
	for i, a := range as {
		if a.Kind == "nested" && a.Callee == from {
			a.Callee = to
		}
		if len(a.Body) > 0 {
			a.Body = c10AliasCallee(a.Body, from, to)
		}
		out[i] = a
	}
	return out
}

// c10RecycledSource: the encoder reads its 16 name bytes from a buffer it did
// not create — a value taken from a sync.Pool — and the only writes to that
// buffer in the function are copies of the name (no element store, hence no
// padding): the bytes after the name are those left by the buffer's previous
// user. Returns the position and the finding, or "" when this is not the case.
func c10RecycledSource(fn *ssa.Function, nameLen int64) (token.Pos, string) {
	for _, b := range fn.Blocks {
		for _, in := range b.Instrs {
			ta, ok := in.(*ssa.TypeAssert)
			if !ok {
				continue
			}
			get, ok := ta.X.(*ssa.Call)
			if !ok {
				continue
			}
			g := get.Call.StaticCallee()
			if g == nil || g.Name() != "Get" || g.Pkg == nil || g.Pkg.Pkg.Path() != "sync" {
				continue
			}
			var buf ssa.Value = ta
			if ta.CommaOk {
				continue
			}
			// a pointer to a 16-byte array, or a byte slice
			switch u := buf.Type().Underlying().(type) {
			case *types.Pointer:
				arr, isArr := u.Elem().Underlying().(*types.Array)
				if !isArr || arr.Len() != nameLen {
					continue
				}
			case *types.Slice:
			default:
				continue
			}
			read, stored, copied := false, false, false
			seen := map[ssa.Value]bool{}
			var visit func(v ssa.Value)
			visit = func(v ssa.Value) {
				if seen[v] || v.Referrers() == nil {
					return
				}
				seen[v] = true
				for _, r := range *v.Referrers() {
					switch y := r.(type) {
					case *ssa.Slice:
						visit(y)
					case *ssa.IndexAddr:
						for _, rr := range *y.Referrers() {
							switch z := rr.(type) {
							case *ssa.Store:
								if z.Addr == ssa.Value(y) {
									stored = true
								}
							case *ssa.UnOp:
								read = true
							}
						}
					case *ssa.Call:
						if bi, isB := y.Call.Value.(*ssa.Builtin); isB && bi.Name() == "copy" && len(y.Call.Args) == 2 && y.Call.Args[0] == v {
							copied = true
						} else if !isB {
							if cal := y.Call.StaticCallee(); cal == nil || cal.Name() != "Put" {
								stored = true // handed to other code: it may be filled there
							}
						}
					}
				}
			}
			visit(buf)
			if read && copied && !stored {
				return ta.Pos(), "the 16 name bytes are read from a buffer taken from a sync.Pool, and the only writes to it here are copy(buffer, Name): the bytes after the name are whatever the buffer's previous user left there, not the pad byte (a short name encoded after a longer one carries the tail of the longer one)"
			}
		}
	}
	return token.NoPos, ""
}
