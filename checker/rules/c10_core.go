package rules

import (
	"go/types"

	"golang.org/x/tools/go/ssa"

	"manticheck/internal/wire"
)

// C10: the first-level ENCODER CORE.
//
// FirstLevelEncode is the exported entry point of the name encoder, but the
// code that lays out the 32 half-ASCII bytes may live in a helper that both
// FirstLevelEncode and NBTNSPacket.Marshal use — typically an append-style
// method
//
//	func (n *NetBIOSName) appendFirstLevel(dst []byte) ([]byte, error)
//
// with FirstLevelEncode reduced to `string(n.appendFirstLevel(nil))`. The
// rules are about the bytes, not about which function holds the loop, so when
// FirstLevelEncode DELEGATES — it calls exactly one in-module function that
// yields a byte sequence, on its own receiver, with an empty buffer (if the
// helper takes one), and every success return is a conversion of that result
// — the helper is the encoder core:
//
//   - the `firstlevel` clauses are decided on the core's code;
//   - the core is a codec unit for internal/wire (Marshal's layout keeps one
//     nested atom per name) and, in the comparison with Unmarshal, stands for
//     FirstLevelEncode (same bytes by the delegation just established).
//
// Delegation that does not have this form leaves everything as before (the
// helper is analysed at its call sites, or reported NOT DECIDED).
func c10FirstLevelCore(c *Ctx, fle *ssa.Function) *ssa.Function {
	if fle == nil || fle.Blocks == nil || len(fle.Params) == 0 {
		return nil
	}
	recv := fle.Params[0]
	var core *ssa.Call
	for _, b := range fle.Blocks {
		for _, in := range b.Instrs {
			call, ok := in.(*ssa.Call)
			if !ok {
				continue
			}
			g := call.Call.StaticCallee()
			if g == nil || g.Blocks == nil || call.Call.IsInvoke() || !c.P.InModule(g) {
				continue
			}
			res := g.Signature.Results()
			if res.Len() == 0 || !c10IsByteSeq(res.At(0).Type()) {
				continue // a pure check (Validate() error) or something unrelated
			}
			if core != nil {
				return nil
			}
			core = call
		}
	}
	if core == nil {
		return nil
	}
	g := core.Call.StaticCallee()
	// on the receiver itself, other byte-sequence arguments empty
	if len(core.Call.Args) == 0 || core.Call.Args[0] != ssa.Value(recv) {
		return nil
	}
	for _, a := range core.Call.Args[1:] {
		if !c10IsByteSeq(a.Type()) {
			return nil
		}
		switch e := a.(type) {
		case *ssa.Const:
			if e.Value != nil {
				return nil
			}
		case *ssa.MakeSlice:
			if k, isK := wConstOf(e.Len); !isK || k != 0 {
				return nil
			}
		case *ssa.Slice:
			// make([]byte, 0, K) with constant K: a zero-length slice of a fresh array
			if n, okN := c10FixedBuf(e); !okN || n != 0 {
				return nil
			}
		default:
			return nil
		}
	}
	// every success return yields the helper's bytes
	nret := 0
	for _, b := range fle.Blocks {
		ret, ok := b.Instrs[len(b.Instrs)-1].(*ssa.Return)
		if !ok || len(ret.Results) == 0 {
			continue
		}
		if n := len(ret.Results); n > 1 {
			if k, isK := ret.Results[n-1].(*ssa.Const); !isK || k.Value != nil {
				continue // error return
			}
		}
		v := wire.StripConv(ret.Results[0])
		if ex, isEx := v.(*ssa.Extract); isEx && ex.Index == 0 {
			v = ex.Tuple
		}
		if v != ssa.Value(core) {
			return nil
		}
		nret++
	}
	if nret == 0 {
		return nil
	}
	return g
}

func c10IsByteSeq(t types.Type) bool {
	switch u := t.Underlying().(type) {
	case *types.Basic:
		return u.Kind() == types.String
	case *types.Slice:
		b, ok := u.Elem().Underlying().(*types.Basic)
		return ok && b.Kind() == types.Uint8
	}
	return false
}

// c10AliasCallee rewrites nested atoms of `from` into nested atoms of `to`.
func c10AliasCallee(as []wire.Atom, from, to *ssa.Function) []wire.Atom {
	out := make([]wire.Atom, len(as))
	for i, a := range as {
		if a.Kind == "nested" && a.Callee == from {
			a.Callee = to
		}
		if len(a.Body) > 0 {
			a.Body = c10AliasCallee(a.Body, from, to)
		}
		out[i] = a
	}
	return out
}
